#!/bin/sh
# Build the framework from files on disk only (offline): Coq development (full
# .vo build), extraction + OCaml driver, Go harness.
set -e
cd "$(dirname "$0")"
export GOFLAGS=-mod=mod GOPROXY=off GOSUMDB=off GOTOOLCHAIN=local
python3 - <<'PY'
import sys, os
sys.path.insert(0, os.path.join(os.getcwd(), "lib"))
import common
bad = common.forbidden_scan()
if bad:
    print("forbidden constructs:", *bad, sep="\n"); sys.exit(1)
driver, ok, log = common.build_model()
if not ok:
    print(log[-4000:]); sys.exit(1)
common.build_harness()
print("setup ok:", driver)
PY
