(* Driver for the extracted models: reads "<entry> <sexp>" lines on stdin,
   prints one result S-expression per line.  Only glue: text <-> Model.sexp. *)
let coq_ascii (c : char) : Model.ascii =
  let n = Char.code c in
  let b i = (n lsr i) land 1 = 1 in
  Model.Ascii (b 0, b 1, b 2, b 3, b 4, b 5, b 6, b 7)

let coq_string (s : Stdlib.String.t) : Model.string =
  let r = ref Model.EmptyString in
  for i = Stdlib.String.length s - 1 downto 0 do
    r := Model.String (coq_ascii s.[i], !r)
  done;
  !r

let ocaml_char (a : Model.ascii) : char =
  match a with
  | Model.Ascii (b0, b1, b2, b3, b4, b5, b6, b7) ->
    let v b i = if b then 1 lsl i else 0 in
    Char.chr (v b0 0 + v b1 1 + v b2 2 + v b3 3 + v b4 4 + v b5 5 + v b6 6 + v b7 7)

let ocaml_string (s : Model.string) : Stdlib.String.t =
  let b = Buffer.create 16 in
  let rec go = function
    | Model.EmptyString -> ()
    | Model.String (a, r) -> Buffer.add_char b (ocaml_char a); go r in
  go s; Buffer.contents b

exception Parse_error of Stdlib.String.t

(* lists in parentheses, bare atoms, double-quoted atoms with backslash escapes (backslash, quote, xHH) *)
let parse (s : Stdlib.String.t) (pos : int ref) : Model.sexp =
  let n = Stdlib.String.length s in
  let rec skip () = if !pos < n && (s.[!pos] = ' ' || s.[!pos] = '\t') then (incr pos; skip ()) in
  let hex c = match c with
    | '0'..'9' -> Char.code c - 48 | 'a'..'f' -> Char.code c - 87 | 'A'..'F' -> Char.code c - 55
    | _ -> raise (Parse_error "hex") in
  let rec expr () : Model.sexp =
    skip ();
    if !pos >= n then raise (Parse_error "eof");
    match s.[!pos] with
    | '(' ->
      incr pos;
      let items = ref [] in
      let rec loop () =
        skip ();
        if !pos >= n then raise (Parse_error "eof in list");
        if s.[!pos] = ')' then incr pos
        else (items := expr () :: !items; loop ()) in
      loop ();
      Model.SL (List.rev !items)
    | ')' -> raise (Parse_error "unexpected )")
    | '"' ->
      incr pos;
      let b = Buffer.create 16 in
      let rec loop () =
        if !pos >= n then raise (Parse_error "eof in string");
        match s.[!pos] with
        | '"' -> incr pos
        | '\\' ->
          if !pos + 1 >= n then raise (Parse_error "escape");
          (match s.[!pos + 1] with
           | 'x' -> Buffer.add_char b (Char.chr (hex s.[!pos + 2] * 16 + hex s.[!pos + 3])); pos := !pos + 4
           | c -> Buffer.add_char b c; pos := !pos + 2);
          loop ()
        | c -> Buffer.add_char b c; incr pos; loop () in
      loop ();
      Model.SA (coq_string (Buffer.contents b))
    | _ ->
      let st = !pos in
      while !pos < n && not (List.mem s.[!pos] [' '; '\t'; '('; ')'; '"']) do incr pos done;
      Model.SA (coq_string (Stdlib.String.sub s st (!pos - st))) in
  expr ()

let rec print (b : Buffer.t) (x : Model.sexp) : unit =
  match x with
  | Model.SA a ->
    let s = ocaml_string a in
    let plain = s <> "" && Stdlib.String.for_all (fun c ->
      (c >= 'a' && c <= 'z') || (c >= 'A' && c <= 'Z') || (c >= '0' && c <= '9') || c = '-' || c = '_' || c = '.' || c = ':') s in
    if plain then Buffer.add_string b s
    else begin
      Buffer.add_char b '"';
      Stdlib.String.iter (fun c ->
        if c = '"' || c = '\\' then (Buffer.add_char b '\\'; Buffer.add_char b c)
        else if Char.code c < 32 || Char.code c > 126 then Buffer.add_string b (Printf.sprintf "\\x%02x" (Char.code c))
        else Buffer.add_char b c) s;
      Buffer.add_char b '"'
    end
  | Model.SL l ->
    Buffer.add_char b '(';
    List.iteri (fun i y -> if i > 0 then Buffer.add_char b ' '; print b y) l;
    Buffer.add_char b ')'

let entries : (Stdlib.String.t * (Model.sexp -> Model.sexp)) list = Entries.table

let () =
  try
    while true do
      let line = input_line stdin in
      let pos = ref 0 in
      let out =
        try
          let sp = Stdlib.String.index line ' ' in
          let name = Stdlib.String.sub line 0 sp in
          pos := sp + 1;
          let x = parse line pos in
          (match List.assoc_opt name entries with
           | Some f -> f x
           | None -> Model.SL [Model.SA (coq_string "unknown-entry")])
        with
        | Parse_error m -> Model.SL [Model.SA (coq_string "parse-error"); Model.SA (coq_string m)]
        | Not_found -> Model.SL [Model.SA (coq_string "parse-error"); Model.SA (coq_string "no entry name")]
        | Stack_overflow -> Model.SL [Model.SA (coq_string "stack-overflow")] in
      let b = Buffer.create 256 in
      print b out;
      print_string (Buffer.contents b);
      print_newline ()
    done
  with End_of_file -> ()
