(* name -> extracted entry point; one line per model *)
let table : (string * (Model.sexp -> Model.sexp)) list = [
  "c12", Model.c12_check;
  "c17", Model.c17_check;
  "interp", Model.interp_check;
  "c19", Model.c19_check;
  "c19b", Model.c19b_check;
  "c18", Model.c18_check;
  "c13", Model.c13_check;
  "c03", Model.c03_check;
  "c03p", Model.c03p_check;
  "c15", Model.c15_check;
  "c16", Model.c16_check;
  "c16f", Model.c16f_check;
  "c11", Model.c11_check;
  "c11a", Model.c11a_check;
  "c10t", Model.c10t_check;
]
