#!/usr/bin/env python3
"""Print the prompt for a seed sub-agent: property text + worktree only, nothing from /verif."""
import json, sys
pid, wt = sys.argv[1], sys.argv[2]
hint = sys.argv[3] if len(sys.argv) > 3 else ""
p = [json.loads(l) for l in open('/verif/properties.jsonl') if json.loads(l)['id'] == pid][0]
print(f"""You are helping to evaluate a verification effort for the Go project mattn/anko (an embeddable scripting language). Your job is to play the part of a developer who introduces a realistic, subtle regression.

You have your own scratch git worktree of the project at {wt} (do all your work there; never touch /repo or /verif, and keep every temporary file inside {wt}). Go environment for every shell call: export GOFLAGS=-mod=mod GOPROXY=off GOSUMDB=off GOTOOLCHAIN=local (there is no network).

The semantic property under study:

TITLE: {p['title']}
STATEMENT: {p['statement']}
QUANTIFIER: {p['quantifier']['text']}
WHY TESTS CANNOT SETTLE IT: {p['why_tests_cant']}
ANCHORS: {json.dumps(p['anchors']['mechanism'])}

Task: make ONE small source change to the project (non-test .go files; if you change parser/parser.go.y you must regenerate parser/parser.go with `goyacc -o parser.go parser.go.y` if goyacc is available, otherwise edit other files) that
 1. BREAKS the property above for some inputs,
 2. still compiles (`go build ./...`),
 3. still passes the whole existing test suite (`go test -vet=off -count=1 ./...` in {wt}; note TestRunInteractive in the root package may be flaky/failing already - ignore that one),
 4. needs something specific to manifest (a particular input shape, value, boundary, schedule or history) - it should look like a plausible slip or a well-meant refactoring/optimisation, not sabotage, and it must not be a change that breaks nearly every program.
{hint}
Then write a demonstration: a Go test file (e.g. {wt}/vm/zz_demo_test.go or in the fitting package, name TestDemo{pid}) that FAILS with your change and PASSES on the original code, showing the property violated through the public API. Confirm all four points yourself by actually running the commands (build, full suite with the demo file moved aside, demo failing with the change, demo passing after `git apply -R patch.diff` and failing again after `git apply patch.diff`; do NOT use `git stash`: the stash is shared with other worktrees of the same repository and other people are working in them).

Leave in {wt}: patch.diff (output of `git diff` for the non-test source change only, to be applied with `git apply` on the original tree), the demo test file, and NOTES.md (what the change is, why it breaks the property, what is needed to trigger it). Leave the worktree with the change applied. Report briefly what you did and the outcome of the four confirmations.""")
