#!/usr/bin/env python3
"""tools/run_seeded_par.py [-j N] [seed names...]: like run_seeded.py, but each worker has its own scratch
worktree of /repo's HEAD (under /tmp, removed at the end) and the checks are pointed at it with VERIF_REPO,
so several seeded changes are checked side by side and /repo itself is never touched."""
import json, os, subprocess, sys, queue, threading
V = os.path.dirname(os.path.dirname(os.path.abspath(__file__)))
args = sys.argv[1:]
J = 4
if args[:1] == ["-j"]:
    J = int(args[1]); args = args[2:]
names = args or sorted(os.listdir(os.path.join(V, "seeded")))
q = queue.Queue()
for n in names:
    if os.path.exists(os.path.join(V, "seeded", n, "patch.diff")):
        q.put(n)
rows, lock = [], threading.Lock()
not_applied = []


def worker(k):
    wt = "/tmp/seedwt-%d-%d" % (os.getpid(), k)
    subprocess.run(["git", "-C", "/repo", "worktree", "add", "-q", "--detach", wt, "HEAD"], check=True)
    try:
        while True:
            try:
                n = q.get_nowait()
            except queue.Empty:
                return
            d = os.path.join(V, "seeded", n)
            pid = json.load(open(os.path.join(d, "meta.json")))["property"]
            ap = subprocess.run(["git", "-C", wt, "apply", os.path.join(d, "patch.diff")], capture_output=True, text=True)
            if ap.returncode != 0:
                ap = subprocess.run(["git", "-C", wt, "apply", "--3way", os.path.join(d, "patch.diff")], capture_output=True, text=True)
                if ap.returncode != 0:
                    subprocess.run(["git", "-C", wt, "reset", "-q", "--hard", "HEAD"], check=True)
                    with lock:
                        print("%-12s %s does not apply to the current /repo HEAD: %s" % (n, pid, ap.stderr.strip()[:160]), flush=True)
                        not_applied.append(n)
                    continue
                subprocess.run(["git", "-C", wt, "reset", "-q"], check=True)
            env = dict(os.environ, VERIF_EVIDENCE_DIR=os.path.join(V, ".build", "seeded-evidence"), VERIF_REPO=wt)
            p = subprocess.run([os.path.join(V, "check"), pid, "quick"], cwd=V, capture_output=True, text=True, env=env)
            subprocess.run(["git", "-C", wt, "checkout", "--", "."], check=True)
            subprocess.run(["git", "-C", wt, "clean", "-fdq"], check=True)
            viol = [l for l in p.stdout.splitlines() if l.startswith("VIOLATION")]
            with lock:
                rows.append((n, pid, p.returncode, len(viol)))
                print("%-12s %s exit=%d violations=%d %s" % (n, pid, p.returncode, len(viol), (viol[0] if viol else (p.stdout[-150:] + p.stderr[-150:]).replace("\n", " ")).split("replay=")[-1]), flush=True)
    finally:
        subprocess.run(["git", "-C", "/repo", "worktree", "remove", "--force", wt])
        import hashlib
        key = "-" + hashlib.sha256(wt.encode()).hexdigest()[:8]
        for f in os.listdir(os.path.join(V, ".build")):
            if key in f:
                os.remove(os.path.join(V, ".build", f))

ts = [threading.Thread(target=worker, args=(k,)) for k in range(J)]
[t.start() for t in ts]
[t.join() for t in ts]
missed = [r for r in rows if r[2] != 1 or r[3] == 0]
print("checked %d seeded changes, %d not detected: %s; %d did not apply: %s" % (len(rows), len(missed), [r[0] for r in missed], len(not_applied), not_applied))
