#!/usr/bin/env python3
"""Apply every seeded change (or those given) to /repo, run the quick check of its property,
undo, and report which are detected.  Never leaves /repo modified."""
import json, os, subprocess, sys
V = os.path.dirname(os.path.dirname(os.path.abspath(__file__)))
names = sys.argv[1:] or sorted(os.listdir(os.path.join(V, "seeded")))
rows = []
for n in names:
    d = os.path.join(V, "seeded", n)
    if not os.path.exists(os.path.join(d, "patch.diff")):
        continue
    pid = json.load(open(os.path.join(d, "meta.json")))["property"]
    assert subprocess.run(["git", "-C", "/repo", "status", "--porcelain"], capture_output=True, text=True).stdout.strip() == "", "/repo dirty"
    ap = subprocess.run(["git", "-C", "/repo", "apply", os.path.join(d, "patch.diff")], capture_output=True, text=True)
    if ap.returncode != 0:
        # the patch was cut against an earlier /repo HEAD (before later fix: commits): merge it
        ap = subprocess.run(["git", "-C", "/repo", "apply", "--3way", os.path.join(d, "patch.diff")], capture_output=True, text=True)
        if ap.returncode != 0:
            subprocess.run(["git", "-C", "/repo", "reset", "-q", "--hard", "HEAD"], check=True)
            print("%-12s %s does not apply to the current /repo HEAD: %s" % (n, pid, ap.stderr.strip()[:200]))
            continue
        subprocess.run(["git", "-C", "/repo", "reset", "-q"], check=True)   # keep the change in the working tree only
    try:
        env = dict(os.environ, VERIF_EVIDENCE_DIR=os.path.join(V, ".build", "seeded-evidence"))
        p = subprocess.run([os.path.join(V, "check"), pid, "quick"], cwd=V, capture_output=True, text=True, env=env)
    finally:
        subprocess.run(["git", "-C", "/repo", "checkout", "--", "."], check=True)
        subprocess.run(["git", "-C", "/repo", "clean", "-fdq"], check=True)
    viol = [l for l in p.stdout.splitlines() if l.startswith("VIOLATION")]
    rows.append((n, pid, p.returncode, len(viol), viol[0] if viol else p.stdout[-200:] + p.stderr[-300:]))
    print("%-12s %s exit=%d violations=%d %s" % (n, pid, p.returncode, len(viol), (viol[0] if viol else "").split("replay=")[-1]))
