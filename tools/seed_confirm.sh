#!/bin/bash
# tools/seed_confirm.sh <worktree>: re-confirm a seeded change myself: builds, suite passes without the demo,
# demo fails with the change, passes without it.
wt=$1
export GOFLAGS=-mod=mod GOPROXY=off GOSUMDB=off GOTOOLCHAIN=local
cd $wt || exit 2
demo=$(git status --porcelain | grep zz_demo | awk '{print $2}' | head -1)
[ -z "$demo" ] && { echo "no demo file"; exit 2; }
pkg=./$(dirname $demo)
name=$(grep -o "func TestDemo[A-Za-z0-9_]*" $demo | head -1 | sed 's/func //')
go build ./... || { echo "BUILD FAILS"; exit 1; }
mv $demo /tmp/$$.demo
go test -vet=off -count=1 ./... 2>&1 | grep -v "^ok\|no test files" | head -5
mv /tmp/$$.demo $demo
echo "--- demo with change (must FAIL):"
go test -vet=off -count=1 -run "$name" $pkg 2>&1 | tail -3
git apply -R patch.diff || { echo "patch.diff does not match the worktree"; exit 1; }
echo "--- demo without change (must PASS):"
go test -vet=off -count=1 -run "$name" $pkg 2>&1 | tail -2
git apply patch.diff
git diff --stat | tail -1
