#!/usr/bin/env python3
"""tools/seed_keep.py <property> <name> <worktree> <needs> -- keep a confirmed seeded change
as seeded/<property>-<name>/ (patch.diff, demonstration, meta.json) and remove the worktree."""
import json, os, shutil, subprocess, sys
pid, name, wt, needs = sys.argv[1:5]
dst = os.path.join(os.path.dirname(os.path.dirname(os.path.abspath(__file__))), "seeded", "%s-%s" % (pid, name))
os.makedirs(dst, exist_ok=True)
shutil.copy(os.path.join(wt, "patch.diff"), dst)
demos = []
for root, _, files in os.walk(wt):
    for f in files:
        if f.startswith("zz_demo") or f == "NOTES.md":
            shutil.copy(os.path.join(root, f), dst)
            demos.append(os.path.relpath(os.path.join(root, f), wt))
meta = {"property": pid, "name": name, "needs_to_manifest": needs, "demonstration": demos,
        "confirmed": "go build ./... ok; go test -vet=off -count=1 ./... passes with the change (demo moved aside); "
                     "demo test fails with the change and passes on the pinned tree",
        "apply": "git -C /repo apply seeded/%s-%s/patch.diff ; undo: git -C /repo checkout -- ." % (pid, name)}
json.dump(meta, open(os.path.join(dst, "meta.json"), "w"), indent=1)
subprocess.run(["git", "-C", "/repo", "worktree", "remove", "--force", wt])
print("kept", dst)
