(* core/toX.go (toInt, toFloat, the typed-slice forms), core/core.go (keys, typeOf, kindOf) and the len
   expression of vm/vmExpr.go, on a small universe of script values: nil, booleans, int64, float64,
   strings, []interface{} and map[interface{}]interface{}.  strconv.ParseFloat is an oracle (a finite
   table filled by the harness from the real function; a missing entry aborts the case and never
   decides a result); strconv.ParseInt(s, 10, 64) is Interp.ToX.parse_int_dec and int64(float64) is
   Base.F64.to_int. *)
From Coq Require Import String Ascii List ZArith Bool Floats.SpecFloat.
From Anko Require Import Base.Sexp Base.Int64 Base.F64 Interp.ToX.
Import ListNotations.
Open Scope Z_scope.

Inductive cval :=
  | CNil | CBool (b : bool) | CInt (z : Z) | CFloat (f : f64) | CStr (s : string)
  | CList (l : list cval) | CMap (kvs : list (cval * cval)).

Section Builtins.
Variable pf : list (string * option f64).   (* strconv.ParseFloat(s, 64): None = error *)

Definition parse_float (s : string) : tri f64 :=
  match slookup pf s with
  | Some (Some f) => TOk f
  | Some None => TErr
  | None => TMiss ("parsefloat " ++ s)
  end.

(* toInt: reflect conversion to int for the numeric kinds, then ParseInt, then ParseFloat truncated,
   then true -> 1; everything else 0 *)
Definition to_int (v : cval) : tri Z :=
  match v with
  | CNil => TOk 0
  | CInt z => TOk z
  | CFloat f => TOk (F64.to_int f)
  | CStr s =>
      match parse_int_dec s with
      | Some z => TOk z
      | None => match parse_float s with
                | TOk f => TOk (F64.to_int f)
                | TErr => TOk 0
                | TMiss w => TMiss w
                end
      end
  | CBool b => TOk (if b then 1 else 0)
  | CList _ | CMap _ => TOk 0
  end.

Definition to_float (v : cval) : tri f64 :=
  match v with
  | CNil => TOk fzero
  | CInt z => TOk (of_int z)
  | CFloat f => TOk f
  | CStr s => match parse_float s with
              | TOk f => TOk f
              | TErr => TOk fzero
              | TMiss w => TMiss w
              end
  | CBool b => TOk (if b then of_int 1 else fzero)
  | CList _ | CMap _ => TOk fzero
  end.

End Builtins.

(* toSlice: element by element, reflect.Convert when the element's type converts to the target, the
   zero value otherwise (strings and booleans do not convert to a number, numbers not to bool) *)
Definition elem_int (v : cval) : Z :=
  match v with CInt z => z | CFloat f => F64.to_int f | _ => 0 end.
Definition elem_float (v : cval) : f64 :=
  match v with CInt z => of_int z | CFloat f => f | _ => fzero end.
Definition elem_bool (v : cval) : bool :=
  match v with CBool b => b | _ => false end.

Definition to_int_slice (l : list cval) : list Z := map elem_int l.
Definition to_float_slice (l : list cval) : list f64 := map elem_float l.
Definition to_bool_slice (l : list cval) : list bool := map elem_bool l.

(* len: Go length of strings (bytes), slices and maps; anything else is an error *)
Definition len (v : cval) : option Z :=
  match v with
  | CStr s => Some (Z.of_nat (String.length s))
  | CList l => Some (Z.of_nat (List.length l))
  | CMap kvs => Some (Z.of_nat (List.length kvs))
  | _ => None
  end.

(* keys: the keys of a map, in no particular order; anything else is an error *)
Definition keys (v : cval) : option (list cval) :=
  match v with CMap kvs => Some (map fst kvs) | _ => None end.

Definition type_of (v : cval) : string :=
  match v with
  | CNil => "nil" | CBool _ => "bool" | CInt _ => "int64" | CFloat _ => "float64" | CStr _ => "string"
  | CList _ => "[]interface {}" | CMap _ => "map[interface {}]interface {}"
  end.

Definition kind_of (v : cval) : string :=
  match v with
  | CNil => "nil" | CBool _ => "bool" | CInt _ => "int64" | CFloat _ => "float64" | CStr _ => "string"
  | CList _ => "slice" | CMap _ => "map"
  end.

