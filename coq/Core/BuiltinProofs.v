(* What the conversion builtins return, for every value of the universe of Core/Builtins.v. *)
From Coq Require Import String Ascii List ZArith Bool Lia Floats.SpecFloat.
From Anko Require Import Base.Sexp Base.Int64 Base.F64 Base.DecimalProofs Interp.ToX Interp.NumeralProofs Core.Builtins.
Import ListNotations.
Open Scope Z_scope.

Section P.
Variable pf : list (string * option f64).

(* toInt of the decimal spelling of an int64 is that int64 - whatever ParseFloat would say *)
Lemma to_int_numeral z : in_int64b z = true -> to_int pf (CStr (Z_to_string z)) = TOk z.
Proof. intro H. unfold to_int. rewrite parse_int_dec_roundtrip by exact H. reflexivity. Qed.

Lemma to_int_numbers z f : to_int pf (CInt z) = TOk z /\ to_int pf (CFloat f) = TOk (F64.to_int f).
Proof. split; reflexivity. Qed.

(* a string ParseInt rejects goes through ParseFloat and Go's float64 -> int64 conversion *)
Lemma to_int_float_string s f : parse_int_dec s = None -> slookup pf s = Some (Some f) ->
  to_int pf (CStr s) = TOk (F64.to_int f).
Proof. intros H1 H2. unfold to_int, parse_float. rewrite H1, H2. reflexivity. Qed.

(* 0 for nil, containers, false and strings neither parser accepts *)
Lemma to_int_zero : to_int pf CNil = TOk 0 /\ to_int pf (CBool false) = TOk 0
  /\ (forall l, to_int pf (CList l) = TOk 0) /\ (forall m, to_int pf (CMap m) = TOk 0)
  /\ (forall s, parse_int_dec s = None -> slookup pf s = Some None -> to_int pf (CStr s) = TOk 0).
Proof.
  repeat split; try reflexivity. intros s H1 H2. unfold to_int, parse_float. rewrite H1, H2. reflexivity.
Qed.

Lemma to_float_numbers z f : to_float pf (CInt z) = TOk (of_int z) /\ to_float pf (CFloat f) = TOk f.
Proof. split; reflexivity. Qed.

Lemma to_float_string s : to_float pf (CStr s) =
  match slookup pf s with Some (Some f) => TOk f | Some None => TOk fzero | None => TMiss ("parsefloat " ++ s) end.
Proof. unfold to_float, parse_float. destruct (slookup pf s) as [[f|]|]; reflexivity. Qed.

Lemma to_float_zero : to_float pf CNil = TOk fzero /\ to_float pf (CBool false) = TOk fzero
  /\ (forall l, to_float pf (CList l) = TOk fzero) /\ (forall m, to_float pf (CMap m) = TOk fzero).
Proof. repeat split; reflexivity. Qed.

(* the oracle never decides a result: a conversion that does not consult a missing entry is total *)
Lemma to_int_total v : (forall s, v = CStr s -> parse_int_dec s = None -> slookup pf s <> None) ->
  exists z, to_int pf v = TOk z.
Proof.
  intro H. destruct v as [|b|z|f|s|l|m]; try (eexists; reflexivity).
  unfold to_int, parse_float. destruct (parse_int_dec s) eqn:E; [eexists; reflexivity|].
  specialize (H s eq_refl E). destruct (slookup pf s) as [[f|]|]; [eexists; reflexivity | eexists; reflexivity | congruence].
Qed.

End P.

(* typed slices: the same length, element i is element i converted, the zero value where Go's
   reflect.ConvertibleTo says no *)
Lemma int_slice_elementwise l : List.length (to_int_slice l) = List.length l
  /\ forall i, nth i (to_int_slice l) 0 = elem_int (nth i l CNil).
Proof. split; [apply map_length | intro i; apply (map_nth elem_int l CNil i)]. Qed.

Lemma float_slice_elementwise l : List.length (to_float_slice l) = List.length l
  /\ forall i, nth i (to_float_slice l) fzero = elem_float (nth i l CNil).
Proof. split; [apply map_length | intro i; apply (map_nth elem_float l CNil i)]. Qed.

Lemma bool_slice_elementwise l : List.length (to_bool_slice l) = List.length l
  /\ forall i, nth i (to_bool_slice l) false = elem_bool (nth i l CNil).
Proof. split; [apply map_length | intro i; apply (map_nth elem_bool l CNil i)]. Qed.

Lemma unconvertible_elements_are_zero :
  (forall v, (forall z, v <> CInt z) -> (forall f, v <> CFloat f) -> elem_int v = 0 /\ elem_float v = fzero)
  /\ (forall v, (forall b, v <> CBool b) -> elem_bool v = false).
Proof.
  split.
  - intros v Hi Hf. destruct v; try (split; reflexivity); [exfalso; eapply Hi | exfalso; eapply Hf]; reflexivity.
  - intros v Hb. destruct v; try reflexivity. exfalso; eapply Hb; reflexivity.
Qed.

(* keys: a Go map holds each key once; keys returns each of them once, nothing else, as many as len says *)
Lemma keys_exactly_once kvs : NoDup (map fst kvs) ->
  exists ks, keys (CMap kvs) = Some ks /\ NoDup ks /\ (forall k, In k ks <-> exists v, In (k, v) kvs)
    /\ len (CMap kvs) = Some (Z.of_nat (List.length ks)).
Proof.
  intro H. exists (map fst kvs). repeat split; try assumption.
  - intro Hin. apply in_map_iff in Hin as ((k', v) & <- & Hin). exists v. exact Hin.
  - intros [v Hin]. apply in_map_iff. exists (k, v). split; [reflexivity | exact Hin].
  - cbn [len]. rewrite map_length. reflexivity.
Qed.

(* misuse: len and keys of anything else is an error, not a value *)
Lemma len_keys_misuse v : (forall s, v <> CStr s) -> (forall l, v <> CList l) -> (forall m, v <> CMap m) ->
  len v = None /\ keys v = None.
Proof.
  intros Hs Hl Hm. destruct v; try (split; reflexivity); exfalso; [eapply Hs | eapply Hl | eapply Hm]; reflexivity.
Qed.
