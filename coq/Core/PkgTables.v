(* The bundled package tables (packages/*.go): every entry binds a name to a Go expression.  The
   entries are regenerated from the source on every run (harness/c19.go, go/ast) into
   AnkoGen/GenPkgs.v; the obligation Obligations/C19.v is `tables_ok entries = true`. *)
From Coq Require Import String List Bool.
Import ListNotations.
Open Scope string_scope.

Record entry := mkEntry {
  e_table : string;   (* "Packages" or "PackageTypes" *)
  e_pkg : string;     (* outer key: the name a script imports, e.g. "net/http" *)
  e_key : string;     (* inner key: the name a script selects *)
  e_qual : string;    (* qualifier of the bound Go expression ("" = declared in package packages) *)
  e_ident : string;   (* selected Go identifier *)
  e_path : string     (* import path the qualifier resolves to in that file *)
}.

Definition entry_ok (e : entry) : bool :=
  String.eqb (e_key e) (e_ident e)
  && (String.eqb (e_qual e) "" || String.eqb (e_pkg e) (e_path e)).

Definition same_slot (a b : entry) : bool :=
  String.eqb (e_table a) (e_table b) && String.eqb (e_pkg a) (e_pkg b) && String.eqb (e_key a) (e_key b).

Fixpoint slots_unique (es : list entry) : bool :=
  match es with
  | [] => true
  | e :: r => negb (existsb (same_slot e) r) && slots_unique r
  end.

Definition tables_ok (es : list entry) : bool := forallb entry_ok es && slots_unique es.

(* what `import("pkg").key` resolves to: Go map assignment semantics, the last write wins *)
Fixpoint pkg_lookup (es : list entry) (table pkg key : string) : option entry :=
  match es with
  | [] => None
  | e :: r =>
    match pkg_lookup r table pkg key with
    | Some x => Some x
    | None => if String.eqb (e_table e) table && String.eqb (e_pkg e) pkg && String.eqb (e_key e) key
              then Some e else None
    end
  end.

Lemma pkg_lookup_in es t p k e : pkg_lookup es t p k = Some e ->
  In e es /\ e_table e = t /\ e_pkg e = p /\ e_key e = k.
Proof.
  induction es as [|a r IH]; cbn [pkg_lookup]; [discriminate|].
  destruct (pkg_lookup r t p k) as [x|] eqn:Hr.
  - intro H; injection H as ->. destruct (IH eq_refl) as (Hin & ?). split; [now right | assumption].
  - destruct (String.eqb (e_table a) t) eqn:H1, (String.eqb (e_pkg a) p) eqn:H2, (String.eqb (e_key a) k) eqn:H3;
      cbn [andb]; try discriminate.
    intro H; injection H as <-.
    apply String.eqb_eq in H1, H2, H3. split; [now left | auto].
Qed.

(* every name a script can select is the Go identifier of that spelling, from the package of that
   import path (or a helper declared beside the table) *)
Theorem lookup_is_namesake es t p k e :
  tables_ok es = true -> pkg_lookup es t p k = Some e ->
  e_ident e = k /\ (e_path e = p \/ e_qual e = "").
Proof.
  unfold tables_ok. intros Hok Hl. apply andb_prop in Hok as [Hall _].
  destruct (pkg_lookup_in _ _ _ _ _ Hl) as (Hin & _ & Hp & Hk).
  rewrite forallb_forall in Hall. specialize (Hall _ Hin).
  unfold entry_ok in Hall. apply andb_prop in Hall as [H1 H2].
  apply String.eqb_eq in H1. split; [congruence|].
  apply orb_prop in H2 as [H2|H2]; apply String.eqb_eq in H2; [right; assumption | left; congruence].
Qed.

(* with unique slots no entry is shadowed: what the source lists is what a script sees *)
Lemma slots_unique_lookup es e :
  slots_unique es = true -> In e es -> pkg_lookup es (e_table e) (e_pkg e) (e_key e) = Some e.
Proof.
  induction es as [|a r IH]; [intros _ []|].
  cbn [slots_unique pkg_lookup]. intros Hu Hin. apply andb_prop in Hu as [Hn Hu].
  destruct Hin as [<-|Hin].
  - destruct (pkg_lookup r (e_table a) (e_pkg a) (e_key a)) as [x|] eqn:Hr.
    + exfalso. destruct (pkg_lookup_in _ _ _ _ _ Hr) as (Hi & Ht & Hp & Hk).
      apply negb_true_iff in Hn. assert (existsb (same_slot a) r = true); [|congruence].
      apply existsb_exists. exists x. split; [assumption|].
      unfold same_slot. rewrite Ht, Hp, Hk, !String.eqb_refl. reflexivity.
    + now rewrite !String.eqb_refl.
  - now rewrite (IH Hu Hin).
Qed.

Example ok_table : tables_ok [mkEntry "Packages" "strings" "ToUpper" "strings" "ToUpper" "strings";
                              mkEntry "PackageTypes" "sort" "SortFuncsStruct" "" "SortFuncsStruct" ""] = true.
Proof. reflexivity. Qed.
Example swapped_table_rejected :
  tables_ok [mkEntry "Packages" "strings" "ToUpper" "strings" "ToLower" "strings"] = false.
Proof. reflexivity. Qed.
