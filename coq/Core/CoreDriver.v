(* Entry point of the extracted C19 checker: run the model of the `range` builtin on the argument
   list the implementation was called with. *)
From Coq Require Import String List ZArith.
From Anko Require Import Base.Sexp Core.Range.
Import ListNotations.
Open Scope string_scope.

Definition c19_check (s : sexp) : sexp :=
  match s with
  | SL (fuel :: args) =>
    match as_nat fuel, map_opt as_Z args with
    | Some fuel, Some args =>
      match range_builtin fuel args with
      | RErr _ => SL [SA "error"]
      | ROk l => SL (SA "ok" :: map sZ l)
      | RDiverge => SL [SA "diverge"]
      end
    | _, _ => SL [SA "bad-input"]
    end
  | _ => SL [SA "bad-input"]
  end.
