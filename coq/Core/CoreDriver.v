(* Entry point of the extracted C19 checker: run the model of the `range` builtin on the argument
   list the implementation was called with. *)
From Coq Require Import String List ZArith.
From Anko Require Import Base.Sexp Core.Range.
Import ListNotations.
Open Scope string_scope.

Definition c19_check (s : sexp) : sexp :=
  match s with
  | SL (fuel :: args) =>
    match as_nat fuel, map_opt as_Z args with
    | Some fuel, Some args =>
      match range_builtin fuel args with
      | RErr _ => SL [SA "error"]
      | ROk l => SL (SA "ok" :: map sZ l)
      | RDiverge => SL [SA "diverge"]
      end
    | _, _ => SL [SA "bad-input"]
    end
  | _ => SL [SA "bad-input"]
  end.

(* Entry point c19b: the conversion builtins of Core/Builtins.v on a value of the script universe.
   input  (op V ((str ()) | (str (bits)) ...))     output  (i z) (f bits) (li z..) (lf bits..) (lb b..)
   (s str) (vals V..) (error) (miss what) *)
From Coq Require Import Floats.SpecFloat.
From Anko Require Import Base.F64 Interp.ToX Core.Builtins.

Fixpoint dec_cval (fuel : nat) (s : sexp) : option cval :=
  match fuel with
  | O => None
  | S f =>
    match s with
    | SL [SA "nil"] => Some CNil
    | SL [SA "b"; b] => option_map CBool (as_bool b)
    | SL [SA "i"; z] => option_map CInt (as_Z z)
    | SL [SA "f"; b] => option_map (fun z => CFloat (of_bits z)) (as_Z b)
    | SL [SA "s"; SA x] => Some (CStr x)
    | SL (SA "l" :: xs) => option_map CList (map_opt (dec_cval f) xs)
    | SL (SA "m" :: kvs) =>
        option_map CMap (map_opt (fun kv => match kv with
                                            | SL [k; v] => match dec_cval f k, dec_cval f v with
                                                           | Some k, Some v => Some (k, v)
                                                           | _, _ => None end
                                            | _ => None end) kvs)
    | _ => None
    end
  end.

Fixpoint enc_cval (fuel : nat) (v : cval) : sexp :=
  match fuel with
  | O => SA "deep"
  | S f =>
    match v with
    | CNil => SL [SA "nil"]
    | CBool b => SL [SA "b"; sbool b]
    | CInt z => SL [SA "i"; sZ z]
    | CFloat x => SL [SA "f"; sZ (to_bits x)]
    | CStr x => SL [SA "s"; SA x]
    | CList l => SL (SA "l" :: map (enc_cval f) l)
    | CMap kvs => SL (SA "m" :: map (fun '(k, v) => SL [enc_cval f k; enc_cval f v]) kvs)
    end
  end.

Definition dec_pf (s : sexp) : option (list (string * option f64)) :=
  as_list (fun e => match e with
                    | SL [SA k; SL []] => Some (k, None)
                    | SL [SA k; SL [b]] => option_map (fun z => (k, Some (of_bits z))) (as_Z b)
                    | _ => None end) s.

Definition as_clist (v : cval) : option (list cval) := match v with CList l => Some l | _ => None end.

Definition c19b_check (s : sexp) : sexp :=
  match s with
  | SL [SA op; v; pf] =>
    match dec_cval 8 v, dec_pf pf with
    | Some v, Some pf =>
      let tri_out {A} (t : tri A) (k : A -> sexp) : sexp :=
        match t with TOk a => k a | TErr => SL [SA "error"] | TMiss w => SL [SA "miss"; SA w] end in
      if String.eqb op "toInt" then tri_out (to_int pf v) (fun z => SL [SA "i"; sZ z])
      else if String.eqb op "toFloat" then tri_out (to_float pf v) (fun x => SL [SA "f"; sZ (to_bits x)])
      else if String.eqb op "toIntSlice" then
        match as_clist v with Some l => SL (SA "li" :: map sZ (to_int_slice l)) | None => SL [SA "error"] end
      else if String.eqb op "toFloatSlice" then
        match as_clist v with Some l => SL (SA "lf" :: map (fun x => sZ (to_bits x)) (to_float_slice l)) | None => SL [SA "error"] end
      else if String.eqb op "toBoolSlice" then
        match as_clist v with Some l => SL (SA "lb" :: map sbool (to_bool_slice l)) | None => SL [SA "error"] end
      else if String.eqb op "len" then
        match len v with Some n => SL [SA "i"; sZ n] | None => SL [SA "error"] end
      else if String.eqb op "keys" then
        match keys v with Some ks => SL (SA "vals" :: map (enc_cval 8) ks) | None => SL [SA "error"] end
      else if String.eqb op "typeOf" then SL [SA "s"; SA (type_of v)]
      else if String.eqb op "kindOf" then SL [SA "s"; SA (kind_of v)]
      else SL [SA "bad-op"]
    | _, _ => SL [SA "bad-input"]
    end
  | _ => SL [SA "bad-input"]
  end.
