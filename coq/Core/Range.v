(* Model of the `range` builtin (core/core.go, Import, "range"): the loop over int64 with Go's
   wrapping addition, in its guarded form (the form /repo has after the fix recorded in
   known_findings.txt) and in the unguarded form it had before. *)
From Coq Require Import ZArith List Lia Bool.
From Anko Require Import Base.Int64.
Import ListNotations.
Open Scope Z_scope.

(* (step > 0 && i < stop) || (step < 0 && i > stop) *)
Definition before (stop step i : Z) : bool :=
  ((0 <? step) && (i <? stop)) || ((step <? 0) && (stop <? i)).

(* (step > 0 && i > MaxInt64-step) || (step < 0 && i < MinInt64-step) *)
Definition next_overflows (step i : Z) : bool :=
  ((0 <? step) && (max_int64 - step <? i)) || ((step <? 0) && (i <? min_int64 - step)).

Fixpoint range_loop (fuel : nat) (stop step i : Z) : option (list Z) :=
  match fuel with
  | O => None
  | S f =>
    if before stop step i then
      if next_overflows step i then Some [i]
      else option_map (cons i) (range_loop f stop step (add64 i step))
    else Some []
  end.

(* the loop as it was: no guard *)
Fixpoint range_loop_unguarded (fuel : nat) (stop step i : Z) : option (list Z) :=
  match fuel with
  | O => None
  | S f =>
    if before stop step i then option_map (cons i) (range_loop_unguarded f stop step (add64 i step))
    else Some []
  end.

Inductive range_result := RErr (msg : nat) | ROk (l : list Z) | RDiverge.

(* argument handling of the builtin: 1, 2 or 3 int64 arguments, step 0 rejected *)
Definition range_builtin (fuel : nat) (args : list Z) : range_result :=
  let go start stop step :=
    match range_loop fuel stop step start with Some l => ROk l | None => RDiverge end in
  match args with
  | [] => RErr 0
  | [stop] => go 0 stop 1
  | [start; stop] => go start stop 1
  | [start; stop; step] => if step =? 0 then RErr 3 else go start stop step
  | _ => RErr 4
  end.

Lemma int64_bounds : min_int64 = -9223372036854775808 /\ max_int64 = 9223372036854775807.
Proof. split; reflexivity. Qed.

(* case analysis on the four comparisons of the loop header and the guard *)
Ltac cmp_cases Hb Ho :=
  unfold before in Hb; unfold next_overflows in Ho; unfold in_int64 in *;
  destruct int64_bounds as [Hmin Hmax];
  repeat match type of Hb with context [?a <? ?b] => destruct (Z.ltb_spec a b) end;
  repeat match type of Ho with context [?a <? ?b] => destruct (Z.ltb_spec a b) end;
  cbn [andb orb] in Hb, Ho; try discriminate.

Fixpoint prog (i step : Z) (n : nat) : list Z :=
  match n with O => [] | S m => i :: prog (i + step) step m end.

Lemma prog_length i step n : length (prog i step n) = n.
Proof. revert i; induction n as [|n IH]; intro i; simpl; [reflexivity | now rewrite IH]. Qed.

Lemma prog_nth i step n k : (k < n)%nat -> nth k (prog i step n) 0 = i + Z.of_nat k * step.
Proof.
  revert i k; induction n as [|n IH]; intros i k Hk; [lia|].
  destruct k as [|k]; simpl prog; cbn [nth]; [lia|].
  rewrite IH by lia. lia.
Qed.

(* everything the loop returns, whatever the fuel *)
Lemma range_loop_sound fuel stop step : forall i l,
  in_int64 i -> in_int64 stop -> in_int64 step -> step <> 0 ->
  range_loop fuel stop step i = Some l ->
  l = prog i step (length l)
  /\ Forall (fun x => before stop step x = true /\ in_int64 x) l
  /\ before stop step (i + Z.of_nat (length l) * step) = false.
Proof.
  induction fuel as [|f IH]; intros i l Hi Hs Hst Hnz H; [discriminate|].
  cbn [range_loop] in H.
  destruct (before stop step i) eqn:Hb.
  - destruct (next_overflows step i) eqn:Ho.
    + injection H as <-. cbn [length prog]. repeat split.
      * constructor; [now split | constructor].
      * rewrite Z.mul_1_l. destruct (before stop step (i + step)) eqn:Hb2; [|reflexivity].
        exfalso. unfold before in Hb2. cmp_cases Hb Ho;
        repeat match type of Hb2 with context [?a <? ?b] => destruct (Z.ltb_spec a b) end;
        cbn [andb orb] in Hb2; try discriminate; lia.
    + destruct (range_loop f stop step (add64 i step)) as [l'|] eqn:Hr; [|discriminate].
      injection H as <-.
      assert (Hin : in_int64 (i + step)).
      { clear IH Hr. cmp_cases Hb Ho; lia. }
      unfold add64 in Hr. rewrite wrap64_id in Hr by exact Hin.
      destruct (IH _ _ Hin Hs Hst Hnz Hr) as (Hp & Hall & Hlast).
      cbn [length prog]. repeat split.
      * now rewrite <- Hp.
      * constructor; [now split | exact Hall].
      * replace (i + Z.of_nat (S (length l')) * step) with (i + step + Z.of_nat (length l') * step) by lia.
        exact Hlast.
  - injection H as <-. cbn. repeat split; [constructor|]. now rewrite Z.add_0_r.
Qed.

(* the loop ends: |stop - i| + 1 iterations always suffice *)
Lemma range_loop_total fuel stop step : forall i,
  in_int64 i -> in_int64 stop -> in_int64 step -> step <> 0 ->
  (Z.to_nat (if before stop step i then Z.abs (stop - i) else 0) < fuel)%nat ->
  range_loop fuel stop step i <> None.
Proof.
  induction fuel as [|f IH]; intros i Hi Hs Hst Hnz Hf; [lia|].
  cbn [range_loop].
  destruct (before stop step i) eqn:Hb; [|discriminate].
  destruct (next_overflows step i) eqn:Ho; [discriminate|].
  assert (Hin : in_int64 (i + step)).
  { clear IH Hf. cmp_cases Hb Ho; lia. }
  assert (Hlt : (Z.to_nat (if before stop step (i + step) then Z.abs (stop - (i + step)) else 0) < f)%nat).
  { clear IH. destruct (before stop step (i + step)) eqn:Hb2.
    - destruct (Z.abs_spec (stop - i)) as [[? Ha]|[? Ha]], (Z.abs_spec (stop - (i + step))) as [[? Ha2]|[? Ha2]];
      rewrite Ha in Hf; rewrite Ha2; unfold before in Hb2; cmp_cases Hb Ho;
      repeat match type of Hb2 with context [?a <? ?b] => destruct (Z.ltb_spec a b) end;
      cbn [andb orb] in Hb2; try discriminate; lia.
    - destruct (Z.abs_spec (stop - i)) as [[? Ha]|[? Ha]]; rewrite Ha in Hf; cmp_cases Hb Ho; lia. }
  unfold add64. rewrite wrap64_id by exact Hin.
  specialize (IH (i + step) Hin Hs Hst Hnz).
  destruct (range_loop f stop step (i + step)); [discriminate|].
  exfalso. apply IH; [exact Hlt | reflexivity].
Qed.

(* the pre-fix loop returns a wrapped element: the guard is what the property needs *)
Example unguarded_wraps :
  range_loop_unguarded 3 9223372036854775807 7 9223372036854775806
  = option_map (fun t => 9223372036854775806 :: (-9223372036854775803) :: t)
      (range_loop_unguarded 1 9223372036854775807 7 (-9223372036854775796)).
Proof. vm_compute. reflexivity. Qed.

Example guarded_stops :
  range_loop 3 9223372036854775807 7 9223372036854775806 = Some [9223372036854775806].
Proof. vm_compute. reflexivity. Qed.

Lemma range_loop_fuel_mono fuel stop step : forall i l fuel',
  range_loop fuel stop step i = Some l -> (fuel <= fuel')%nat -> range_loop fuel' stop step i = Some l.
Proof.
  induction fuel as [|f IH]; intros i l fuel' H Hle; [discriminate|].
  destruct fuel' as [|f']; [lia|]. cbn [range_loop] in *.
  destruct (before stop step i); [|exact H].
  destruct (next_overflows step i); [exact H|].
  destruct (range_loop f stop step (add64 i step)) as [l'|] eqn:Hr; [|discriminate].
  rewrite (IH _ _ f' Hr) by lia. exact H.
Qed.

Lemma range_builtin_spec : forall start stop step,
  in_int64 start -> in_int64 stop -> in_int64 step -> step <> 0 ->
  exists fuel l,
    (forall fuel', (fuel <= fuel')%nat -> range_builtin fuel' [start; stop; step] = ROk l)
    /\ l = prog start step (length l)
    /\ (forall k, (k < length l)%nat -> nth k l 0 = start + Z.of_nat k * step)
    /\ Forall (fun x => before stop step x = true /\ in_int64 x) l
    /\ before stop step (start + Z.of_nat (length l) * step) = false.
Proof.
  intros start stop step Hi Hs Hst Hnz.
  set (fuel := S (Z.to_nat (if before stop step start then Z.abs (stop - start) else 0))).
  destruct (range_loop fuel stop step start) as [l|] eqn:Hr.
  - exists fuel, l. destruct (range_loop_sound _ _ _ _ _ Hi Hs Hst Hnz Hr) as (Hp & Hall & Hlast).
    repeat split; try assumption.
    + intros fuel' Hle. unfold range_builtin. apply Z.eqb_neq in Hnz. rewrite Hnz.
      now rewrite (range_loop_fuel_mono _ _ _ _ _ _ Hr Hle).
    + intros k Hk. rewrite Hp. apply prog_nth. exact Hk.
  - exfalso. revert Hr. apply range_loop_total; try assumption. unfold fuel. lia.
Qed.
