(* Code-shaped model of the interpreter (vm/vmStmt.go, vmExpr.go, vmLetExpr.go,
   vmOperator.go, vmExprFunction.go) for fragment F1.  Every definition names
   the Go function it mirrors.  The per-run state runInfoStruct is the record
   [rstate]: the current scope r_env, the result register r_rv and the pending
   deferred calls are threaded explicitly, and every function restores r_env
   exactly where the Go code does.  A Go-level fault (reflect panic, index out
   of range on a Go slice of the AST) is the outcome [Abort (APanic _)].
   Recursion is open: every function takes [rec], the interpreter at the next
   lower fuel; [exec] ties the knot. *)
From Coq Require Import String Ascii List ZArith NArith Bool Arith Floats.SpecFloat.
From Anko Require Import Base.Assoc Base.Sexp Base.Int64 Base.F64 Env.EnvModel
     Interp.Ast Interp.Value Interp.ToX Interp.Equal.
Import ListNotations.
Open Scope nat_scope.
Open Scope list_scope.

(* a registered deferred call: capturedFunc {fn, args, callSlice} *)
Record dcall := mkD { d_fn : value; d_args : list rval; d_slice : bool }.

(* runInfoStruct: env, rv, defers (err is the outcome) + the shared store *)
Record rstate := mkR { r_st : store; r_env : nat; r_rv : rval; r_defers : list dcall }.

Inductive abort := APanic (m : string) | AFuel | AUnsupported (m : string).
Inductive outcome := Ok (s : rstate) | Err (e : err) (s : rstate) | Abort (k : abort).

Definition set_st (s : rstate) st := mkR st (r_env s) (r_rv s) (r_defers s).
Definition set_env (s : rstate) e := mkR (r_st s) e (r_rv s) (r_defers s).
Definition set_rv (s : rstate) r := mkR (r_st s) (r_env s) r (r_defers s).
Definition set_defers (s : rstate) d := mkR (r_st s) (r_env s) (r_rv s) d.

(* what the interpreter can be asked to do at the next lower fuel *)
Inductive cmd :=
| CStmt (s : option stmt)                                     (* runSingleStmt *)
| CExpr (e : expr)                                            (* invokeExpr *)
| CLet (e : expr)                                             (* invokeLetExpr: assigns r_rv *)
| CCall (f : value) (args : list expr) (vararg go : bool)     (* callExpr with a resolved function *)
| CApply (f : value) (args : list rval) (callslice : bool)    (* f.Call(args) / f.CallSlice(args) *)
| CLoop (c : option expr) (body : option stmt) (env0 : nat)   (* one iteration of runLoopStmt *)
| CForSlice (var : string) (body : option stmt) (l off len i : nat)
| CForMap (vars : list string) (body : option stmt) (m : loc) (keys : list value)
| CCFor (e2 e3 : option expr) (body : option stmt) (env0 : nat)
| CDefers (ds : list dcall) (err0 : option err).              (* the loop of runDefers *)

(* isPlaceExpr: an expression that names something one can assign to *)
Fixpoint is_place_expr (e : expr) : bool :=
  match e with
  | EIdent _ | EMember _ _ | EItem _ _ | EDeref _ => true
  | EParen x => is_place_expr x
  | _ => false
  end.

Section Model.
Variable orc : oracle.
Variable cancel_at : option nat.     (* the first context poll that sees Done *)
Variable rec : cmd -> rstate -> outcome.

Definition unsupported (m : string) : outcome := Abort (AUnsupported m).

(* newStringError(pos, msg) with runInfo.rv = nilValue *)
Definition raise (m : string) (s : rstate) : outcome := Err (EVm m) (set_rv s rv_nil).

(* newError(pos, err): any error becomes a *vm.Error carrying the same message *)
Definition wrap_err (e : err) : err := EVm (err_message e).

Notation "'do' s' '<-' c ';' k" :=
  (match c with Ok s' => k | Err e s0 => Err e s0 | Abort a => Abort a end)
  (at level 200, s' name, c at level 100, k at level 200).

Definition tri_bind {A} (t : tri A) (k : A -> outcome) (onerr : outcome) : outcome :=
  match t with TOk a => k a | TErr => onerr | TMiss w => unsupported w end.

(* ---- context ---- *)
Definition poll (s : rstate) : bool * rstate :=
  let st := r_st s in
  let n := st_polls st in
  (match cancel_at with Some k => k <=? n | None => false end, set_st s (set_polls st (S n))).

(* ---- environment access (env package through Env/EnvModel.v) ---- *)
Definition hfuel (st : store) : nat := S (length (st_heap st)).

Definition env_get (st : store) (e : nat) (x : string) : res rval :=
  @get_value rval unit (fun _ _ => None) (hfuel st) (st_heap st) e x.

Definition env_define (st : store) (e : nat) (x : string) (r : rval) : store :=
  match @define_value rval unit (st_heap st) e x r with
  | EnvModel.Ok h => set_heap st h
  | _ => st                                   (* the error (dotted name) is ignored by every caller *)
  end.

Definition env_set (st : store) (e : nat) (x : string) (r : rval) : option store :=
  match @set_value rval unit (hfuel st) (st_heap st) e x r with
  | EnvModel.Ok h => Some (set_heap st h)
  | _ => None
  end.

Definition env_new (st : store) (e : nat) : store * nat :=
  let '(h, i) := @new_env rval unit (st_heap st) e in (set_heap st h, i).

Definition undefined_symbol (x : string) : string := ("undefined symbol '" ++ x ++ "'")%string.

(* value, ok := x.Interface().( *env.Env ); DeepCopy for modules on assignment *)
Definition copy_if_module (st : store) (r : rval) : option (store * rval) :=
  match deref st r with
  | VEnv e => match @deep_copy rval unit (hfuel st) (st_heap st) e with
              | EnvModel.Ok (h, c) => Some (set_heap st h, Imm (VEnv c))
              | _ => None
              end
  | _ => Some (st, r)
  end.

(* if rv.Kind() == reflect.Interface && !rv.IsNil() { rv = rv.Elem() } *)
Definition unwrap (st : store) (r : rval) : rval :=
  match r with
  | Imm _ => r
  | Place l i => match deref st r with VNil => r | v => Imm v end
  end.

(* detachValue: what an assignment, a binding, an argument or a kept result holds is the value the
   place had at that moment, no longer the place *)
Definition detach (st : store) (r : rval) : rval := Imm (deref st r).

Definition len_of_st (st : store) (v : value) : nat := len_of st v.

Definition truthy (s : rstate) (k : bool -> outcome) : outcome :=
  tri_bind (to_bool orc (len_of_st (r_st s)) (deref (r_st s) (r_rv s))) k (k false).

(* ------------------------------------------------------------------ *)
(* vmOperator.go                                                        *)

Definition eval_operand (e : expr) (s : rstate) (k : value -> rstate -> outcome) : outcome :=
  do s1 <- rec (CExpr e) s;
  let v := deref (r_st s1) (r_rv s1) in k v s1.

Definition ret (v : value) (s : rstate) : outcome := Ok (set_rv s (Imm v)).

Definition with_int (t : tri Z) (k : Z -> outcome) : outcome := tri_bind t k (k 0%Z).
Definition with_float (t : tri spec_float) (k : spec_float -> outcome) : outcome := tri_bind t k (k fzero).

(* invokeBinaryOperator *)
Definition invoke_binary (l : expr) (op : string) (r : expr) (s : rstate) : outcome :=
  eval_operand l s (fun lv s1 =>
    tri_bind (to_bool orc (len_of_st (r_st s1)) lv) (fun lb =>
      let short :=
        if String.eqb op "||" then (if lb then Some true else None)
        else if String.eqb op "&&" then (if lb then None else Some false)
        else None in
      if negb (String.eqb op "||") && negb (String.eqb op "&&") then raise "unknown operator" s1
      else match short with
           | Some b => ret (VBool b) s1
           | None =>
             eval_operand r s1 (fun rv s2 =>
               tri_bind (to_bool orc (len_of_st (r_st s2)) rv) (fun rb => ret (VBool rb) s2)
                        (ret (VBool false) s2))
           end)
      (* toBool ignores the conversion error: false *)
      (if String.eqb op "||" then
         eval_operand r s1 (fun rv s2 =>
           tri_bind (to_bool orc (len_of_st (r_st s2)) rv) (fun rb => ret (VBool rb) s2) (ret (VBool false) s2))
       else if String.eqb op "&&" then ret (VBool false) s1
       else raise "unknown operator" s1)).

(* invokeComparisonOperator *)
Definition invoke_compare (l : expr) (op : string) (r : expr) (s : rstate) : outcome :=
  eval_operand l s (fun lv s1 =>
  eval_operand r s1 (fun rv s2 =>
    let st := r_st s2 in
    let ordered (fi : Z -> Z -> bool) (ff : spec_float -> spec_float -> bool) : outcome :=
      match lv, rv with
      | VInt a, VInt b => ret (VBool (fi a b)) s2
      | _, _ => with_float (to_float64 orc lv) (fun a =>
                with_float (to_float64 orc rv) (fun b => ret (VBool (ff a b)) s2))
      end in
    if String.eqb op "==" then tri_bind (equal orc st lv rv) (fun b => ret (VBool b) s2) (ret (VBool false) s2)
    else if String.eqb op "!=" then tri_bind (equal orc st lv rv) (fun b => ret (VBool (negb b)) s2) (ret (VBool true) s2)
    else if String.eqb op "<" then ordered Z.ltb fltb
    else if String.eqb op "<=" then ordered Z.leb fleb
    else if String.eqb op ">" then ordered Z.gtb (fun a b => fltb b a)
    else if String.eqb op ">=" then ordered Z.geb (fun a b => fleb b a)
    else raise "unknown operator" s2)).

(* appendSlice for two []interface{} (same element type): reflect.AppendSlice *)
Fixpoint append_all (st : store) (sl : value) (vs : list value) : option (store * value) :=
  match vs with
  | [] => Some (st, sl)
  | v :: r => match sl with
              | VSlice l off len cap =>
                  match append_value st l off len cap v with
                  | Some (st', sl') => append_all st' sl' r
                  | None => None
                  end
              | _ => None
              end
  end.

(* reflect.AppendSlice grows once for the whole batch *)
Definition append_slice (st : store) (l off len cap : nat) (vs : list value) : option (store * value) :=
  let n := length vs in
  if len + n <=? cap then
    append_all st (VSlice l off len cap) vs
  else
    match grow_cap cap (len + n) with
    | Some nc =>
        let a := slice_elems st l off len ++ vs ++ repeat VNil (nc - (len + n)) in
        let '(st', l') := alloc_array st a in
        Some (st', VSlice l' 0 (len + n) nc)
    | None => None
    end.

(* invokeAddOperator, "+" on two non-slice operands: the kind tower string > float > int *)
Definition add_scalars (lv rv : value) (s2 : rstate) : outcome :=
  let st := r_st s2 in
  match precedence_of_kinds (kind_of lv) (kind_of rv) with
  | KString =>
      tri_bind (to_string_st orc st lv) (fun a =>
      tri_bind (to_string_st orc st rv) (fun b => ret (VStr (a ++ b)%string) s2) (unsupported "tostring"))
        (unsupported "tostring")
  | KFloat =>
      with_float (to_float64 orc lv) (fun a =>
      with_float (to_float64 orc rv) (fun b => ret (VFloat (fadd a b)) s2))
  | _ =>
      with_int (to_int64 lv) (fun a =>
      with_int (to_int64 rv) (fun b => ret (VInt (add64 a b)) s2))
  end.

Definition sub_values (lv rv : value) (s2 : rstate) : outcome :=
  match lv, rv with
  | VFloat _, _ | _, VFloat _ =>
      with_float (to_float64 orc lv) (fun a =>
      with_float (to_float64 orc rv) (fun b => ret (VFloat (fsub a b)) s2))
  | _, _ =>
      with_int (to_int64 lv) (fun a =>
      with_int (to_int64 rv) (fun b => ret (VInt (sub64 a b)) s2))
  end.

(* invokeAddOperator *)
Definition invoke_add (l : expr) (op : string) (r : expr) (s : rstate) : outcome :=
  eval_operand l s (fun lv s1 =>
  eval_operand r s1 (fun rv s2 =>
    let st := r_st s2 in
    if String.eqb op "+" then
      match lv with
      | VSlice l1 o1 n1 c1 =>
          match rv with
          | VSlice l2 o2 n2 _ =>
              match append_slice st l1 o1 n1 c1 (slice_elems st l2 o2 n2) with
              | Some (st', sl) => ret sl (set_st s2 st')
              | None => unsupported "append beyond modelled size classes"
              end
          | _ =>
              match append_value st l1 o1 n1 c1 rv with
              | Some (st', sl) => ret sl (set_st s2 st')
              | None => unsupported "append beyond modelled size classes"
              end
          end
      | _ =>
          match rv with
          | VSlice _ _ _ _ => raise "invalid type conversion" s2
          | _ => add_scalars lv rv s2
          end
      end
    else if String.eqb op "-" then sub_values lv rv s2
    else if String.eqb op "|" then
      with_int (to_int64 lv) (fun a =>
      with_int (to_int64 rv) (fun b => ret (VInt (or64 a b)) s2))
    else raise "unknown operator" s2)).

Fixpoint repeat_string (n : nat) (x : string) : string :=
  match n with 0 => EmptyString | S k => (x ++ repeat_string k x)%string end.

(* invokeMultiplyOperator, "*" *)
Definition mul_values (lv rv : value) (s2 : rstate) : outcome :=
  match lv, rv with
  | VStr x, VInt n =>
      if (n <? 0)%Z then raise "negative repeat count" s2
      else if (Z.of_nat (String.length x) * n >? 1048576)%Z then unsupported "string repeat beyond 1 MiB"
      else ret (VStr (repeat_string (Z.to_nat n) x)) s2
  | VFloat _, _ | _, VFloat _ =>
      with_float (to_float64 orc lv) (fun a =>
      with_float (to_float64 orc rv) (fun b => ret (VFloat (fmul a b)) s2))
  | _, _ =>
      with_int (to_int64 lv) (fun a => with_int (to_int64 rv) (fun b => ret (VInt (mul64 a b)) s2))
  end.

(* invokeMultiplyOperator *)
Definition invoke_mul (l : expr) (op : string) (r : expr) (s : rstate) : outcome :=
  eval_operand l s (fun lv s1 =>
  eval_operand r s1 (fun rv s2 =>
    let ints (f : Z -> Z -> Z) : outcome :=
      with_int (to_int64 lv) (fun a => with_int (to_int64 rv) (fun b => ret (VInt (f a b)) s2)) in
    if String.eqb op "*" then mul_values lv rv s2
    else if String.eqb op "/" then
      with_float (to_float64 orc lv) (fun a =>
      with_float (to_float64 orc rv) (fun b => ret (VFloat (fdiv a b)) s2))
    else if String.eqb op "%" then
      with_int (to_int64 rv) (fun b =>
        if (b =? 0)%Z then raise "integer divide by zero" s2
        else with_int (to_int64 lv) (fun a => ret (VInt (rem64 a b)) s2))
    else if String.eqb op ">>" then ints shr64
    else if String.eqb op "<<" then ints shl64
    else if String.eqb op "&" then ints and64
    else raise "unknown operator" s2)).

(* invokeOperator *)
Definition invoke_operator (o : oper) (s : rstate) : outcome :=
  match o with
  | OBinary l op r => invoke_binary l op r s
  | OCompare l op r => invoke_compare l op r s
  | OAdd l op r => invoke_add l op r s
  | OMul l op r => invoke_mul l op r s
  end.

(* ------------------------------------------------------------------ *)
(* vmExpr.go                                                            *)

Definition lit_value (l : lit) : value :=
  match l with
  | LNil => VNil | LBool b => VBool b | LInt z => VInt z | LFloat f => VFloat f | LStr s => VStr s
  end.

(* evaluate a list of expressions left to right, collecting runInfo.rv.Interface() *)
Fixpoint eval_values (es : list expr) (s : rstate) (acc : list value) (k : list value -> rstate -> outcome) : outcome :=
  match es with
  | [] => k (rev acc) s
  | e :: r => do s1 <- rec (CExpr e) s;
              eval_values r s1 (deref (r_st s1) (r_rv s1) :: acc) k
  end.

(* the same as reflect.Values, each detached from the place it was read from as soon as it is
   evaluated (makeCallArgs / callVMFunctionDirect: detachValue) *)
Fixpoint eval_rvals (es : list expr) (s : rstate) (acc : list rval) (k : list rval -> rstate -> outcome) : outcome :=
  match es with
  | [] => k (rev acc) s
  | e :: r => do s1 <- rec (CExpr e) s;
              eval_rvals r s1 (detach (r_st s1) (r_rv s1) :: acc) k
  end.

(* invokeArrayExpr, untyped literal *)
Definition invoke_array (es : list expr) (s : rstate) : outcome :=
  eval_values es s [] (fun vs s1 =>
    let '(st', sl) := new_slice (r_st s1) vs in ret sl (set_st s1 st')).

(* invokeMapExpr, untyped literal: key, value, key, value ... *)
Fixpoint invoke_map_entries (ks vs : list expr) (s : rstate) (m : list (value * value)) : outcome :=
  match ks, vs with
  | k :: kr, v :: vr =>
      do s1 <- rec (CExpr k) s;
      let key := deref (r_st s1) (r_rv s1) in
      if negb (hashable key) then raise "type cannot be used as map key" s1
      else
        do s2 <- rec (CExpr v) s1;
        invoke_map_entries kr vr s2 (map_store m key (deref (r_st s2) (r_rv s2)))
  | [], _ => let '(st', l) := alloc_map (r_st s) m in ret (VMap l) (set_st s st')
  | _ :: _, [] => Abort (APanic "index out of range: map literal without value")
  end.

Definition try_to_int (v : value) : tri Z := try_to_int64 v.

(* invokeUnaryExpr (with the unwrap idiom in front, see known_findings: fixed C20) *)
Definition invoke_unary (op : string) (e : expr) (s : rstate) : outcome :=
  eval_operand e s (fun v s1 =>
    if String.eqb op "-" then
      match v with
      | VInt z => ret (VInt (neg64 z)) s1
      | VBool b => ret (VInt (neg64 (if b then 1 else 0)%Z)) s1
      | VFloat f => ret (VFloat (fneg f)) s1
      | _ => with_float (to_float64 orc v) (fun f => ret (VFloat (fneg f)) s1)
      end
    else if String.eqb op "^" then with_int (to_int64 v) (fun z => ret (VInt (not64 z)) s1)
    else if String.eqb op "!" then
      tri_bind (to_bool orc (len_of_st (r_st s1)) v) (fun b => ret (VBool (negb b)) s1) (ret (VBool true) s1)
    else raise "unknown operator" s1).

(* getMapIndex for map[interface{}]interface{} *)
Definition get_map_index (st : store) (key : value) (m : loc) : value :=
  if negb (hashable key) then VNil
  else match nth_error (st_maps st) m with
       | Some es => match map_lookup es key with Some v => v | None => VNil end
       | None => VNil
       end.

(* invokeMemberExpr *)
Definition invoke_member (e : expr) (name : string) (s : rstate) : outcome :=
  eval_operand e s (fun v s1 =>
    match v with
    | VEnv m => match env_get (r_st s1) m name with
                | EnvModel.Ok r => Ok (set_rv s1 r)
                | EnvModel.Err _ => raise (undefined_symbol name) s1
                | _ => Abort (APanic "env")
                end
    | VMap m => ret (get_map_index (r_st s1) (VStr name) m) s1
    | VErr _ => unsupported "member of an error value"
    | _ => raise ("type " ++ kind_name (kind_of v) ++ " does not support member operation")%string s1
    end).

Definition byte_string (s : string) (i : nat) : string :=
  match String.get i s with Some c => String c EmptyString | None => EmptyString end.

(* string[i] yields the UTF-8 encoding of the code point with the byte's value *)
Definition index_string (s : string) (i : nat) : tri string :=
  match String.get i s with
  | Some c => TOk (String c EmptyString)   (* the byte at i, whatever its value: s[i] = s[i:i+1] *)
  | None => TErr
  end.

(* invokeItemExpr *)
Definition invoke_item (e i : expr) (s : rstate) : outcome :=
  do s1 <- rec (CExpr e) s;
  let item_rv := r_rv s1 in
  do s2 <- rec (CExpr i) s1;
  let st := r_st s2 in
  let item := deref st item_rv in
  let idx := deref st (r_rv s2) in
  match item with
  | VStr _ | VSlice _ _ _ _ =>
      tri_bind (try_to_int idx) (fun z =>
        let n := match item with VStr x => String.length x | VSlice _ _ n _ => n | _ => 0 end in
        if (z <? 0)%Z || (Z.of_nat n <=? z)%Z then raise "index out of range" s2
        else match item with
             | VSlice l off _ _ => Ok (set_rv s2 (Place l (off + Z.to_nat z)))
             | VStr x => tri_bind (index_string x (Z.to_nat z)) (fun c => ret (VStr c) s2) (raise "index out of range" s2)
             | _ => Abort (APanic "unreachable")
             end)
        (raise "index must be a number" s2)
  | VMap m => ret (get_map_index st idx m) s2
  | _ => raise ("type " ++ kind_name (kind_of item) ++ " does not support index operation")%string s2
  end.

Definition eval_opt_index (oe : option expr) (s : rstate) (dflt : Z)
           (k : Z -> rstate -> outcome) (notnum : rstate -> outcome) : outcome :=
  match oe with
  | None => k dflt s
  | Some e => do s1 <- rec (CExpr e) s;
              tri_bind (try_to_int (deref (r_st s1) (r_rv s1))) (fun z => k z s1) (notnum s1)
  end.

(* invokeSliceExpr *)
Definition invoke_slice (e : expr) (b en c : option expr) (s : rstate) : outcome :=
  do s1 <- rec (CExpr e) s;
  let item := deref (r_st s1) (r_rv s1) in
  match item with
  | VStr _ | VSlice _ _ _ _ =>
      let n := match item with VStr x => Z.of_nat (String.length x) | VSlice _ _ n _ => Z.of_nat n | _ => 0%Z end in
      eval_opt_index b s1 0%Z (fun bi s2 =>
        if (match b with Some _ => (bi <? 0)%Z | None => false end) then raise "index out of range" s2 else
        eval_opt_index en s2 n (fun ei s3 =>
          if (match en with Some _ => (n <? ei)%Z | None => false end) then raise "index out of range" s3 else
          if (ei <? bi)%Z then raise "index out of range" s3 else
          match item with
          | VStr x =>
              match c with
              | Some _ => raise "type string does not support cap" s3
              | None => ret (VStr (String.substring (Z.to_nat bi) (Z.to_nat (ei - bi)) x)) s3
              end
          | VSlice l off len cap =>
              eval_opt_index c s3 (Z.of_nat cap) (fun ci s4 =>
                if (match c with Some _ => (ci <? ei)%Z || (Z.of_nat cap <? ci)%Z | None => false end)
                then raise "cap out of range" s4
                else ret (VSlice l (off + Z.to_nat bi) (Z.to_nat (ei - bi)) (Z.to_nat (ci - bi))) s4)
                (raise "cap must be a number")
          | _ => Abort (APanic "unreachable")
          end)
          (raise "index must be a number"))
        (raise "index must be a number")
  | _ => raise ("type " ++ kind_name (kind_of item) ++ " does not support slice operation")%string s1
  end.

(* invokeLetsExpr: x += e, x++ ... *)
Fixpoint invoke_lets_expr (ls rs : list expr) (s : rstate) : outcome :=
  match rs with
  | [] => Ok s
  | r :: rr =>
      do s1 <- rec (CExpr r) s;
      let s1' := set_rv s1 (unwrap (r_st s1) (r_rv s1)) in
      match ls with
      | l :: lr => do s2 <- rec (CLet l) s1'; invoke_lets_expr lr rr s2
      | [] => invoke_lets_expr [] rr s1'
      end
  end.

(* invokeTernaryOpExpr *)
Definition invoke_ternary (c l r : expr) (s : rstate) : outcome :=
  do s1 <- rec (CExpr c) s;
  truthy s1 (fun b => rec (CExpr (if b then l else r)) s1).

(* invokeNilCoalescingOpExpr: an error of the left side is replaced by the right side, unless the
   context is cancelled (the context is polled before the right side runs) *)
Definition invoke_coalesce (l r : expr) (s : rstate) : outcome :=
  match rec (CExpr l) s with
  | Ok s1 => if is_nil (deref (r_st s1) (r_rv s1)) then rec (CExpr r) s1 else Ok s1
  | Err _ s1 =>
      let '(cancelled, s2) := poll s1 in
      if cancelled then Err (ESentinel SInterruptS) (set_rv s2 rv_nil) else rec (CExpr r) s2
  | Abort a => Abort a
  end.

(* invokeLenExpr *)
Definition invoke_len (e : expr) (s : rstate) : outcome :=
  eval_operand e s (fun v s1 =>
    match v with
    | VSlice _ _ n _ => ret (VInt (Z.of_nat n)) s1
    | VMap _ => ret (VInt (Z.of_nat (len_of_st (r_st s1) v))) s1
    | VStr x => ret (VInt (Z.of_nat (String.length x))) s1
    | _ => raise ("type " ++ kind_name (kind_of v) ++ " does not support len operation")%string s1
    end).

(* invokeIncludeExpr *)
Fixpoint include_loop (st : store) (item : value) (vs : list value) : tri bool :=
  match vs with
  | [] => TOk false
  | v :: r => match equal orc st item v with
              | TOk true => TOk true
              | TOk false | TErr => include_loop st item r
              | TMiss w => TMiss w
              end
  end.

Definition invoke_include (item lst : expr) (s : rstate) : outcome :=
  eval_operand item s (fun iv s1 =>
  eval_operand lst s1 (fun lv s2 =>
    match lv with
    | VSlice l off n _ =>
        tri_bind (include_loop (r_st s2) iv (slice_elems (r_st s2) l off n)) (fun b => ret (VBool b) s2)
                 (ret (VBool false) s2)
    | _ => raise ("second argument must be slice or array; but have " ++ kind_name (kind_of lv))%string s2
    end)).

(* funcExpr: a closure over the current scope *)
Definition invoke_func (name : string) (body : option stmt) (params : list string) (vararg : bool) (s : rstate) : outcome :=
  let '(st', c) := alloc_closure (r_st s) (mkClosure name params vararg body (r_env s)) in
  let fv := Imm (VFunc c) in
  let st'' := if String.eqb name "" then st' else env_define st' (r_env s) name fv in
  Ok (set_rv (set_st s st'') fv).

(* anonCallExpr *)
Definition invoke_anon_call (f : expr) (args : list expr) (vararg go : bool) (s : rstate) : outcome :=
  eval_operand f s (fun fv s1 =>
    match fv with
    | VFunc _ | VHost _ => rec (CCall fv args vararg go) s1
    | _ => raise ("cannot call type " ++ kind_name (kind_of fv))%string s1
    end).

(* callExpr, looking the function up by name *)
Definition invoke_call_by_name (name : string) (args : list expr) (vararg go : bool) (s : rstate) : outcome :=
  match env_get (r_st s) (r_env s) name with
  | EnvModel.Ok r =>
      let fv := deref (r_st s) r in
      match fv with
      | VFunc _ | VHost _ => rec (CCall fv args vararg go) s
      | _ => raise ("cannot call type " ++ kind_name (kind_of fv))%string s
      end
  | EnvModel.Err _ => raise (undefined_symbol name) s
  | _ => Abort (APanic "env")
  end.

(* invokeExpr *)
Definition invoke_expr (e : expr) (s : rstate) : outcome :=
  match e with
  | EOp o => invoke_operator o s
  | EIdent x => match env_get (r_st s) (r_env s) x with
                | EnvModel.Ok r => Ok (set_rv s r)
                | EnvModel.Err _ => Err (EVm (undefined_symbol x)) (set_rv s rv_nil)
                | _ => Abort (APanic "env")
                end
  | ELit l => Ok (set_rv s (Imm (lit_value l)))
  | EArray es None => invoke_array es s
  | EArray _ (Some _) => unsupported "typed slice literal"
  | EMap ks vs None => invoke_map_entries ks vs s []
  | EMap _ _ (Some _) => unsupported "typed map literal"
  | EDeref _ => unsupported "deref"
  | EAddr _ => unsupported "addr"
  | EUnary op x => invoke_unary op x s
  | EParen x => rec (CExpr x) s
  | EMember x name => invoke_member x name s
  | EItem x i => invoke_item x i s
  | ESlice x b en c => invoke_slice x b en c s
  | ELets ls rs => invoke_lets_expr ls rs s
  | ETernary c l r => invoke_ternary c l r s
  | ECoalesce l r => invoke_coalesce l r s
  | ELen x => invoke_len x s
  | EImport _ => unsupported "import"
  | EMake _ _ _ => unsupported "make"
  | EMakeType _ _ => unsupported "make type"
  | EChan _ _ => unsupported "channel"
  | EFunc name body params vararg => invoke_func name body params vararg s
  | EAnonCall f args vararg go => invoke_anon_call f args vararg go s
  | ECall name args vararg go => invoke_call_by_name name args vararg go s
  | EInclude item lst => invoke_include item lst s
  end.

(* ------------------------------------------------------------------ *)
(* vmLetExpr.go                                                         *)

(* invokeLetItemSlice.  A store at index len appends and assigns the grown slice back through the item
   expression; when that expression is nothing one can assign to (a call, a slice expression) the
   assignment is attempted - and fails - before the append writes into capacity shared with other slices *)
Definition let_item_slice (item_expr : expr) (l off len cap : nat) (idx value : value) (s : rstate) : outcome :=
  tri_bind (try_to_int idx) (fun z =>
    if (z =? Z.of_nat len)%Z then
      do s0 <- (if is_place_expr item_expr then Ok s else rec (CLet item_expr) (set_rv s (Imm (VSlice l off len cap))));
      match append_value (r_st s0) l off len cap value with
      | Some (st', sl) =>
          do s1 <- rec (CLet item_expr) (set_rv (set_st s0 st') (Imm sl));
          match sl with
          | VSlice l' off' _ _ => Ok (set_rv s1 (Place l' (off' + len)))
          | _ => Abort (APanic "unreachable")
          end
      | None => unsupported "append beyond modelled size classes"
      end
    else if (z <? 0)%Z || (Z.of_nat len <=? z)%Z then raise "index out of range" s
    else let i := off + Z.to_nat z in
         Ok (set_rv (set_st s (array_set (r_st s) l i value)) (Place l i)))
    (raise "index must be a number" s).

(* invokeLetItemMap *)
Definition let_item_map (m : loc) (key value : value) (s : rstate) : outcome :=
  if negb (hashable key) then raise "type cannot be used as map key" s
  else match nth_error (st_maps (r_st s)) m with
       | Some es => Ok (set_st s (set_maps (r_st s) (list_set (st_maps (r_st s)) m (map_store es key value))))
       | None => Abort (APanic "dangling map")
       end.

Definition string_splice (x : string) (i : nat) (y : string) : string :=
  (String.substring 0 i x ++ y ++ String.substring (S i) (String.length x - S i) x)%string.

(* invokeLetItemString: strings held in scopes are not addressable; the rebuilt string is re-assigned *)
Definition let_item_string (item_expr : expr) (x : string) (idx value : value) (s : rstate) : outcome :=
  tri_bind (try_to_int idx) (fun z =>
    match value with
    | VStr y =>
        if (z =? Z.of_nat (String.length x))%Z then rec (CLet item_expr) (set_rv s (Imm (VStr (x ++ y)%string)))
        else if (z <? 0)%Z || (Z.of_nat (String.length x) <=? z)%Z then raise "index out of range" s
        else rec (CLet item_expr) (set_rv s (Imm (VStr (string_splice x (Z.to_nat z) y))))
    | VNil => unsupported "nil assigned into a string"
    | VInt _ => unsupported "integer converted to string (rune conversion)"
    | _ => raise "type cannot be assigned to type string" s
    end)
    (raise "index must be a number" s).

(* invokeLetItemExpr *)
Definition let_item (e i : expr) (s : rstate) : outcome :=
  let value := deref (r_st s) (r_rv s) in
  do s1 <- rec (CExpr e) s;
  let item_rv := r_rv s1 in
  do s2 <- rec (CExpr i) s1;
  let item := deref (r_st s2) item_rv in
  let idx := deref (r_st s2) (r_rv s2) in
  match item with
  | VSlice l off len cap => let_item_slice e l off len cap idx value s2
  | VMap m => let_item_map m idx value s2
  | VStr x => let_item_string e x idx value s2
  | _ => raise ("type " ++ kind_name (kind_of item) ++ " does not support index operation")%string s2
  end.

(* invokeLetMemberExpr *)
Definition let_member (e : expr) (name : string) (s : rstate) : outcome :=
  let value_rv := r_rv s in
  let value := deref (r_st s) (r_rv s) in
  do s1 <- rec (CExpr e) s;
  match deref (r_st s1) (r_rv s1) with
  | VEnv m => match env_set (r_st s1) m name value_rv with
              | Some st' => Ok (set_st s1 st')
              | None => raise (undefined_symbol name) s1
              end
  | VMap m => let_item_map m (VStr name) value s1
  | VErr _ => unsupported "member of an error value"
  | v => raise ("type " ++ kind_name (kind_of v) ++ " does not support member operation")%string s1
  end.

(* invokeLetSliceExpr: the result of Slice3 is never settable *)
Definition let_slice (e : expr) (b en c : option expr) (s : rstate) : outcome :=
  do s1 <- rec (CExpr e) s;
  let item := deref (r_st s1) (r_rv s1) in
  match item with
  | VSlice l off len cap =>
      let n := Z.of_nat len in
      eval_opt_index b s1 0%Z (fun bi s2 =>
        if (match b with Some _ => (bi <? 0)%Z | None => false end) then raise "index out of range" s2 else
        eval_opt_index en s2 n (fun ei s3 =>
          if (match en with Some _ => (n <? ei)%Z | None => false end) then raise "index out of range" s3 else
          if (ei <? bi)%Z then raise "index out of range" s3 else
          eval_opt_index c s3 (Z.of_nat cap) (fun ci s4 =>
            if (match c with Some _ => (ci <? ei)%Z || (Z.of_nat cap <? ci)%Z | None => false end)
            then raise "cap out of range" s4
            else raise "slice cannot be assigned" s4)
            (raise "cap must be a number"))
          (raise "index must be a number"))
        (raise "index must be a number")
  | VStr _ => raise "type string does not support slice operation for assignment" s1
  | _ => raise ("type " ++ kind_name (kind_of item) ++ " does not support slice operation")%string s1
  end.

(* invokeLetExpr *)
Definition invoke_let (e : expr) (s : rstate) : outcome :=
  match e with
  | EIdent x =>
      match env_set (r_st s) (r_env s) x (r_rv s) with
      | Some st' => Ok (set_st s st')
      | None => Ok (set_st s (env_define (r_st s) (r_env s) x (r_rv s)))
      end
  | EMember x name => let_member x name s
  | EItem x i => let_item x i s
  | ESlice x b en c => let_slice x b en c s
  | EDeref _ => unsupported "deref assignment"
  | EParen x => rec (CLet x) s
  | _ => raise "invalid operation" s
  end.

(* ------------------------------------------------------------------ *)
(* vmExprFunction.go: calls                                             *)

(* the host pool: Go functions with interface{} parameters and results.
   id, name, fixed parameters, variadic, number of results *)
Definition host_sig (h : nat) : option (nat * bool * nat) :=
  match h with
  | 0 => Some (1, false, 1)      (* probe(x) x : logs [x] *)
  | 1 => Some (2, false, 1)      (* probe2(a, b) a : logs [a, b] *)
  | 2 => Some (1, true, 1)       (* hvar(xs...) int64 count : logs xs *)
  | 3 => Some (1, false, 2)      (* hpair(a) (a, a) *)
  | 4 => Some (1, false, 1)      (* hpanic(x): panics *)
  | 5 => Some (1, false, 0)      (* hnone(x) : logs [x], no result *)
  | 6 => Some (3, false, 1)      (* hfix3(a, b, c) c : logs [a, b, c] *)
  | 7 => Some (0, false, 1)      (* hzero() int64 7 : logs [] *)
  | 8 => Some (1, false, 1)      (* hid(x) x : logs nothing *)
  | _ => None
  end.

(* the host function logs what it receives at the time of the call: containers are copied into
   fresh arrays / maps that nothing else refers to, so that later stores through the originals do not
   alter the log *)
Fixpoint freeze (fuel : nat) (st : store) (v : value) : store * value :=
  match fuel with
  | 0 => (st, v)
  | S f =>
    match v with
    | VSlice l off n _ =>
        let '(st1, fr) := fold_left (fun (p : store * list value) x => let '(s', y) := freeze f (fst p) x in (s', snd p ++ [y]))
                                    (slice_elems st l off n) (st, []) in
        let '(st2, l') := alloc_array st1 fr in (st2, VSlice l' 0 (length fr) (length fr))
    | VMap m =>
        match nth_error (st_maps st) m with
        | Some es =>
            let '(st1, fr) := fold_left (fun (p : store * list (value * value)) kx =>
                                           let '(s', y) := freeze f (fst p) (snd kx) in (s', snd p ++ [(fst kx, y)])) es (st, []) in
            let '(st2, m') := alloc_map st1 fr in (st2, VMap m')
        | None => (st, v)
        end
    | _ => (st, v)
    end
  end.

Definition log (st : store) (vs : list value) : store :=
  let '(st', vs') := fold_left (fun (p : store * list value) x => let '(s', y) := freeze 12 (fst p) x in (s', snd p ++ [y])) vs (st, []) in
  set_trace st' (vs' :: st_trace st').

(* f.Call(args) for a host function; panics inside are captured by the call-site recover *)
Definition host_call (h : nat) (args : list value) (s : rstate) : outcome :=
  let st := r_st s in
  match h, args with
  | 0, [x] => ret x (set_st s (log st [x]))
  | 1, [a; b] => ret a (set_st s (log st [a; b]))
  | 2, xs => ret (VInt (Z.of_nat (length xs))) (set_st s (log st xs))
  | 3, [a] => let '(st', sl) := new_slice st [a; a] in ret sl (set_st s st')
  | 4, [_] => Err (EGo "boom") (set_rv s rv_nil)
  | 5, [x] => Ok (set_rv (set_st s (log st [x])) rv_nil)
  | 6, [a; b; c] => ret c (set_st s (log st [a; b; c]))
  | 7, [] => ret (VInt 7) (set_st s (log st []))
  | 8, [x] => ret x s
  | _, _ => Abort (APanic "host called with a wrong number of arguments")
  end.

(* runVMFunc: the body of a script function in a fresh runInfo *)
Fixpoint define_params (st : store) (e : nat) (ps : list string) (args : list rval) : option store :=
  match ps, args with
  | [], _ => Some st
  | p :: pr, a :: ar => define_params (env_define st e p a) e pr ar
  | _ :: _, [] => None                       (* args[i] out of range *)
  end.

Definition run_vm_func (c : loc) (args : list rval) (s : rstate) : outcome :=
  match nth_error (st_closures (r_st s)) c with
  | None => Abort (APanic "dangling closure")
  | Some cl =>
      let '(st1, e) := env_new (r_st s) (cl_env cl) in
      match define_params st1 e (cl_params cl) args with
      | None => Abort (APanic "index out of range: parameter without argument")
      | Some st2 =>
          let callee := mkR st2 e rv_nil [] in
          let after_body := rec (CStmt (cl_body cl)) callee in
          let finish (o : outcome) : outcome :=
            (* if len(runInfo.defers) > 0 { runInfo.runDefers() } *)
            match o with
            | Abort a => Abort a
            | Ok c1 => match r_defers c1 with
                       | [] => Ok c1
                       | ds => rec (CDefers (rev ds) None) (set_defers c1 [])
                       end
            | Err e0 c1 => match r_defers c1 with
                           | [] => Err e0 c1
                           | ds => rec (CDefers (rev ds) (Some e0)) (set_defers c1 [])
                           end
            end in
          match finish after_body with
          | Abort a => Abort a
          | Ok c2 => Ok (set_rv (set_st s (r_st c2)) (r_rv c2))
          | Err (ESentinel SReturnS) c2 => Ok (set_rv (set_st s (r_st c2)) (r_rv c2))
          | Err e0 c2 => Err (wrap_err e0) (set_rv (set_st s (r_st c2)) rv_nil)
          end
      end
  end.

(* f.Call(args): for a script function the variadic tail arrives packed *)
Definition apply_fn (f : value) (args : list rval) (callslice : bool) (s : rstate) : outcome :=
  match f with
  | VFunc c => run_vm_func c args s
  | VHost h => host_call h (map (deref (r_st s)) args) s
  | _ => Abort (APanic "call of non-function")
  end.

(* processCallReturnValues for Go functions with several results: []interface{} of them;
   host functions of the pool return at most a prepared slice, so nothing to do here *)

Definition arity_error (want got : nat) (s : rstate) : outcome :=
  raise ("function wants " ++ nat_to_string want ++ " arguments but received " ++ nat_to_string got)%string s.

(* the []interface{} a variadic script function receives for its last parameter *)
Definition pack_variadic (vs : list value) (s : rstate) : rstate * rval :=
  let '(st', sl) := new_slice (r_st s) vs in (set_st s st', Imm sl).

(* the context is looked at once more when the arguments are evaluated (that may have taken long: a
   nested call of a slow Go function): a cancelled run does not enter another function *)
Definition call_finish (f : value) (argv : list rval) (callslice : bool) (s1 : rstate) : outcome :=
  let '(cancelled, s2) := poll s1 in
  if cancelled then Err (ESentinel SInterruptS) (set_rv s2 rv_nil)
  else rec (CApply f argv callslice) (set_rv s2 rv_nil).

(* callExpr (function already resolved) with callVMFunctionDirect and makeCallArgs.
   fixed = number of declared parameters (without ctx), for a variadic function
   including the variadic one. *)
Definition call_function (f : value) (args : list expr) (vararg go : bool) (s : rstate) : outcome :=
  let st := r_st s in
  let info : option (nat * bool * bool) :=          (* numIn, function variadic, is VM function *)
    match f with
    | VFunc c => match nth_error (st_closures st) c with
                 | Some cl => Some (length (cl_params cl), cl_vararg cl, true)
                 | None => None
                 end
    | VHost h => match host_sig h with
                 | Some (n, v, _) => Some (n, v, false)
                 | None => None
                 end
    | _ => None
    end in
  if go then unsupported "go call" else
  match info with
  | None => Abort (APanic "call of unknown function")
  | Some (num_in, fvar, isvm) =>
    let num_exprs := length args in
    let finish := call_finish f in
    (* the direct path: script function, plain call, exact count, at most 4 parameters;
       5 and more go through makeCallArgs with the same evaluation order *)
    if isvm && negb vararg && negb fvar && Nat.eqb num_in num_exprs then
      eval_rvals args s [] (fun argv s1 => finish argv false s1)
    else if num_in <? 1 then
      (* makeCallArgs, a function without parameters: a plain call with arguments is rejected;
         a spread call is accepted and its operands are neither counted nor evaluated
         (known_findings.txt: spread-into-noparam-skips-operands, pinned by the suite) *)
      if negb vararg && (0 <? num_exprs) then arity_error num_in num_exprs s
      else finish [] false s
    else if (negb fvar && negb vararg && negb (Nat.eqb num_in num_exprs))
         || (fvar && vararg && ((num_in <? num_exprs) || (S num_exprs <? num_in)))
         || (fvar && negb vararg && (S num_exprs <? num_in))
         || (negb fvar && vararg && ((num_in <? num_exprs) || (num_exprs <? 1)))
    then arity_error num_in num_exprs s
    else
      (* leading arguments: for indexInReal < numInReal-1 && indexExpr < numExprs-1 *)
      let lead := Nat.min (num_in - 1) (num_exprs - 1) in
      eval_rvals (firstn lead args) s [] (fun head s1 =>
        let rest := skipn lead args in
        if negb fvar && negb vararg then
          eval_rvals rest s1 [] (fun tl s2 => finish (head ++ tl) false s2)
        else if negb fvar && vararg then
          (* the last argument is spread over the remaining parameters *)
          match rest with
          | [e] =>
              do s2 <- rec (CExpr e) s1;
              match deref (r_st s2) (r_rv s2) with
              | VSlice l off n _ =>
                  let need := num_in - lead in
                  if n <? need then arity_error num_in (num_exprs + n - 1) s2
                  else finish (head ++ map (fun i => detach (r_st s2) (Place l (off + i))) (seq 0 need)) false s2
              | v => raise "call is variadic but last parameter is not a slice" s2
              end
          | _ => Abort (APanic "index out of range: spread call without argument")
          end
        else
          (* variadic function *)
          match rest with
          | [] => (* indexExpr == numExprs: no expression at all; the variadic tail is empty *)
                  if isvm then let '(s2, packed) := pack_variadic [] s1 in finish (head ++ [packed]) false s2
                  else finish head false s1
          | _ =>
            if num_exprs <? num_in then
              (* one fixed parameter left and exactly one expression: the variadic tail stays empty *)
              eval_rvals rest s1 [] (fun tl s2 =>
                if isvm then let '(s3, packed) := pack_variadic [] s2 in finish (head ++ tl ++ [packed]) false s3
                else finish (head ++ tl) false s2)
            else if negb vararg then
              (* remaining expressions are packed into the variadic parameter *)
              eval_values rest s1 [] (fun vs s2 =>
                let fixed_tail := firstn (num_in - 1 - lead) vs in
                let var_tail := skipn (num_in - 1 - lead) vs in
                if isvm then
                  let '(s3, packed) := pack_variadic var_tail s2 in
                  finish (head ++ map Imm fixed_tail ++ [packed]) false s3
                else finish (head ++ map Imm vs) false s2)
            else
              (* f(a, b...) : the last expression is the variadic slice itself (CallSlice) *)
              match rest with
              | [e] =>
                  do s2 <- rec (CExpr e) s1;
                  match deref (r_st s2) (r_rv s2) with
                  | VSlice l off n _ =>
                      if isvm then finish (head ++ [detach (r_st s2) (r_rv s2)]) true s2
                      else finish (head ++ map (fun i => detach (r_st s2) (Place l (off + i))) (seq 0 n)) true s2
                  | VNil => if isvm then unsupported "nil spread" else finish head true s2
                  | _ => raise "function wants argument type []interface {}" s2
                  end
              | _ => Abort (APanic "unreachable: variadic spread shape")
              end
          end)
  end.

(* ------------------------------------------------------------------ *)
(* vmStmt.go                                                            *)

Definition opt_expr (oe : option expr) (s : rstate) : outcome :=
  match oe with Some e => rec (CExpr e) s | None => Ok s end.

(* runStmtsStmt *)
Fixpoint run_stmts (l : list stmt) (s : rstate) : outcome :=
  match l with
  | [] => Ok s
  | SBreak :: _ => Err (ESentinel SBreakS) s
  | SContinue :: _ => Err (ESentinel SContinueS) s
  | (SReturn _ as st) :: _ =>
      do s1 <- rec (CStmt (Some st)) s;
      Err (ESentinel SReturnS) s1
  | st :: r => do s1 <- rec (CStmt (Some st)) s; run_stmts r s1
  end.

(* right-hand sides of var / lets: values are kept as reflect.Values; modules are deep-copied *)
Fixpoint eval_rhs (es : list expr) (s : rstate) (acc : list rval) (k : list rval -> rstate -> outcome) : outcome :=
  match es with
  | [] => k (rev acc) s
  | e :: r => do s1 <- rec (CExpr e) s;
              match copy_if_module (r_st s1) (r_rv s1) with
              | Some (st', rv') => eval_rhs r (set_st s1 st') (detach st' rv' :: acc) k
              | None => Abort (APanic "deep copy")
              end
  end.

Fixpoint define_all (st : store) (e : nat) (names : list string) (rvs : list rval) : store :=
  match names, rvs with
  | n :: nr, r :: rr => define_all (env_define st e n r) e nr rr
  | _, _ => st
  end.

(* runVarStmt *)
Definition run_var (names : list string) (es : list expr) (s : rstate) : outcome :=
  match names, es with
  | [], _ | _, [] => raise "invalid operation" s
  | _, _ =>
  eval_rhs es s [] (fun rvs s1 =>
    let st := r_st s1 in
    let spread :=
      match rvs, names with
      | [r], _ :: _ :: _ =>
          match deref st (unwrap st r) with
          | VSlice l off (S n) _ => Some (l, off, S n)
          | _ => None
          end
      | _, _ => None
      end in
    match spread with
    | Some (l, off, n) =>
        let places := map (fun i => detach st (Place l (off + i))) (seq 0 n) in
        Ok (set_rv (set_st s1 (define_all st (r_env s1) names places)) (Place l (off + n - 1)))
    | None =>
        match rev rvs with
        | [] => Abort (APanic "unreachable: empty right-hand side")
        | last :: _ => Ok (set_rv (set_st s1 (define_all st (r_env s1) names rvs)) last)
        end
    end)
  end.

Fixpoint let_all (ls : list expr) (rvs : list rval) (s : rstate) (unwrap_each : bool) : outcome :=
  match ls, rvs with
  | l :: lr, r :: rr =>
      (* the elements of an unpacked list are read, and detached, one by one as they are assigned *)
      let r' := if unwrap_each then unwrap (r_st s) r else detach (r_st s) r in
      do s1 <- rec (CLet l) (set_rv s r'); let_all lr rr s1 unwrap_each
  | _, _ => Ok s
  end.

(* runLetsStmt *)
Definition run_lets (ls rs : list expr) (s : rstate) : outcome :=
  match ls, rs with
  | [], _ | _, [] => raise "invalid operation" s
  | _, _ =>
    eval_rhs rs s [] (fun rvs s1 =>
      let st := r_st s1 in
      let spread :=
        match rvs, ls with
        | [r], _ :: _ :: _ =>
            match deref st (unwrap st r) with
            | VSlice l off (S n) _ => Some (l, off, S n)
            | _ => None
            end
        | _, _ => None
        end in
      match spread with
      | Some (l, off, n) =>
          do s2 <- let_all ls (map (fun i => Place l (off + i)) (seq 0 n)) s1 false;
          Ok (set_rv s2 (Place l (off + n - 1)))
      | None =>
          do s2 <- let_all ls rvs s1 true;
          match rev rvs with
          | last :: _ => Ok (set_rv s2 last)
          | [] => Abort (APanic "unreachable")
          end
      end)
  end.

(* runLetMapItemStmt: a, ok = m[k] *)
Definition run_let_map_item (ls : list expr) (r : expr) (s : rstate) : outcome :=
  do s1 <- rec (CExpr r) s;
  let rv := r_rv s1 in
  let isnil := is_nil (deref (r_st s1) rv) in
  let rvs := if isnil then [rv_nil; Imm (VBool false)] else [rv; Imm (VBool true)] in
  match ls with
  | _ :: _ :: _ :: _ => Abort (APanic "index out of range: more than two targets")
  | _ =>
      do s2 <- let_all ls rvs s1 true;
      Ok (set_rv s2 (if isnil then rv_nil else rv))
  end.

(* runIfStmt *)
Fixpoint run_elifs (elifs : list stmt) (el : option stmt) (env0 : nat) (s : rstate) : outcome :=
  match elifs with
  | SIf c th _ _ :: r =>
      let '(st1, e1) := env_new (r_st s) env0 in
      match rec (CExpr c) (set_env (set_st s st1) e1) with
      | Err e s1 => Err e (set_env s1 env0)
      | Abort a => Abort a
      | Ok s1 =>
          truthy s1 (fun b =>
            if b then
              let '(st2, e2) := env_new (r_st s1) env0 in
              match rec (CStmt th) (set_env (set_rv (set_st s1 st2) rv_nil) e2) with
              | Ok s2 => Ok (set_env s2 env0)
              | Err e s2 => Err e (set_env s2 env0)
              | Abort a => Abort a
              end
            else run_elifs r el env0 s1)
      end
  | _ :: _ => Abort (APanic "interface conversion: else-if is not an IfStmt")
  | [] =>
      match el with
      | Some _ =>
          let '(st2, e2) := env_new (r_st s) env0 in
          match rec (CStmt el) (set_env (set_rv (set_st s st2) rv_nil) e2) with
          | Ok s2 => Ok (set_env s2 env0)
          | Err e s2 => Err e (set_env s2 env0)
          | Abort a => Abort a
          end
      | None => Ok (set_env s env0)
      end
  end.

Definition run_if (c : expr) (th : option stmt) (elifs : list stmt) (el : option stmt) (s : rstate) : outcome :=
  do s1 <- rec (CExpr c) s;
  let env0 := r_env s1 in
  truthy s1 (fun b =>
    if b then
      let '(st2, e2) := env_new (r_st s1) env0 in
      match rec (CStmt th) (set_env (set_rv (set_st s1 st2) rv_nil) e2) with
      | Ok s2 => Ok (set_env s2 env0)
      | Err e s2 => Err e (set_env s2 env0)
      | Abort a => Abort a
      end
    else run_elifs elifs el env0 s1).

(* runTryStmt: try, catch and finally share one child scope *)
Definition run_try (t : option stmt) (v : string) (c f : option stmt) (s : rstate) : outcome :=
  let env0 := r_env s in
  let '(st1, e1) := env_new (r_st s) env0 in
  let fin (s2 : rstate) : outcome :=
    match f with
    | Some _ => match rec (CStmt f) s2 with
                | Ok s3 => Ok (set_env s3 env0)
                | Err e s3 => Err e (set_env s3 env0)
                | Abort a => Abort a
                end
    | None => Ok (set_env s2 env0)
    end in
  match rec (CStmt t) (set_env (set_st s st1) e1) with
  | Abort a => Abort a
  | Ok s1 => fin s1
  | Err (ESentinel SInterruptS) s1 => Err (ESentinel SInterruptS) (set_env s1 env0)
  | Err e s1 =>
      let st2 := if String.eqb v "" then r_st s1 else env_define (r_st s1) (r_env s1) v (Imm (VErr e)) in
      match rec (CStmt c) (set_st s1 st2) with
      | Abort a => Abort a
      | Err e2 s2 => Err e2 (set_env s2 env0)
      | Ok s2 => fin s2
      end
  end.

(* one iteration of the loop of runLoopStmt; r_env is the loop scope, env0 the saved one *)
Definition loop_iter (c : option expr) (body : option stmt) (env0 : nat) (s : rstate) : outcome :=
  let '(cancelled, s0) := poll s in
  if cancelled then Err (ESentinel SInterruptS) (set_env (set_rv s0 rv_nil) env0) else
  let leave (s1 : rstate) : outcome := Ok (set_env (set_rv s1 rv_nil) env0) in
  let after_cond (s1 : rstate) : outcome :=
    match rec (CStmt body) s1 with
    | Abort a => Abort a
    | Ok s2 => rec (CLoop c body env0) s2
    | Err (ESentinel SContinueS) s2 => rec (CLoop c body env0) s2
    | Err (ESentinel SReturnS) s2 => Err (ESentinel SReturnS) (set_env s2 env0)
    | Err (ESentinel SBreakS) s2 => leave s2
    | Err e s2 => Err e (set_env (set_rv s2 rv_nil) env0)
    end in
  match c with
  | None => after_cond s0
  | Some ce =>
      match rec (CExpr ce) s0 with
      | Abort a => Abort a
      | Err e s1 => Err e (set_env (set_rv s1 rv_nil) env0)
      | Ok s1 => truthy s1 (fun b => if b then after_cond s1 else leave s1)
      end
  end.

(* runLoopStmt *)
Definition run_loop (c : option expr) (body : option stmt) (s : rstate) : outcome :=
  let env0 := r_env s in
  let '(st1, e1) := env_new (r_st s) env0 in
  rec (CLoop c body env0) (set_env (set_st s st1) e1).

(* runForSliceStmt, iteration i *)
Definition for_slice_iter (var : string) (body : option stmt) (l off len i : nat) (s : rstate) : outcome :=
  if len <=? i then Ok (set_rv s rv_nil) else
  let '(cancelled, s0) := poll s in
  if cancelled then Err (ESentinel SInterruptS) (set_rv s0 rv_nil) else
  let iv := deref (r_st s0) (Place l (off + i)) in
  let st1 := env_define (r_st s0) (r_env s0) var (Imm iv) in
  match rec (CStmt body) (set_st s0 st1) with
  | Abort a => Abort a
  | Ok s2 => rec (CForSlice var body l off len (S i)) s2
  | Err (ESentinel SContinueS) s2 => rec (CForSlice var body l off len (S i)) s2
  | Err (ESentinel SReturnS) s2 => Err (ESentinel SReturnS) s2
  | Err (ESentinel SBreakS) s2 => Ok (set_rv s2 rv_nil)
  | Err e s2 => Err e (set_rv s2 rv_nil)
  end.

(* runForMapStmt over the keys taken at loop entry *)
Definition for_map_iter (vars : list string) (body : option stmt) (m : loc) (keys : list value) (s : rstate) : outcome :=
  match keys with
  | [] => Ok (set_rv s rv_nil)
  | k :: kr =>
      let '(cancelled, s0) := poll s in
      if cancelled then Err (ESentinel SInterruptS) (set_rv s0 rv_nil) else
      match vars with
      | [] => Abort (APanic "index out of range: for without variable")
      | v0 :: vr =>
          let st1 := env_define (r_st s0) (r_env s0) v0 (Imm k) in
          let st2 := match vr with
                     | v1 :: _ =>
                         (* value.MapIndex(key): the zero Value when the key is gone *)
                         match nth_error (st_maps st1) m with
                         | Some es => match map_lookup es k with
                                      | Some x => env_define st1 (r_env s0) v1 (Imm x)
                                      | None => st1
                                      end
                         | None => st1
                         end
                     | [] => st1
                     end in
          let gone := match vr, nth_error (st_maps st1) m with
                      | _ :: _, Some es => match map_lookup es k with None => true | Some _ => false end
                      | _, _ => false
                      end in
          if gone then unsupported "map entry deleted during iteration (zero Value defined)" else
          match rec (CStmt body) (set_st s0 st2) with
          | Abort a => Abort a
          | Ok s2 => rec (CForMap vars body m kr) s2
          | Err (ESentinel SContinueS) s2 => rec (CForMap vars body m kr) s2
          | Err (ESentinel SReturnS) s2 => Err (ESentinel SReturnS) s2
          | Err (ESentinel SBreakS) s2 => Ok (set_rv s2 rv_nil)
          | Err e s2 => Err e (set_rv s2 rv_nil)
          end
      end
  end.

(* runForStmt *)
Definition run_for (vars : list string) (value : expr) (body : option stmt) (s : rstate) : outcome :=
  do s1 <- rec (CExpr value) s;
  let v := deref (r_st s1) (r_rv s1) in
  let env0 := r_env s1 in
  let '(st1, e1) := env_new (r_st s1) env0 in
  let s2 := set_env (set_st s1 st1) e1 in
  let restore (o : outcome) : outcome :=
    match o with
    | Ok s3 => Ok (set_env s3 env0)
    | Err e s3 => Err e (set_env s3 env0)
    | Abort a => Abort a
    end in
  match v with
  | VSlice l off len _ =>
      match vars with
      | v0 :: _ => restore (rec (CForSlice v0 body l off len 0) s2)
      | [] => Abort (APanic "index out of range: for without variable")
      end
  | VMap m =>
      match nth_error (st_maps (r_st s2)) m with
      | Some es =>
          if 1 <? length es then unsupported "iteration order over a map with more than one entry"
          else restore (rec (CForMap vars body m (map fst es)) s2)
      | None => Abort (APanic "dangling map")
      end
  | _ => restore (raise ("for cannot loop over type " ++ kind_name (kind_of v))%string s2)
  end.

(* one iteration of runCForStmt *)
Definition cfor_iter (e2 e3 : option expr) (body : option stmt) (env0 : nat) (s : rstate) : outcome :=
  let '(cancelled, s0) := poll s in
  if cancelled then Err (ESentinel SInterruptS) (set_env (set_rv s0 rv_nil) env0) else
  let leave (s1 : rstate) : outcome := Ok (set_env (set_rv s1 rv_nil) env0) in
  let post (s2 : rstate) : outcome :=
    match e3 with
    | None => rec (CCFor e2 e3 body env0) s2
    | Some pe => match rec (CExpr pe) s2 with
                 | Abort a => Abort a
                 | Ok s3 => rec (CCFor e2 e3 body env0) s3
                 | Err e s3 => Err e (set_env (set_rv s3 rv_nil) env0)
                 end
    end in
  let after_cond (s1 : rstate) : outcome :=
    match rec (CStmt body) s1 with
    | Abort a => Abort a
    | Ok s2 => post s2
    | Err (ESentinel SContinueS) s2 => post s2
    | Err (ESentinel SReturnS) s2 => Err (ESentinel SReturnS) (set_env s2 env0)
    | Err (ESentinel SBreakS) s2 => leave s2
    | Err e s2 => Err e (set_env (set_rv s2 rv_nil) env0)
    end in
  match e2 with
  | None => after_cond s0
  | Some ce =>
      match rec (CExpr ce) s0 with
      | Abort a => Abort a
      | Err e s1 => Err e (set_env (set_rv s1 rv_nil) env0)
      | Ok s1 => truthy s1 (fun b => if b then after_cond s1 else leave s1)
      end
  end.

(* runCForStmt *)
Definition run_cfor (s1o : option stmt) (e2 e3 : option expr) (body : option stmt) (s : rstate) : outcome :=
  let env0 := r_env s in
  let '(st1, e1) := env_new (r_st s) env0 in
  let s1 := set_env (set_st s st1) e1 in
  match s1o with
  | Some _ =>
      match rec (CStmt s1o) s1 with
      | Abort a => Abort a
      | Err e s2 => Err e (set_env s2 env0)
      | Ok s2 => rec (CCFor e2 e3 body env0) s2
      end
  | None => rec (CCFor e2 e3 body env0) s1
  end.

(* runReturnStmt *)
Definition run_return (es : list expr) (s : rstate) : outcome :=
  match es with
  | [] => Ok (set_rv s rv_nil)
  | [e] => (* the result is the value at the return statement: deferred calls run after it *)
           match rec (CExpr e) s with
           | Ok s1 => Ok (set_rv s1 (detach (r_st s1) (r_rv s1)))
           | Err er s1 => Err er (set_rv s1 (detach (r_st s1) (r_rv s1)))
           | Abort a => Abort a
           end
  | _ => eval_values es s [] (fun vs s1 => let '(st', sl) := new_slice (r_st s1) vs in ret sl (set_st s1 st'))
  end.

(* runModuleStmt *)
Definition run_module (name : string) (body : option stmt) (s : rstate) : outcome :=
  let env0 := r_env s in
  match @new_module rval unit mk_env_r (st_heap (r_st s)) env0 name with
  | (h, m, EnvModel.Ok _) =>
      match rec (CStmt body) (set_env (set_st s (set_heap (r_st s) h)) m) with
      | Abort a => Abort a
      | Err e s1 => Err e (set_env s1 env0)
      | Ok s1 => Ok (set_rv (set_env s1 env0) rv_nil)
      end
  | (h, m, _) =>
      (* e.NewModule failed (dotted name): runInfo.env is the new module and is not put back *)
      Err (EGo "symbol contains '.'") (set_env (set_st s (set_heap (r_st s) h)) m)
  end.

(* runSwitchStmt *)
Fixpoint switch_case_exprs (es : list expr) (value : value) (body : option stmt) (env0 : nat) (s : rstate)
         (next : rstate -> outcome) : outcome :=
  match es with
  | [] => next s
  | e :: r =>
      match rec (CExpr e) s with
      | Abort a => Abort a
      | Err er s1 => Err er (set_env s1 env0)
      | Ok s1 =>
          tri_bind (equal orc (r_st s1) (deref (r_st s1) (r_rv s1)) value) (fun b =>
            if b then
              match rec (CStmt body) s1 with
              | Abort a => Abort a
              | Ok s2 => Ok (set_env s2 env0)
              | Err er s2 => Err er (set_env s2 env0)
              end
            else switch_case_exprs r value body env0 s1 next)
            (switch_case_exprs r value body env0 s1 next)
      end
  end.

Fixpoint switch_cases (cases : list stmt) (value : value) (default : option stmt) (env0 : nat) (s : rstate) : outcome :=
  match cases with
  | SSwitchCase es body :: r =>
      switch_case_exprs es value body env0 s (fun s1 => switch_cases r value default env0 s1)
  | _ :: _ => Abort (APanic "interface conversion: case is not a SwitchCaseStmt")
  | [] =>
      match default with
      | None => Ok (set_env (set_rv s rv_nil) env0)
      | Some _ => match rec (CStmt default) s with
                  | Abort a => Abort a
                  | Ok s1 => Ok (set_env s1 env0)
                  | Err e s1 => Err e (set_env s1 env0)
                  end
      end
  end.

Definition run_switch (e : expr) (cases : list stmt) (default : option stmt) (s : rstate) : outcome :=
  let env0 := r_env s in
  let '(st1, e1) := env_new (r_st s) env0 in
  match rec (CExpr e) (set_env (set_st s st1) e1) with
  | Abort a => Abort a
  | Err er s1 => Err er (set_env s1 env0)
  | Ok s1 => switch_cases cases (deref (r_st s1) (r_rv s1)) default env0 s1
  end.

(* building the arguments of a deferred call: makeCallArgs on the registered function.
   The call itself runs later (CDefers); evaluation order and arity rules are those of calls. *)
Definition register_defer (f : value) (args : list expr) (vararg : bool) (s : rstate) : outcome :=
  let st := r_st s in
  let info : option (nat * bool * bool) :=
    match f with
    | VFunc c => match nth_error (st_closures st) c with
                 | Some cl => Some (length (cl_params cl), cl_vararg cl, true)
                 | None => None
                 end
    | VHost h => match host_sig h with Some (n, v, _) => Some (n, v, false) | None => None end
    | _ => None
    end in
  match info with
  | None => Abort (APanic "defer of unknown function")
  | Some (num_in, fvar, isvm) =>
    let num_exprs := length args in
    let reg (argv : list rval) (callslice : bool) (s1 : rstate) : outcome :=
      Ok (set_rv (set_defers s1 (r_defers s1 ++ [mkD f argv callslice])) rv_nil) in
    if fvar || vararg then unsupported "variadic deferred call"
    else if num_in <? 1 then (if 0 <? num_exprs then arity_error num_in num_exprs s else reg [] false s)
    else if negb (Nat.eqb num_in num_exprs) then arity_error num_in num_exprs s
    else eval_rvals args s [] (fun argv s1 => reg argv false s1)
  end.

(* runDeferStmt *)
Definition run_defer (e : expr) (s : rstate) : outcome :=
  match e with
  | ECall name args vararg _ =>
      match env_get (r_st s) (r_env s) name with
      | EnvModel.Ok r =>
          let fv := deref (r_st s) r in
          match fv with
          | VFunc _ | VHost _ => register_defer fv args vararg s
          | _ => raise ("cannot call type " ++ kind_name (kind_of fv))%string s
          end
      | EnvModel.Err _ => raise (undefined_symbol name) s
      | _ => Abort (APanic "env")
      end
  | EAnonCall f args vararg _ =>
      eval_operand f s (fun fv s1 =>
        match fv with
        | VFunc _ | VHost _ => register_defer fv args vararg s1
        | _ => raise ("cannot call type " ++ kind_name (kind_of fv))%string s1
        end)
  | _ => raise "expression in defer must be function call" s
  end.

(* runDefers: [ds] is the registered list already reversed (last registered first);
   err0 is the error the body ended with.  The result register is kept. *)
Definition run_defers (ds : list dcall) (err0 : option err) (s : rstate) : outcome :=
  match ds with
  | [] => match err0 with Some e => Err e s | None => Ok s end
  | d :: r =>
      let rv0 := detach (r_st s) (r_rv s) in
      match rec (CApply (d_fn d) (d_args d) (d_slice d)) s with
      | Abort a => Abort a
      | Ok s1 => rec (CDefers r err0) (set_rv s1 rv0)
      | Err e s1 =>
          let err1 := match err0 with
                      | None | Some (ESentinel SReturnS) => Some e
                      | Some x => Some x
                      end in
          rec (CDefers r err1) (set_rv s1 rv0)
      end
  end.

(* runDeleteStmt *)
Definition run_delete (item : expr) (key : option expr) (s : rstate) : outcome :=
  do s1 <- rec (CExpr item) s;
  let item_rv := r_rv s1 in
  do s2 <- opt_expr key s1;
  let iv := deref (r_st s2) item_rv in
  let kv := deref (r_st s2) (r_rv s2) in
  match iv with
  | VStr name =>
      let global := match key, kv with Some _, VBool true => true | _, _ => false end in
      if global then
        match @delete_global rval unit (hfuel (r_st s2)) (st_heap (r_st s2)) (r_env s2) name with
        | EnvModel.Ok h => Ok (set_rv (set_st s2 (set_heap (r_st s2) h)) rv_nil)
        | _ => Abort (APanic "env")
        end
      else Ok (set_rv (set_st s2 (set_heap (r_st s2) (@delete rval unit (st_heap (r_st s2)) (r_env s2) name))) rv_nil)
  | VMap m =>
      match key with
      | None => raise "second argument to delete cannot be nil for map" s2
      | Some _ =>
          if negb (hashable kv) then raise "type cannot be used as map key in delete" s2
          else match nth_error (st_maps (r_st s2)) m with
               | Some es => Ok (set_rv (set_st s2 (set_maps (r_st s2) (list_set (st_maps (r_st s2)) m (map_remove es kv)))) rv_nil)
               | None => Abort (APanic "dangling map")
               end
      end
  | _ => raise ("first argument to delete cannot be type " ++ kind_name (kind_of iv))%string s2
  end.

(* runSingleStmt *)
Definition run_single (so : option stmt) (s : rstate) : outcome :=
  let '(cancelled, s0) := poll s in
  if cancelled then Err (ESentinel SInterruptS) (set_rv s0 rv_nil) else
  match so with
  | None => Ok s0
  | Some st =>
    match st with
    | SStmts l => run_stmts l s0
    | SExpr e => rec (CExpr e) s0
    | SVar names es => run_var names es s0
    | SLets ls rs => run_lets ls rs s0
    | SLetMapItem ls r => run_let_map_item ls r s0
    | SIf c th elifs el => run_if c th elifs el s0
    | STry t v c f => run_try t v c f s0
    | SLoop c body => run_loop c body s0
    | SFor vars value body => run_for vars value body s0
    | SCFor s1 e2 e3 body => run_cfor s1 e2 e3 body s0
    | SReturn es => run_return es s0
    | SThrow e =>
        do s1 <- rec (CExpr e) s0;
        (* throw always raises, also with an empty message *)
        tri_bind (to_string_st orc (r_st s1) (deref (r_st s1) (r_rv s1)))
                 (fun m => Err (EVm m) s1) (unsupported "throw of container")
    | SModule name body => run_module name body s0
    | SSwitch e cases default => run_switch e cases default s0
    | SGo _ => unsupported "go statement"
    | SDefer e => run_defer e s0
    | SDelete item key => run_delete item key s0
    | SClose _ => unsupported "close"
    | SChan _ _ _ => unsupported "channel receive statement"
    | SBreak | SContinue | SSwitchCase _ _ => Err (EVm "unknown statement") (set_rv s0 rv_nil)
    end
  end.

(* callExpr polls the context once the callee is known to be a function, before any argument
   is evaluated: after cancellation no further call (script or host) is started *)
Definition call_polled (f : value) (args : list expr) (vararg go : bool) (s : rstate) : outcome :=
  let '(cancelled, s0) := poll s in
  if cancelled then Err (ESentinel SInterruptS) (set_rv s0 rv_nil) else call_function f args vararg go s0.

Definition exec_body (c : cmd) (s : rstate) : outcome :=
  match c with
  | CStmt so => run_single so s
  | CExpr e => invoke_expr e s
  | CLet e => invoke_let e s
  | CCall f args vararg go => call_polled f args vararg go s
  | CApply f args cs => apply_fn f args cs s
  | CLoop c body env0 => loop_iter c body env0 s
  | CForSlice var body l off len i => for_slice_iter var body l off len i s
  | CForMap vars body m keys => for_map_iter vars body m keys s
  | CCFor e2 e3 body env0 => cfor_iter e2 e3 body env0 s
  | CDefers ds err0 => run_defers ds err0 s
  end.

End Model.

Fixpoint exec (orc : oracle) (cancel_at : option nat) (fuel : nat) (c : cmd) (s : rstate) : outcome :=
  match fuel with
  | 0 => Abort AFuel
  | S f => exec_body orc cancel_at (exec orc cancel_at f) c s
  end.

(* RunContext: the statement, then the deferred calls of the top level, ErrReturn is success *)
Definition run_context (orc : oracle) (cancel_at : option nat) (fuel : nat) (prog : option stmt) (s : rstate) : outcome :=
  let finish (o : outcome) : outcome :=
    match o with
    | Abort a => Abort a
    | Ok s1 => match r_defers s1 with
               | [] => Ok s1
               | ds => exec orc cancel_at fuel (CDefers (rev ds) None) (set_defers s1 [])
               end
    | Err e s1 => match r_defers s1 with
                  | [] => Err e s1
                  | ds => exec orc cancel_at fuel (CDefers (rev ds) (Some e)) (set_defers s1 [])
                  end
    end in
  match finish (exec orc cancel_at fuel (CStmt prog) s) with
  | Err (ESentinel SReturnS) s1 => Ok s1
  | o => o
  end.
