(* Decoder for the tree dumped by harness/astdump.go (reflection over the real
   parser's output), the projection of results to canonical text, and the entry
   point of the extracted interpreter model. *)
From Coq Require Import String Ascii List ZArith NArith Bool Arith Floats.SpecFloat.
From Anko Require Import Base.Assoc Base.Sexp Base.Int64 Base.F64 Env.EnvModel
     Interp.Ast Interp.Value Interp.ToX Interp.Equal Interp.Model.
Import ListNotations.
Open Scope nat_scope.
Open Scope list_scope.

(* ---------------- decoding ---------------- *)
Definition dec_lit (s : sexp) : option lit :=
  match s with
  | SL [SA "nil"%string] => Some LNil
  | SL [SA "bool"%string; b] => option_map LBool (as_bool b)
  | SL [SA "int"%string; z] => option_map LInt (as_Z z)
  | SL [SA "float"%string; b] => option_map (fun z => LFloat (of_bits z)) (as_Z b)
  | SL [SA "str"%string; SA x] => Some (LStr x)
  | _ => None
  end.

Fixpoint dec_ty (fuel : nat) (s : sexp) : option tystruct :=
  match fuel with
  | 0 => None
  | S f =>
    match s with
    | SL [k; env; SA name; dims; sub; key; snames; stypes] =>
        match as_nat k, as_list as_atom env, as_nat dims, as_opt (dec_ty f) sub, as_opt (dec_ty f) key,
              as_list as_atom snames, as_list (dec_ty f) stypes with
        | Some k, Some env, Some dims, Some sub, Some key, Some sn, Some stys =>
            Some (TS k env name dims sub key sn stys)
        | _, _, _, _, _, _, _ => None
        end
    | _ => None
    end
  end.

Definition dty (s : sexp) : option (option tystruct) := as_opt (dec_ty 20) s.

Definition ob {A B} (o : option A) (k : A -> option B) : option B :=
  match o with Some a => k a | None => None end.

Fixpoint dec_expr (fuel : nat) (s : sexp) : option expr :=
  match fuel with
  | 0 => None
  | S f =>
    let E := dec_expr f in
    let Es := as_list (dec_expr f) in
    let Eo := as_opt (dec_expr f) in
    let So := as_opt (dec_stmt f) in
    match s with
    | SL [SA "OpExpr"%string; o] => option_map EOp (dec_oper f o)
    | SL [SA "LiteralExpr"%string; l] => option_map ELit (dec_lit l)
    | SL [SA "ArrayExpr"%string; es; ty] => ob (Es es) (fun es => ob (dty ty) (fun ty => Some (EArray es ty)))
    | SL [SA "MapExpr"%string; ks; vs; ty] =>
        ob (Es ks) (fun ks => ob (Es vs) (fun vs => ob (dty ty) (fun ty => Some (EMap ks vs ty))))
    | SL [SA "IdentExpr"%string; SA x] => Some (EIdent x)
    | SL [SA "UnaryExpr"%string; SA op; e] => option_map (EUnary op) (E e)
    | SL [SA "AddrExpr"%string; e] => option_map EAddr (E e)
    | SL [SA "DerefExpr"%string; e] => option_map EDeref (E e)
    | SL [SA "ParenExpr"%string; e] => option_map EParen (E e)
    | SL [SA "NilCoalescingOpExpr"%string; l; r] => ob (E l) (fun l => ob (E r) (fun r => Some (ECoalesce l r)))
    | SL [SA "TernaryOpExpr"%string; c; l; r] =>
        ob (E c) (fun c => ob (E l) (fun l => ob (E r) (fun r => Some (ETernary c l r))))
    | SL [SA "CallExpr"%string; _; SA name; args; va; go] =>
        ob (Es args) (fun args => ob (as_bool va) (fun va => ob (as_bool go) (fun go => Some (ECall name args va go))))
    | SL [SA "AnonCallExpr"%string; fn; args; va; go] =>
        ob (E fn) (fun fn => ob (Es args) (fun args => ob (as_bool va) (fun va => ob (as_bool go) (fun go =>
          Some (EAnonCall fn args va go)))))
    | SL [SA "MemberExpr"%string; e; SA name] => option_map (fun e => EMember e name) (E e)
    | SL [SA "ItemExpr"%string; e; i] => ob (E e) (fun e => ob (E i) (fun i => Some (EItem e i)))
    | SL [SA "SliceExpr"%string; e; b; en; c] =>
        ob (E e) (fun e => ob (Eo b) (fun b => ob (Eo en) (fun en => ob (Eo c) (fun c => Some (ESlice e b en c)))))
    | SL [SA "FuncExpr"%string; SA name; body; params; va] =>
        ob (So body) (fun body => ob (as_list as_atom params) (fun ps => ob (as_bool va) (fun va =>
          Some (EFunc name body ps va))))
    | SL [SA "LetsExpr"%string; ls; rs] => ob (Es ls) (fun ls => ob (Es rs) (fun rs => Some (ELets ls rs)))
    | SL [SA "ChanExpr"%string; l; r] => ob (Eo l) (fun l => ob (E r) (fun r => Some (EChan l r)))
    | SL [SA "ImportExpr"%string; e] => option_map EImport (E e)
    | SL [SA "MakeExpr"%string; ty; l; c] =>
        ob (dty ty) (fun ty => ob (Eo l) (fun l => ob (Eo c) (fun c => Some (EMake ty l c))))
    | SL [SA "MakeTypeExpr"%string; SA name; e] => option_map (EMakeType name) (E e)
    | SL [SA "LenExpr"%string; e] => option_map ELen (E e)
    | SL [SA "IncludeExpr"%string; i; l] => ob (E i) (fun i => ob (E l) (fun l => Some (EInclude i l)))
    | _ => None
    end
  end
with dec_oper (fuel : nat) (s : sexp) : option oper :=
  match fuel with
  | 0 => None
  | S f =>
    match s with
    | SL [SA k; l; SA op; r] =>
        ob (dec_expr f l) (fun l => ob (dec_expr f r) (fun r =>
          if String.eqb k "BinaryOperator" then Some (OBinary l op r)
          else if String.eqb k "ComparisonOperator" then Some (OCompare l op r)
          else if String.eqb k "AddOperator" then Some (OAdd l op r)
          else if String.eqb k "MultiplyOperator" then Some (OMul l op r)
          else None))
    | _ => None
    end
  end
with dec_stmt (fuel : nat) (s : sexp) : option stmt :=
  match fuel with
  | 0 => None
  | S f =>
    let E := dec_expr f in
    let Es := as_list (dec_expr f) in
    let Eo := as_opt (dec_expr f) in
    let S_ := dec_stmt f in
    let Ss := as_list (dec_stmt f) in
    let So := as_opt (dec_stmt f) in
    match s with
    | SL [SA "StmtsStmt"%string; l] => option_map SStmts (Ss l)
    | SL [SA "ExprStmt"%string; e] => option_map SExpr (E e)
    | SL [SA "IfStmt"%string; c; th; elifs; el] =>
        ob (E c) (fun c => ob (So th) (fun th => ob (Ss elifs) (fun elifs => ob (So el) (fun el => Some (SIf c th elifs el)))))
    | SL [SA "TryStmt"%string; t; SA v; c; fi] =>
        ob (So t) (fun t => ob (So c) (fun c => ob (So fi) (fun fi => Some (STry t v c fi))))
    | SL [SA "ForStmt"%string; vars; v; body] =>
        ob (as_list as_atom vars) (fun vars => ob (E v) (fun v => ob (So body) (fun body => Some (SFor vars v body))))
    | SL [SA "CForStmt"%string; s1; e2; e3; body] =>
        ob (So s1) (fun s1 => ob (Eo e2) (fun e2 => ob (Eo e3) (fun e3 => ob (So body) (fun body => Some (SCFor s1 e2 e3 body)))))
    | SL [SA "LoopStmt"%string; c; body] => ob (Eo c) (fun c => ob (So body) (fun body => Some (SLoop c body)))
    | SL [SA "BreakStmt"%string] => Some SBreak
    | SL [SA "ContinueStmt"%string] => Some SContinue
    | SL [SA "ReturnStmt"%string; es] => option_map SReturn (Es es)
    | SL [SA "ThrowStmt"%string; e] => option_map SThrow (E e)
    | SL [SA "ModuleStmt"%string; SA name; body] => option_map (SModule name) (So body)
    | SL [SA "SwitchStmt"%string; e; cases; d] =>
        ob (E e) (fun e => ob (Ss cases) (fun cases => ob (So d) (fun d => Some (SSwitch e cases d))))
    | SL [SA "SwitchCaseStmt"%string; es; body] => ob (Es es) (fun es => ob (So body) (fun body => Some (SSwitchCase es body)))
    | SL [SA "VarStmt"%string; names; es] => ob (as_list as_atom names) (fun names => ob (Es es) (fun es => Some (SVar names es)))
    | SL [SA "LetsStmt"%string; ls; rs] => ob (Es ls) (fun ls => ob (Es rs) (fun rs => Some (SLets ls rs)))
    | SL [SA "LetMapItemStmt"%string; ls; r] => ob (Es ls) (fun ls => ob (E r) (fun r => Some (SLetMapItem ls r)))
    | SL [SA "GoroutineStmt"%string; e] => option_map SGo (E e)
    | SL [SA "DeferStmt"%string; e] => option_map SDefer (E e)
    | SL [SA "DeleteStmt"%string; i; k] => ob (E i) (fun i => ob (Eo k) (fun k => Some (SDelete i k)))
    | SL [SA "CloseStmt"%string; e] => option_map SClose (E e)
    | SL [SA "ChanStmt"%string; l; ok; r] => ob (Eo l) (fun l => ob (Eo ok) (fun ok => ob (E r) (fun r => Some (SChan l ok r))))
    | _ => None
    end
  end.

(* ---------------- projection ---------------- *)
Definition hex_digit (n : N) : ascii := if (n <? 10)%N then ascii_of_N (48 + n) else ascii_of_N (87 + n).

Fixpoint hex_of_string (s : string) : string :=
  match s with
  | EmptyString => EmptyString
  | String c r => let n := N_of_ascii c in String (hex_digit (n / 16)%N) (String (hex_digit (n mod 16)%N) (hex_of_string r))
  end.

Fixpoint insert_sorted (x : string * string) (l : list (string * string)) : list (string * string) :=
  match l with
  | [] => [x]
  | y :: r => if String.leb (fst x) (fst y) then x :: l else y :: insert_sorted x r
  end.

Fixpoint join (sep : string) (l : list string) : string :=
  match l with
  | [] => EmptyString
  | [x] => x
  | x :: r => (x ++ sep ++ join sep r)%string
  end.

Definition float_proj (f : spec_float) : string :=
  (* +0 and -0 are distinct values; all NaNs are one class *)
  ("f:" ++ (if is_nan f then "nan" else Z_to_string (to_bits f)))%string.

Fixpoint proj (fuel : nat) (st : store) (v : value) : string :=
  match fuel with
  | 0 => "..."%string
  | S f =>
    match v with
    | VNil => "nil"%string
    | VBool b => if b then "b:true"%string else "b:false"%string
    | VInt z => ("i:" ++ Z_to_string z)%string
    | VFloat x => float_proj x
    | VStr s => ("s:" ++ hex_of_string s)%string
    | VSlice l off n _ => ("[" ++ join "," (map (proj f st) (slice_elems st l off n)) ++ "]")%string
    | VMap m =>
        match nth_error (st_maps st) m with
        | Some es =>
            let kvs := fold_right insert_sorted [] (map (fun '(k, x) => (proj f st k, proj f st x)) es) in
            ("{" ++ join "," (map (fun '(k, x) => (k ++ "=>" ++ x)%string) kvs) ++ "}")%string
        | None => "{?}"%string
        end
    | VFunc _ | VHost _ => "func"%string
    | VEnv _ => "env"%string
    | VErr _ => "err"%string
    end
  end.

Definition proj_depth := 12.

Definition proj_err (e : err) : string :=
  match e with
  | ESentinel SInterruptS => "interrupt"%string
  | ESentinel SBreakS => "break"%string
  | ESentinel SContinueS => "continue"%string
  | ESentinel SReturnS => "return"%string
  | EVm m | EGo m => if String.eqb m "execution interrupted" then "interrupted-wrapped"%string else "error"%string
  end.

(* ---------------- the initial environment ---------------- *)
Definition host_names : list (string * nat) :=
  [("probe", 0); ("probe2", 1); ("hvar", 2); ("hpair", 3); ("hpanic", 4); ("hnone", 5); ("hfix3", 6); ("hzero", 7); ("hid", 8)]%string.

Definition init_store : store :=
  mkStore [mkScope None (map (fun '(n, h) => (n, Imm (VHost h))) host_names) [] None] [] [] [] [] 0.

Definition dec_oracle (s : sexp) : option oracle :=
  match s with
  | SL [pf; ff] =>
      ob (as_list (fun e => match e with
                            | SL [SA k; SL []] => Some (k, None)
                            | SL [SA k; SL [b]] => option_map (fun z => (k, Some (of_bits z))) (as_Z b)
                            | _ => None end) pf) (fun pf =>
      ob (as_list (fun e => match e with
                            | SL [b; SA x] => option_map (fun z => (z, x)) (as_Z b)
                            | _ => None end) ff) (fun ff => Some (mkOracle pf ff)))
  | _ => None
  end.

Definition top_bindings (st : store) : string :=
  match nth_error (st_heap st) 0 with
  | Some sc =>
      let user := filter (fun '(n, _) => negb (existsb (fun '(h, _) => String.eqb n h) host_names)) (sc_values sc) in
      let kvs := fold_right insert_sorted [] (map (fun '(n, r) => (n, proj proj_depth st (deref st r))) user) in
      join ";" (map (fun '(k, x) => (k ++ "=" ++ x)%string) kvs)
  | None => "?"%string
  end.

Definition trace_text (st : store) : string :=
  join ";" (map (fun call => ("(" ++ join "," (map (proj proj_depth st) call) ++ ")")%string) (rev (st_trace st))).

Definition interp_fuel := 6000.

(* input: (ORACLE CANCEL_AT PROGRAM) ; output: (status result trace bindings polls) *)
Definition interp_check (s : sexp) : sexp :=
  match s with
  | SL [orc; cancel; prog] =>
    match dec_oracle orc, as_opt as_nat cancel, as_opt (dec_stmt 400) prog with
    | Some orc, Some cancel, Some prog =>
        let s0 := mkR init_store 0 rv_nil [] in
        match run_context orc cancel interp_fuel prog s0 with
        | Ok s1 =>
            let st := r_st s1 in
            SL [SA "ok"%string; SA (proj proj_depth st (deref st (r_rv s1))); SA (trace_text st); SA (top_bindings st);
                snat (st_polls st)]
        | Err e s1 =>
            let st := r_st s1 in
            SL [SA "err"%string; SA (proj_err e); SA (trace_text st); SA (top_bindings st); snat (st_polls st)]
        | Abort (APanic m) => SL [SA "panic"%string; SA m]
        | Abort AFuel => SL [SA "fuel"%string]
        | Abort (AUnsupported m) => SL [SA "unsupported"%string; SA m]
        end
    | _, _, _ => SL [SA "undecodable"%string]
    end
  | _ => SL [SA "undecodable"%string]
  end.
