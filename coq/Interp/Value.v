(* Values, places and the store of the interpreter model (fragment F1:
   nil, bool, int64, float64, string, []interface{}, map[interface{}]interface{},
   script functions, host functions, modules, error values). *)
From Coq Require Import String List ZArith Bool Arith Floats.SpecFloat.
From Anko Require Import Base.Assoc Base.Int64 Base.F64 Env.EnvModel Interp.Ast.
Import ListNotations.
Open Scope nat_scope.

Notation loc := nat (only parsing).

Inductive sentinel := SBreakS | SContinueS | SReturnS | SInterruptS.

(* vm.Error / plain Go errors, compared by class and message *)
Inductive err :=
| ESentinel (s : sentinel)          (* ErrBreak, ErrContinue, ErrReturn, ErrInterrupt: compared by identity *)
| EVm (msg : string)                (* *vm.Error *)
| EGo (msg : string).               (* any other error value, e.g. from env or a recovered panic *)

Inductive value :=
| VNil
| VBool (b : bool)
| VInt (z : Z)                                   (* int64 *)
| VFloat (f : spec_float)                        (* float64 *)
| VStr (s : string)
| VSlice (l : loc) (off len cap : nat)           (* []interface{}: window into a backing array *)
| VMap (l : loc)                                 (* map[interface{}]interface{} *)
| VFunc (c : loc)                                (* script function (closure) *)
| VHost (h : nat)                                (* Go function of the host pool *)
| VEnv (e : nat)                                 (* *env.Env: a module *)
| VErr (e : err).                                (* an error bound by catch *)

(* what the interpreter holds in runInfo.rv and stores in scopes: a plain value,
   or the addressable element i of backing array l (item.Index(i)), which keeps
   following later writes to that element *)
Inductive rval := Imm (v : value) | Place (l : loc) (i : nat).

Record closure := mkClosure {
  cl_name : string; cl_params : list string; cl_vararg : bool; cl_body : option stmt; cl_env : nat }.

Notation escope := (@scope rval unit) (only parsing).

Record store := mkStore {
  st_heap : list (@scope rval unit);             (* scopes, see Env/EnvModel.v *)
  st_arrays : list (list value);                 (* backing arrays of slices *)
  st_maps : list (list (value * value));         (* maps, insertion ordered *)
  st_closures : list closure;
  st_trace : list (list value);                  (* calls of the host probe, newest first *)
  st_polls : nat }.                              (* context polls so far *)

Definition rv_nil : rval := Imm VNil.

Definition as_env_r (r : rval) : option nat := match r with Imm (VEnv e) => Some e | _ => None end.
Definition mk_env_r (e : nat) : rval := Imm (VEnv e).

(* ---- store access ---- *)
Fixpoint list_set {A} (l : list A) (i : nat) (x : A) : list A :=
  match l, i with
  | [], _ => []
  | _ :: r, 0 => x :: r
  | y :: r, S i' => y :: list_set r i' x
  end.

Definition array_get (st : store) (l : loc) (i : nat) : option value :=
  match nth_error (st_arrays st) l with
  | Some a => nth_error a i
  | None => None
  end.

Definition set_arrays (st : store) a := mkStore (st_heap st) a (st_maps st) (st_closures st) (st_trace st) (st_polls st).
Definition set_maps (st : store) m := mkStore (st_heap st) (st_arrays st) m (st_closures st) (st_trace st) (st_polls st).
Definition set_heap (st : store) h := mkStore h (st_arrays st) (st_maps st) (st_closures st) (st_trace st) (st_polls st).
Definition set_closures (st : store) c := mkStore (st_heap st) (st_arrays st) (st_maps st) c (st_trace st) (st_polls st).
Definition set_trace (st : store) t := mkStore (st_heap st) (st_arrays st) (st_maps st) (st_closures st) t (st_polls st).
Definition set_polls (st : store) p := mkStore (st_heap st) (st_arrays st) (st_maps st) (st_closures st) (st_trace st) p.

Definition array_set (st : store) (l : loc) (i : nat) (v : value) : store :=
  match nth_error (st_arrays st) l with
  | Some a => set_arrays st (list_set (st_arrays st) l (list_set a i v))
  | None => st
  end.

Definition alloc_array (st : store) (a : list value) : store * loc :=
  (set_arrays st (st_arrays st ++ [a]), length (st_arrays st)).

Definition alloc_map (st : store) (m : list (value * value)) : store * loc :=
  (set_maps st (st_maps st ++ [m]), length (st_maps st)).

Definition alloc_closure (st : store) (c : closure) : store * loc :=
  (set_closures st (st_closures st ++ [c]), length (st_closures st)).

(* the value a runInfo.rv currently denotes (rv.Interface()) *)
Definition deref (st : store) (r : rval) : value :=
  match r with
  | Imm v => v
  | Place l i => match array_get st l i with Some v => v | None => VNil end
  end.

(* ---- kinds (reflect.Kind of the dynamic value) ---- *)
Inductive kind := KNil | KBool | KInt | KFloat | KString | KSlice | KMap | KFunc | KPtr | KStruct.

Definition kind_of (v : value) : kind :=
  match v with
  | VNil => KNil | VBool _ => KBool | VInt _ => KInt | VFloat _ => KFloat | VStr _ => KString
  | VSlice _ _ _ _ => KSlice | VMap _ => KMap | VFunc _ | VHost _ => KFunc
  | VEnv _ => KPtr | VErr _ => KPtr
  end.

Definition kind_name (k : kind) : string :=
  match k with
  | KNil => "interface" | KBool => "bool" | KInt => "int64" | KFloat => "float64" | KString => "string"
  | KSlice => "slice" | KMap => "map" | KFunc => "func" | KPtr => "ptr" | KStruct => "struct"
  end%string.

(* ---- slices ---- *)
Definition slice_elems (st : store) (l : loc) (off len : nat) : list value :=
  match nth_error (st_arrays st) l with
  | Some a => firstn len (skipn off a)
  | None => []
  end.

(* Go's growslice for 16-byte elements (interface{}): the capacity reflect.Append
   chooses when len+n exceeds cap.  nextslicecap, then roundupsize over the
   malloc size classes.  Validated against the running Go toolchain by the
   harness on every run (harness/interp.go growthCheck). *)
(* malloc size classes up to 32 KiB, in units of 16 bytes (every class is a multiple of 16) *)
Definition size_classes : list nat :=
  [1; 2; 3; 4; 5; 6; 7; 8; 9; 10; 11; 12; 13; 14; 15; 16; 18; 20; 22; 24; 26; 28; 30; 32; 36; 40; 44; 48; 56; 64; 72; 80; 88; 96; 112; 128; 144; 168; 192; 200; 216; 256; 304; 336; 384; 408; 424; 432; 512; 592; 608; 640; 680; 768; 848; 896; 1024; 1152; 1192; 1280; 1360; 1536; 1704; 1792; 2048].

Fixpoint round_class (cls : list nat) (n : nat) : option nat :=
  match cls with
  | [] => None
  | c :: r => if n <=? c then Some c else round_class r n
  end.

Fixpoint grow_loop (fuel : nat) (newcap needed : nat) : nat :=
  match fuel with
  | 0 => needed
  | S f => if needed <=? newcap then newcap else grow_loop f (newcap + (newcap + 768) / 4) needed
  end.

Definition next_cap (oldcap needed : nat) : nat :=
  let doublecap := oldcap + oldcap in
  if doublecap <? needed then needed
  else if oldcap <? 256 then doublecap
  else grow_loop 64 oldcap needed.

(* None: beyond the modelled size classes (the case is then dropped as unsupported) *)
Definition grow_cap (oldcap needed : nat) : option nat :=
  let nc := next_cap oldcap needed in
  (* objects with pointers above 512 bytes carry an 8-byte malloc header (Go >= 1.22):
     nc*16 + 8 <= class  iff  nc + 1 <= class/16, and the usable capacity is class/16 - 1 *)
  if 32 <? nc then
    match round_class size_classes (S nc) with
    | Some u => Some (u - 1)
    | None => None
    end
  else round_class size_classes nc.

(* reflect.Append(slice, v) for a []interface{}; returns the new store and slice header *)
Definition append_value (st : store) (l : loc) (off len cap : nat) (v : value) : option (store * value) :=
  if len <? cap then
    Some (array_set st l (off + len) v, VSlice l off (S len) cap)
  else
    match grow_cap cap (S len) with
    | Some nc =>
        let elems := slice_elems st l off len in
        let a := elems ++ [v] ++ repeat VNil (nc - S len) in
        let '(st', l') := alloc_array st a in
        Some (st', VSlice l' 0 (S len) nc)
    | None => None
    end.

(* a fresh []interface{} holding vs, len = cap *)
Definition new_slice (st : store) (vs : list value) : store * value :=
  let '(st', l) := alloc_array st vs in (st', VSlice l 0 (length vs) (length vs)).

(* ---- value equality used for map keys (Go == on interface{} holding comparable values) ---- *)
Definition sentinel_eqb (a b : sentinel) : bool :=
  match a, b with
  | SBreakS, SBreakS | SContinueS, SContinueS | SReturnS, SReturnS | SInterruptS, SInterruptS => true
  | _, _ => false
  end.

Definition key_eqb (a b : value) : bool :=
  match a, b with
  | VNil, VNil => true
  | VBool x, VBool y => Bool.eqb x y
  | VInt x, VInt y => Z.eqb x y
  | VFloat x, VFloat y => feqb x y      (* NaN keys never match *)
  | VStr x, VStr y => String.eqb x y
  | _, _ => false
  end.

(* v.Comparable(): what may be a key of map[interface{}]interface{} *)
Definition hashable (v : value) : bool :=
  match v with
  | VNil | VBool _ | VInt _ | VFloat _ | VStr _ | VEnv _ | VErr _ => true
  | VSlice _ _ _ _ | VMap _ | VFunc _ | VHost _ => false
  end.

Fixpoint map_lookup (m : list (value * value)) (k : value) : option value :=
  match m with
  | [] => None
  | (k', v) :: r => if key_eqb k k' then Some v else map_lookup r k
  end.

Fixpoint map_store (m : list (value * value)) (k v : value) : list (value * value) :=
  match m with
  | [] => [(k, v)]
  | (k', v') :: r => if key_eqb k k' then (k', v) :: r else (k', v') :: map_store r k v
  end.

Fixpoint map_remove (m : list (value * value)) (k : value) : list (value * value) :=
  match m with
  | [] => []
  | (k', v') :: r => if key_eqb k k' then r else (k', v') :: map_remove r k
  end.
