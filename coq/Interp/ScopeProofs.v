(* C04, the statement behind the ~30 hand-written save/restore sites of
   vmStmt.go: whatever a statement, expression, assignment or call does — finish
   normally, break, continue, return, fail with an error, be interrupted — the
   current scope (runInfo.env) afterwards is the scope that was current before.
   Proved for every program, store and fuel by induction on fuel; one lemma per
   Go function, each assuming the property of the interpreter at lower fuel. *)
From Coq Require Import String Ascii List ZArith NArith Bool Arith Floats.SpecFloat Lia.
From Anko Require Import Base.Assoc Base.Sexp Base.Int64 Base.F64 Env.EnvModel
     Interp.Ast Interp.Value Interp.ToX Interp.Equal Interp.Model.
Import ListNotations.
Open Scope nat_scope.
Open Scope list_scope.

(* the one error path on which vmStmt.go does not put the scope back: NewModule
   failing on a dotted module name, which no parser-produced tree contains
   (identifiers never contain '.') *)
Definition dotted_err : err := EGo "symbol contains '.'".

(* [strict]: the dotted-module error cannot come out of this kind of command at all *)
(* not one of the control-flow signals break / continue / return (the interrupt sentinel may come
   out of an expression: `??` polls the context before its right side) *)
Definition nonsentinel (e : err) : Prop :=
  match e with ESentinel SBreakS | ESentinel SContinueS | ESentinel SReturnS => False | _ => True end.
Definition anyerr (e : err) : Prop := True.
(* a loop consumes break and continue *)
Definition noloopsig (e : err) : Prop := e <> ESentinel SBreakS /\ e <> ESentinel SContinueS.

(* [EP]: what is known about an error coming out of this kind of command *)
Definition env_eq (strict : bool) (EP : err -> Prop) (e0 : nat) (o : outcome) : Prop :=
  match o with
  | Ok s' => r_env s' = e0
  | Err e s' => (strict = false /\ e = dotted_err) \/ (r_env s' = e0 /\ EP e)
  | Abort _ => True
  end.

(* expressions, assignments and calls never end with one of the control-flow sentinels
   (ErrBreak, ErrContinue, ErrReturn, ErrInterrupt): a script function boundary wraps whatever
   its body ended with into a fresh *vm.Error; the loop commands never end with break/continue;
   the deferred-call loop ends with a sentinel only if it was handed that sentinel *)
Definition err_pred (c : cmd) : err -> Prop :=
  match c with
  | CStmt _ => anyerr
  | CLoop _ _ _ | CForSlice _ _ _ _ _ _ | CForMap _ _ _ _ | CCFor _ _ _ _ => noloopsig
  | CDefers _ err0 => fun e => nonsentinel e \/ err0 = Some e
  | _ => nonsentinel
  end.

(* statements may end with the dotted-module error in the module's scope; expressions,
   assignments and calls never do (a function body runs in its own runInfo) *)
Definition strict_cmd (c : cmd) : bool :=
  match c with
  | CStmt _ | CLoop _ _ _ | CForSlice _ _ _ _ _ _ | CForMap _ _ _ _ | CCFor _ _ _ _ => false
  | _ => true
  end.

(* loop iterations run in the loop scope and hand back the saved scope *)
Definition post_env (c : cmd) (s : rstate) : nat :=
  match c with
  | CLoop _ _ env0 | CCFor _ _ _ env0 => env0
  | _ => r_env s
  end.

Section Scope.
Variable orc : oracle.
Variable cancel_at : option nat.
Variable rec : cmd -> rstate -> outcome.
Hypothesis Hrec : forall c s, env_eq (strict_cmd c) (err_pred c) (post_env c s) (rec c s).

Ltac simp := cbn [r_env r_st r_rv r_defers set_st set_env set_rv set_defers env_eq post_env strict_cmd err_pred fst snd] in *.

(* use the hypothesis on the next call of the interpreter in the goal; the Err and Abort
   branches are closed when they merely propagate *)
Lemma nonsentinel_noloopsig e : nonsentinel e -> noloopsig e.
Proof. destruct e as [[| | |]| |]; cbn; intros H; try contradiction; split; discriminate. Qed.

(* establish the error predicate of the goal, possibly from a fact He about the same error *)
Ltac ep_solve :=
  first [ exact I | assumption | (unfold anyerr; exact I) | (cbn; exact I)
        | (apply nonsentinel_noloopsig; first [assumption | (cbn; exact I)])
        | (unfold noloopsig; split; discriminate)
        | (left; first [assumption | (cbn; exact I)]) | (right; reflexivity)
        | match goal with Himp : forall x, nonsentinel x -> _ |- _ => apply Himp; first [assumption | (cbn; exact I)] end ].

Ltac imp_solve :=
  first [ assumption | (intros ? ?; assumption) | (intros; unfold anyerr; exact I)
        | (intros; apply nonsentinel_noloopsig; assumption) ].

Ltac close_err H :=
  simp; first [ exact I | assumption | reflexivity
              | (destruct H as [[H H']|[H H']];
                 [first [discriminate H | (left; split; [reflexivity|exact H'])]
                 | right; split; [simp; congruence | ep_solve]])
              | (right; split; [simp; first [reflexivity | congruence] | ep_solve]) ].

Ltac step_rec :=
  match goal with
  | |- context [rec ?cc ?ss] =>
      let H := fresh "H" in
      pose proof (Hrec cc ss) as H; simp;
      destruct (rec cc ss) as [?s|?e ?s|?a]; simp; [ | try solve [close_err H] | try exact I ]
  end.

Lemma env_eq_err b (EP : err -> Prop) e0 e s : r_env s = e0 -> EP e -> env_eq b EP e0 (Err e s).
Proof. intros H He. right. split; assumption. Qed.

Lemma env_eq_weaken b (EP EP' : err -> Prop) e0 o :
  (forall e, EP e -> EP' e) -> env_eq true EP e0 o -> env_eq b EP' e0 o.
Proof. intros Himp. destruct o; cbn; auto. intros [[H _]|[H He]]; [discriminate|right; auto]. Qed.

Lemma env_eq_mono b (EP EP' : err -> Prop) e0 o :
  (forall e, EP e -> EP' e) -> env_eq b EP e0 o -> env_eq b EP' e0 o.
Proof. intros Himp. destruct o; cbn; auto. intros [H|[H He]]; [now left|right; auto]. Qed.

Lemma raise_env b (EP : err -> Prop) e0 m s : r_env s = e0 -> EP (EVm m) -> env_eq b EP e0 (raise m s).
Proof. intros H He. right. split; assumption. Qed.

Lemma ret_env b (EP : err -> Prop) e0 v s : r_env s = e0 -> env_eq b EP e0 (ret v s).
Proof. intros H. exact H. Qed.

Lemma unsupported_env b (EP : err -> Prop) e0 m : env_eq b EP e0 (unsupported m).
Proof. exact I. Qed.

Lemma tri_bind_env {A} b (EP : err -> Prop) e0 (t : tri A) k onerr :
  (forall a, env_eq b EP e0 (k a)) -> env_eq b EP e0 onerr -> env_eq b EP e0 (tri_bind t k onerr).
Proof. intros Hk He. destruct t; cbn; auto. Qed.

Lemma with_int_env b (EP : err -> Prop) e0 t k : (forall z, env_eq b EP e0 (k z)) -> env_eq b EP e0 (with_int t k).
Proof. intros Hk. unfold with_int. apply tri_bind_env; auto. Qed.

Lemma with_float_env b (EP : err -> Prop) e0 t k : (forall z, env_eq b EP e0 (k z)) -> env_eq b EP e0 (with_float t k).
Proof. intros Hk. unfold with_float. apply tri_bind_env; auto. Qed.

Lemma truthy_env b (EP : err -> Prop) e0 s k : (forall x, env_eq b EP e0 (k x)) -> env_eq b EP e0 (truthy orc s k).
Proof. intros Hk. unfold truthy. apply tri_bind_env; auto. Qed.

Lemma eval_operand_env b (EP : err -> Prop) e0 e s k :
  (forall x, nonsentinel x -> EP x) ->
  r_env s = e0 -> (forall v s1, r_env s1 = e0 -> env_eq b EP e0 (k v s1)) -> env_eq b EP e0 (eval_operand rec e s k).
Proof.
  intros Himp Hs Hk. unfold eval_operand. step_rec. apply Hk. congruence.
Qed.

Lemma eval_values_env b (EP : err -> Prop) e0 es : (forall x, nonsentinel x -> EP x) -> forall s acc k,
  r_env s = e0 -> (forall vs s1, r_env s1 = e0 -> env_eq b EP e0 (k vs s1)) -> env_eq b EP e0 (eval_values rec es s acc k).
Proof.
  intros Himp. induction es as [|e r IH]; intros s acc k Hs Hk; cbn [eval_values].
  - now apply Hk.
  - step_rec. apply IH; [congruence|assumption].
Qed.

Lemma eval_rvals_env b (EP : err -> Prop) e0 es : (forall x, nonsentinel x -> EP x) -> forall s acc k,
  r_env s = e0 -> (forall vs s1, r_env s1 = e0 -> env_eq b EP e0 (k vs s1)) -> env_eq b EP e0 (eval_rvals rec es s acc k).
Proof.
  intros Himp. induction es as [|e r IH]; intros s acc k Hs Hk; cbn [eval_rvals].
  - now apply Hk.
  - step_rec. apply IH; [congruence|assumption].
Qed.

Lemma eval_rhs_env b (EP : err -> Prop) e0 es : (forall x, nonsentinel x -> EP x) -> forall s acc k,
  r_env s = e0 -> (forall vs s1, r_env s1 = e0 -> env_eq b EP e0 (k vs s1)) -> env_eq b EP e0 (eval_rhs rec es s acc k).
Proof.
  intros Himp. induction es as [|e r IH]; intros s acc k Hs Hk; cbn [eval_rhs].
  - now apply Hk.
  - step_rec.
    destruct (copy_if_module _ _) as [[st' rv']|]; [|exact I].
    apply IH; [simp; congruence|assumption].
Qed.

Lemma eval_opt_index_env b (EP : err -> Prop) e0 oe s d k notnum :
  (forall x, nonsentinel x -> EP x) ->
  r_env s = e0 -> (forall z s1, r_env s1 = e0 -> env_eq b EP e0 (k z s1)) ->
  (forall s1, r_env s1 = e0 -> env_eq b EP e0 (notnum s1)) ->
  env_eq b EP e0 (eval_opt_index rec oe s d k notnum).
Proof.
  intros Himp Hs Hk Hn. unfold eval_opt_index. destruct oe as [e|]; [|now apply Hk].
  step_rec. apply tri_bind_env; [intros; apply Hk|apply Hn]; congruence.
Qed.

(* ---------------- operators ---------------- *)
Ltac fin :=
  unfold ret, raise, unsupported, arity_error; simp;
  first [ exact I | reflexivity | congruence
        | (right; split; [simp; first [reflexivity | congruence] | ep_solve]) ].

Lemma invoke_binary_env l op r s : env_eq true nonsentinel (r_env s) (invoke_binary orc rec l op r s).
Proof.
  unfold invoke_binary. apply eval_operand_env; [imp_solve|reflexivity|]. intros lv s1 H1.
  apply tri_bind_env.
  - intros lb. destruct (negb (String.eqb op "||") && negb (String.eqb op "&&")); [fin|].
    destruct (if String.eqb op "||" then _ else _); [fin|].
    apply eval_operand_env; [imp_solve|assumption|]. intros rv s2 H2. apply tri_bind_env; [intros|]; fin.
  - destruct (String.eqb op "||").
    + apply eval_operand_env; [imp_solve|assumption|]. intros rv s2 H2. apply tri_bind_env; [intros|]; fin.
    + destruct (String.eqb op "&&"); fin.
Qed.

Lemma invoke_compare_env l op r s : env_eq true nonsentinel (r_env s) (invoke_compare orc rec l op r s).
Proof.
  unfold invoke_compare. apply eval_operand_env; [imp_solve|reflexivity|]. intros lv s1 H1.
  apply eval_operand_env; [imp_solve|assumption|]. intros rv s2 H2. cbv zeta.
  assert (Hord : forall fi ff, env_eq true nonsentinel (r_env s)
            match lv, rv with
            | VInt a, VInt b => ret (VBool (fi a b)) s2
            | _, _ => with_float (to_float64 orc lv) (fun a =>
                      with_float (to_float64 orc rv) (fun b => ret (VBool (ff a b)) s2))
            end).
  { intros fi ff. destruct lv, rv; try fin; apply with_float_env; intros; apply with_float_env; intros; fin. }
  repeat match goal with |- env_eq _ _ _ (if ?c then _ else _) => destruct c end;
    try apply Hord; try (apply tri_bind_env; [intros|]; fin); fin.
Qed.

Lemma add_scalars_env lv rv s : env_eq true nonsentinel (r_env s) (add_scalars orc lv rv s).
Proof.
  unfold add_scalars. destruct (precedence_of_kinds _ _);
    repeat (first [apply tri_bind_env | apply with_float_env | apply with_int_env]; intros); fin.
Qed.

Lemma sub_values_env lv rv s : env_eq true nonsentinel (r_env s) (sub_values orc lv rv s).
Proof.
  unfold sub_values. destruct lv; destruct rv;
    repeat (first [apply with_float_env | apply with_int_env]; intros); fin.
Qed.

Lemma mul_values_env lv rv s : env_eq true nonsentinel (r_env s) (mul_values orc lv rv s).
Proof.
  unfold mul_values. destruct lv; destruct rv;
    repeat match goal with
           | |- env_eq _ _ _ (if ?c then _ else _) => destruct c
           | |- env_eq _ _ _ (with_float _ _) => apply with_float_env; intros
           | |- env_eq _ _ _ (with_int _ _) => apply with_int_env; intros
           end; fin.
Qed.

Lemma env_eq_to b (EP : err -> Prop) e0 e1 o : e0 = e1 -> env_eq b EP e0 o -> env_eq b EP e1 o.
Proof. now intros ->. Qed.

Lemma invoke_add_env l op r s : env_eq true nonsentinel (r_env s) (invoke_add orc rec l op r s).
Proof.
  unfold invoke_add. apply eval_operand_env; [imp_solve|reflexivity|]. intros lv s1 H1.
  apply eval_operand_env; [imp_solve|assumption|]. intros rv s2 H2. cbv zeta.
  destruct (String.eqb op "+").
  - destruct lv; try (destruct rv; first [fin | (apply (env_eq_to true nonsentinel (r_env s2)); [assumption|apply add_scalars_env])]).
    destruct rv;
      match goal with
      | |- env_eq _ _ _ (match ?x with _ => _ end) => destruct x as [[? ?]|]
      end; fin.
  - destruct (String.eqb op "-"); [apply (env_eq_to true nonsentinel (r_env s2)); [assumption|apply sub_values_env]|].
    destruct (String.eqb op "|"); [|fin]. repeat (apply with_int_env; intros). fin.
Qed.

Lemma invoke_mul_env l op r s : env_eq true nonsentinel (r_env s) (invoke_mul orc rec l op r s).
Proof.
  unfold invoke_mul. apply eval_operand_env; [imp_solve|reflexivity|]. intros lv s1 H1.
  apply eval_operand_env; [imp_solve|assumption|]. intros rv s2 H2. cbv zeta.
  assert (Hints : forall f, env_eq true nonsentinel (r_env s)
            (with_int (to_int64 lv) (fun a => with_int (to_int64 rv) (fun b => ret (VInt (f a b)) s2)))).
  { intros f. repeat (apply with_int_env; intros). fin. }
  repeat match goal with |- env_eq _ _ _ (if String.eqb ?a ?b then _ else _) => destruct (String.eqb a b) end;
    try apply Hints; try fin.
  - apply (env_eq_to true nonsentinel (r_env s2)); [assumption|apply mul_values_env].
  - repeat (apply with_float_env; intros). fin.
  - apply with_int_env; intros b. destruct (b =? 0)%Z; [fin|]. apply with_int_env; intros. fin.
Qed.

Lemma invoke_operator_env o s : env_eq true nonsentinel (r_env s) (invoke_operator orc rec o s).
Proof.
  destruct o; cbn [invoke_operator];
    [apply invoke_binary_env|apply invoke_compare_env|apply invoke_add_env|apply invoke_mul_env].
Qed.

(* ---------------- expressions ---------------- *)
Ltac bind_all :=
  repeat first [ apply tri_bind_env; intros | apply with_float_env; intros | apply with_int_env; intros
               | apply truthy_env; intros ].

Lemma invoke_array_env es s : env_eq true nonsentinel (r_env s) (invoke_array rec es s).
Proof.
  unfold invoke_array. apply eval_values_env; [imp_solve|reflexivity|]. intros vs s1 H1.
  destruct (new_slice _ _) as [st' sl]. fin.
Qed.

Lemma invoke_map_entries_env ks : forall vs s m, env_eq true nonsentinel (r_env s) (invoke_map_entries rec ks vs s m).
Proof.
  induction ks as [|k kr IH]; intros vs s m; cbn [invoke_map_entries].
  - destruct (alloc_map _ _) as [st' l]. fin.
  - destruct vs as [|v vr]; [exact I|].
    step_rec. destruct (negb (hashable _)); [fin|].
    step_rec. eapply env_eq_to; [|apply IH]. congruence.
Qed.

Lemma invoke_unary_env op e s : env_eq true nonsentinel (r_env s) (invoke_unary orc rec op e s).
Proof.
  unfold invoke_unary. apply eval_operand_env; [imp_solve|reflexivity|]. intros v s1 H1.
  repeat match goal with |- env_eq _ _ _ (if String.eqb ?a ?b then _ else _) => destruct (String.eqb a b) end;
    try (destruct v); bind_all; fin.
Qed.

Lemma invoke_member_env e name s : env_eq true nonsentinel (r_env s) (invoke_member rec e name s).
Proof.
  unfold invoke_member. apply eval_operand_env; [imp_solve|reflexivity|]. intros v s1 H1.
  destruct v; try fin.
  destruct (env_get _ _ _); try exact I; fin.
Qed.

Lemma invoke_item_env e i s : env_eq true nonsentinel (r_env s) (invoke_item rec e i s).
Proof.
  unfold invoke_item. step_rec. step_rec. cbv zeta.
  destruct (deref (r_st s1) (r_rv s0)); try fin; bind_all; try fin;
    repeat match goal with
           | |- env_eq _ _ _ (if ?c then _ else _) => destruct c
           end; bind_all; try fin; try exact I.
Qed.

Lemma invoke_slice_env e b en c s : env_eq true nonsentinel (r_env s) (invoke_slice rec e b en c s).
Proof.
  unfold invoke_slice. step_rec. cbv zeta.
  destruct (deref (r_st s0) (r_rv s0)); try fin;
    (apply eval_opt_index_env; [imp_solve|congruence| |intros; fin]; intros bi s2 H2;
     match goal with |- env_eq _ _ _ (if ?c then _ else _) => destruct c end; [fin|];
     apply eval_opt_index_env; [imp_solve|congruence| |intros; fin]; intros ei s3 H3;
     repeat match goal with |- env_eq _ _ _ (if ?c then _ else _) => destruct c end; try fin).
  all: apply eval_opt_index_env; [imp_solve|congruence| |intros; fin]; intros ci s4 H4;
    repeat match goal with |- env_eq _ _ _ (if ?c then _ else _) => destruct c end; fin.
Qed.

Lemma invoke_lets_expr_env rs : forall ls s, env_eq true nonsentinel (r_env s) (invoke_lets_expr rec ls rs s).
Proof.
  induction rs as [|r rr IH]; intros ls s; cbn [invoke_lets_expr]; [reflexivity|].
  step_rec. destruct ls as [|l lr].
  - eapply env_eq_to; [|apply IH]. simp. congruence.
  - step_rec. eapply env_eq_to; [|apply IH]. simp. congruence.
Qed.

Lemma invoke_ternary_env c l r s : env_eq true nonsentinel (r_env s) (invoke_ternary orc rec c l r s).
Proof.
  unfold invoke_ternary. step_rec. apply truthy_env. intros b.
  pose proof (Hrec (CExpr (if b then l else r)) s0) as Hx. simp. eapply env_eq_to; [|exact Hx]. congruence.
Qed.


Lemma invoke_coalesce_env l r s : env_eq true nonsentinel (r_env s) (invoke_coalesce cancel_at rec l r s).
Proof.
  unfold invoke_coalesce.
  pose proof (Hrec (CExpr l) s) as H. simp.
  destruct (rec (CExpr l) s) as [s1|e s1|a]; simp; [| |exact I].
  - destruct (is_nil _); [|exact H].
    pose proof (Hrec (CExpr r) s1) as Hx. simp. eapply env_eq_to; [|exact Hx]. congruence.
  - destruct H as [[H _]|[H He]]; [discriminate|].
    destruct (poll cancel_at s1) as [cancelled s2] eqn:Hp.
    assert (H2 : r_env s2 = r_env s1) by (unfold poll in Hp; injection Hp as _ <-; reflexivity).
    destruct cancelled.
    + right. split; [simp; congruence|exact I].
    + pose proof (Hrec (CExpr r) s2) as Hx. simp. eapply env_eq_to; [|exact Hx]. congruence.
Qed.

Ltac call_rec e0 :=
  match goal with
  | |- env_eq _ _ _ (rec ?cc ?ss) =>
      let Hx := fresh "Hx" in
      pose proof (Hrec cc ss) as Hx; simp; eapply env_eq_to;
      [|first [exact Hx | (eapply env_eq_mono; [|exact Hx]; imp_solve) | (eapply env_eq_weaken; [|exact Hx]; imp_solve)]];
      simp; congruence
  end.

Lemma invoke_len_env e s : env_eq true nonsentinel (r_env s) (invoke_len rec e s).
Proof.
  unfold invoke_len. apply eval_operand_env; [imp_solve|reflexivity|]. intros v s1 H1. destruct v; fin.
Qed.

Lemma invoke_include_env item lst s : env_eq true nonsentinel (r_env s) (invoke_include orc rec item lst s).
Proof.
  unfold invoke_include. apply eval_operand_env; [imp_solve|reflexivity|]. intros iv s1 H1.
  apply eval_operand_env; [imp_solve|assumption|]. intros lv s2 H2.
  destruct lv; try fin. apply tri_bind_env; [intros|]; fin.
Qed.

Lemma invoke_func_env name body params vararg s : env_eq true nonsentinel (r_env s) (invoke_func name body params vararg s).
Proof.
  unfold invoke_func. destruct (alloc_closure _ _) as [st' c]. fin.
Qed.

Lemma invoke_anon_call_env f args va go s : env_eq true nonsentinel (r_env s) (invoke_anon_call rec f args va go s).
Proof.
  unfold invoke_anon_call. apply eval_operand_env; [imp_solve|reflexivity|]. intros fv s1 H1.
  destruct fv; try fin; call_rec (r_env s).
Qed.

Lemma invoke_call_by_name_env name args va go s : env_eq true nonsentinel (r_env s) (invoke_call_by_name rec name args va go s).
Proof.
  unfold invoke_call_by_name. destruct (env_get _ _ _); try exact I; try fin.
  destruct (deref _ _); try fin; call_rec (r_env s).
Qed.

Lemma invoke_expr_env e s : env_eq true nonsentinel (r_env s) (invoke_expr orc cancel_at rec e s).
Proof.
  destruct e; cbn [invoke_expr]; try exact I.
  - apply invoke_operator_env.
  - fin.
  - destruct ty; [exact I|apply invoke_array_env].
  - destruct ty; [exact I|apply invoke_map_entries_env].
  - destruct (env_get _ _ _); try exact I; fin.
  - apply invoke_unary_env.
  - call_rec (r_env s).
  - apply invoke_coalesce_env.
  - apply invoke_ternary_env.
  - apply invoke_call_by_name_env.
  - apply invoke_anon_call_env.
  - apply invoke_member_env.
  - apply invoke_item_env.
  - apply invoke_slice_env.
  - apply invoke_func_env.
  - apply invoke_lets_expr_env.
  - apply invoke_len_env.
  - apply invoke_include_env.
Qed.

(* ---------------- assignment ---------------- *)
Lemma let_item_map_env m key value s : env_eq true nonsentinel (r_env s) (let_item_map m key value s).
Proof.
  unfold let_item_map. destruct (negb (hashable key)); [fin|]. destruct (nth_error _ _); [fin|exact I].
Qed.

Lemma let_item_slice_env ie l off len cap idx value s :
  env_eq true nonsentinel (r_env s) (let_item_slice rec ie l off len cap idx value s).
Proof.
  unfold let_item_slice. apply tri_bind_env; [intros z|fin].
  destruct (z =? Z.of_nat len)%Z.
  - assert (Hk : forall s0, r_env s0 = r_env s ->
             env_eq true nonsentinel (r_env s)
               match append_value (r_st s0) l off len cap value with
               | Some (st', sl) =>
                   match rec (CLet ie) (set_rv (set_st s0 st') (Imm sl)) with
                   | Ok s1 => match sl with
                              | VSlice l' off' _ _ => Ok (set_rv s1 (Place l' (off' + len)))
                              | _ => Abort (APanic "unreachable")
                              end
                   | Err e s1 => Err e s1
                   | Abort a => Abort a
                   end
               | None => unsupported "append beyond modelled size classes"
               end).
    { intros s0 H0. destruct (append_value _ _ _ _ _ _) as [[st' sl]|]; [|exact I].
      step_rec. destruct sl; try exact I. fin. }
    destruct (is_place_expr ie); [apply Hk; reflexivity|].
    step_rec. apply Hk. congruence.
  - repeat match goal with |- env_eq _ _ _ (if ?c then _ else _) => destruct c end; fin.
Qed.

Lemma let_item_string_env ie x idx value s : env_eq true nonsentinel (r_env s) (let_item_string rec ie x idx value s).
Proof.
  unfold let_item_string. apply tri_bind_env; [intros z|fin].
  destruct value; try fin.
  repeat match goal with |- env_eq _ _ _ (if ?c then _ else _) => destruct c end; try fin; call_rec (r_env s).
Qed.

Lemma let_item_env e i s : env_eq true nonsentinel (r_env s) (let_item rec e i s).
Proof.
  unfold let_item. cbv zeta. step_rec. step_rec.
  destruct (deref (r_st s1) (r_rv s0)); try fin.
  - eapply env_eq_to; [|apply let_item_string_env]. congruence.
  - eapply env_eq_to; [|apply let_item_slice_env]. congruence.
  - eapply env_eq_to; [|apply let_item_map_env]. congruence.
Qed.

Lemma let_member_env e name s : env_eq true nonsentinel (r_env s) (let_member rec e name s).
Proof.
  unfold let_member. cbv zeta. step_rec.
  destruct (deref (r_st s0) (r_rv s0)); try fin.
  - eapply env_eq_to; [|apply let_item_map_env]. congruence.
  - destruct (env_set _ _ _ _); fin.
Qed.

Lemma let_slice_env e b en c s : env_eq true nonsentinel (r_env s) (let_slice rec e b en c s).
Proof.
  unfold let_slice. step_rec. cbv zeta.
  destruct (deref (r_st s0) (r_rv s0)); try fin.
  apply eval_opt_index_env; [imp_solve|congruence| |intros; fin]; intros bi s2 H2.
  match goal with |- env_eq _ _ _ (if ?c then _ else _) => destruct c end; [fin|].
  apply eval_opt_index_env; [imp_solve|congruence| |intros; fin]; intros ei s3 H3.
  repeat match goal with |- env_eq _ _ _ (if ?c then _ else _) => destruct c end; try fin.
  all: apply eval_opt_index_env; [imp_solve|congruence| |intros; fin]; intros ci s4 H4;
    repeat match goal with |- env_eq _ _ _ (if ?c then _ else _) => destruct c end; fin.
Qed.

Lemma invoke_let_env e s : env_eq true nonsentinel (r_env s) (invoke_let rec e s).
Proof.
  destruct e; cbn [invoke_let]; try fin;
    first [ apply let_member_env | apply let_item_env | apply let_slice_env
          | (destruct (env_set _ _ _ _); fin) | call_rec (r_env s) ].
Qed.

(* ---------------- calls ---------------- *)
Lemma host_call_env h args s : env_eq true nonsentinel (r_env s) (host_call h args s).
Proof.
  unfold host_call.
  repeat match goal with
         | |- env_eq _ _ _ (match ?x with _ => _ end) => destruct x
         end; try fin; try exact I.
Qed.

(* a script function body runs in its own runInfo: whatever it does, the caller's scope is untouched *)
Lemma run_vm_func_env c args s : env_eq true nonsentinel (r_env s) (run_vm_func rec c args s).
Proof.
  unfold run_vm_func. destruct (nth_error _ _) as [cl|]; [|exact I].
  destruct (env_new (r_st s) (cl_env cl)) as [st1 e]. destruct (define_params st1 e (cl_params cl) args) as [st2|]; [|exact I].
  cbv zeta.
  match goal with |- env_eq _ _ _ (match ?o with _ => _ end) => destruct o as [c2|e0 c2|a] end; try exact I.
  - fin.
  - destruct e0 as [[| | |]|m|m]; fin.
Qed.

Lemma apply_fn_env f args cs s : env_eq true nonsentinel (r_env s) (apply_fn rec f args cs s).
Proof.
  unfold apply_fn. destruct f; try exact I; [apply run_vm_func_env|apply host_call_env].
Qed.

Lemma poll_env s c s0 : poll cancel_at s = (c, s0) -> r_env s0 = r_env s.
Proof. unfold poll. intros H. injection H as _ <-. reflexivity. Qed.

Lemma arity_error_env b want got s : env_eq b nonsentinel (r_env s) (arity_error want got s).
Proof. unfold arity_error. fin. Qed.

Lemma call_function_env f args va go s : env_eq true nonsentinel (r_env s) (call_function cancel_at rec f args va go s).
Proof.
  unfold call_function. cbv zeta.
  destruct go; [exact I|].
  match goal with |- env_eq _ _ _ (match ?x with _ => _ end) => destruct x as [[[num_in fvar] isvm]|] end; [|exact I].
  assert (Hfin : forall argv cs s1, r_env s1 = r_env s ->
                 env_eq true nonsentinel (r_env s) (call_finish cancel_at rec f argv cs s1)).
  { intros argv cs s1 H1. unfold call_finish.
    destruct (poll cancel_at s1) as [cancelled s2] eqn:Hp. pose proof (poll_env _ _ _ Hp) as H2.
    destruct cancelled; [right; split; [simp; congruence|exact I]|]. call_rec (r_env s). }
  repeat match goal with |- env_eq _ _ _ (if ?c then _ else _) => destruct c end;
    try (apply arity_error_env); try (apply Hfin; reflexivity).
  all: try (apply eval_rvals_env; [imp_solve|reflexivity|]; intros; apply Hfin; assumption).
  all: apply eval_rvals_env; [imp_solve|reflexivity|]; intros head s1 H1.
  all: repeat match goal with |- env_eq _ _ _ (if ?c then _ else _) => destruct c end.
  all: try (apply eval_rvals_env; [imp_solve|assumption|]; intros; apply Hfin; assumption).
  all: try (apply eval_values_env; [imp_solve|assumption|]; intros vs s2 H2;
            try (destruct (pack_variadic _ _) as [s3 packed] eqn:Hp; unfold pack_variadic in Hp;
                 destruct (new_slice _ _) as [st' sl]; injection Hp as <- <-);
            apply Hfin; simp; congruence).
  all: try (apply eval_rvals_env; [imp_solve|assumption|]; intros tl s2 H2;
            try (destruct (pack_variadic _ _) as [s3 packed] eqn:Hp; unfold pack_variadic in Hp;
                 destruct (new_slice _ _) as [st' sl]; injection Hp as <- <-);
            apply Hfin; simp; congruence).
  all: repeat match goal with
              | |- env_eq _ _ _ (match skipn ?n ?l with _ => _ end) => destruct (skipn n l) as [|e1 [|e2 rest]]
              end; try exact I.
  all: try (destruct (pack_variadic _ _) as [s3 packed] eqn:Hp; unfold pack_variadic in Hp;
            destruct (new_slice _ _) as [st' sl]; injection Hp as <- <-; apply Hfin; simp; congruence).
  all: try (apply Hfin; assumption).
  all: try (step_rec; destruct (deref _ _); repeat match goal with |- env_eq _ _ _ (if ?c then _ else _) => destruct c end;
            first [apply arity_error_env' | apply Hfin; congruence | fin]).
  all: first [apply eval_rvals_env | apply eval_values_env]; [imp_solve|assumption|]; intros xs s2 H2; destruct isvm;
    try (destruct (pack_variadic _ _) as [s3 packed] eqn:Hp; unfold pack_variadic in Hp;
         destruct (new_slice _ _) as [st' sl]; injection Hp as <- <-);
    apply Hfin; simp; congruence.
Qed.

(* ---------------- statements ---------------- *)
Lemma run_stmts_env l : forall s, env_eq false anyerr (r_env s) (run_stmts rec l s).
Proof.
  induction l as [|st r IH]; intros s; cbn [run_stmts]; [reflexivity|].
  destruct st; try (step_rec; eapply env_eq_to; [|apply IH]; congruence); try fin.
  step_rec. fin.
Qed.

Lemma define_all_env st e names rvs s : r_env (set_st s (define_all st e names rvs)) = r_env s.
Proof. reflexivity. Qed.

Lemma run_var_env names es s : env_eq false anyerr (r_env s) (run_var rec names es s).
Proof.
  unfold run_var. destruct names as [|n0 nr]; [fin|]. destruct es as [|e0 er]; [fin|].
  apply eval_rhs_env; [imp_solve|reflexivity|]. intros rvs s1 H1. cbv zeta.
  match goal with |- env_eq _ _ _ (match ?x with _ => _ end) => destruct x as [[[l off] n]|] end; [fin|].
  destruct (rev rvs); [exact I|fin].
Qed.

Lemma let_all_env b (EP : err -> Prop) ls : (forall x, nonsentinel x -> EP x) -> forall rvs s u, env_eq b EP (r_env s) (let_all rec ls rvs s u).
Proof.
  intros Himp. induction ls as [|l lr IH]; intros rvs s u; cbn [let_all]; [reflexivity|].
  destruct rvs as [|r rr]; [reflexivity|].
  step_rec. eapply env_eq_to; [|apply IH]. congruence.
Qed.

Lemma bind_env b (EP : err -> Prop) e0 (o : outcome) (k : rstate -> outcome) :
  env_eq b EP e0 o -> (forall s1, r_env s1 = e0 -> env_eq b EP e0 (k s1)) ->
  env_eq b EP e0 (match o with Ok s' => k s' | Err e s0 => Err e s0 | Abort a => Abort a end).
Proof. intros Ho Hk. destruct o; cbn in *; auto. Qed.

Lemma run_lets_env ls rs s : env_eq false anyerr (r_env s) (run_lets rec ls rs s).
Proof.
  unfold run_lets. destruct ls as [|l0 lr]; [fin|]. destruct rs as [|r0 rr]; [fin|].
  apply eval_rhs_env; [imp_solve|reflexivity|]. intros rvs s1 H1. cbv zeta.
  match goal with |- env_eq _ _ _ (match ?x with _ => _ end) => destruct x as [[[l off] n]|] end.
  - apply bind_env; [eapply env_eq_to; [|apply let_all_env; imp_solve]; assumption|]. intros s2 H2. fin.
  - apply bind_env; [eapply env_eq_to; [|apply let_all_env; imp_solve]; assumption|]. intros s2 H2.
    destruct (rev rvs); [exact I|fin].
Qed.

Lemma run_let_map_item_env ls r s : env_eq false anyerr (r_env s) (run_let_map_item rec ls r s).
Proof.
  unfold run_let_map_item. step_rec. cbv zeta.
  destruct ls as [|a [|b [|c t]]]; try exact I;
    (apply bind_env; [eapply env_eq_to; [|apply let_all_env; imp_solve]; congruence|]; intros s2 H2; fin).
Qed.

(* a block: run the statement in a child scope, then put env0 back on every path *)
Lemma block_env b env0 so s1 :
  env_eq b anyerr env0 match rec (CStmt so) s1 with
                | Ok s2 => Ok (set_env s2 env0)
                | Err e s2 => Err e (set_env s2 env0)
                | Abort a => Abort a
                end.
Proof. destruct (rec (CStmt so) s1); simp; auto. right; split; [reflexivity|exact I]. Qed.

Lemma run_elifs_env elifs : forall el env0 s, env_eq false anyerr env0 (run_elifs orc rec elifs el env0 s).
Proof.
  induction elifs as [|st r IH]; intros el env0 s; cbn [run_elifs].
  - destruct el; [|fin]. destruct (env_new _ _) as [st2 e2]. apply block_env.
  - destruct st; try exact I.
    destruct (env_new _ _) as [st1 e1].
    destruct (rec (CExpr c) _) as [s1|e s1|a]; simp; [|(right; split; [reflexivity|ep_solve])|exact I].
    apply truthy_env. intros b. destruct b; [|apply IH].
    destruct (env_new _ _) as [st2 e2]. apply block_env.
Qed.

Lemma run_if_env c th elifs el s : env_eq false anyerr (r_env s) (run_if orc rec c th elifs el s).
Proof.
  unfold run_if. step_rec. cbv zeta. apply truthy_env. intros b. destruct b.
  - destruct (env_new _ _) as [st2 e2]. eapply env_eq_to; [|apply block_env]. assumption.
  - eapply env_eq_to; [|apply run_elifs_env]. assumption.
Qed.

Lemma run_try_env t v c f s : env_eq false anyerr (r_env s) (run_try rec t v c f s).
Proof.
  unfold run_try. cbv zeta. destruct (env_new _ _) as [st1 e1].
  assert (Hfin : forall s2, env_eq false anyerr (r_env s)
            match f with
            | Some _ => match rec (CStmt f) s2 with
                        | Ok s3 => Ok (set_env s3 (r_env s))
                        | Err e s3 => Err e (set_env s3 (r_env s))
                        | Abort a => Abort a
                        end
            | None => Ok (set_env s2 (r_env s))
            end).
  { intros s2. destruct f; [apply block_env|reflexivity]. }
  destruct (rec (CStmt t) _) as [s1|e s1|a]; [apply Hfin| |exact I].
  destruct e as [[| | |]|m|m]; try ((right; split; [reflexivity|ep_solve]));
    (destruct (rec (CStmt c) _) as [s2|e2 s2|a2]; [apply Hfin|(right; split; [reflexivity|ep_solve])|exact I]).
Qed.

Lemma run_loop_env c body s : env_eq false noloopsig (r_env s) (run_loop rec c body s).
Proof.
  unfold run_loop. cbv zeta. destruct (env_new _ _) as [st1 e1].
  pose proof (Hrec (CLoop c body (r_env s)) (set_env (set_st s st1) e1)) as H. exact H.
Qed.

Lemma loop_iter_env c body env0 s : env_eq false noloopsig env0 (loop_iter orc cancel_at rec c body env0 s).
Proof.
  unfold loop_iter. destruct (poll cancel_at s) as [cancelled s0]. destruct cancelled; [(right; split; [reflexivity|ep_solve])|].
  cbv zeta.
  assert (Hafter : forall s1, env_eq false noloopsig env0
            match rec (CStmt body) s1 with
            | Ok s2 => rec (CLoop c body env0) s2
            | Err (ESentinel SBreakS) s2 => Ok (set_env (set_rv s2 rv_nil) env0)
            | Err (ESentinel SContinueS) s2 => rec (CLoop c body env0) s2
            | Err (ESentinel SReturnS) s2 => Err (ESentinel SReturnS) (set_env s2 env0)
            | Err e s2 => Err e (set_env (set_rv s2 rv_nil) env0)
            | Abort a => Abort a
            end).
  { intros s1. destruct (rec (CStmt body) s1) as [s2|e s2|a]; [apply (Hrec (CLoop c body env0) s2)| |exact I].
    destruct e as [[| | |]|m|m]; try ((right; split; [reflexivity|ep_solve])); try reflexivity.
    apply (Hrec (CLoop c body env0) s2). }
  destruct c as [ce|]; [|apply Hafter].
  pose proof (Hrec (CExpr ce) s0) as Hc. simp.
  destruct (rec (CExpr ce) s0) as [s1|e s1|a]; [| |exact I].
  - apply truthy_env. intros b. destruct b; [apply Hafter|reflexivity].
  - destruct Hc as [[Hc _]|[_ He]]; [discriminate|]. right. split; [reflexivity|now apply nonsentinel_noloopsig].
Qed.

Lemma for_slice_iter_env var body l off len i s :
  env_eq false noloopsig (r_env s) (for_slice_iter cancel_at rec var body l off len i s).
Proof.
  unfold for_slice_iter. destruct (len <=? i); [reflexivity|].
  destruct (poll cancel_at s) as [cancelled s0] eqn:Hp.
  assert (H0 : r_env s0 = r_env s).
  { unfold poll in Hp. injection Hp as _ <-. reflexivity. }
  destruct cancelled; [right; split; [exact H0|ep_solve]|]. cbv zeta.
  match goal with |- env_eq _ _ _ (match rec ?cc ?ss with _ => _ end) =>
    pose proof (Hrec cc ss) as H; simp; destruct (rec cc ss) as [s2|e s2|a] end; [|  |exact I].
  - call_rec (r_env s).
  - destruct e as [[| | |]|m|m]; simp;
      (destruct H as [[_ Hd]|[H He]]; [first [discriminate Hd | (left; split; [reflexivity|exact Hd])]|]);
      first [call_rec (r_env s) | (simp; congruence) | (right; split; [simp; congruence|ep_solve])].
Qed.


Ltac split_H H :=
  destruct H as [[_ H]|[H ?]]; [first [discriminate H | (left; split; [reflexivity|exact H])]|].

Lemma for_map_iter_env vars body m keys s :
  env_eq false noloopsig (r_env s) (for_map_iter cancel_at rec vars body m keys s).
Proof.
  unfold for_map_iter. destruct keys as [|k kr]; [reflexivity|].
  destruct (poll cancel_at s) as [cancelled s0] eqn:Hp. pose proof (poll_env _ _ _ Hp) as H0.
  destruct cancelled; [right; split; [exact H0|ep_solve]|].
  destruct vars as [|v0 vr]; [exact I|]. cbv zeta.
  match goal with |- env_eq _ _ _ (if ?c then _ else _) => destruct c end; [exact I|].
  match goal with |- env_eq _ _ _ (match rec ?cc ?ss with _ => _ end) =>
    pose proof (Hrec cc ss) as H; simp; destruct (rec cc ss) as [s2|e s2|a] end; [|  |exact I].
  - call_rec (r_env s).
  - destruct e as [[| | |]|m0|m0]; simp; split_H H;
      first [call_rec (r_env s) | (simp; congruence) | (right; split; [simp; congruence|ep_solve])].
Qed.

Lemma run_for_env vars value body s : env_eq false noloopsig (r_env s) (run_for rec vars value body s).
Proof.
  unfold run_for. step_rec. cbv zeta. destruct (env_new _ _) as [st1 e1].
  assert (Hrestore : forall o e', env_eq false noloopsig e' o -> env_eq false noloopsig (r_env s)
            match o with
            | Ok s3 => Ok (set_env s3 (r_env s0))
            | Err e s3 => Err e (set_env s3 (r_env s0))
            | Abort a => Abort a
            end).
  { intros o e' Ho. destruct o; simp; auto.
    destruct Ho as [Ho|[_ Ho]]; [now left|right; split; [congruence|exact Ho]]. }
  destruct (deref _ _); try (apply (Hrestore _ e1); fin).
  - destruct vars; [exact I|]. apply (Hrestore _ e1).
    match goal with |- env_eq _ _ _ (rec ?cc ?ss) => pose proof (Hrec cc ss) as Hx; simp; exact Hx end.
  - destruct (nth_error _ _); [|exact I]. destruct (1 <? _); [exact I|]. apply (Hrestore _ e1).
    match goal with |- env_eq _ _ _ (rec ?cc ?ss) => pose proof (Hrec cc ss) as Hx; simp; exact Hx end.
Qed.

Lemma cfor_iter_env e2 e3 body env0 s : env_eq false noloopsig env0 (cfor_iter orc cancel_at rec e2 e3 body env0 s).
Proof.
  unfold cfor_iter. destruct (poll cancel_at s) as [cancelled s0]. destruct cancelled; [(right; split; [reflexivity|ep_solve])|].
  cbv zeta.
  assert (Hpost : forall s2, env_eq false noloopsig env0
            match e3 with
            | None => rec (CCFor e2 e3 body env0) s2
            | Some pe => match rec (CExpr pe) s2 with
                         | Ok s3 => rec (CCFor e2 e3 body env0) s3
                         | Err e s3 => Err e (set_env (set_rv s3 rv_nil) env0)
                         | Abort a => Abort a
                         end
            end).
  { intros s2. destruct e3 as [pe|]; [|apply (Hrec (CCFor e2 None body env0) s2)].
    pose proof (Hrec (CExpr pe) s2) as Hc. simp.
    destruct (rec (CExpr pe) s2) as [s3|e s3|a]; [apply (Hrec (CCFor e2 (Some pe) body env0) s3)| |exact I].
    destruct Hc as [[Hc _]|[_ He]]; [discriminate|]. right. split; [reflexivity|now apply nonsentinel_noloopsig]. }
  assert (Hafter : forall s1, env_eq false noloopsig env0
            match rec (CStmt body) s1 with
            | Ok s2 => match e3 with
                       | None => rec (CCFor e2 e3 body env0) s2
                       | Some pe => match rec (CExpr pe) s2 with
                                    | Ok s3 => rec (CCFor e2 e3 body env0) s3
                                    | Err e s3 => Err e (set_env (set_rv s3 rv_nil) env0)
                                    | Abort a => Abort a
                                    end
                       end
            | Err (ESentinel SBreakS) s2 => Ok (set_env (set_rv s2 rv_nil) env0)
            | Err (ESentinel SContinueS) s2 =>
                       match e3 with
                       | None => rec (CCFor e2 e3 body env0) s2
                       | Some pe => match rec (CExpr pe) s2 with
                                    | Ok s3 => rec (CCFor e2 e3 body env0) s3
                                    | Err e s3 => Err e (set_env (set_rv s3 rv_nil) env0)
                                    | Abort a => Abort a
                                    end
                       end
            | Err (ESentinel SReturnS) s2 => Err (ESentinel SReturnS) (set_env s2 env0)
            | Err e s2 => Err e (set_env (set_rv s2 rv_nil) env0)
            | Abort a => Abort a
            end).
  { intros s1. destruct (rec (CStmt body) s1) as [s2|e s2|a]; [apply Hpost| |exact I].
    destruct e as [[| | |]|m|m]; try ((right; split; [reflexivity|ep_solve])); try reflexivity. apply Hpost. }
  destruct e2 as [ce|]; [|apply Hafter].
  pose proof (Hrec (CExpr ce) s0) as Hc. simp.
  destruct (rec (CExpr ce) s0) as [s1|e s1|a]; [| |exact I].
  - apply truthy_env. intros b. destruct b; [apply Hafter|reflexivity].
  - destruct Hc as [[Hc _]|[_ He]]; [discriminate|]. right. split; [reflexivity|now apply nonsentinel_noloopsig].
Qed.

Lemma run_cfor_env s1o e2 e3 body s : env_eq false anyerr (r_env s) (run_cfor rec s1o e2 e3 body s).
Proof.
  unfold run_cfor. cbv zeta. destruct (env_new _ _) as [st1 e1].
  destruct s1o as [st|].
  - destruct (rec (CStmt (Some st)) _) as [s2|e s2|a]; [|(right; split; [reflexivity|ep_solve])|exact I].
    eapply env_eq_mono; [|apply (Hrec (CCFor e2 e3 body (r_env s)) s2)]. intros; exact I.
  - eapply env_eq_mono; [|apply (Hrec (CCFor e2 e3 body (r_env s)) (set_env (set_st s st1) e1))]. intros; exact I.
Qed.

Lemma run_return_env es s : env_eq false anyerr (r_env s) (run_return rec es s).
Proof.
  unfold run_return. destruct es as [|e [|e' r]]; [reflexivity| |].
  { pose proof (Hrec (CExpr e) s) as Hx. simp.
    destruct (rec (CExpr e) s) as [s1|er s1|a]; simp; [exact Hx| |exact I].
    destruct Hx as [[Hx _]|[Hx _]]; [discriminate|]. right. split; [exact Hx|exact I]. }
  apply eval_values_env; [imp_solve|reflexivity|]. intros vs s1 H1. destruct (new_slice _ _) as [st' sl]. fin.
Qed.

Lemma run_module_env name body s : env_eq false anyerr (r_env s) (run_module rec name body s).
Proof.
  unfold run_module. cbv zeta.
  destruct (new_module _ _ _ _) as [[h m] [u|c| | |]]; try (left; split; reflexivity).
  destruct (rec (CStmt body) _) as [s1|e s1|a]; [reflexivity|(right; split; [reflexivity|ep_solve])|exact I].
Qed.

Lemma switch_case_exprs_env es : forall value body env0 s next,
  (forall s1, env_eq false anyerr env0 (next s1)) ->
  env_eq false anyerr env0 (switch_case_exprs orc rec es value body env0 s next).
Proof.
  induction es as [|e r IH]; intros value body env0 s next Hn; cbn [switch_case_exprs]; [apply Hn|].
  destruct (rec (CExpr e) s) as [s1|er s1|a]; [|(right; split; [reflexivity|ep_solve])|exact I].
  apply tri_bind_env; [intros b|apply IH; assumption].
  destruct b; [apply block_env|apply IH; assumption].
Qed.

Lemma switch_cases_env cases : forall value default env0 s,
  env_eq false anyerr env0 (switch_cases orc rec cases value default env0 s).
Proof.
  induction cases as [|c r IH]; intros value default env0 s; cbn [switch_cases].
  - destruct default; [apply block_env|reflexivity].
  - destruct c; try exact I. apply switch_case_exprs_env. intros s1. apply IH.
Qed.

Lemma run_switch_env e cases default s : env_eq false anyerr (r_env s) (run_switch orc rec e cases default s).
Proof.
  unfold run_switch. cbv zeta. destruct (env_new _ _) as [st1 e1].
  destruct (rec (CExpr e) _) as [s1|er s1|a]; [apply switch_cases_env|(right; split; [reflexivity|ep_solve])|exact I].
Qed.

Lemma register_defer_env f args va s : env_eq true nonsentinel (r_env s) (register_defer rec f args va s).
Proof.
  unfold register_defer. cbv zeta.
  match goal with |- env_eq _ _ _ (match ?x with _ => _ end) => destruct x as [[[num_in fvar] isvm]|] end; [|exact I].
  repeat match goal with |- env_eq _ _ _ (if ?c then _ else _) => destruct c end; try fin.
  apply eval_rvals_env; [imp_solve|reflexivity|]. intros argv s1 H1. fin.
Qed.

Lemma run_defer_env e s : env_eq false anyerr (r_env s) (run_defer rec e s).
Proof.
  unfold run_defer. apply (env_eq_weaken false nonsentinel anyerr); [intros; exact I|]. destruct e; try fin.
  - destruct (env_get _ _ _); try exact I; try fin.
    destruct (deref _ _); try fin; apply register_defer_env.
  - apply eval_operand_env; [imp_solve|reflexivity|]. intros fv s1 H1.
    destruct fv; try fin; (eapply env_eq_to; [|apply register_defer_env]; assumption).
Qed.

Lemma run_defers_env ds err0 s :
  env_eq true (fun e => nonsentinel e \/ err0 = Some e) (r_env s) (run_defers rec ds err0 s).
Proof.
  unfold run_defers. destruct ds as [|d r].
  { destruct err0; simp; [right; split; [reflexivity|right; reflexivity]|reflexivity]. }
  cbv zeta.
  match goal with |- env_eq _ _ _ (match rec ?cc ?ss with _ => _ end) =>
    pose proof (Hrec cc ss) as H; simp; destruct (rec cc ss) as [s1|e s1|a] end; [| |exact I].
  - match goal with |- env_eq _ _ _ (rec ?cc ?ss) => pose proof (Hrec cc ss) as Hx; simp end.
    eapply env_eq_to; [|exact Hx]. simp. congruence.
  - destruct H as [[H _]|[H He]]; [discriminate|].
    match goal with |- env_eq _ _ _ (rec ?cc ?ss) => pose proof (Hrec cc ss) as Hx; simp end.
    eapply env_eq_to; [simp; exact H|].
    eapply env_eq_mono; [|exact Hx]. cbv beta. intros e' [Hn|Heq]; [now left|].
    destruct err0 as [[[| | |]|m|m]|]; cbn in Heq; try (right; exact Heq);
      injection Heq as <-; now left.
Qed.

Lemma run_delete_env item key s : env_eq false anyerr (r_env s) (run_delete rec item key s).
Proof.
  unfold run_delete. apply (env_eq_weaken false nonsentinel anyerr); [intros; exact I|]. step_rec. unfold opt_expr.
  assert (Hk : forall s2, r_env s2 = r_env s ->
            env_eq true nonsentinel (r_env s)
              (let iv := deref (r_st s2) (r_rv s0) in
               let kv := deref (r_st s2) (r_rv s2) in
               match iv with
               | VStr name =>
                   let global := match key, kv with Some _, VBool true => true | _, _ => false end in
                   if global then
                     match @delete_global rval unit (hfuel (r_st s2)) (st_heap (r_st s2)) (r_env s2) name with
                     | EnvModel.Ok h => Ok (set_rv (set_st s2 (set_heap (r_st s2) h)) rv_nil)
                     | _ => Abort (APanic "env")
                     end
                   else Ok (set_rv (set_st s2 (set_heap (r_st s2) (@delete rval unit (st_heap (r_st s2)) (r_env s2) name))) rv_nil)
               | VMap m =>
                   match key with
                   | None => raise "second argument to delete cannot be nil for map" s2
                   | Some _ =>
                       if negb (hashable kv) then raise "type cannot be used as map key in delete" s2
                       else match nth_error (st_maps (r_st s2)) m with
                            | Some es => Ok (set_rv (set_st s2 (set_maps (r_st s2) (list_set (st_maps (r_st s2)) m (map_remove es kv)))) rv_nil)
                            | None => Abort (APanic "dangling map")
                            end
                   end
               | _ => raise ("first argument to delete cannot be type " ++ kind_name (kind_of iv))%string s2
               end)).
  { intros s2 H2. cbv zeta. destruct (deref (r_st s2) (r_rv s0)); try fin.
    - match goal with |- env_eq _ _ _ (if ?c then _ else _) => destruct c end; [|fin].
      destruct (delete_global _ _ _ _); try exact I; fin.
    - destruct key; [|fin]. destruct (negb _); [fin|]. destruct (nth_error _ _); [fin|exact I]. }
  destruct key as [ke|].
  - step_rec. apply Hk. congruence.
  - apply Hk. assumption.
Qed.

Lemma run_single_env so s : env_eq false anyerr (r_env s) (run_single orc cancel_at rec so s).
Proof.
  unfold run_single. destruct (poll cancel_at s) as [cancelled s0] eqn:Hp. pose proof (poll_env _ _ _ Hp) as H0.
  destruct cancelled; [right; split; [exact H0|ep_solve]|].
  destruct so as [st|]; [|exact H0].
  eapply env_eq_to; [exact H0|].
  destruct st; try exact I; try fin.
  - apply run_stmts_env.
  - call_rec (r_env s0).
  - apply run_if_env.
  - apply run_try_env.
  - eapply env_eq_mono; [|apply run_for_env]. intros; exact I.
  - apply run_cfor_env.
  - eapply env_eq_mono; [|apply run_loop_env]. intros; exact I.
  - apply run_return_env.
  - step_rec. apply tri_bind_env; [intros m|exact I]. destruct (String.eqb m ""); fin.
  - apply run_module_env.
  - apply run_switch_env.
  - apply run_var_env.
  - apply run_lets_env.
  - apply run_let_map_item_env.
  - apply run_defer_env.
  - apply run_delete_env.
Qed.

Lemma call_polled_env f args va go s : env_eq true nonsentinel (r_env s) (call_polled cancel_at rec f args va go s).
Proof.
  unfold call_polled. destruct (poll cancel_at s) as [cancelled s0] eqn:Hp. pose proof (poll_env _ _ _ Hp) as H0.
  destruct cancelled.
  - right. split; [simp; congruence|exact I].
  - rewrite <- H0. apply call_function_env.
Qed.

Theorem exec_body_env c s : env_eq (strict_cmd c) (err_pred c) (post_env c s) (exec_body orc cancel_at rec c s).
Proof.
  destruct c; cbn [exec_body strict_cmd post_env].
  - apply run_single_env.
  - apply invoke_expr_env.
  - apply invoke_let_env.
  - apply call_polled_env.
  - apply apply_fn_env.
  - apply loop_iter_env.
  - apply for_slice_iter_env.
  - apply for_map_iter_env.
  - apply cfor_iter_env.
  - apply run_defers_env.
Qed.

End Scope.

(* the interpreter at every fuel *)
Theorem exec_env orc cancel_at fuel : forall c s,
  env_eq (strict_cmd c) (err_pred c) (post_env c s) (exec orc cancel_at fuel c s).
Proof.
  induction fuel as [|f IH]; intros c s; cbn [exec]; [exact I|].
  apply exec_body_env. exact IH.
Qed.
