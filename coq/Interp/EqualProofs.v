(* C06: algebra of equal() on the model, for all values of the scalar universe. *)
From Coq Require Import String List ZArith PArith Bool Arith Floats.SpecFloat Lia.
From Anko Require Import Base.Int64 Base.F64 Interp.Ast Interp.Value Interp.ToX Interp.Equal.
Import ListNotations.

(* ---- comparison of spec floats is antisymmetric ---- *)
Lemma SFcompare_opp a b :
  SFcompare b a = option_map CompOpp (SFcompare a b).
Proof.
  destruct a as [sa|sa| |sa ma ea], b as [sb|sb| |sb mb eb]; cbn; try reflexivity;
    try (destruct sa; reflexivity); try (destruct sb; reflexivity);
    try (destruct sa, sb; reflexivity).
  assert (Hanti : Pos.compare_cont Eq mb ma = CompOpp (Pos.compare_cont Eq ma mb))
    by (symmetry; apply (Pos.compare_cont_antisym ma mb Eq)).
  destruct sa, sb; cbn; try reflexivity.
  - rewrite (Z.compare_antisym ea eb). destruct (Z.compare ea eb); cbn; try reflexivity.
    rewrite Hanti. reflexivity.
  - rewrite (Z.compare_antisym ea eb). destruct (Z.compare ea eb); cbn; try reflexivity.
    rewrite Hanti. reflexivity.
Qed.

Lemma feqb_sym a b : feqb a b = feqb b a.
Proof.
  unfold feqb, SFeqb. rewrite (SFcompare_opp a b). destruct (SFcompare a b) as [[| |]|]; reflexivity.
Qed.

(* a == b  <->  a <= b && a >= b on floats (NaN: all false) *)
Lemma feqb_is_le_and_ge a b : feqb a b = fleb a b && fleb b a.
Proof.
  unfold feqb, fleb, SFeqb, SFleb. rewrite (SFcompare_opp a b). destruct (SFcompare a b) as [[| |]|]; reflexivity.
Qed.

Lemma bool_eqb_sym (a b : bool) : Bool.eqb a b = Bool.eqb b a.
Proof. destruct a, b; reflexivity. Qed.

Section EqualLaws.
Variable orc : oracle.
Variable st : store.

Definition scalar (v : value) : Prop :=
  match v with VNil | VBool _ | VInt _ | VFloat _ | VStr _ => True | _ => False end.

Definition tri_sym (p q : tri bool) : Prop :=
  match p, q with
  | TOk x, TOk y => x = y
  | TMiss _, TMiss _ => True
  | TErr, TErr => True
  | _, _ => False
  end.

Lemma bool_equal_sym a b : tri_sym (bool_equal orc st a b) (bool_equal orc st b a).
Proof.
  unfold bool_equal. destruct (try_to_bool orc (len_of st) a) as [p| |w], (try_to_bool orc (len_of st) b) as [q| |w'];
    cbn; auto using bool_eqb_sym.
Qed.

Lemma equal_core_sym a b : scalar a -> scalar b -> tri_sym (equal_core orc st a b) (equal_core orc st b a).
Proof.
  intros Ha Hb.
  destruct a as [|x|x|x|x| | | | | |]; try contradiction;
    destruct b as [|y|y|y|y| | | | | |]; try contradiction; cbn [equal_core];
    try apply bool_equal_sym; cbn; try reflexivity;
    first [apply Z.eqb_sym | apply feqb_sym | apply bool_eqb_sym | apply String.eqb_sym | idtac].
Qed.

Definition swap_pair (t : tri (option (value * value))) : tri (option (value * value)) :=
  match t with
  | TOk (Some (x, y)) => TOk (Some (y, x))
  | other => other
  end.

Lemma coerce_pair_swap a b : coerce_pair orc b a = swap_pair (coerce_pair orc a b).
Proof.
  destruct a, b; cbn; try reflexivity; destruct (coerce_str orc s) as [[v|]| |w]; reflexivity.
Qed.

Lemma coerce_str_scalar s v : coerce_str orc s = TOk (Some v) -> scalar v.
Proof.
  unfold coerce_str. destruct (str_to_int s); [intros [= <-]; exact I|].
  destruct (str_to_float orc s); intros [= <-] || intros H; try discriminate. exact I.
Qed.

(* == is symmetric on nil, booleans, numbers and strings; the only asymmetry left in the model
   is which of two oracle misses is reported, which never decides a comparison *)
Theorem equal_sym_scalar a b :
  scalar a -> scalar b -> tri_sym (equal orc st a b) (equal orc st b a).
Proof.
  intros Ha Hb. unfold equal.
  rewrite (andb_comm (is_nil b)), (orb_comm (is_nil b)).
  destruct (is_nil a && is_nil b); [reflexivity|]. destruct (is_nil a || is_nil b); [reflexivity|].
  rewrite (coerce_pair_swap a b).
  destruct (coerce_pair orc a b) as [[[a' b']|]| |w] eqn:E; cbn [swap_pair]; try exact I; try reflexivity.
  apply equal_core_sym.
  - destruct a, b; cbn in E; try contradiction; try (injection E as <- <-; exact I);
      destruct (coerce_str orc s) as [[v|]| |w] eqn:Ec; try discriminate; injection E as <- <-;
      first [exact I | eapply coerce_str_scalar; eassumption].
  - destruct a, b; cbn in E; try contradiction; try (injection E as <- <-; exact I);
      destruct (coerce_str orc s) as [[v|]| |w] eqn:Ec; try discriminate; injection E as <- <-;
      first [exact I | eapply coerce_str_scalar; eassumption].
Qed.

(* nil equals only nil *)
Theorem nil_equals_only_nil b : equal orc st VNil b = TOk (is_nil b).
Proof. unfold equal. cbn. destruct b; reflexivity. Qed.

(* same primitive type: Go's == *)
Theorem equal_ints x y : equal orc st (VInt x) (VInt y) = TOk (Z.eqb x y).
Proof. reflexivity. Qed.
Theorem equal_floats x y : equal orc st (VFloat x) (VFloat y) = TOk (feqb x y).
Proof. reflexivity. Qed.
Theorem equal_bools x y : equal orc st (VBool x) (VBool y) = TOk (Bool.eqb x y).
Proof. reflexivity. Qed.
Theorem equal_strings x y : equal orc st (VStr x) (VStr y) = TOk (String.eqb x y).
Proof. reflexivity. Qed.

(* an integer and a float are equal exactly when both <= and >= hold between them (as float64) *)
Theorem equal_int_float i f :
  equal orc st (VInt i) (VFloat f) = TOk (fleb (of_int i) f && fleb f (of_int i)).
Proof. unfold equal. cbn. now rewrite feqb_is_le_and_ge. Qed.

Theorem equal_float_int f i :
  equal orc st (VFloat f) (VInt i) = TOk (fleb f (of_int i) && fleb (of_int i) f).
Proof. unfold equal. cbn. now rewrite feqb_is_le_and_ge. Qed.

(* a string and a number: the string is read as a decimal integer numeral if it is one, else as a
   float numeral (strconv.ParseFloat, oracle); equal exactly when that number equals the other *)
Theorem equal_string_int s n z :
  str_to_int s = Some z -> equal orc st (VStr s) (VInt n) = TOk (Z.eqb z n).
Proof. intros H. unfold equal. cbn. unfold coerce_str. rewrite H. reflexivity. Qed.

Theorem equal_int_string s n z :
  str_to_int s = Some z -> equal orc st (VInt n) (VStr s) = TOk (Z.eqb n z).
Proof. intros H. unfold equal. cbn. unfold coerce_str. rewrite H. reflexivity. Qed.

Theorem equal_string_not_a_numeral s n :
  str_to_int s = None -> str_to_float orc s = TErr ->
  equal orc st (VStr s) (VInt n) = TOk false /\ equal orc st (VInt n) (VStr s) = TOk false.
Proof. intros H1 H2. unfold equal. cbn. unfold coerce_str. rewrite H1, H2. split; reflexivity. Qed.

End EqualLaws.
