(* vm/vmToX.go, vm/vm.go (equal, isNil, precedenceOfKinds, numToString) on model values.
   Go standard-library routines anko merely calls (strconv.ParseFloat, float
   formatting) are oracles: finite tables filled by the harness from the real
   functions; a missing entry aborts the case (counted as unsupported), it never
   decides a comparison. *)
From Coq Require Import String Ascii List ZArith Bool Arith Floats.SpecFloat.
From Anko Require Import Base.Sexp Base.Int64 Base.F64 Interp.Ast Interp.Value.
Import ListNotations.
Open Scope nat_scope.

Record oracle := mkOracle {
  o_parsefloat : list (string * option spec_float);   (* strconv.ParseFloat(s, 64): None = error *)
  o_fmtfloat : list (Z * string) }.                    (* bits -> fmt.Sprint(f) *)

Fixpoint slookup {A} (l : list (string * A)) (k : string) : option A :=
  match l with
  | [] => None
  | (k', v) :: r => if String.eqb k k' then Some v else slookup r k
  end.

Fixpoint zlookup {A} (l : list (Z * A)) (k : Z) : option A :=
  match l with
  | [] => None
  | (k', v) :: r => if Z.eqb k k' then Some v else zlookup r k
  end.

(* three-valued results of the conversions: a value, "error", or oracle miss *)
Inductive tri (A : Type) := TOk (a : A) | TErr | TMiss (what : string).
Arguments TOk {A}. Arguments TErr {A}. Arguments TMiss {A}.

Section ToX.
Variable orc : oracle.

(* strconv.ParseInt(s, 10, 64): optional sign, decimal digits, in range *)
Definition parse_int_dec (s : string) : option Z :=
  let body := match s with
              | String "+"%char r => Some (false, r)
              | String "-"%char r => Some (true, r)
              | _ => Some (false, s)
              end in
  match body with
  | Some (neg, digits) =>
      match N_of_string digits with
      | Some n => let z := if neg then Z.opp (Z.of_N n) else Z.of_N n in
                  if in_int64b z then Some z else None
      | None => None
      end
  | None => None
  end.

Definition has_prefix (p s : string) : bool := String.prefix p s.

(* tryToInt64 on a string: "0x"/"0b" prefixes select ParseInt(s, 16/2, 64) on the WHOLE
   string including the prefix, which therefore always fails *)
Definition str_to_int (s : string) : option Z :=
  if has_prefix "0x" s then None
  else if has_prefix "0b" s then None
  else parse_int_dec s.

Definition str_to_float (s : string) : tri spec_float :=
  match slookup (o_parsefloat orc) s with
  | Some (Some f) => TOk f
  | Some None => TErr
  | None => TMiss ("parsefloat " ++ s)
  end.

(* tryToInt64 *)
Definition try_to_int64 (v : value) : tri Z :=
  match v with
  | VFloat f => TOk (to_int f)
  | VInt z => TOk z
  | VBool b => TOk (if b then 1%Z else 0%Z)
  | VStr s => match str_to_int s with Some z => TOk z | None => TErr end
  | _ => TErr
  end.

Definition to_int64 (v : value) : tri Z :=
  match try_to_int64 v with TErr => TOk 0%Z | x => x end.

(* tryToFloat64 *)
Definition try_to_float64 (v : value) : tri spec_float :=
  match v with
  | VFloat f => TOk f
  | VInt z => TOk (of_int z)
  | VBool b => TOk (if b then of_int 1 else fzero)
  | VStr s => str_to_float s
  | _ => TErr
  end.

Definition to_float64 (v : value) : tri spec_float :=
  match try_to_float64 v with TErr => TOk fzero | x => x end.

(* strconv.ParseBool *)
Definition parse_bool (s : string) : option bool :=
  if existsb (String.eqb s) ["1"; "t"; "T"; "TRUE"; "true"; "True"]%string then Some true
  else if existsb (String.eqb s) ["0"; "f"; "F"; "FALSE"; "false"; "False"]%string then Some false
  else None.

(* tryToBool; slices and maps need their length, supplied by the caller *)
Definition try_to_bool (len_of : value -> nat) (v : value) : tri bool :=
  match v with
  | VFloat f => TOk (negb (feqb f fzero))          (* v.Float() != 0: NaN != 0 is true *)
  | VInt z => TOk (negb (Z.eqb z 0))
  | VBool b => TOk b
  | VStr s =>
      if String.eqb s "" then TOk false
      else match parse_bool s with
           | Some false => TOk false
           | _ => match str_to_float s with
                  | TOk f => TOk (negb (feqb f fzero))
                  | TErr => TOk true
                  | TMiss w => TMiss w
                  end
           end
  | VSlice _ _ _ _ | VMap _ => TOk (0 <? len_of v)
  | _ => TErr
  end.

Definition to_bool (len_of : value -> nat) (v : value) : tri bool :=
  match try_to_bool len_of v with TErr => TOk false | x => x end.

(* fmt.Sprint of a float64 *)
Definition fmt_float (f : spec_float) : tri string :=
  match zlookup (o_fmtfloat orc) (to_bits f) with
  | Some s => TOk s
  | None => TMiss ("fmtfloat " ++ Z_to_string (to_bits f))
  end.

Definition err_message (e : err) : string :=
  match e with
  | ESentinel SBreakS => "unexpected break statement"
  | ESentinel SContinueS => "unexpected continue statement"
  | ESentinel SReturnS => "unexpected return statement"
  | ESentinel SInterruptS => "execution interrupted"
  | EVm m | EGo m => m
  end.

(* toString: strings as they are, everything else through fmt.Sprint; containers,
   functions and modules print addresses or nested data and are not modelled *)
Definition to_string (v : value) : tri string :=
  match v with
  | VStr s => TOk s
  | VNil => TOk "<nil>"
  | VBool b => TOk (if b then "true" else "false")
  | VInt z => TOk (Z_to_string z)
  | VFloat f => fmt_float f
  | VErr _ => TMiss "tostring of an error value (fmt prints the struct with its position)"
  | _ => TMiss "tostring of container"
  end.

Definition is_nil (v : value) : bool := match v with VNil => true | _ => false end.

(* vm.go precedenceOfKinds, restricted to the kinds of F1 *)
Definition precedence_of_kinds (k1 k2 : kind) : kind :=
  match k1, k2 with
  | KString, _ => KString
  | KFloat, KString => KString
  | KFloat, _ => KFloat
  | KInt, KString => KString
  | KInt, KFloat => KFloat
  | _, _ => k1
  end.

End ToX.
