(* The syntax tree of ast/{stmt,expr,operator,ast}.go, one constructor per node
   type, fields in declaration order (positions dropped).  CallExpr.Func is
   never set by the parser and is therefore not a field here; the interpreter's
   own synthetic CallExprs (anonymous calls, deferred calls) are modelled in
   Model.v by passing the function value directly. *)
From Coq Require Import String List ZArith Floats.SpecFloat.
Import ListNotations.

Inductive lit := LNil | LBool (b : bool) | LInt (z : Z) | LFloat (f : spec_float) | LStr (s : string).

Inductive tystruct :=
| TS (kind : nat) (env : list string) (name : string) (dims : nat)
     (sub key : option tystruct) (snames : list string) (stypes : list tystruct).

Inductive expr :=
| EOp (o : oper)
| ELit (l : lit)
| EArray (es : list expr) (ty : option tystruct)
| EMap (ks vs : list expr) (ty : option tystruct)
| EIdent (x : string)
| EUnary (op : string) (e : expr)
| EAddr (e : expr)
| EDeref (e : expr)
| EParen (e : expr)
| ECoalesce (l r : expr)
| ETernary (c l r : expr)
| ECall (name : string) (args : list expr) (vararg go : bool)
| EAnonCall (f : expr) (args : list expr) (vararg go : bool)
| EMember (e : expr) (name : string)
| EItem (e i : expr)
| ESlice (e : expr) (b en c : option expr)
| EFunc (name : string) (body : option stmt) (params : list string) (vararg : bool)
| ELets (ls rs : list expr)
| EChan (l : option expr) (r : expr)
| EImport (e : expr)
| EMake (ty : option tystruct) (len cap : option expr)
| EMakeType (name : string) (e : expr)
| ELen (e : expr)
| EInclude (item lst : expr)
with oper :=
| OBinary (l : expr) (op : string) (r : expr)
| OCompare (l : expr) (op : string) (r : expr)
| OAdd (l : expr) (op : string) (r : expr)
| OMul (l : expr) (op : string) (r : expr)
with stmt :=
| SStmts (l : list stmt)
| SExpr (e : expr)
| SIf (c : expr) (th : option stmt) (elifs : list stmt) (el : option stmt)
| STry (t : option stmt) (v : string) (c f : option stmt)
| SFor (vars : list string) (value : expr) (body : option stmt)
| SCFor (s1 : option stmt) (e2 e3 : option expr) (body : option stmt)
| SLoop (c : option expr) (body : option stmt)
| SBreak
| SContinue
| SReturn (es : list expr)
| SThrow (e : expr)
| SModule (name : string) (body : option stmt)
| SSwitch (e : expr) (cases : list stmt) (default : option stmt)
| SSwitchCase (es : list expr) (body : option stmt)
| SVar (names : list string) (es : list expr)
| SLets (ls rs : list expr)
| SLetMapItem (ls : list expr) (r : expr)
| SGo (e : expr)
| SDefer (e : expr)
| SDelete (item : expr) (key : option expr)
| SClose (e : expr)
| SChan (l ok : option expr) (r : expr).
