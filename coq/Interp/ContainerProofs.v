(* Laws of the container layer of the interpreter model: backing arrays and the slice views onto them,
   maps, and the index-assignment / delete steps.  Slices are (array, offset, length, capacity) as in
   Go; the laws below are Go's: a view reads exactly the addressed cells, views of one array share
   storage, append within capacity writes the next cell and beyond capacity moves to a fresh array,
   an out-of-range or ill-typed index is an error that leaves the store as it was. *)
From Coq Require Import String List ZArith Bool Arith Lia.
From Anko Require Import Base.Assoc Interp.Ast Interp.Value Interp.ToX Interp.Equal Interp.Model.
Import ListNotations.

(* ---- cells ---- *)
Lemma list_set_length {A} (l : list A) i x : length (list_set l i x) = length l.
Proof. revert i; induction l as [|y r IH]; intros [|i]; cbn; auto. Qed.

Lemma nth_list_set_same {A} (l : list A) i x : i < length l -> nth_error (list_set l i x) i = Some x.
Proof. revert i; induction l as [|y r IH]; intros [|i] H; cbn in *; try lia; auto. apply IH. lia. Qed.

Lemma nth_list_set_other {A} (l : list A) i j x : i <> j -> nth_error (list_set l i x) j = nth_error l j.
Proof. revert i j; induction l as [|y r IH]; intros [|i] [|j] H; cbn; auto; try congruence. Qed.

Lemma array_get_set_same st l i v a :
  nth_error (st_arrays st) l = Some a -> i < length a -> array_get (array_set st l i v) l i = Some v.
Proof.
  intros Ha Hi. unfold array_get, array_set. rewrite Ha. cbn.
  rewrite nth_list_set_same by (apply nth_error_Some; congruence).
  apply nth_list_set_same. exact Hi.
Qed.

Lemma array_get_set_other st l i v l' i' :
  (l, i) <> (l', i') -> array_get (array_set st l i v) l' i' = array_get st l' i'.
Proof.
  intro H. unfold array_get, array_set. destruct (nth_error (st_arrays st) l) as [a|] eqn:Ha; [|reflexivity]. cbn.
  destruct (Nat.eq_dec l l') as [<-|Hl].
  - rewrite nth_list_set_same by (apply nth_error_Some; congruence). rewrite Ha.
    apply nth_list_set_other. intro; subst. apply H; reflexivity.
  - rewrite nth_list_set_other by exact Hl. reflexivity.
Qed.

Lemma array_set_maps st l i v : st_maps (array_set st l i v) = st_maps st /\ st_heap (array_set st l i v) = st_heap st.
Proof. unfold array_set. destruct (nth_error (st_arrays st) l); split; reflexivity. Qed.

Lemma nth_firstn {A} (l : list A) n k : k < n -> nth_error (firstn n l) k = nth_error l k.
Proof. revert n k; induction l as [|x r IH]; intros [|n] [|k] H; cbn; try lia; auto. apply IH. lia. Qed.
Lemma nth_skipn {A} (l : list A) o k : nth_error (skipn o l) k = nth_error l (o + k).
Proof. revert l; induction o as [|o IH]; intros [|x r]; cbn; auto. destruct k; reflexivity. Qed.
Lemma skipn_skipn' {A} (l : list A) a b : skipn a (skipn b l) = skipn (b + a) l.
Proof. revert l; induction b as [|b IH]; intros [|x r]; cbn; auto. now rewrite skipn_nil. Qed.

(* ---- views ---- *)
(* the k-th element of a view is cell off+k of its array *)
Lemma view_nth st l off n k : k < n ->
  nth_error (slice_elems st l off n) k = array_get st l (off + k) \/ array_get st l (off + k) = None.
Proof.
  intro Hk. unfold slice_elems, array_get. destruct (nth_error (st_arrays st) l) as [a|]; [|right; reflexivity].
  left. rewrite nth_firstn by exact Hk. apply nth_skipn.
Qed.

(* x[b:e] reads exactly the addressed elements of x *)
Lemma subslice_view st l off n b e : b <= e -> e <= n ->
  slice_elems st l (off + b) (e - b) = firstn (e - b) (skipn b (slice_elems st l off n)).
Proof.
  intros Hbe Hen. unfold slice_elems. destruct (nth_error (st_arrays st) l) as [a|]; [|now rewrite skipn_nil, firstn_nil].
  rewrite skipn_firstn_comm, firstn_firstn, Nat.min_l by lia.
  rewrite skipn_skipn'. reflexivity.
Qed.

(* a store through any view of an array is seen by every view of that array that covers the cell,
   and by no other position *)
Lemma view_after_store st l a off n i v k :
  nth_error (st_arrays st) l = Some a -> i < length a -> k < n ->
  nth_error (slice_elems (array_set st l i v) l off n) k =
    if off + k =? i then Some v else nth_error (slice_elems st l off n) k.
Proof.
  intros Ha Hi Hk. unfold slice_elems, array_set. rewrite Ha. cbn.
  rewrite nth_list_set_same by (apply nth_error_Some; congruence).
  rewrite !nth_firstn by exact Hk. rewrite !nth_skipn.
  destruct (off + k =? i) eqn:E.
  - apply Nat.eqb_eq in E. rewrite E. apply nth_list_set_same. exact Hi.
  - apply Nat.eqb_neq in E. apply nth_list_set_other. lia.
Qed.

(* views of other arrays are not affected *)
Lemma view_of_other_array st l i v l' off n : l <> l' -> slice_elems (array_set st l i v) l' off n = slice_elems st l' off n.
Proof.
  intro H. unfold slice_elems, array_set. destruct (nth_error (st_arrays st) l); [|reflexivity]. cbn.
  rewrite nth_list_set_other by exact H. reflexivity.
Qed.

(* ---- append ---- *)
(* within capacity: the cell after the end is written, the array stays, the view grows by one *)
Lemma append_within_capacity st l off n cap v : n < cap ->
  append_value st l off n cap v = Some (array_set st l (off + n) v, VSlice l off (S n) cap).
Proof. intro H. unfold append_value. apply Nat.ltb_lt in H. rewrite H. reflexivity. Qed.

Lemma round_class_ge cls n c : round_class cls n = Some c -> n <= c.
Proof.
  induction cls as [|x r IH]; cbn; [discriminate|]. destruct (n <=? x) eqn:E; [|exact IH].
  intro H; injection H as <-. apply Nat.leb_le. exact E.
Qed.
Lemma grow_loop_ge fuel : forall newcap needed, needed <= grow_loop fuel newcap needed.
Proof.
  induction fuel as [|f IH]; intros newcap needed; cbn [grow_loop]; [lia|].
  destruct (needed <=? newcap) eqn:E; [apply Nat.leb_le; exact E | apply IH].
Qed.
Lemma next_cap_ge oldcap needed : needed <= next_cap oldcap needed.
Proof.
  unfold next_cap. destruct (oldcap + oldcap <? needed) eqn:E; [lia|]. apply Nat.ltb_ge in E.
  destruct (oldcap <? 256); [lia | apply grow_loop_ge].
Qed.
Lemma grow_cap_ge oldcap needed nc : grow_cap oldcap needed = Some nc -> needed <= nc.
Proof.
  unfold grow_cap. pose proof (next_cap_ge oldcap needed) as H.
  destruct (32 <? next_cap oldcap needed).
  - destruct (round_class size_classes (S (next_cap oldcap needed))) as [u|] eqn:E; [|discriminate].
    intro G; injection G as <-. apply round_class_ge in E. lia.
  - intro E. apply round_class_ge in E. lia.
Qed.

(* beyond capacity: a fresh array holding the old elements and the new one; every existing array is
   untouched, so other views keep what they had *)
Lemma append_beyond_capacity st l off n cap v st' sl a : ~ n < cap ->
  nth_error (st_arrays st) l = Some a -> off + n <= length a ->
  append_value st l off n cap v = Some (st', sl) ->
  exists nc, sl = VSlice (length (st_arrays st)) 0 (S n) nc /\ S n <= nc
    /\ (forall l' i, l' < length (st_arrays st) -> array_get st' l' i = array_get st l' i)
    /\ slice_elems st' (length (st_arrays st)) 0 (S n) = slice_elems st l off n ++ [v].
Proof.
  intros Hn Ha Hlen H. unfold append_value in H. apply Nat.ltb_nlt in Hn. rewrite Hn in H.
  destruct (grow_cap cap (S n)) as [nc|] eqn:Eg; [|discriminate].
  unfold alloc_array in H. injection H as <- <-.
  exists nc. split; [reflexivity|]. split; [exact (grow_cap_ge _ _ _ Eg)|]. split.
  - intros l' i Hl. unfold array_get. cbn. rewrite nth_error_app1 by exact Hl. reflexivity.
  - assert (El : length (slice_elems st l off n) = n).
    { unfold slice_elems. rewrite Ha. rewrite firstn_length, skipn_length. lia. }
    unfold slice_elems at 1. cbn [st_arrays set_arrays]. rewrite nth_error_app2 by lia. rewrite Nat.sub_diag. cbn [nth_error skipn].
    change (v :: repeat VNil (nc - S n)) with ([v] ++ repeat VNil (nc - S n)).
    rewrite (app_assoc (slice_elems st l off n) [v]). rewrite firstn_app.
    rewrite app_length, El. cbn [length]. replace (S n - (n + 1)) with 0 by lia. rewrite firstn_O, app_nil_r.
    apply firstn_all2. rewrite app_length, El. cbn. lia.
Qed.

(* ---- maps (keys nil, bool, integer, string: Go's == is Leibniz equality on these) ---- *)
Definition simple_key (k : value) : bool := match k with VNil | VBool _ | VInt _ | VStr _ => true | _ => false end.

Lemma key_eqb_refl_simple k : simple_key k = true -> key_eqb k k = true.
Proof. destruct k; cbn; try discriminate; intros _; [reflexivity | destruct b; reflexivity | apply Z.eqb_refl | apply String.eqb_refl]. Qed.

Lemma key_eqb_eq a b : simple_key a = true \/ simple_key b = true -> key_eqb a b = true -> a = b.
Proof.
  intros H E. destruct a, b; cbn in *; try discriminate; try reflexivity; try (destruct H; discriminate).
  - destruct b, b0; try discriminate; reflexivity.
  - apply Z.eqb_eq in E. now subst.
  - apply String.eqb_eq in E. now subst.
Qed.

Lemma simple_hashable k : simple_key k = true -> hashable k = true.
Proof. destruct k; cbn; try discriminate; reflexivity. Qed.

Lemma lookup_store_same m k v : simple_key k = true -> map_lookup (map_store m k v) k = Some v.
Proof.
  intro Hk. pose proof (key_eqb_refl_simple k Hk) as Hr.
  induction m as [|[k' v'] r IH]; cbn; [now rewrite Hr|].
  destruct (key_eqb k k') eqn:E; cbn; rewrite E; [reflexivity | exact IH].
Qed.

Lemma lookup_store_other m k k' v : simple_key k = true -> k <> k' -> map_lookup (map_store m k v) k' = map_lookup m k'.
Proof.
  intros Hk Hne. assert (Hkk : key_eqb k' k = false).
  { destruct (key_eqb k' k) eqn:E; [|reflexivity]. apply key_eqb_eq in E; [congruence | right; exact Hk]. }
  induction m as [|[k0 v0] r IH]; cbn; [now rewrite Hkk|].
  destruct (key_eqb k k0) eqn:E; cbn.
  - apply key_eqb_eq in E; [|left; exact Hk]. subst k0. rewrite Hkk. reflexivity.
  - destruct (key_eqb k' k0); [reflexivity | exact IH].
Qed.

(* no key occurs twice: the invariant of every map built by stores *)
Fixpoint wf_map (m : list (value * value)) : Prop :=
  match m with [] => True | (k, _) :: r => map_lookup r k = None /\ simple_key k = true /\ wf_map r end.

Lemma wf_store m k v : simple_key k = true -> wf_map m -> wf_map (map_store m k v).
Proof.
  intro Hk. induction m as [|[k0 v0] r IH]; cbn; [auto|]. intros (Hn & Hs & Hw).
  destruct (key_eqb k k0) eqn:E; cbn; [auto|].
  split; [|auto]. rewrite lookup_store_other; [exact Hn | exact Hk |].
  intro; subst. rewrite (key_eqb_refl_simple _ Hk) in E. discriminate.
Qed.

Lemma lookup_remove_same m k : simple_key k = true -> wf_map m -> map_lookup (map_remove m k) k = None.
Proof.
  intro Hk. induction m as [|[k0 v0] r IH]; cbn; [auto|]. intros (Hn & Hs & Hw).
  destruct (key_eqb k k0) eqn:E; cbn.
  - apply key_eqb_eq in E; [|left; exact Hk]. now subst.
  - rewrite E. apply IH. exact Hw.
Qed.

Lemma lookup_remove_other m k k' : simple_key k = true -> k <> k' -> map_lookup (map_remove m k) k' = map_lookup m k'.
Proof.
  intros Hk Hne. induction m as [|[k0 v0] r IH]; cbn; [reflexivity|].
  destruct (key_eqb k k0) eqn:E; cbn.
  - apply key_eqb_eq in E; [|left; exact Hk]. subst k0.
    destruct (key_eqb k' k) eqn:E2; [|reflexivity]. apply key_eqb_eq in E2; [congruence | right; exact Hk].
  - destruct (key_eqb k' k0); [reflexivity | exact IH].
Qed.

Lemma wf_remove m k : simple_key k = true -> wf_map m -> wf_map (map_remove m k).
Proof.
  intro Hk. induction m as [|[k0 v0] r IH]; cbn; [auto|]. intros (Hn & Hs & Hw).
  destruct (key_eqb k k0) eqn:E; cbn; [exact Hw|].
  split; [|auto]. rewrite lookup_remove_other; [exact Hn | exact Hk |].
  intro; subst. rewrite (key_eqb_refl_simple _ Hk) in E. discriminate.
Qed.

(* ---- the index-assignment and read steps ---- *)
Section Steps.
Variable orc : oracle.
Variable cancel_at : option nat.
Variable rec : cmd -> rstate -> outcome.

Lemma raise_keeps_store m s : exists e s', raise m s = Err e s' /\ r_st s' = r_st s /\ r_env s' = r_env s.
Proof. unfold raise. eexists _, _. split; [reflexivity|]. split; reflexivity. Qed.

Lemma store_in_range e l off len cap idx v s z :
  try_to_int idx = TOk z -> (0 <= z < Z.of_nat len)%Z ->
  let_item_slice rec e l off len cap idx v s =
    Ok (set_rv (set_st s (array_set (r_st s) l (off + Z.to_nat z) v)) (Place l (off + Z.to_nat z))).
Proof.
  intros Hz Hr. unfold let_item_slice. rewrite Hz. cbn [tri_bind].
  destruct (z =? Z.of_nat len)%Z eqn:E1; [apply Z.eqb_eq in E1; lia|].
  destruct ((z <? 0)%Z || (Z.of_nat len <=? z)%Z) eqn:E2; [|reflexivity].
  apply orb_prop in E2 as [E2|E2]; [apply Z.ltb_lt in E2 | apply Z.leb_le in E2]; lia.
Qed.

Lemma store_out_of_range e l off len cap idx v s z :
  try_to_int idx = TOk z -> (z < 0 \/ Z.of_nat len < z)%Z ->
  let_item_slice rec e l off len cap idx v s = raise "index out of range" s.
Proof.
  intros Hz Hr. unfold let_item_slice. rewrite Hz. cbn [tri_bind].
  destruct (z =? Z.of_nat len)%Z eqn:E1; [apply Z.eqb_eq in E1; lia|].
  destruct ((z <? 0)%Z || (Z.of_nat len <=? z)%Z) eqn:E2; [reflexivity|].
  apply orb_false_elim in E2 as [E2 E3]. apply Z.ltb_ge in E2. apply Z.leb_gt in E3. lia.
Qed.

Lemma store_not_a_number e l off len cap idx v s :
  try_to_int idx = TErr -> let_item_slice rec e l off len cap idx v s = raise "index must be a number" s.
Proof. intro H. unfold let_item_slice. rewrite H. reflexivity. Qed.

Lemma map_store_unhashable m key v s : hashable key = false ->
  let_item_map m key v s = raise "type cannot be used as map key" s.
Proof. intro H. unfold let_item_map. rewrite H. reflexivity. Qed.

Lemma map_store_hashable m key v s es : hashable key = true -> nth_error (st_maps (r_st s)) m = Some es ->
  let_item_map m key v s = Ok (set_st s (set_maps (r_st s) (list_set (st_maps (r_st s)) m (map_store es key v)))).
Proof. intros H Hm. unfold let_item_map. rewrite H, Hm. reflexivity. Qed.

Lemma map_read_missing st m key es : nth_error (st_maps st) m = Some es -> map_lookup es key = None -> get_map_index st key m = VNil.
Proof. intros Hm Hl. unfold get_map_index. destruct (hashable key); cbn; [rewrite Hm, Hl|]; reflexivity. Qed.

Lemma map_read_unhashable st m key : hashable key = false -> get_map_index st key m = VNil.
Proof. intro H. unfold get_map_index. rewrite H. reflexivity. Qed.

Lemma map_read_present st m key es v : hashable key = true -> nth_error (st_maps st) m = Some es -> map_lookup es key = Some v ->
  get_map_index st key m = v.
Proof. intros H Hm Hl. unfold get_map_index. rewrite H, Hm, Hl. reflexivity. Qed.

End Steps.
