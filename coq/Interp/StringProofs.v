(* Strings as byte sequences (C10): the element the model's invokeItemExpr reads at an index is the byte
   there - the same as the one-byte slice - for every string and every index, so a string is the
   concatenation of its elements.  (Before the repair f15b7c8 the implementation answered the character
   numbered by the byte, and the model asked the oracle for bytes >= 128.) *)
From Coq Require Import String List ZArith Bool Arith Lia.
From Anko Require Import Base.Assoc Interp.Ast Interp.Value Interp.ToX Interp.Equal Interp.Model.
Import ListNotations.
Local Open Scope string_scope.

Lemma substring_0_0 s : String.substring 0 0 s = EmptyString.
Proof. destruct s; reflexivity. Qed.

Lemma index_string_spec : forall s i, i < String.length s ->
  index_string s i = TOk (String.substring i 1 s).
Proof.
  unfold index_string. induction s as [|a s IH]; intros i Hi; cbn [String.length] in Hi; [lia|].
  destruct i as [|i]; cbn [String.get String.substring].
  - rewrite substring_0_0. reflexivity.
  - apply IH. lia.
Qed.

Lemma index_string_out : forall s i, String.length s <= i -> index_string s i = TErr.
Proof.
  unfold index_string. induction s as [|a s IH]; intros i Hi; cbn [String.length] in Hi.
  - destruct i; reflexivity.
  - destruct i as [|i]; [lia|]. cbn [String.get]. apply IH. lia.
Qed.

(* the elements of a string, in order *)
Fixpoint elements_from (s : string) (i n : nat) : list (tri string) :=
  match n with 0 => [] | S n' => index_string s i :: elements_from s (S i) n' end.

Fixpoint concat_ok (l : list (tri string)) : option string :=
  match l with
  | [] => Some EmptyString
  | TOk c :: r => match concat_ok r with Some t => Some (c ++ t) | None => None end
  | _ :: _ => None
  end.

Lemma substring_n_0 : forall s i, String.substring i 0 s = EmptyString.
Proof. induction s as [|a s IH]; intros [|i]; cbn; auto. Qed.

Lemma substring_split : forall s i n, i < String.length s ->
  (String.substring i 1 s ++ String.substring (S i) n s)%string = String.substring i (S n) s.
Proof.
  induction s as [|a s IH]; intros i n Hi; cbn [String.length] in Hi; [lia|].
  destruct i as [|i].
  - cbn [String.substring]. rewrite substring_0_0. reflexivity.
  - cbn [String.substring]. apply IH. lia.
Qed.

Lemma substring_all : forall s, String.substring 0 (String.length s) s = s.
Proof. induction s as [|a s IH]; cbn; [reflexivity|]. now rewrite IH. Qed.

Lemma rebuild_from : forall n s i, i + n = String.length s ->
  concat_ok (elements_from s i n) = Some (String.substring i n s).
Proof.
  induction n as [|n IH]; intros s i H.
  - cbn. now rewrite substring_n_0.
  - cbn [elements_from concat_ok]. rewrite index_string_spec by lia.
    rewrite (IH s (S i)) by lia. now rewrite substring_split by lia.
Qed.

Lemma rebuilt : forall s, concat_ok (elements_from s 0 (String.length s)) = Some s.
Proof. intro s. rewrite rebuild_from by lia. now rewrite substring_all. Qed.
