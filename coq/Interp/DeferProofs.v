(* C09: the loop that runs deferred calls keeps the result of the invocation and the
   error precedence, for any number of deferred calls (induction on fuel). *)
From Coq Require Import String List ZArith Bool Arith.
From Anko Require Import Base.Assoc Env.EnvModel Interp.Ast Interp.Value Interp.ToX Interp.Equal Interp.Model.
Import ListNotations.

(* the loop hands back the value the result had when it began - a value, not the place it was read
   from: whatever the deferred calls write, they cannot alter it *)
Lemma defers_keep_rv_detached orc cancel_at fuel : forall ds err0 s,
  match exec orc cancel_at fuel (CDefers ds err0) s with
  | Ok s' | Err _ s' => match ds with [] => s' = s | _ :: _ => r_rv s' = detach (r_st s) (r_rv s) end
  | Abort _ => True
  end.
Proof.
  induction fuel as [|f IH]; intros ds err0 s; cbn [exec]; [exact I|].
  cbn [exec_body]. unfold run_defers. destruct ds as [|d r].
  - destruct err0; reflexivity.
  - cbv zeta.
    assert (Hnext : forall e1 s1,
      match exec orc cancel_at f (CDefers r e1) (set_rv s1 (detach (r_st s) (r_rv s))) with
      | Ok s' | Err _ s' => r_rv s' = detach (r_st s) (r_rv s)
      | Abort _ => True
      end).
    { intros e1 s1. specialize (IH r e1 (set_rv s1 (detach (r_st s) (r_rv s)))).
      destruct (exec orc cancel_at f (CDefers r e1) _) as [s'|e' s'|a]; [| |exact I];
        (destruct r; [rewrite IH; reflexivity | rewrite IH; reflexivity]). }
    destruct (exec orc cancel_at f (CApply (d_fn d) (d_args d) (d_slice d)) s) as [s1|e s1|a]; [| |exact I]; apply Hnext.
Qed.

Lemma defers_keep_rv orc cancel_at fuel : forall ds err0 s,
  match exec orc cancel_at fuel (CDefers ds err0) s with
  | Ok s' | Err _ s' => deref (r_st s') (r_rv s') = deref (r_st s) (r_rv s)
  | Abort _ => True
  end.
Proof.
  intros ds err0 s. pose proof (defers_keep_rv_detached orc cancel_at fuel ds err0 s) as H.
  destruct (exec orc cancel_at fuel (CDefers ds err0) s) as [s'|e s'|a]; [| |exact I];
    (destruct ds; [subst s'; reflexivity | rewrite H; reflexivity]).
Qed.

(* when the body already failed with a real error, that error is what the invocation ends with *)
Lemma defers_keep_body_error orc cancel_at fuel : forall ds e0 s,
  e0 <> ESentinel SReturnS ->
  match exec orc cancel_at fuel (CDefers ds (Some e0)) s with
  | Ok _ => False
  | Err e _ => e = e0
  | Abort _ => True
  end.
Proof.
  induction fuel as [|f IH]; intros ds e0 s Hne; cbn [exec]; [exact I|].
  cbn [exec_body]. unfold run_defers. destruct ds as [|d r]; [reflexivity|]. cbv zeta.
  destruct (exec orc cancel_at f (CApply (d_fn d) (d_args d) (d_slice d)) s) as [s1|e s1|a]; [| |exact I].
  - apply IH. exact Hne.
  - destruct e0 as [[| | |]|m|m]; try (apply IH; assumption). contradiction.
Qed.

