(* What the interpreter's string->integer routes make of a decimal numeral: the number it spells. *)
From Coq Require Import String Ascii List ZArith NArith Bool Lia.
From Anko Require Import Base.Sexp Base.Int64 Base.DecimalProofs Interp.ToX.
Open Scope Z_scope.

Lemma N_to_string_head n : exists c r, N_to_string n = String c r /\ exists m, c = digit_char (m mod 10)%N.
Proof.
  unfold N_to_string.
  destruct (to_digits_head (N.to_nat (N.log2 n)) n ""%string) as (c & r & E & Hc).
  exists c, r. split; [exact E|]. destruct Hc as [->|[m ->]]; eauto.
Qed.

(* strconv.ParseInt(s, 10, 64) on the spelling of an int64 *)
Theorem parse_int_dec_roundtrip : forall z, in_int64b z = true -> parse_int_dec (Z_to_string z) = Some z.
Proof.
  intros z Hr. unfold parse_int_dec. destruct z as [|p|p]; unfold Z_to_string.
  - cbn. reflexivity.
  - destruct (N_to_string_head (N.pos p)) as (c & r & E & m & Hc).
    destruct (digit_char_not_sign m) as [Hm Hp]. rewrite <- Hc in Hm, Hp.
    rewrite E. destruct c as [[] [] [] [] [] [] [] []];
      try (rewrite <- E, N_decimal_roundtrip; cbn [Z.of_N]; rewrite Hr; reflexivity);
      exfalso; (apply Hm; reflexivity) || (apply Hp; reflexivity).
  - rewrite N_decimal_roundtrip. cbn [Z.of_N Z.opp]. rewrite Hr. reflexivity.
Qed.


(* numerals consist of digits: they never start with 0x or 0b *)
Definition is_digit_char (c : ascii) : bool := let n := N_of_ascii c in (48 <=? n)%N && (n <=? 57)%N.
Fixpoint digits_only (s : string) : bool :=
  match s with EmptyString => true | String c r => is_digit_char c && digits_only r end.

Lemma digit_char_is_digit m : is_digit_char (digit_char (m mod 10)%N) = true.
Proof.
  assert (H : (m mod 10 < 10)%N) by (apply N.mod_lt; lia).
  unfold is_digit_char, digit_char. rewrite N_ascii_embedding by lia.
  apply andb_true_intro. split; apply N.leb_le; lia.
Qed.

Lemma to_digits_digits f : forall n acc, digits_only acc = true -> digits_only (N_to_digits f n acc) = true.
Proof.
  induction f as [|f IH]; intros n acc H; cbn [N_to_digits]; [exact H|].
  assert (H' : digits_only (String (digit_char (n mod 10)%N) acc) = true).
  { cbn [digits_only]. rewrite digit_char_is_digit, H. reflexivity. }
  destruct (n <? 10)%N; [exact H' | apply IH; exact H'].
Qed.

Lemma digits_no_prefix s : digits_only s = true -> String.prefix "0x" s = false /\ String.prefix "0b" s = false.
Proof.
  destruct s as [|c1 [|c2 r]]; cbn [digits_only String.prefix]; intro H.
  - split; reflexivity.
  - split; destruct (ascii_dec "0" c1); reflexivity.
  - apply andb_prop in H as [_ H]. apply andb_prop in H as [H2 _].
    assert (Hxb : c2 <> "x"%char /\ c2 <> "b"%char).
    { split; intro; subst c2; cbn in H2; discriminate. }
    destruct Hxb as [Hx Hb].
    split; destruct (ascii_dec "0" c1); try reflexivity.
    + destruct (ascii_dec "x" c2); [subst; exfalso; apply Hx; reflexivity | reflexivity].
    + destruct (ascii_dec "b" c2); [subst; exfalso; apply Hb; reflexivity | reflexivity].
Qed.

Theorem str_numeral_roundtrip : forall z, in_int64b z = true -> str_to_int (Z_to_string z) = Some z.
Proof.
  intros z Hz. unfold str_to_int, has_prefix.
  assert (P : String.prefix "0x" (Z_to_string z) = false /\ String.prefix "0b" (Z_to_string z) = false).
  { destruct z as [|p|p]; unfold Z_to_string.
    - split; reflexivity.
    - apply digits_no_prefix. unfold N_to_string. apply to_digits_digits. reflexivity.
    - split; reflexivity. }
  destruct P as [-> ->]. apply parse_int_dec_roundtrip. exact Hz.
Qed.
