(* Supporting facts for C04 about the operations the interpreter performs on scopes. *)
From Coq Require Import String Ascii List ZArith NArith Bool Arith Floats.SpecFloat Lia.
From Anko Require Import Base.Assoc Base.Sexp Base.Int64 Base.F64 Env.EnvModel Env.EnvProofs
     Interp.Ast Interp.Value Interp.ToX Interp.Equal Interp.Model.
Import ListNotations.
Open Scope nat_scope.
Open Scope list_scope.

(* env.NewEnv(): a fresh, empty scope whose parent is the given one; nothing else changes *)
Lemma env_new_fresh st e st' i :
  env_new st e = (st', i) ->
  i = length (st_heap st) /\
  nth_error (st_heap st') i = Some (mkScope (Some e) [] [] None) /\
  (forall j, j < length (st_heap st) -> nth_error (st_heap st') j = nth_error (st_heap st) j) /\
  st_arrays st' = st_arrays st /\ st_maps st' = st_maps st /\ st_trace st' = st_trace st.
Proof.
  unfold env_new, new_env. intros H. injection H as <- <-. cbn.
  repeat split; auto.
  - rewrite nth_error_app2 by lia. now rewrite Nat.sub_diag.
  - intros j Hj. now apply nth_error_app1.
Qed.

(* the child scope of a block is not on the chain of the scope the block was entered from:
   once runInfo.env is put back, nothing bound in the block can be found by a lookup *)
Lemma child_not_on_chain (h : list (@scope rval unit)) env0 fuel sc :
  wf h -> env0 < length h ->
  ~ In (length h) (chain fuel (h ++ [sc]) env0).
Proof.
  intros Hwf H0 Hin.
  assert (Hwf' : wf (h ++ [mkScope (Some env0) (sc_values sc) (sc_types sc) (sc_ext sc)]) -> True) by auto.
  (* every element of the chain of env0 in the extended heap is <= env0 when parents precede children *)
  assert (Hle : forall f e i, e < length h -> In i (chain f (h ++ [sc]) e) -> i <= e).
  { induction f as [|f IH]; intros e i He Hi; cbn in Hi; [destruct Hi|].
    rewrite nth_error_app1 in Hi by assumption.
    destruct (nth_error h e) as [s0|] eqn:E; [|destruct Hi].
    destruct Hi as [<-|Hi]; [lia|].
    destruct (sc_parent s0) as [p|] eqn:P; [|destruct Hi].
    pose proof (Hwf _ _ _ E P). specialize (IH p i ltac:(lia) Hi). lia. }
  specialize (Hle fuel env0 _ H0 Hin). lia.
Qed.

(* DefineValue in scope e touches scope e only *)
Lemma env_define_frame st e x r j :
  j <> e -> nth_error (st_heap (env_define st e x r)) j = nth_error (st_heap st) j.
Proof.
  intros Hne. unfold env_define, define_value. destruct (contains_dot x); [reflexivity|].
  cbn. now apply upd_other.
Qed.

Lemma define_all_frame names : forall st e rvs j,
  j <> e -> nth_error (st_heap (define_all st e names rvs)) j = nth_error (st_heap st) j.
Proof.
  induction names as [|n nr IH]; intros st e rvs j Hne; cbn [define_all]; [reflexivity|].
  destruct rvs as [|r rr]; [reflexivity|]. rewrite IH by assumption. now apply env_define_frame.
Qed.

(* plain assignment: SetValue on the nearest scope that binds the name, else DefineValue here *)
Lemma assign_ident rec x s :
  invoke_let rec (EIdent x) s =
    match env_set (r_st s) (r_env s) x (r_rv s) with
    | Some st' => Ok (set_st s st')
    | None => Ok (set_st s (env_define (r_st s) (r_env s) x (r_rv s)))
    end.
Proof. reflexivity. Qed.

Lemma env_set_nearest st e x r :
  wf (st_heap st) -> e < length (st_heap st) ->
  env_set st e x r =
    match nearest_binding (st_heap st) x (chain (hfuel st) (st_heap st) e) with
    | Some j => Some (set_heap st (upd (st_heap st) j (fun sc => set_values sc (aset (sc_values sc) x r))))
    | None => None
    end.
Proof.
  intros Hwf He. unfold env_set. rewrite set_value_spec by (auto; unfold hfuel; lia).
  destruct (nearest_binding _ _ _); reflexivity.
Qed.

(* lookup: the nearest enclosing binding *)
Lemma env_get_nearest st e x :
  wf (st_heap st) -> e < length (st_heap st) ->
  env_get st e x =
    match first_answer (st_heap st) (fun sc => own_value (fun _ _ => None) sc x) (chain (hfuel st) (st_heap st) e) with
    | Some v => EnvModel.Ok v
    | None => EnvModel.Err ErrUndefSym
    end.
Proof.
  intros Hwf He. unfold env_get. apply get_value_spec; auto. unfold hfuel. lia.
Qed.

(* a function value captures the scope it was created in, by reference (the scope's identity) *)
Lemma closure_captures_current_scope name body params vararg s :
  exists c st', invoke_func name body params vararg s = Ok (set_rv (set_st s st') (Imm (VFunc c))) /\
                nth_error (st_closures st') c = Some (mkClosure name params vararg body (r_env s)).
Proof.
  unfold invoke_func, alloc_closure. cbn.
  eexists. eexists. split; [reflexivity|].
  destruct (String.eqb name ""); cbn.
  - rewrite nth_error_app2 by lia. now rewrite Nat.sub_diag.
  - unfold env_define. destruct (define_value _ _ _ _); cbn; rewrite nth_error_app2 by lia; now rewrite Nat.sub_diag.
Qed.
