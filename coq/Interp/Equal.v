(* vm/vm.go equal(): the relation behind ==, !=, `in` and switch. *)
From Coq Require Import String List ZArith Bool Arith Floats.SpecFloat.
From Anko Require Import Base.Int64 Base.F64 Interp.Ast Interp.Value Interp.ToX.
Import ListNotations.
Open Scope nat_scope.

Section Equal.
Variable orc : oracle.
Variable st : store.

Definition is_num (v : value) : bool := match v with VInt _ | VFloat _ => true | _ => false end.

(* reflect.DeepEqual on the dynamic values of two interface{}s (F1 universe) *)
Fixpoint deep_equal (fuel : nat) (a b : value) : tri bool :=
  match fuel with
  | 0 => TMiss "deep_equal depth"
  | S f =>
    match a, b with
    | VNil, VNil => TOk true
    | VBool x, VBool y => TOk (Bool.eqb x y)
    | VInt x, VInt y => TOk (Z.eqb x y)
    | VFloat x, VFloat y => TOk (feqb x y)
    | VStr x, VStr y => TOk (String.eqb x y)
    | VSlice l1 o1 n1 _, VSlice l2 o2 n2 _ =>
        if negb (Nat.eqb n1 n2) then TOk false
        else if Nat.eqb n1 0 then TOk true
        else if Nat.eqb l1 l2 && Nat.eqb o1 o2 then TOk true       (* same backing position: identical *)
        else
          (fix go (xs ys : list value) : tri bool :=
             match xs, ys with
             | x :: xr, y :: yr => match deep_equal f x y with
                                   | TOk true => go xr yr
                                   | other => other
                                   end
             | _, _ => TOk true
             end) (slice_elems st l1 o1 n1) (slice_elems st l2 o2 n2)
    | VMap m1, VMap m2 =>
        if Nat.eqb m1 m2 then TOk true
        else
          match nth_error (st_maps st) m1, nth_error (st_maps st) m2 with
          | Some e1, Some e2 =>
              if negb (Nat.eqb (length e1) (length e2)) then TOk false
              else
                (fix go (es : list (value * value)) : tri bool :=
                   match es with
                   | [] => TOk true
                   | (k, v) :: r =>
                       match map_lookup e2 k with
                       | None => TOk false
                       | Some w => match deep_equal f v w with
                                   | TOk true => go r
                                   | other => other
                                   end
                       end
                   end) e1
          | _, _ => TMiss "deep_equal dangling map"
          end
    | VFunc _, _ | _, VFunc _ | VHost _, _ | _, VHost _ => TOk false      (* non-nil funcs are never DeepEqual *)
    | VEnv _, _ | _, VEnv _ | VErr _, _ | _, VErr _ => TMiss "deep_equal of modules or errors"
    | _, _ => TOk false                                                   (* different dynamic types *)
    end
  end.

Definition len_of (v : value) : nat :=
  match v with
  | VSlice _ _ n _ => n
  | VMap m => match nth_error (st_maps st) m with Some e => length e | None => 0 end
  | _ => 0
  end.

(* string <-> number coercion: one route in both orders (integer numeral first, then float) *)
Definition coerce_str (s : string) : tri (option value) :=
  match str_to_int s with
  | Some z => TOk (Some (VInt z))
  | None => match str_to_float orc s with
            | TOk f => TOk (Some (VFloat f))
            | TErr => TOk None
            | TMiss w => TMiss w
            end
  end.

Definition coerce_pair (a b : value) : tri (option (value * value)) :=
  match a, b with
  | VStr s, (VInt _ | VFloat _) =>
      match coerce_str s with TOk (Some a') => TOk (Some (a', b)) | TOk None => TOk None | TErr => TErr | TMiss w => TMiss w end
  | (VInt _ | VFloat _), VStr s =>
      match coerce_str s with TOk (Some b') => TOk (Some (a, b')) | TOk None => TOk None | TErr => TErr | TMiss w => TMiss w end
  | _, _ => TOk (Some (a, b))
  end.

Definition bool_equal (a b : value) : tri bool :=
  match try_to_bool orc len_of a, try_to_bool orc len_of b with
  | TOk x, TOk y => TOk (Bool.eqb x y)
  | TMiss w, _ | _, TMiss w => TMiss w
  | _, _ => TOk false
  end.

(* the comparison once both sides are past the string coercion *)
Definition equal_core (a b : value) : tri bool :=
  match a, b with
  | VInt x, VInt y => TOk (Z.eqb x y)
  | VFloat x, VFloat y => TOk (feqb x y)
  | VInt x, VFloat y => TOk (feqb (of_int x) y)
  | VFloat x, VInt y => TOk (feqb x (of_int y))
  | VBool _, _ | _, VBool _ => bool_equal a b
  | _, _ => deep_equal 64 a b
  end.

(* equal(lhsV, rhsV) on the values the two reflect.Values denote *)
Definition equal (a b : value) : tri bool :=
  if is_nil a && is_nil b then TOk true
  else if is_nil a || is_nil b then TOk false
  else
    match coerce_pair a b with
    | TMiss w => TMiss w
    | TErr => TOk false
    | TOk None => TOk false
    | TOk (Some (a', b')) => equal_core a' b'
    end.

(* fmt.Sprint of a value as toString uses it: slices as [a b], maps as map[k:v ...] with keys in
   fmt's sorted order (modelled when all keys have one basic kind), nested to any depth *)
Definition key_leb (a b : value) : option bool :=
  match a, b with
  | VInt x, VInt y => Some (Z.leb x y)
  | VStr x, VStr y => Some (String.leb x y)
  | VBool x, VBool y => Some (implb x y)
  | _, _ => None
  end.

Fixpoint insert_key (x : value * string) (l : list (value * string)) : option (list (value * string)) :=
  match l with
  | [] => Some [x]
  | y :: r => match key_leb (fst x) (fst y) with
              | Some true => Some (x :: l)
              | Some false => option_map (cons y) (insert_key x r)
              | None => None
              end
  end.

Fixpoint sjoin (l : list string) : string :=
  match l with
  | [] => EmptyString
  | [x] => x
  | x :: r => (x ++ " " ++ sjoin r)%string
  end.

Fixpoint sprint (fuel : nat) (v : value) : tri string :=
  match fuel with
  | 0 => TMiss "sprint depth"
  | S f =>
    match v with
    | VSlice l off n _ =>
        (fix go (xs : list value) (acc : list string) : tri string :=
           match xs with
           | [] => TOk ("[" ++ sjoin (rev acc) ++ "]")%string
           | x :: r => match sprint f x with TOk t => go r (t :: acc) | other => other end
           end) (slice_elems st l off n) []
    | VMap m =>
        match nth_error (st_maps st) m with
        | None => TMiss "dangling map"
        | Some es =>
            (fix go (xs : list (value * value)) (acc : list (value * string)) : tri string :=
               match xs with
               | [] => TOk ("map[" ++ sjoin (map snd acc) ++ "]")%string
               | (k, x) :: r =>
                   match sprint f k, sprint f x with
                   | TOk tk, TOk tx =>
                       match insert_key (k, (tk ++ ":" ++ tx)%string) acc with
                       | Some acc' => go r acc'
                       | None => TMiss "sprint of a map with keys of mixed kinds"
                       end
                   | TMiss w, _ | _, TMiss w => TMiss w
                   | _, _ => TErr
                   end
               end) es []
        end
    | VFunc _ | VHost _ | VEnv _ => TMiss "sprint of a function or module (prints an address)"
    | _ => to_string orc v
    end
  end.

(* toString *)
Definition to_string_st (v : value) : tri string :=
  match v with
  | VStr x => TOk x
  | _ => sprint 24 v
  end.

End Equal.
