(* C05 — arithmetic follows the int64/float64/string tower exactly.
   Statements about the interpreter model's operators (Interp/Model.v) on literal operands:
   they hold for every operand value (all of Z restricted to int64 by the parser, all spec floats,
   all strings) and every state; Base/Int64.v gives the wrap-around facts. *)
From Coq Require Import String List ZArith Bool Arith Floats.SpecFloat Lia.
From Anko Require Base.OfIntExact.
From Anko Require Import Base.Int64 Base.F64 Env.EnvModel Interp.Ast Interp.Value Interp.ToX Interp.Equal Interp.Model.
Import ListNotations.
Open Scope Z_scope.

Definition run_binop orc cancel f (mk : expr -> string -> expr -> oper) (la : lit) (op : string) (lb : lit) s :=
  exec orc cancel (S (S f)) (CExpr (EOp (mk (ELit la) op (ELit lb)))) s.

Definition yields (o : outcome) (s : rstate) (v : value) : Prop := o = Ok (set_rv s (Imm v)).

(* + - * % & | << >> on integers: the exact 64-bit two's-complement result *)
Theorem int_add : forall orc c f a b s, yields (run_binop orc c f OAdd (LInt a) "+" (LInt b) s) s (VInt (add64 a b)).
Proof. reflexivity. Qed.
Theorem int_sub : forall orc c f a b s, yields (run_binop orc c f OAdd (LInt a) "-" (LInt b) s) s (VInt (sub64 a b)).
Proof. reflexivity. Qed.
Theorem int_or : forall orc c f a b s, yields (run_binop orc c f OAdd (LInt a) "|" (LInt b) s) s (VInt (or64 a b)).
Proof. reflexivity. Qed.
Theorem int_mul : forall orc c f a b s, yields (run_binop orc c f OMul (LInt a) "*" (LInt b) s) s (VInt (mul64 a b)).
Proof. reflexivity. Qed.
Theorem int_and : forall orc c f a b s, yields (run_binop orc c f OMul (LInt a) "&" (LInt b) s) s (VInt (and64 a b)).
Proof. reflexivity. Qed.
Theorem int_shl : forall orc c f a b s, yields (run_binop orc c f OMul (LInt a) "<<" (LInt b) s) s (VInt (shl64 a b)).
Proof. reflexivity. Qed.
Theorem int_shr : forall orc c f a b s, yields (run_binop orc c f OMul (LInt a) ">>" (LInt b) s) s (VInt (shr64 a b)).
Proof. reflexivity. Qed.
Theorem int_rem : forall orc c f a b s, b <> 0 ->
  yields (run_binop orc c f OMul (LInt a) "%" (LInt b) s) s (VInt (rem64 a b)).
Proof.
  intros orc c f a b s Hb. unfold yields, run_binop. cbn.
  destruct (Z.eqb_spec b 0); [contradiction|reflexivity].
Qed.
Theorem int_rem_by_zero_is_an_error : forall orc c f a s,
  run_binop orc c f OMul (LInt a) "%" (LInt 0) s = Err (EVm "integer divide by zero") (set_rv s rv_nil).
Proof. reflexivity. Qed.

(* what "exact 64-bit two's-complement" means: in range and congruent modulo 2^64 *)
Theorem wrap_is_twos_complement : forall z, in_int64 (wrap64 z) /\ (wrap64 z - z) mod two64 = 0.
Proof. intros z. split; [apply wrap64_range|apply wrap64_congr]. Qed.
Theorem no_wrap_when_in_range : forall z, in_int64 z -> wrap64 z = z.
Proof. exact wrap64_id. Qed.

(* comparisons are exact over the whole int64 range (no detour through float64) *)
Theorem int_lt_exact : forall orc c f a b s, yields (run_binop orc c f OCompare (LInt a) "<" (LInt b) s) s (VBool (a <? b)).
Proof. reflexivity. Qed.
Theorem int_le_exact : forall orc c f a b s, yields (run_binop orc c f OCompare (LInt a) "<=" (LInt b) s) s (VBool (a <=? b)).
Proof. reflexivity. Qed.
Theorem int_gt_exact : forall orc c f a b s, yields (run_binop orc c f OCompare (LInt a) ">" (LInt b) s) s (VBool (a >? b)).
Proof. reflexivity. Qed.
Theorem int_ge_exact : forall orc c f a b s, yields (run_binop orc c f OCompare (LInt a) ">=" (LInt b) s) s (VBool (a >=? b)).
Proof. reflexivity. Qed.

(* / always yields the float64 quotient *)
Theorem div_is_float : forall orc c f a b s,
  yields (run_binop orc c f OMul (LInt a) "/" (LInt b) s) s (VFloat (fdiv (of_int a) (of_int b))).
Proof. reflexivity. Qed.

(* + - * and the ordering comparisons are carried out in float64 as soon as one operand is a float *)
Theorem float_contagion_add : forall orc c f a y s,
  yields (run_binop orc c f OAdd (LInt a) "+" (LFloat y) s) s (VFloat (fadd (of_int a) y)) /\
  yields (run_binop orc c f OAdd (LFloat y) "+" (LInt a) s) s (VFloat (fadd y (of_int a))).
Proof. split; reflexivity. Qed.
Theorem float_contagion_sub : forall orc c f a y s,
  yields (run_binop orc c f OAdd (LInt a) "-" (LFloat y) s) s (VFloat (fsub (of_int a) y)) /\
  yields (run_binop orc c f OAdd (LFloat y) "-" (LInt a) s) s (VFloat (fsub y (of_int a))).
Proof. split; reflexivity. Qed.
Theorem float_contagion_mul : forall orc c f a y s,
  yields (run_binop orc c f OMul (LInt a) "*" (LFloat y) s) s (VFloat (fmul (of_int a) y)) /\
  yields (run_binop orc c f OMul (LFloat y) "*" (LInt a) s) s (VFloat (fmul y (of_int a))).
Proof. split; reflexivity. Qed.
Theorem float_contagion_lt : forall orc c f a y s,
  yields (run_binop orc c f OCompare (LInt a) "<" (LFloat y) s) s (VBool (fltb (of_int a) y)).
Proof. reflexivity. Qed.

(* + between strings concatenates; between a string and an integer the integer is spelled in decimal *)
Theorem string_concat : forall orc c f x y s,
  yields (run_binop orc c f OAdd (LStr x) "+" (LStr y) s) s (VStr (x ++ y)).
Proof. reflexivity. Qed.
Theorem string_plus_int : forall orc c f x n s,
  yields (run_binop orc c f OAdd (LStr x) "+" (LInt n) s) s (VStr (x ++ Base.Sexp.Z_to_string n)) /\
  yields (run_binop orc c f OAdd (LInt n) "+" (LStr x) s) s (VStr (Base.Sexp.Z_to_string n ++ x)).
Proof. split; reflexivity. Qed.

(* string * n repeats the string n times *)
Theorem string_repeat : forall orc c f x n s,
  0 <= n -> Z.of_nat (String.length x) * n <= 1048576 ->
  yields (run_binop orc c f OMul (LStr x) "*" (LInt n) s) s (VStr (repeat_string (Z.to_nat n) x)).
Proof.
  intros orc c f x n s Hn Hsz. unfold yields, run_binop. cbn.
  destruct (Z.ltb_spec n 0); [lia|]. destruct (Z.gtb_spec (Z.of_nat (String.length x) * n) 1048576); [lia|reflexivity].
Qed.
Theorem repeat_string_length : forall n x, String.length (repeat_string n x) = (n * String.length x)%nat.
Proof.
  induction n as [|n IH]; intros x; cbn; [reflexivity|].
  assert (Happ : forall a b, String.length (a ++ b) = (String.length a + String.length b)%nat).
  { induction a as [|ch a IHa]; intros b; cbn; auto. }
  rewrite Happ, IH. reflexivity.
Qed.

(* unary - and ^ on integers *)
Theorem int_neg : forall orc c f a s,
  exec orc c (S (S f)) (CExpr (EUnary "-" (ELit (LInt a)))) s = Ok (set_rv s (Imm (VInt (neg64 a)))).
Proof. reflexivity. Qed.
Theorem int_not : forall orc c f a s,
  exec orc c (S (S f)) (CExpr (EUnary "^" (ELit (LInt a)))) s = Ok (set_rv s (Imm (VInt (not64 a)))).
Proof. reflexivity. Qed.

Print Assumptions int_add.
Print Assumptions int_rem.
Print Assumptions wrap_is_twos_complement.
Print Assumptions int_lt_exact.
Print Assumptions div_is_float.
Print Assumptions float_contagion_add.
Print Assumptions string_plus_int.
Print Assumptions string_repeat.

(* float64(int64), which every mixed int / float operation and every float parameter applies, is exact for
   integers of at most 53 bits: the float converts back to the same integer (no bound on which ones) *)
Theorem integers_below_2_53_become_floats_exactly : forall z, - 2 ^ 53 < z < 2 ^ 53 -> F64.to_int (F64.of_int z) = z.
Proof. exact OfIntExact.small_integers_are_floats_exactly. Qed.
Print Assumptions integers_below_2_53_become_floats_exactly.

(* non-vacuity at the edges the property names *)
Example ex_c05 :
  add64 9223372036854775807 1 = -9223372036854775808 /\ mul64 4611686018427387904 4 = 0 /\
  rem64 (-9223372036854775808) (-1) = 0 /\ shl64 1 64 = 0 /\ shr64 (-8) 65 = -1 /\ shl64 1 (-1) = 0 /\
  (9007199254740993 >? 9007199254740992) = true /\ rem64 (-7) 3 = -1.
Proof. vm_compute. repeat split. Qed.
