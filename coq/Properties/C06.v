(* C06 — equality is one coherent relation.  [equal] is the model of vm.equal (Interp/Equal.v);
   ==, !=, `in` and switch all go through it in the interpreter model. *)
From Coq Require Import String List ZArith Bool Arith Floats.SpecFloat.
From Anko Require Import Base.Int64 Base.F64 Env.EnvModel Base.Sexp Interp.Ast Interp.Value Interp.ToX Interp.Equal Interp.Model Interp.NumeralProofs
     Interp.EqualProofs.
Import ListNotations.

(* == is symmetric for every pair of nil / boolean / integer / float / string values *)
Theorem eq_symmetric : forall orc st a b, scalar a -> scalar b ->
  tri_sym (equal orc st a b) (equal orc st b a).
Proof. exact equal_sym_scalar. Qed.

(* != is the exact negation of ==, for every pair of literal operands *)
Theorem neq_is_negation : forall orc cancel f la lb s,
  let eqv := exec orc cancel (S (S f)) (CExpr (EOp (OCompare (ELit la) "==" (ELit lb)))) s in
  let nev := exec orc cancel (S (S f)) (CExpr (EOp (OCompare (ELit la) "!=" (ELit lb)))) s in
  match equal orc (r_st s) (lit_value la) (lit_value lb) with
  | TOk b => eqv = Ok (set_rv s (Imm (VBool b))) /\ nev = Ok (set_rv s (Imm (VBool (negb b))))
  | _ => True
  end.
Proof.
  intros orc cancel f la lb s. cbn. destruct (equal orc (r_st s) (lit_value la) (lit_value lb)); auto.
Qed.

(* membership uses the same relation *)
Theorem in_uses_equal : forall orc st item v,
  include_loop orc st item [v] =
    match equal orc st item v with
    | TOk true => TOk true
    | TOk false | TErr => TOk false
    | TMiss w => TMiss w
    end.
Proof. intros orc st item v. cbn. destruct (equal orc st item v) as [[|]| |]; reflexivity. Qed.

(* switch matches a case exactly when equal(case value, subject) holds *)
Theorem switch_uses_equal : forall orc rec e r value body env0 s next s1 b,
  rec (CExpr e) s = Ok s1 ->
  equal orc (r_st s1) (deref (r_st s1) (r_rv s1)) value = TOk b ->
  switch_case_exprs orc rec (e :: r) value body env0 s next =
    if b then match rec (CStmt body) s1 with
              | Abort a => Abort a
              | Ok s2 => Ok (set_env s2 env0)
              | Err er s2 => Err er (set_env s2 env0)
              end
    else switch_case_exprs orc rec r value body env0 s1 next.
Proof.
  intros orc rec e r value body env0 s next s1 b He Hq. cbn [switch_case_exprs]. rewrite He, Hq. reflexivity.
Qed.

(* same primitive type: Go's == *)
Theorem eq_same_primitive : forall orc st,
  (forall x y, equal orc st (VInt x) (VInt y) = TOk (Z.eqb x y)) /\
  (forall x y, equal orc st (VFloat x) (VFloat y) = TOk (feqb x y)) /\
  (forall x y, equal orc st (VBool x) (VBool y) = TOk (Bool.eqb x y)) /\
  (forall x y, equal orc st (VStr x) (VStr y) = TOk (String.eqb x y)).
Proof.
  intros orc st. split; [intros; apply equal_ints|]. split; [intros; apply equal_floats|]. split; [intros; apply equal_bools|intros; apply equal_strings].
Qed.

(* an integer and a float are equal exactly when both <= and >= hold between them *)
Theorem eq_int_float_is_le_and_ge : forall orc st i f,
  equal orc st (VInt i) (VFloat f) = TOk (fleb (of_int i) f && fleb f (of_int i)) /\
  equal orc st (VFloat f) (VInt i) = TOk (fleb f (of_int i) && fleb (of_int i) f).
Proof. intros. split; [apply equal_int_float|apply equal_float_int]. Qed.

(* nil equals only nil *)
Theorem eq_nil_only_nil : forall orc st b, equal orc st VNil b = TOk (is_nil b).
Proof. exact nil_equals_only_nil. Qed.

(* a string and a number are equal exactly when the string is a decimal numeral denoting that number *)
Theorem eq_string_integer_numeral : forall orc st s n z,
  str_to_int s = Some z ->
  equal orc st (VStr s) (VInt n) = TOk (Z.eqb z n) /\ equal orc st (VInt n) (VStr s) = TOk (Z.eqb n z).
Proof. intros. split; [now apply equal_string_int|now apply equal_int_string]. Qed.

Theorem eq_string_not_numeral : forall orc st s n,
  str_to_int s = None -> str_to_float orc s = TErr ->
  equal orc st (VStr s) (VInt n) = TOk false /\ equal orc st (VInt n) (VStr s) = TOk false.
Proof. exact equal_string_not_a_numeral. Qed.

(* the integer numerals accepted are exactly the decimal spellings of int64 values *)
Theorem integer_numeral_in_range : forall s z, str_to_int s = Some z -> in_int64b z = true.
Proof.
  intros s z. unfold str_to_int.
  destruct (has_prefix "0x" s); [discriminate|]. destruct (has_prefix "0b" s); [discriminate|].
  unfold parse_int_dec.
  destruct s as [|c r]; cbn.
  - discriminate.
  - match goal with |- match ?b with _ => _ end = _ -> _ => destruct b as [[neg digits]|] end; [|discriminate].
    destruct (Base.Sexp.N_of_string digits); [|discriminate].
    match goal with |- (if ?c then _ else _) = _ -> _ => destruct c eqn:E end; [|discriminate].
    intros [= <-]. exact E.
Qed.

(* the decimal spelling of any int64 is an integer numeral, so it equals the number it spells - in both
   orders, for every int64 (decimal print / parse round trip: Base/DecimalProofs.v) *)
Theorem spelled_number_equals_the_number : forall orc st z, in_int64b z = true ->
  equal orc st (VStr (Z_to_string z)) (VInt z) = TOk true /\ equal orc st (VInt z) (VStr (Z_to_string z)) = TOk true.
Proof.
  intros orc st z Hz.
  pose proof (str_numeral_roundtrip z Hz) as Hs.
  destruct (eq_string_integer_numeral orc st (Z_to_string z) z z Hs) as [H1 H2].
  rewrite Z.eqb_refl in H1, H2. split; assumption.
Qed.

Print Assumptions eq_symmetric.
Print Assumptions spelled_number_equals_the_number.
Print Assumptions neq_is_negation.
Print Assumptions in_uses_equal.
Print Assumptions switch_uses_equal.
Print Assumptions eq_int_float_is_le_and_ge.
Print Assumptions eq_string_integer_numeral.

Open Scope string_scope.
Example ex_c06 :
  equal (mkOracle [] []) (mkStore [] [] [] [] [] 0) (VInt 1000000) (VFloat (of_int 1000000)) = TOk true /\
  equal (mkOracle [] []) (mkStore [] [] [] [] [] 0) (VStr "1000000") (VInt 1000000) = TOk true /\
  equal (mkOracle [] []) (mkStore [] [] [] [] [] 0) (VInt 1000000) (VStr "1000000") = TOk true /\
  equal (mkOracle [] []) (mkStore [] [] [] [] [] 0) (VInt 0) (VFloat (S754_zero true)) = TOk true.
Proof. vm_compute. repeat split. Qed.
