(* C06 placeholder, theorems below *)
From Anko Require Import Interp.Equal.
