(* C19 — the core builtins and the bundled package tables agree with their Go counterparts.
   Proved here on the model of the `range` builtin (Core/Range.v, tied to core/core.go by ./check C19,
   which runs the extracted model and the implementation on the same argument lists) and on the
   package-table model (Core/PkgTables.v, whose table is regenerated from packages/*.go on every
   run; the obligation on the regenerated table is Obligations/C19.v).  The conversions, keys, len,
   typeOf and kindOf are compared with native Go computations by the check; they have no model of
   their own beyond what Interp/ToX.v says about the same strconv-based parsing. *)
From Coq Require Import String List ZArith Bool Lia.
From Anko Require Import Base.Int64 Core.Range Core.PkgTables.
Import ListNotations.
Open Scope Z_scope.

(* range(start, stop, step) with a non-zero step: for every int64 triple the loop ends, and what it
   returns is exactly the arithmetic progression start, start+step, ... strictly before stop -
   every element an int64 that is before stop, consecutive elements step apart, and the element
   after the last one not before stop (so none is missing). *)
Theorem range_is_the_progression : forall start stop step,
  in_int64 start -> in_int64 stop -> in_int64 step -> step <> 0 ->
  exists fuel l,
    (forall fuel', (fuel <= fuel')%nat -> range_builtin fuel' [start; stop; step] = ROk l)
    /\ l = prog start step (length l)
    /\ (forall k, (k < length l)%nat -> nth k l 0 = start + Z.of_nat k * step)
    /\ Forall (fun x => before stop step x = true /\ in_int64 x) l
    /\ before stop step (start + Z.of_nat (length l) * step) = false.
Proof. exact range_builtin_spec. Qed.

(* a zero step and a wrong argument count are errors, never a loop *)
Theorem range_rejects_misuse : forall fuel start stop,
  range_builtin fuel [start; stop; 0] = RErr 3 /\ range_builtin fuel [] = RErr 0
  /\ forall a b c d r, range_builtin fuel (a :: b :: c :: d :: r) = RErr 4.
Proof. intros; repeat split. Qed.

(* the one- and two-argument forms are the three-argument form with start 0 / step 1 *)
Theorem range_short_forms : forall fuel start stop,
  range_builtin fuel [stop] = range_builtin fuel [0; stop; 1]
  /\ range_builtin fuel [start; stop] = range_builtin fuel [start; stop; 1].
Proof. intros; split; reflexivity. Qed.

(* package tables: when the table passes [tables_ok] (checked on the regenerated table on every
   run), whatever `import(p).k` resolves to is the Go identifier k of package p, or a helper
   declared beside the table, and every listed entry is reachable under its own name *)
Theorem table_names_are_their_go_namesakes : forall es t p k e,
  tables_ok es = true -> pkg_lookup es t p k = Some e ->
  e_ident e = k /\ (e_path e = p \/ e_qual e = ""%string).
Proof. exact lookup_is_namesake. Qed.

Theorem table_entries_are_not_shadowed : forall es e,
  tables_ok es = true -> In e es -> pkg_lookup es (e_table e) (e_pkg e) (e_key e) = Some e.
Proof. intros es e H. apply slots_unique_lookup. unfold tables_ok in H. now apply andb_prop in H as [_ H]. Qed.

Print Assumptions range_is_the_progression.
Print Assumptions range_rejects_misuse.
Print Assumptions range_short_forms.
Print Assumptions table_names_are_their_go_namesakes.
Print Assumptions table_entries_are_not_shadowed.
