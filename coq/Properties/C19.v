(* C19 — the core builtins and the bundled package tables agree with their Go counterparts.
   Proved here on the model of the `range` builtin (Core/Range.v, tied to core/core.go by ./check C19,
   which runs the extracted model and the implementation on the same argument lists) and on the
   package-table model (Core/PkgTables.v, whose table is regenerated from packages/*.go on every
   run; the obligation on the regenerated table is Obligations/C19.v), and on the model of toInt,
   toFloat, the typed-slice forms, len and keys (Core/Builtins.v, run by ./check C19 through the
   extracted entry c19b on the same values as the implementation, with strconv.ParseFloat as an
   oracle table).  toString, toRune/toChar, the byte/rune slice forms, typeOf and kindOf are compared
   with native Go computations by the check. *)
From Coq Require Import String List ZArith Bool Lia.
From Coq Require Import Floats.SpecFloat.
From Anko Require Import Base.Sexp Base.Int64 Base.F64 Interp.ToX Core.Range Core.PkgTables Core.Builtins Core.BuiltinProofs.
Import ListNotations.
Open Scope Z_scope.

(* range(start, stop, step) with a non-zero step: for every int64 triple the loop ends, and what it
   returns is exactly the arithmetic progression start, start+step, ... strictly before stop -
   every element an int64 that is before stop, consecutive elements step apart, and the element
   after the last one not before stop (so none is missing). *)
Theorem range_is_the_progression : forall start stop step,
  in_int64 start -> in_int64 stop -> in_int64 step -> step <> 0 ->
  exists fuel l,
    (forall fuel', (fuel <= fuel')%nat -> range_builtin fuel' [start; stop; step] = ROk l)
    /\ l = prog start step (length l)
    /\ (forall k, (k < length l)%nat -> nth k l 0 = start + Z.of_nat k * step)
    /\ Forall (fun x => before stop step x = true /\ in_int64 x) l
    /\ before stop step (start + Z.of_nat (length l) * step) = false.
Proof. exact range_builtin_spec. Qed.

(* a zero step and a wrong argument count are errors, never a loop *)
Theorem range_rejects_misuse : forall fuel start stop,
  range_builtin fuel [start; stop; 0] = RErr 3 /\ range_builtin fuel [] = RErr 0
  /\ forall a b c d r, range_builtin fuel (a :: b :: c :: d :: r) = RErr 4.
Proof. intros; repeat split. Qed.

(* the one- and two-argument forms are the three-argument form with start 0 / step 1 *)
Theorem range_short_forms : forall fuel start stop,
  range_builtin fuel [stop] = range_builtin fuel [0; stop; 1]
  /\ range_builtin fuel [start; stop] = range_builtin fuel [start; stop; 1].
Proof. intros; split; reflexivity. Qed.

(* package tables: when the table passes [tables_ok] (checked on the regenerated table on every
   run), whatever `import(p).k` resolves to is the Go identifier k of package p, or a helper
   declared beside the table, and every listed entry is reachable under its own name *)
Theorem table_names_are_their_go_namesakes : forall es t p k e,
  tables_ok es = true -> pkg_lookup es t p k = Some e ->
  e_ident e = k /\ (e_path e = p \/ e_qual e = ""%string).
Proof. exact lookup_is_namesake. Qed.

Theorem table_entries_are_not_shadowed : forall es e,
  tables_ok es = true -> In e es -> pkg_lookup es (e_table e) (e_pkg e) (e_key e) = Some e.
Proof. intros es e H. apply slots_unique_lookup. unfold tables_ok in H. now apply andb_prop in H as [_ H]. Qed.

(* toInt: numbers by Go's numeric conversion, the decimal spelling of every int64 to that int64
   (strconv.ParseInt), other strings through strconv.ParseFloat and truncation, 0 for nil, false,
   containers and strings neither parser accepts; it never fails *)
Theorem to_int_follows_go : forall pf,
  (forall z, to_int pf (CInt z) = TOk z) /\ (forall f, to_int pf (CFloat f) = TOk (F64.to_int f))
  /\ (forall z, in_int64b z = true -> to_int pf (CStr (Z_to_string z)) = TOk z)
  /\ (forall s f, parse_int_dec s = None -> slookup pf s = Some (Some f) -> to_int pf (CStr s) = TOk (F64.to_int f))
  /\ (forall s, parse_int_dec s = None -> slookup pf s = Some None -> to_int pf (CStr s) = TOk 0)
  /\ to_int pf CNil = TOk 0 /\ (forall l, to_int pf (CList l) = TOk 0) /\ (forall m, to_int pf (CMap m) = TOk 0).
Proof.
  intro pf. destruct (to_int_zero pf) as (H1 & _ & H3 & H4 & H5).
  repeat split; try assumption; try reflexivity.
  - apply to_int_numeral.
  - apply to_int_float_string.
Qed.

Theorem to_float_follows_go : forall pf,
  (forall z, to_float pf (CInt z) = TOk (of_int z)) /\ (forall f, to_float pf (CFloat f) = TOk f)
  /\ (forall s f, slookup pf s = Some (Some f) -> to_float pf (CStr s) = TOk f)
  /\ (forall s, slookup pf s = Some None -> to_float pf (CStr s) = TOk fzero)
  /\ to_float pf CNil = TOk fzero /\ (forall l, to_float pf (CList l) = TOk fzero) /\ (forall m, to_float pf (CMap m) = TOk fzero).
Proof.
  intro pf. repeat split; try reflexivity.
  - intros s f H. rewrite to_float_string, H. reflexivity.
  - intros s H. rewrite to_float_string, H. reflexivity.
Qed.

(* the typed-slice forms convert element by element, with the zero value for unconvertible elements *)
Theorem typed_slices_convert_elementwise : forall l,
  (length (to_int_slice l) = length l /\ forall i, nth i (to_int_slice l) 0 = elem_int (nth i l CNil))
  /\ (length (to_float_slice l) = length l /\ forall i, nth i (to_float_slice l) fzero = elem_float (nth i l CNil))
  /\ (length (to_bool_slice l) = length l /\ forall i, nth i (to_bool_slice l) false = elem_bool (nth i l CNil))
  /\ (forall v, (forall z, v <> CInt z) -> (forall f, v <> CFloat f) -> elem_int v = 0 /\ elem_float v = fzero)
  /\ (forall v, (forall b, v <> CBool b) -> elem_bool v = false).
Proof.
  intro l. destruct unconvertible_elements_are_zero as [H1 H2].
  repeat split; try apply int_slice_elementwise; try apply float_slice_elementwise; try apply bool_slice_elementwise;
    try (intros; apply H1; assumption); try (intros; apply H2; assumption).
Qed.

(* keys returns every key of a map exactly once, len counts them; on anything that has no length or
   keys both are errors *)
Theorem keys_every_key_exactly_once : forall kvs, NoDup (map fst kvs) ->
  exists ks, keys (CMap kvs) = Some ks /\ NoDup ks /\ (forall k, In k ks <-> exists v, In (k, v) kvs)
    /\ len (CMap kvs) = Some (Z.of_nat (length ks)).
Proof. exact keys_exactly_once. Qed.

Theorem len_keys_misuse_is_an_error : forall v,
  (forall s, v <> CStr s) -> (forall l, v <> CList l) -> (forall m, v <> CMap m) -> len v = None /\ keys v = None.
Proof. exact len_keys_misuse. Qed.

(* the hypotheses are met: "-42", "1e3" (ParseFloat says 1000), "abc" (both parsers refuse) *)
Example conversions_somewhere :
  let pf := [("1e3"%string, Some (of_int 1000)); ("abc"%string, None)] in
  to_int pf (CStr "-42") = TOk (-42) /\ to_int pf (CStr "1e3") = TOk 1000 /\ to_int pf (CStr "abc") = TOk 0
  /\ to_int_slice [CInt 1; CStr "2"; CNil; CBool true] = [1; 0; 0; 0]
  /\ keys (CMap [(CStr "a", CInt 1); (CInt 3, CNil)]) = Some [CStr "a"; CInt 3].
Proof. vm_compute. repeat split. Qed.

Print Assumptions range_is_the_progression.
Print Assumptions range_rejects_misuse.
Print Assumptions range_short_forms.
Print Assumptions table_names_are_their_go_namesakes.
Print Assumptions table_entries_are_not_shadowed.
Print Assumptions to_int_follows_go.
Print Assumptions to_float_follows_go.
Print Assumptions typed_slices_convert_elementwise.
Print Assumptions keys_every_key_exactly_once.
Print Assumptions len_keys_misuse_is_an_error.
