(* C17 — the AST walker reaches every node of every parsed program.
   The theorems hold for every walk table [wt] and AST table [at_] that satisfy
   the decidable side condition [covers wt at_ = true], for every tree of any
   size and depth.  Obligations/C17.v discharges the side condition on the
   tables regenerated from the working tree on every run. *)
From Coq Require Import List Arith Bool Permutation.
From Anko Require Import Walk.WalkModel Walk.WalkProofs.
Import ListNotations.

(* presents every node exactly once and returns no error when the callback returns none *)
Theorem walker_presents_every_node_once : forall wt at_ fuel t,
  covers wt at_ = true -> well_kinded fuel at_ wt t = true ->
  walk wt None fuel t [] = (rev (flat fuel wt t), WOk) /\
  Permutation (visits (flat fuel wt t)) (ids fuel t).
Proof.
  intros wt at_ fuel t Hc Hw. split.
  - exact (walk_complete wt fuel t (covers_known wt at_ fuel t Hc Hw)).
  - exact (flat_presents_every_node_once wt at_ fuel t Hc Hw).
Qed.

(* when the callback returns an error on its (k+1)-th call the walk stops at once:
   exactly k+1 presentations, and the callback's error is the result *)
Theorem callback_error_stops_at_once : forall wt at_ fuel t k,
  covers wt at_ = true -> well_kinded fuel at_ wt t = true ->
  k < length (flat fuel wt t) ->
  walk wt (Some k) fuel t [] = (rev (firstn (S k) (flat fuel wt t)), WCallbackErr).
Proof.
  intros wt at_ fuel t k Hc Hw.
  exact (walk_stops_at_callback_error wt fuel t k (covers_known wt at_ fuel t Hc Hw)).
Qed.

(* a parent before its children: the root is presented first ... *)
Theorem parent_presented_first : forall fuel wt id k fs,
  exists rest, flat (S fuel) wt (Node id k fs) = EVisit id :: rest.
Proof. exact flat_root_first. Qed.

(* ... and the presentation of each child subtree is a contiguous block after it *)
Theorem child_block_after_parent : forall fuel wt id k fs acts i c,
  lookup wt k = Some (Acts acts) -> In (AField i) acts -> In c (field fs i) ->
  exists before after,
    flat (S fuel) wt (Node id k fs) = EVisit id :: before ++ flat fuel wt c ++ after.
Proof. exact flat_child_block. Qed.

(* an error changes nothing about what came before it: the nodes presented by a walk that is stopped
   at call k+1 are exactly the first k+1 nodes the uninterrupted walk presents, in the same order -
   the error neither skips a node nor lets one through after it *)
Theorem stopped_walk_is_a_prefix_of_the_full_walk : forall wt at_ fuel t k,
  covers wt at_ = true -> well_kinded fuel at_ wt t = true ->
  k < length (flat fuel wt t) ->
  exists rest,
    rev (fst (walk wt None fuel t [])) = rev (fst (walk wt (Some k) fuel t [])) ++ rest
    /\ length (fst (walk wt (Some k) fuel t [])) = S k
    /\ snd (walk wt (Some k) fuel t []) = WCallbackErr /\ snd (walk wt None fuel t []) = WOk.
Proof.
  intros wt at_ fuel t k Hc Hw Hk.
  destruct (walker_presents_every_node_once wt at_ fuel t Hc Hw) as [E1 _].
  rewrite (callback_error_stops_at_once wt at_ fuel t k Hc Hw Hk), E1. cbn [fst snd].
  exists (skipn (S k) (flat fuel wt t)).
  rewrite !rev_involutive, firstn_skipn, rev_length, firstn_length.
  repeat split. apply Nat.min_l. exact Hk.
Qed.

Print Assumptions walker_presents_every_node_once.
Print Assumptions callback_error_stops_at_once.
Print Assumptions parent_presented_first.
Print Assumptions child_block_after_parent.
Print Assumptions stopped_walk_is_a_prefix_of_the_full_walk.

(* non-vacuity: a small table and a tree of depth 3 with a zipped pair meet the hypotheses *)
Definition ex_at : list (nat * nat) := [(0, 1); (1, 2); (2, 0)].
Definition ex_wt : list (nat * entry) := [(0, Acts [AField 0]); (1, Acts [AZip 0 1]); (2, Acts [])].
Definition ex_tree : tree :=
  Node 0 0 [[Node 1 1 [[Node 2 2 []; Node 3 2 []]; [Node 4 2 []; Node 5 0 [[Node 6 2 []]]]]; Node 7 2 []]].

Example ex_hypotheses_hold : covers ex_wt ex_at = true /\ well_kinded 10 ex_at ex_wt ex_tree = true.
Proof. split; vm_compute; reflexivity. Qed.

Example ex_walk :
  map (fun e => match e with EVisit i => i | EExtra => 99 end) (flat 10 ex_wt ex_tree) = [0; 1; 2; 4; 3; 5; 6; 7].
Proof. vm_compute. reflexivity. Qed.
