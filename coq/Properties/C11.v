(* C11 — values and calls cross the Go boundary faithfully.  PARTIAL.
   Proved on the model of the conversion routine (Conv/Convert.v: nil, bool, int64, string and nested
   lists towards bool, every integer type, string, interface{} and slices of these) and of the
   argument builder (Conv/CallArgs.v): an interface{} parameter receives the value unchanged; nil
   becomes the zero value of the parameter type; a successful conversion has exactly the parameter
   type; integers convert by Go's rule (the result is in the type's range and congruent to the
   argument modulo 2^bits, unchanged when it fits); lists convert element by element and fail as a
   whole when one element fails; and for the four call shapes the function receives exactly the
   supplied arguments in the cases stated - with the three deviations (surplus elements of a spread
   into a fixed function, a spread into a function without parameters, a short spread into a variadic
   function) exhibited as `_refuted` examples.  Floats (Conv/FloatConv.v): a float64 handed to an integer
   parameter arrives as its integer part, taken toward zero and within one of the float, reduced to the
   parameter's width - for every float whose integer part fits int64 (signed parameters) resp. lies in
   (-2^63, 2^64) (unsigned ones); outside, and for NaN and the infinities, the amd64 patterns, stated as
   such; float parameters take numbers only, an int64 through float64(int64), float32 by one more rounding.
   Maps, pointers, structs, func adapters, methods and results are compared with native Go by ./check C11 only. *)
From Coq Require Import List ZArith String Bool Lia.
From Coq Require Import Floats.SpecFloat.
From Anko Require Import Base.Int64 Base.F64 Conv.Convert Conv.CallArgs.
From Anko Require Conv.TypedProofs Conv.FloatConv Base.OfIntExact.
Import ListNotations.
Open Scope Z_scope.

Theorem interface_parameter_receives_the_value_unchanged : forall v, conv v TIface = Some (VDyn v).
Proof. destruct v; reflexivity. Qed.

Theorem nil_becomes_the_zero_value : forall t, conv SNil t = Some (zero t).
Proof. destruct t; reflexivity. Qed.

Theorem a_converted_value_has_the_parameter_type : forall v t r, t <> TIface -> conv v t = Some r -> type_of r = Some t.
Proof. exact TypedProofs.conv_type. Qed.

Lemma conv_list_elementwise l e :
  conv (SList l) (TSlice e) = option_map (VSlice e) (Convert.map_opt (fun x => conv x e) l).
Proof.
  cbn. f_equal. induction l as [|x r IH]; [reflexivity|]. cbn [Convert.map_opt]. rewrite <- IH. reflexivity.
Qed.

Theorem lists_convert_element_by_element : forall l e,
  conv (SList l) (TSlice e) = option_map (VSlice e) (Convert.map_opt (fun x => conv x e) l).
Proof. exact conv_list_elementwise. Qed.

Theorem one_bad_element_fails_the_whole_list : forall l e x, In x l -> conv x e = None -> conv (SList l) (TSlice e) = None.
Proof.
  intros l e x Hin Hx. rewrite conv_list_elementwise.
  assert (Convert.map_opt (fun y => conv y e) l = None); [|now rewrite H].
  induction l as [|y r IH]; [contradiction|]. cbn. destruct Hin as [->|Hin].
  - now rewrite Hx.
  - rewrite (IH Hin). destruct (conv y e); reflexivity.
Qed.

(* Go's integer conversion *)
Theorem integer_conversion_is_go's : forall signed bits z, 0 < bits ->
  (wrap signed bits z - z) mod 2 ^ bits = 0
  /\ (if signed then - 2 ^ (bits - 1) <= wrap signed bits z < 2 ^ (bits - 1) else 0 <= wrap signed bits z < 2 ^ bits).
Proof.
  intros signed bits z Hb. unfold wrap.
  assert (Hp : 0 < 2 ^ bits) by (apply Z.pow_pos_nonneg; lia).
  assert (Hh : 2 ^ bits = 2 * 2 ^ (bits - 1)).
  { replace bits with (1 + (bits - 1)) at 1 by lia. rewrite Z.pow_add_r by lia. reflexivity. }
  pose proof (Z.mod_pos_bound z (2 ^ bits) Hp) as Hm.
  destruct signed; cbn [andb].
  - destruct (2 ^ (bits - 1) <=? z mod 2 ^ bits) eqn:E.
    + apply Z.leb_le in E. split; [|lia].
      replace (z mod 2 ^ bits - 2 ^ bits - z) with (z mod 2 ^ bits - z + (-1) * 2 ^ bits) by lia.
      rewrite Z.mod_add by lia. rewrite Zminus_mod, Z.mod_mod, Z.sub_diag by lia. reflexivity.
    + apply Z.leb_gt in E. split; [|lia]. rewrite Zminus_mod, Z.mod_mod, Z.sub_diag by lia. reflexivity.
  - split; [|lia]. rewrite Zminus_mod, Z.mod_mod, Z.sub_diag by lia. reflexivity.
Qed.

Theorem integer_that_fits_is_unchanged : forall bits z, 0 < bits -> - 2 ^ (bits - 1) <= z < 2 ^ (bits - 1) -> wrap true bits z = z.
Proof.
  intros bits z Hb Hz. unfold wrap. cbn [andb].
  assert (Hh : 2 ^ bits = 2 * 2 ^ (bits - 1)).
  { replace bits with (1 + (bits - 1)) at 1 by lia. rewrite Z.pow_add_r by lia. reflexivity. }
  assert (Hp : 0 < 2 ^ (bits - 1)) by (apply Z.pow_pos_nonneg; lia).
  destruct (Z_lt_le_dec z 0) as [Hn|Hn].
  - assert (E : z mod 2 ^ bits = z + 2 ^ bits).
    { symmetry. apply Z.mod_unique with (q := -1); lia. }
    rewrite E. replace (2 ^ (bits - 1) <=? z + 2 ^ bits) with true by (symmetry; apply Z.leb_le; lia). lia.
  - rewrite Z.mod_small by lia. replace (2 ^ (bits - 1) <=? z) with false by (symmetry; apply Z.leb_gt; lia). reflexivity.
Qed.

(* floats *)
Theorem a_float_is_truncated_toward_zero_and_loses_less_than_one : forall s m e v, trunc (S754_finite s m e) = Some v ->
  (if s then v <= 0 else 0 <= v) /\
  (0 <= e -> Z.abs v = Zpos m * 2 ^ e) /\
  (e < 0 -> Z.abs v * 2 ^ (- e) <= Zpos m < (Z.abs v + 1) * 2 ^ (- e)).
Proof. exact FloatConv.trunc_toward_zero. Qed.

Theorem float_to_signed_parameter : forall n w f v, trunc f = Some v -> min_int64 <= v <= max_int64 ->
  conv (SFloat f) (TInt n true w) = Some (VInt n true w (wrap true w v)).
Proof. exact FloatConv.float_to_signed_parameter. Qed.

Theorem float_to_unsigned_parameter : forall n w f v, trunc f = Some v -> 0 <= v < 2 ^ 64 ->
  conv (SFloat f) (TInt n false w) = Some (VInt n false w (wrap false w v)).
Proof. exact FloatConv.float_to_unsigned_parameter. Qed.

Theorem negative_float_to_unsigned_parameter : forall n w f v, trunc f = Some v -> - 2 ^ 63 <= v < 0 -> 0 < w <= 64 ->
  conv (SFloat f) (TInt n false w) = Some (VInt n false w (wrap false w v)).
Proof. exact FloatConv.negative_float_to_unsigned_parameter. Qed.

(* platform behaviour (amd64), outside what Go defines *)
Theorem unrepresentable_float_to_signed_parameter : forall n w f,
  (trunc f = None \/ exists v, trunc f = Some v /\ (v < min_int64 \/ max_int64 < v)) ->
  conv (SFloat f) (TInt n true w) = Some (VInt n true w (wrap true w min_int64)).
Proof. exact FloatConv.unrepresentable_float_to_signed_parameter. Qed.

Theorem unrepresentable_float_to_unsigned_parameter : forall n w f,
  (trunc f = None \/ exists v, trunc f = Some v /\ (v < - 2 ^ 63 \/ 2 ^ 64 <= v)) ->
  conv (SFloat f) (TInt n false w) = Some (VInt n false w (wrap false w (2 ^ 63))).
Proof. exact FloatConv.unrepresentable_float_to_unsigned_parameter. Qed.

Theorem float_parameters_take_numbers_only : forall n w,
  (forall b, conv (SBool b) (TFloat n w) = None) /\ (forall bs, conv (SStr bs) (TFloat n w) = None) /\
  (forall l, conv (SList l) (TFloat n w) = None).
Proof. exact FloatConv.float_parameters_take_numbers_only. Qed.

Theorem floats_become_numbers_only : forall f,
  conv (SFloat f) TString = None /\ conv (SFloat f) TBool = None /\ (forall e, conv (SFloat f) (TSlice e) = None).
Proof. exact FloatConv.floats_become_numbers_only. Qed.

Theorem float64_parameter_receives_the_float : forall n f, conv (SFloat f) (TFloat n 64) = Some (VFloat n 64 f).
Proof. exact FloatConv.float64_parameter_receives_the_float. Qed.

Theorem an_integer_below_2_53_reaches_a_float64_parameter_exactly : forall n z, - 2 ^ 53 < z < 2 ^ 53 ->
  exists f, conv (SInt z) (TFloat n 64) = Some (VFloat n 64 f) /\ F64.to_int f = z.
Proof.
  intros n z Hz. exists (F64.of_int z). split; [reflexivity | exact (OfIntExact.small_integers_are_floats_exactly z Hz)].
Qed.

Example float_255_9_to_int8 : conv (SFloat (F64.of_bits 4643208355896801690)) (TInt "int8" true 8) = Some (VInt "int8" true 8 (-1)).
Proof. exact FloatConv.float_to_int8. Qed.

(* call shapes *)
Theorem fixed_function_plain_call : forall (A : Type) n (pre : list A), n <> 0%nat ->
  build n false pre None = (if Nat.eqb n (List.length pre) then Deliver pre [] else Reject).
Proof. intros A. exact (@fixed_plain_exact A). Qed.
Theorem variadic_function_plain_call : forall (A : Type) n (pre : list A), n <> 0%nat -> (n - 1 <= List.length pre)%nat ->
  received (build n true pre None) = Some pre.
Proof. intros A. exact (@variadic_plain_exact A). Qed.
Theorem variadic_function_spread_call : forall (A : Type) n (pre l : list A), n <> 0%nat -> List.length pre = (n - 1)%nat ->
  received (build n true pre (Some l)) = Some (pre ++ l).
Proof. intros A. exact (@variadic_spread_exact A). Qed.
Theorem fixed_function_spread_call : forall (A : Type) n (pre l : list A), n <> 0%nat -> l <> [] -> (List.length pre + List.length l)%nat = n ->
  received (build n false pre (Some l)) = Some (pre ++ l).
Proof. intros A. exact (@fixed_spread_exact A). Qed.

Example byte_from_one_character_string : conv (SStr [97]) (TInt "uint8" false 8) = Some (VInt "uint8" false 8 97).
Proof. reflexivity. Qed.
Example int_to_string_is_the_rune : conv (SInt 233) TString = Some (VStr [195; 169]).
Proof. reflexivity. Qed.
Example int8_wraps : conv (SList [SInt 300; SInt (-1)]) (TSlice (TInt "int8" true 8)) = Some (VSlice (TInt "int8" true 8) [VInt "int8" true 8 44; VInt "int8" true 8 (-1)]).
Proof. reflexivity. Qed.

Print Assumptions a_converted_value_has_the_parameter_type.
Print Assumptions one_bad_element_fails_the_whole_list.
Print Assumptions integer_conversion_is_go's.
Print Assumptions integer_that_fits_is_unchanged.
Print Assumptions fixed_function_spread_call.
Print Assumptions a_float_is_truncated_toward_zero_and_loses_less_than_one.
Print Assumptions float_to_signed_parameter.
Print Assumptions float_to_unsigned_parameter.
Print Assumptions negative_float_to_unsigned_parameter.
Print Assumptions unrepresentable_float_to_unsigned_parameter.
Print Assumptions an_integer_below_2_53_reaches_a_float64_parameter_exactly.
