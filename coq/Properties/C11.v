(* C11 — values and calls cross the Go boundary faithfully.  PARTIAL.
   Proved on the model of the conversion routine (Conv/Convert.v: nil, bool, int64, string and nested
   lists towards bool, every integer type, string, interface{} and slices of these) and of the
   argument builder (Conv/CallArgs.v): an interface{} parameter receives the value unchanged; nil
   becomes the zero value of the parameter type; a successful conversion has exactly the parameter
   type; integers convert by Go's rule (the result is in the type's range and congruent to the
   argument modulo 2^bits, unchanged when it fits); lists convert element by element and fail as a
   whole when one element fails; and for the four call shapes the function receives exactly the
   supplied arguments in the cases stated - with the three deviations (surplus elements of a spread
   into a fixed function, a spread into a function without parameters, a short spread into a variadic
   function) exhibited as `_refuted` examples.  Floats, maps, pointers, structs, func adapters,
   methods and results are compared with native Go by ./check C11 only. *)
From Coq Require Import List ZArith String Bool Lia.
From Anko Require Import Conv.Convert Conv.CallArgs.
Import ListNotations.
Open Scope Z_scope.

Theorem interface_parameter_receives_the_value_unchanged : forall v, conv v TIface = Some (VDyn v).
Proof. destruct v; reflexivity. Qed.

Theorem nil_becomes_the_zero_value : forall t, conv SNil t = Some (zero t).
Proof. destruct t; reflexivity. Qed.

Theorem a_converted_value_has_the_parameter_type : forall v t r, t <> TIface -> conv v t = Some r -> type_of r = Some t.
Proof.
  intros v t r Ht H. destruct v as [| b | z | bs | l].
  - rewrite nil_becomes_the_zero_value in H. injection H as <-. destruct t; try reflexivity. exfalso; apply Ht; reflexivity.
  - destruct t; cbn in H; try discriminate; try (exfalso; apply Ht; reflexivity). injection H as <-. reflexivity.
  - destruct t; cbn in H; try discriminate; try (exfalso; apply Ht; reflexivity); injection H as <-; reflexivity.
  - destruct t as [| | n s w | | e]; cbn in H; try discriminate; try (exfalso; apply Ht; reflexivity);
      repeat match type of H with context [if ?c then _ else _] => destruct c end;
      try discriminate; try (injection H as <-; reflexivity).
    destruct bs as [|b [|b2 r2]]; try discriminate; injection H as <-; reflexivity.
  - destruct t as [| | n s w | | e]; try discriminate; try (exfalso; apply Ht; reflexivity).
    cbn in H. match type of H with option_map _ ?x = _ => destruct x as [ys|] end; [|discriminate].
    injection H as <-. reflexivity.
Qed.

Lemma conv_list_elementwise l e :
  conv (SList l) (TSlice e) = option_map (VSlice e) (Convert.map_opt (fun x => conv x e) l).
Proof.
  cbn. f_equal. induction l as [|x r IH]; [reflexivity|]. cbn [Convert.map_opt]. rewrite <- IH. reflexivity.
Qed.

Theorem lists_convert_element_by_element : forall l e,
  conv (SList l) (TSlice e) = option_map (VSlice e) (Convert.map_opt (fun x => conv x e) l).
Proof. exact conv_list_elementwise. Qed.

Theorem one_bad_element_fails_the_whole_list : forall l e x, In x l -> conv x e = None -> conv (SList l) (TSlice e) = None.
Proof.
  intros l e x Hin Hx. rewrite conv_list_elementwise.
  assert (Convert.map_opt (fun y => conv y e) l = None); [|now rewrite H].
  induction l as [|y r IH]; [contradiction|]. cbn. destruct Hin as [->|Hin].
  - now rewrite Hx.
  - rewrite (IH Hin). destruct (conv y e); reflexivity.
Qed.

(* Go's integer conversion *)
Theorem integer_conversion_is_go's : forall signed bits z, 0 < bits ->
  (wrap signed bits z - z) mod 2 ^ bits = 0
  /\ (if signed then - 2 ^ (bits - 1) <= wrap signed bits z < 2 ^ (bits - 1) else 0 <= wrap signed bits z < 2 ^ bits).
Proof.
  intros signed bits z Hb. unfold wrap.
  assert (Hp : 0 < 2 ^ bits) by (apply Z.pow_pos_nonneg; lia).
  assert (Hh : 2 ^ bits = 2 * 2 ^ (bits - 1)).
  { replace bits with (1 + (bits - 1)) at 1 by lia. rewrite Z.pow_add_r by lia. reflexivity. }
  pose proof (Z.mod_pos_bound z (2 ^ bits) Hp) as Hm.
  destruct signed; cbn [andb].
  - destruct (2 ^ (bits - 1) <=? z mod 2 ^ bits) eqn:E.
    + apply Z.leb_le in E. split; [|lia].
      replace (z mod 2 ^ bits - 2 ^ bits - z) with (z mod 2 ^ bits - z + (-1) * 2 ^ bits) by lia.
      rewrite Z.mod_add by lia. rewrite Zminus_mod, Z.mod_mod, Z.sub_diag by lia. reflexivity.
    + apply Z.leb_gt in E. split; [|lia]. rewrite Zminus_mod, Z.mod_mod, Z.sub_diag by lia. reflexivity.
  - split; [|lia]. rewrite Zminus_mod, Z.mod_mod, Z.sub_diag by lia. reflexivity.
Qed.

Theorem integer_that_fits_is_unchanged : forall bits z, 0 < bits -> - 2 ^ (bits - 1) <= z < 2 ^ (bits - 1) -> wrap true bits z = z.
Proof.
  intros bits z Hb Hz. unfold wrap. cbn [andb].
  assert (Hh : 2 ^ bits = 2 * 2 ^ (bits - 1)).
  { replace bits with (1 + (bits - 1)) at 1 by lia. rewrite Z.pow_add_r by lia. reflexivity. }
  assert (Hp : 0 < 2 ^ (bits - 1)) by (apply Z.pow_pos_nonneg; lia).
  destruct (Z_lt_le_dec z 0) as [Hn|Hn].
  - assert (E : z mod 2 ^ bits = z + 2 ^ bits).
    { symmetry. apply Z.mod_unique with (q := -1); lia. }
    rewrite E. replace (2 ^ (bits - 1) <=? z + 2 ^ bits) with true by (symmetry; apply Z.leb_le; lia). lia.
  - rewrite Z.mod_small by lia. replace (2 ^ (bits - 1) <=? z) with false by (symmetry; apply Z.leb_gt; lia). reflexivity.
Qed.

(* call shapes *)
Theorem fixed_function_plain_call : forall (A : Type) n (pre : list A), n <> 0%nat ->
  build n false pre None = (if Nat.eqb n (List.length pre) then Deliver pre [] else Reject).
Proof. intros A. exact (@fixed_plain_exact A). Qed.
Theorem variadic_function_plain_call : forall (A : Type) n (pre : list A), n <> 0%nat -> (n - 1 <= List.length pre)%nat ->
  received (build n true pre None) = Some pre.
Proof. intros A. exact (@variadic_plain_exact A). Qed.
Theorem variadic_function_spread_call : forall (A : Type) n (pre l : list A), n <> 0%nat -> List.length pre = (n - 1)%nat ->
  received (build n true pre (Some l)) = Some (pre ++ l).
Proof. intros A. exact (@variadic_spread_exact A). Qed.
Theorem fixed_function_spread_call : forall (A : Type) n (pre l : list A), n <> 0%nat -> l <> [] -> (List.length pre + List.length l)%nat = n ->
  received (build n false pre (Some l)) = Some (pre ++ l).
Proof. intros A. exact (@fixed_spread_exact A). Qed.

Example byte_from_one_character_string : conv (SStr [97]) (TInt "uint8" false 8) = Some (VInt "uint8" false 8 97).
Proof. reflexivity. Qed.
Example int_to_string_is_the_rune : conv (SInt 233) TString = Some (VStr [195; 169]).
Proof. reflexivity. Qed.
Example int8_wraps : conv (SList [SInt 300; SInt (-1)]) (TSlice (TInt "int8" true 8)) = Some (VSlice (TInt "int8" true 8) [VInt "int8" true 8 44; VInt "int8" true 8 (-1)]).
Proof. reflexivity. Qed.

Print Assumptions a_converted_value_has_the_parameter_type.
Print Assumptions one_bad_element_fails_the_whole_list.
Print Assumptions integer_conversion_is_go's.
Print Assumptions integer_that_fits_is_unchanged.
Print Assumptions fixed_function_spread_call.
