(* C09 — errors reach the nearest try; deferred calls run once, LIFO, on every exit. *)
From Coq Require Import String List ZArith Bool Arith Lia.
From Anko Require Import Base.Assoc Env.EnvModel Interp.Ast Interp.Value Interp.ToX Interp.Equal Interp.Model
     Interp.ScopeProofs Interp.DeferProofs.
Import ListNotations.

(* deferred calls do not alter the invocation's result: for any number of deferred calls, whatever
   they do - also when they write to the place the result was read from - the value of the result
   after running them is the value it had before *)
Theorem deferred_calls_keep_the_result : forall orc cancel_at fuel ds err0 s,
  match exec orc cancel_at fuel (CDefers ds err0) s with
  | Ok s' | Err _ s' => deref (r_st s') (r_rv s') = deref (r_st s) (r_rv s)
  | Abort _ => True
  end.
Proof. exact defers_keep_rv. Qed.

(* an error raised by a deferred call surfaces only if the body itself did not fail *)
Theorem body_error_wins_over_deferred_errors : forall orc cancel_at fuel ds e0 s,
  e0 <> ESentinel SReturnS ->
  match exec orc cancel_at fuel (CDefers ds (Some e0)) s with
  | Ok _ => False
  | Err e _ => e = e0
  | Abort _ => True
  end.
Proof. exact defers_keep_body_error. Qed.

(* every registered call is run exactly once, last registered first: the loop takes the head of the
   reversed registration list, applies it once, and continues with the tail; an invocation hands
   over [rev (r_defers _)] and clears its list (run_vm_func / run_context) *)
Theorem deferred_calls_run_one_by_one : forall rec d r err0 s,
  run_defers rec (d :: r) err0 s =
    match rec (CApply (d_fn d) (d_args d) (d_slice d)) s with
    | Abort a => Abort a
    | Ok s1 => rec (CDefers r err0) (set_rv s1 (detach (r_st s) (r_rv s)))
    | Err e s1 =>
        rec (CDefers r (match err0 with None | Some (ESentinel SReturnS) => Some e | Some x => Some x end))
            (set_rv s1 (detach (r_st s) (r_rv s)))
    end.
Proof. reflexivity. Qed.

Theorem invocation_runs_its_defers_in_reverse_and_clears_them : forall rec c args s cl st1 e st2 c1,
  nth_error (st_closures (r_st s)) c = Some cl ->
  env_new (r_st s) (cl_env cl) = (st1, e) ->
  define_params st1 e (cl_params cl) args = Some st2 ->
  rec (CStmt (cl_body cl)) (mkR st2 e rv_nil []) = Ok c1 -> r_defers c1 <> [] ->
  run_vm_func rec c args s =
    match rec (CDefers (rev (r_defers c1)) None) (set_defers c1 []) with
    | Abort a => Abort a
    | Ok c2 => Ok (set_rv (set_st s (r_st c2)) (r_rv c2))
    | Err (ESentinel SReturnS) c2 => Ok (set_rv (set_st s (r_st c2)) (r_rv c2))
    | Err e0 c2 => Err (wrap_err e0) (set_rv (set_st s (r_st c2)) rv_nil)
    end.
Proof.
  intros rec c args s cl st1 e st2 c1 Hc He Hd Hb Hnd. unfold run_vm_func. rewrite Hc, He, Hd. cbv zeta.
  rewrite Hb. destruct (r_defers c1); [contradiction|reflexivity].
Qed.

(* defer evaluates callee and arguments at the defer statement: what is registered are values *)
Theorem defer_registers_evaluated_arguments : forall rec f args s cl c,
  f = VFunc c -> nth_error (st_closures (r_st s)) c = Some cl -> cl_vararg cl = false ->
  length (cl_params cl) = length args -> 1 <= length args ->
  register_defer rec f args false s =
    eval_rvals rec args s [] (fun argv s1 => Ok (set_rv (set_defers s1 (r_defers s1 ++ [mkD f argv false])) rv_nil)).
Proof.
  intros rec f args s cl c -> Hc Hv Hl Hn. unfold register_defer. rewrite Hc, Hv. cbv zeta. cbn [orb].
  destruct (length (cl_params cl) <? 1) eqn:E1; [apply Nat.ltb_lt in E1; rewrite Hl in E1; lia|].
  rewrite Hl, Nat.eqb_refl. reflexivity.
Qed.

(* try: an error of the body (anything but the interrupt sentinel) runs the catch block with the
   error bound to the catch variable; the interrupt passes; finally runs after success or a caught error *)
Theorem try_passes_the_interrupt : forall rec t v c f s st1 e1 s1,
  env_new (r_st s) (r_env s) = (st1, e1) ->
  rec (CStmt t) (set_env (set_st s st1) e1) = Err (ESentinel SInterruptS) s1 ->
  run_try rec t v c f s = Err (ESentinel SInterruptS) (set_env s1 (r_env s)).
Proof. intros rec t v c f s st1 e1 s1 He Ht. unfold run_try. rewrite He, Ht. reflexivity. Qed.

Theorem try_runs_catch_with_the_error_bound : forall rec t v c s st1 e1 s1 m,
  env_new (r_st s) (r_env s) = (st1, e1) -> v <> ""%string ->
  rec (CStmt t) (set_env (set_st s st1) e1) = Err (EVm m) s1 ->
  run_try rec t v c None s =
    match rec (CStmt c) (set_st s1 (env_define (r_st s1) (r_env s1) v (Imm (VErr (EVm m))))) with
    | Abort a => Abort a
    | Err e2 s2 => Err e2 (set_env s2 (r_env s))
    | Ok s2 => Ok (set_env s2 (r_env s))
    end.
Proof.
  intros rec t v c s st1 e1 s1 m He Hv Ht. unfold run_try. rewrite He, Ht.
  destruct (String.eqb v "") eqn:E; [apply String.eqb_eq in E; contradiction|]. reflexivity.
Qed.

Theorem finally_runs_after_success : forall rec t v c fi s st1 e1 s1,
  env_new (r_st s) (r_env s) = (st1, e1) ->
  rec (CStmt t) (set_env (set_st s st1) e1) = Ok s1 ->
  run_try rec t v c (Some fi) s =
    match rec (CStmt (Some fi)) s1 with
    | Ok s3 => Ok (set_env s3 (r_env s))
    | Err e s3 => Err e (set_env s3 (r_env s))
    | Abort a => Abort a
    end.
Proof. intros rec t v c fi s st1 e1 s1 He Ht. unfold run_try. rewrite He, Ht. reflexivity. Qed.

(* after the failing point nothing of the statement list executes *)
Theorem statement_list_aborts_on_first_error : forall rec st l s e s1,
  match st with SBreak | SContinue | SReturn _ => False | _ => True end ->
  rec (CStmt (Some st)) s = Err e s1 -> run_stmts rec (st :: l) s = Err e s1.
Proof. intros rec st l s e s1 Hst H. destruct st; try contradiction; cbn [run_stmts]; now rewrite H. Qed.

(* throw always raises: whatever the operand's text is - the empty string included - the statement ends
   with an error carrying that text, never normally *)
Theorem throw_always_raises : forall orc cancel_at rec e s s0 s1 m,
  poll cancel_at s = (false, s0) ->
  rec (CExpr e) s0 = Ok s1 ->
  to_string_st orc (r_st s1) (deref (r_st s1) (r_rv s1)) = TOk m ->
  run_single orc cancel_at rec (Some (SThrow e)) s = Err (EVm m) s1.
Proof.
  intros orc cancel_at rec e s s0 s1 m Hp He Hm. unfold run_single. rewrite Hp, He, Hm. reflexivity.
Qed.

(* an uncaught error of a script function reaches the caller as an error of the call *)
Theorem callee_error_is_an_error_of_the_call : forall orc cancel_at fuel f args cs s e s',
  exec orc cancel_at fuel (CApply f args cs) s = Err e s' ->
  nonsentinel e /\ r_env s' = r_env s.
Proof.
  intros orc cancel_at fuel f args cs s e s' Hx. pose proof (exec_env orc cancel_at fuel (CApply f args cs) s) as H.
  rewrite Hx in H. cbn [strict_cmd err_pred env_eq post_env] in H.
  destruct H as [[H _]|[H1 H2]]; [discriminate|split; assumption].
Qed.

Print Assumptions deferred_calls_keep_the_result.
Print Assumptions body_error_wins_over_deferred_errors.
Print Assumptions invocation_runs_its_defers_in_reverse_and_clears_them.
Print Assumptions defer_registers_evaluated_arguments.
Print Assumptions try_passes_the_interrupt.
Print Assumptions try_runs_catch_with_the_error_bound.
Print Assumptions callee_error_is_an_error_of_the_call.
Print Assumptions throw_always_raises.

(* non-vacuity: two defers in a function that then fails; both run, last first, and the body's error wins *)
Open Scope string_scope.
Definition ex_c09 : stmt :=
  SStmts [SExpr (EFunc "f" (Some (SStmts [
            SDefer (ECall "probe" [ELit (LInt 1)] false false);
            SDefer (ECall "probe" [ELit (LInt 2)] false false);
            SThrow (ELit (LStr "x"))])) [] false);
          STry (Some (SStmts [SExpr (ECall "f" [] false false)])) "e" (Some (SStmts [SExpr (ECall "probe" [ELit (LInt 3)] false false)])) None].
Example ex_c09_runs :
  match exec (mkOracle [] []) None 400 (CStmt (Some ex_c09))
             (mkR (mkStore [mkScope None [("probe", Imm (VHost 0))] [] None] [] [] [] [] 0) 0 rv_nil []) with
  | Ok s' => st_trace (r_st s') = [[VInt 3]; [VInt 1]; [VInt 2]]
  | _ => False
  end.
Proof. vm_compute. reflexivity. Qed.
