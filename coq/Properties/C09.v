(* C09 — theorems are added below as they are proved. *)
From Anko Require Import Interp.Model.
