(* C16 — script channels and goroutines deliver every message once, in order.  PARTIAL.
   Proved on the abstract machine of Chan/Pipeline.v (FIFO channels with capacity and close; a
   producer, any number of mapping stages, a consumer; one transition = one channel operation of one
   goroutine), for EVERY schedule, any number of stages, any capacities, any items:
     - what the consumer has received plus what is in flight is, at all times, the stream of items
       mapped through the stages, in order: nothing is lost, duplicated or reordered;
     - no schedule deadlocks: until the consumer's loop has ended some goroutine can move;
     - every schedule ends, within a bound computed from the initial state;
     - so a run that can go no further has delivered exactly the mapped items, in order.
   And on single operations: send on a closed channel and a second close are failures, a receive on a
   closed and drained channel yields nothing with ok = false, receive is FIFO.
   Fan-in (Chan/FanIn.v): k producers sending into one channel, one consumer - under every schedule each
   producer's values arrive exactly once and in that producer's order, no deadlock, every schedule ends.
   The Go scheduler and the interpreter's goroutines are not in the model: ./check C16 runs generated
   pipeline programs on the real interpreter many times under varying GOMAXPROCS and compares what
   the consumer collected with the model's answer. *)
From Coq Require Import List Arith Lia Bool ZArith.
From Anko Require Import Chan.Pipeline Chan.PipelineExec.
From Anko Require Chan.FanIn Chan.FanInProofs.
Import ListNotations.

Theorem nothing_lost_duplicated_or_reordered : forall (V : Type) (y y' : @sys V),
  inv y -> steps y y' -> inv y' /\ stream y' = stream y.
Proof. intros V y y' Hi Hs. exact (steps_inv y y' Hs Hi). Qed.

Theorem no_deadlock : forall (V : Type) (y : @sys V), wf (top y) -> fin y = false -> exists y', step y y'.
Proof. intros V. exact (@no_schedule_deadlocks V). Qed.

Theorem every_schedule_terminates : forall (V : Type) (y : @sys V) n y', steps_n n y y' -> n + measure y' <= measure y.
Proof. intros V. exact (@every_schedule_ends V). Qed.

Theorem pipelines_deliver_every_item_once_in_order :
  forall (V : Type) (xs : list V) c0 stages (y' : @sys V),
  steps (pipeline xs c0 stages) y' -> (forall y'', ~ step y' y'') ->
  fin y' = true /\ got y' = through stages xs.
Proof. intros V. exact (@pipelines_deliver_under_every_schedule V). Qed.

Theorem the_extracted_scheduler_is_a_schedule : forall (V : Type) fuel (y : @sys V), steps y (run fuel y).
Proof. intros V fuel y. apply run_steps. Qed.

Theorem send_after_close_is_an_error : forall (V : Type) (c : @chan V) v, closed c = true -> chan_send c v = Failed.
Proof. intros V. exact (@send_on_closed_fails V). Qed.
Theorem closing_twice_is_an_error : forall (V : Type) (c c' : @chan V), chan_close c = Done c' -> chan_close c' = Failed.
Proof. intros V. exact (@close_then_close_fails V). Qed.
Theorem receive_after_close_and_drain : forall (V : Type) (c : @chan V), closed c = true -> buf c = [] -> chan_recv c = Some (None, false, c).
Proof. intros V. exact (@recv_after_close_and_drain V). Qed.

Example three_stage_pipeline :
  got (run 200 (pipeline [1; 2; 3] 0 [(fun x => x + 1, 0); (fun x => x * 2, 2)])) = [4; 6; 8]
  /\ fin (run 200 (pipeline [1; 2; 3] 0 [(fun x => x + 1, 0); (fun x => x * 2, 2)])) = true.
Proof. split; reflexivity. Qed.

(* several producers sending into one channel: under every schedule, what the consumer ends up with,
   restricted to producer i, is exactly producer i's list - every value of every producer once, in its
   producer's order, and nothing from anyone else; the executable verdict of the check says the same *)
Theorem fan_in_delivers_every_message_once_in_sender_order : forall cap items s,
  FanIn.steps cap (FanIn.init items) s -> FanIn.final s ->
  Forall (fun m => fst m < length items) (FanIn.got s)
  /\ (forall i, i < length items -> FanIn.proj i (FanIn.got s) = nth i items [])
  /\ FanIn.fanin_ok items (FanIn.got s) = true.
Proof.
  intros cap items s Hs Hf.
  destruct (FanInProofs.final_inv_delivered items s (FanInProofs.inv_steps cap items _ _ (FanInProofs.inv_init items) Hs) Hf) as [H1 H2].
  repeat split; try assumption. apply FanInProofs.delivered_ok; assumption.
Qed.

Theorem fan_in_verdict_means_delivery : forall items l, FanIn.fanin_ok items l = true ->
  Forall (fun m => fst m < length items) l /\ forall i, i < length items -> FanIn.proj i l = nth i items [].
Proof. exact FanInProofs.ok_delivered. Qed.

Theorem fan_in_never_deadlocks : forall cap s, 0 < cap -> FanIn.final s \/ exists s', FanIn.step cap s s'.
Proof. exact FanInProofs.progress. Qed.

Theorem fan_in_every_schedule_ends : forall cap, well_founded (fun s' s => FanIn.step cap s s').
Proof. exact FanInProofs.schedules_end. Qed.

(* a run exists and the verdict is not vacuous: two producers through a one-slot channel *)
Example fan_in_somewhere :
  let items := [[1; 2]; [7]]%Z in
  FanIn.fanin_ok items [(0, 1%Z); (1, 7%Z); (0, 2%Z)] = true /\ FanIn.fanin_ok items [(0, 2%Z); (1, 7%Z); (0, 1%Z)] = false
  /\ FanIn.fanin_ok items [(0, 1%Z); (0, 2%Z)] = false /\ FanIn.fanin_ok items [(0, 1%Z); (1, 7%Z); (0, 2%Z); (1, 7%Z)] = false.
Proof. vm_compute. repeat split. Qed.

Print Assumptions nothing_lost_duplicated_or_reordered.
Print Assumptions no_deadlock.
Print Assumptions every_schedule_terminates.
Print Assumptions pipelines_deliver_every_item_once_in_order.
Print Assumptions fan_in_delivers_every_message_once_in_sender_order.
Print Assumptions fan_in_verdict_means_delivery.
Print Assumptions fan_in_never_deadlocks.
Print Assumptions fan_in_every_schedule_ends.
