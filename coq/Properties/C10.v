(* C10 — slices, maps, strings (and struct fields) behave like their Go models.  PARTIAL.
   The interpreter model represents a script slice exactly as Go does - backing array, offset,
   length, capacity - and a map as an association list without duplicate keys.  Proved here on that
   model (Interp/ContainerProofs.v): reads address exactly the cells of the view; x[b:e] is the
   addressed sub-view and shares storage with x (a store through one view is seen by every view
   covering the cell and changes nothing else); append within capacity writes the next cell of the
   same array, beyond capacity moves to a fresh array and leaves every existing array as it was;
   map store / lookup / delete laws with missing and unhashable keys reading as nil; an out-of-range
   or non-numeric index and an unhashable key on store are errors that leave the store unchanged.
   Typed containers (make, typed literals, map[K]V) and struct values made with make have a model of their
   own (Conv/Typed.v: every store goes through the conversion routine of Conv/Convert.v): whatever the
   history, every cell holds a value of its declared type; a store that cannot convert fails and leaves
   the container as it was; a cell reads back the converted value last stored in it and other cells
   keep theirs; an unknown field is an error.  The model covers element / key / field types bool, the
   integer types, string, interface{} and slices of these, and the script values nil, bool, int64,
   string and lists (no floats, no nested stores such as v.L[0] = x): ./check C10 runs it on generated
   histories (entry c10t) and compares all typed histories, including floats and nested stores, with
   native Go values. *)
From Coq Require Import String List ZArith Bool Arith Lia.
From Anko Require Import Base.Assoc Interp.Ast Interp.Value Interp.ToX Interp.Equal Interp.Model Interp.ContainerProofs Interp.StringProofs.
From Anko Require Conv.Convert Conv.Typed Conv.TypedProofs.
Import ListNotations.

(* reads *)
Theorem a_view_reads_the_addressed_cells : forall st l off n k, k < n ->
  nth_error (slice_elems st l off n) k = array_get st l (off + k) \/ array_get st l (off + k) = None.
Proof. exact view_nth. Qed.

Theorem slicing_reads_the_addressed_elements : forall st l off n b e, b <= e -> e <= n ->
  slice_elems st l (off + b) (e - b) = firstn (e - b) (skipn b (slice_elems st l off n)).
Proof. exact subslice_view. Qed.

(* sharing *)
Theorem views_of_one_array_share_storage : forall st l a off n i v k,
  nth_error (st_arrays st) l = Some a -> i < length a -> k < n ->
  nth_error (slice_elems (array_set st l i v) l off n) k =
    if off + k =? i then Some v else nth_error (slice_elems st l off n) k.
Proof. exact view_after_store. Qed.

Theorem a_store_touches_one_cell_only : forall st l i v l' i',
  (l, i) <> (l', i') -> array_get (array_set st l i v) l' i' = array_get st l' i'.
Proof. exact array_get_set_other. Qed.

Theorem a_store_leaves_maps_and_scopes_alone : forall st l i v,
  st_maps (array_set st l i v) = st_maps st /\ st_heap (array_set st l i v) = st_heap st.
Proof. exact array_set_maps. Qed.

(* append *)
Theorem append_within_capacity_writes_in_place : forall st l off n cap v, n < cap ->
  append_value st l off n cap v = Some (array_set st l (off + n) v, VSlice l off (S n) cap).
Proof. exact append_within_capacity. Qed.

Theorem append_beyond_capacity_moves_to_a_fresh_array : forall st l off n cap v st' sl a, ~ n < cap ->
  nth_error (st_arrays st) l = Some a -> off + n <= length a ->
  append_value st l off n cap v = Some (st', sl) ->
  exists nc, sl = VSlice (length (st_arrays st)) 0 (S n) nc /\ S n <= nc
    /\ (forall l' i, l' < length (st_arrays st) -> array_get st' l' i = array_get st l' i)
    /\ slice_elems st' (length (st_arrays st)) 0 (S n) = slice_elems st l off n ++ [v].
Proof. exact append_beyond_capacity. Qed.

(* index assignment: in range stores exactly there; out of range / not a number is an error and the
   store is what it was *)
Theorem index_store_in_range : forall rec e l off len cap idx v s z,
  try_to_int idx = TOk z -> (0 <= z < Z.of_nat len)%Z ->
  let_item_slice rec e l off len cap idx v s =
    Ok (set_rv (set_st s (array_set (r_st s) l (off + Z.to_nat z) v)) (Place l (off + Z.to_nat z))).
Proof. exact store_in_range. Qed.

Theorem index_store_out_of_range_changes_nothing : forall rec e l off len cap idx v s z,
  try_to_int idx = TOk z -> (z < 0 \/ Z.of_nat len < z)%Z ->
  exists er s', let_item_slice rec e l off len cap idx v s = Err er s' /\ r_st s' = r_st s /\ r_env s' = r_env s.
Proof. intros. rewrite (store_out_of_range rec e l off len cap idx v s z) by assumption. apply raise_keeps_store. Qed.

Theorem index_store_with_a_non_number_changes_nothing : forall rec e l off len cap idx v s,
  try_to_int idx = TErr ->
  exists er s', let_item_slice rec e l off len cap idx v s = Err er s' /\ r_st s' = r_st s /\ r_env s' = r_env s.
Proof. intros. rewrite (store_not_a_number rec e l off len cap idx v s) by assumption. apply raise_keeps_store. Qed.

(* maps *)
Theorem map_store_then_read : forall m k v, simple_key k = true -> map_lookup (map_store m k v) k = Some v.
Proof. exact lookup_store_same. Qed.
Theorem map_store_leaves_other_keys : forall m k k' v, simple_key k = true -> k <> k' -> map_lookup (map_store m k v) k' = map_lookup m k'.
Proof. exact lookup_store_other. Qed.
Theorem map_delete_then_read : forall m k, simple_key k = true -> wf_map m -> map_lookup (map_remove m k) k = None.
Proof. exact lookup_remove_same. Qed.
Theorem map_delete_leaves_other_keys : forall m k k', simple_key k = true -> k <> k' -> map_lookup (map_remove m k) k' = map_lookup m k'.
Proof. exact lookup_remove_other. Qed.
Theorem maps_never_hold_a_key_twice : forall m k v, simple_key k = true -> wf_map m -> wf_map (map_store m k v) /\ wf_map (map_remove m k).
Proof. intros; split; [apply wf_store | apply wf_remove]; assumption. Qed.

Theorem missing_key_reads_nil : forall st m key es,
  nth_error (st_maps st) m = Some es -> map_lookup es key = None -> get_map_index st key m = VNil.
Proof. exact map_read_missing. Qed.
Theorem unhashable_key_reads_nil : forall st m key, hashable key = false -> get_map_index st key m = VNil.
Proof. exact map_read_unhashable. Qed.
Theorem unhashable_key_store_is_an_error_and_changes_nothing : forall m key v s, hashable key = false ->
  exists er s', let_item_map m key v s = Err er s' /\ r_st s' = r_st s /\ r_env s' = r_env s.
Proof. intros. rewrite map_store_unhashable by assumption. apply raise_keeps_store. Qed.

(* a concrete history: b = a[1:3]; b[0] = 9 is seen through a; append to b overwrites a[3] in place *)
Example sharing_history :
  let st0 := mkStore [] [[VInt 1; VInt 2; VInt 3; VInt 4]] [] [] [] 0 in
  let st1 := array_set st0 0 (1 + 0) (VInt 9) in
  slice_elems st1 0 0 4 = [VInt 1; VInt 9; VInt 3; VInt 4]
  /\ append_value st1 0 1 2 3 (VInt 7) = Some (array_set st1 0 3 (VInt 7), VSlice 0 1 3 3)
  /\ slice_elems (array_set st1 0 3 (VInt 7)) 0 0 4 = [VInt 1; VInt 9; VInt 3; VInt 7].
Proof. repeat split. Qed.

(* ---- typed containers and struct fields (Conv/Typed.v) ---- *)
Theorem typed_containers_only_hold_their_declared_type : forall c ops,
  Typed.well_typed c -> Typed.well_typed (fst (Typed.trun c ops)).
Proof. exact TypedProofs.every_reachable_container_is_well_typed. Qed.

Theorem a_failing_typed_store_leaves_the_old_content : forall c o,
  snd (Typed.tstep c o) = Typed.XErr -> fst (Typed.tstep c o) = c.
Proof. exact TypedProofs.error_leaves_the_container. Qed.

Theorem typed_element_reads_back_what_was_stored : forall e l i v x,
  (0 <= i <= Z.of_nat (List.length l))%Z -> Convert.conv v e = Some x ->
  exists l', Typed.tstep (Typed.KSlice e l) (Typed.OStore i v) = (Typed.KSlice e l', Typed.XCont (Typed.KSlice e l'))
    /\ Typed.tstep (Typed.KSlice e l') (Typed.ORead i) = (Typed.KSlice e l', Typed.XVal x)
    /\ (forall j, j <> Z.to_nat i -> j < List.length l -> nth_error l' j = nth_error l j)
    /\ List.length l' = (if (i =? Z.of_nat (List.length l))%Z then S (List.length l) else List.length l).
Proof. exact TypedProofs.slice_store_then_read. Qed.

Theorem typed_map_entry_reads_back_what_was_stored : forall kt et m k v k' v',
  TypedProofs.keyable kt -> Convert.conv k kt = Some k' -> Convert.conv v et = Some v' ->
  Typed.tstep (Typed.KMap kt et m) (Typed.OMapStore k v) = (Typed.KMap kt et (Typed.m_set m k' v'), Typed.XCont (Typed.KMap kt et (Typed.m_set m k' v')))
  /\ Typed.tstep (Typed.KMap kt et (Typed.m_set m k' v')) (Typed.OMapRead k) = (Typed.KMap kt et (Typed.m_set m k' v'), Typed.XVal v')
  /\ forall k2, Typed.key_eqb k' k2 = false -> Typed.m_get (Typed.m_set m k' v') k2 = Typed.m_get m k2.
Proof. exact TypedProofs.map_store_then_read. Qed.

Theorem a_field_reads_back_what_was_last_stored : forall fs f t v0 v x,
  Typed.f_get fs f = Some (t, v0) -> Convert.conv v t = Some x ->
  Typed.tstep (Typed.KStruct fs) (Typed.OFieldStore f v) = (Typed.KStruct (Typed.f_set fs f x), Typed.XVal x)
  /\ Typed.tstep (Typed.KStruct (Typed.f_set fs f x)) (Typed.OFieldRead f) = (Typed.KStruct (Typed.f_set fs f x), Typed.XVal x)
  /\ forall g, f <> g -> Typed.f_get (Typed.f_set fs f x) g = Typed.f_get fs g.
Proof. exact TypedProofs.field_store_then_read. Qed.

Theorem an_unknown_field_is_an_error : forall fs f v, Typed.f_get fs f = None ->
  Typed.tstep (Typed.KStruct fs) (Typed.OFieldStore f v) = (Typed.KStruct fs, Typed.XErr)
  /\ Typed.tstep (Typed.KStruct fs) (Typed.OFieldRead f) = (Typed.KStruct fs, Typed.XErr).
Proof. exact TypedProofs.unknown_field_is_an_error. Qed.

(* the hypotheses are met: a []int8 takes 300 as 44, refuses a string and keeps its content *)
Example typed_somewhere :
  let c := Typed.KSlice (Convert.TInt "int8" true 8%Z) [Convert.VInt "int8" true 8%Z 0%Z] in
  Typed.well_typed c
  /\ Typed.trun c [Typed.OStore 0%Z (Convert.SInt 300%Z); Typed.OStore 0%Z (Convert.SStr [120%Z; 121%Z]); Typed.ORead 0%Z]
     = (Typed.KSlice (Convert.TInt "int8" true 8%Z) [Convert.VInt "int8" true 8%Z 44%Z],
        [Typed.XCont (Typed.KSlice (Convert.TInt "int8" true 8%Z) [Convert.VInt "int8" true 8%Z 44%Z]); Typed.XErr; Typed.XVal (Convert.VInt "int8" true 8%Z 44%Z)]).
Proof. split; [repeat constructor | vm_compute; reflexivity]. Qed.


(* ---- values, not places: what is handed on is the value a slot had then ---- *)

Lemma eval_rvals_values rec : forall es s vacc k,
  eval_rvals rec es s (map Imm vacc) k = eval_values rec es s vacc (fun vs s1 => k (map Imm vs) s1).
Proof.
  induction es as [|e r IH]; intros s vacc k; cbn [eval_rvals eval_values].
  - now rewrite map_rev.
  - destruct (rec (CExpr e) s) as [s1|er s1|a]; try reflexivity.
    unfold detach. apply (IH s1 (deref (r_st s1) (r_rv s1) :: vacc) k).
Qed.

(* what a call hands its function is the list of the values its argument expressions had, each when it
   was evaluated: evaluating the arguments as reflect.Values is evaluating them as values *)
Theorem arguments_are_passed_as_values : forall rec es s k,
  eval_rvals rec es s [] k = eval_values rec es s [] (fun vs s1 => k (map Imm vs) s1).
Proof. intros rec es s k. exact (eval_rvals_values rec es s [] k). Qed.

(* a detached value reads the same in every later store *)
Theorem a_detached_value_no_longer_follows_its_slot : forall st st' r, deref st' (detach st r) = deref st r.
Proof. reflexivity. Qed.

(* unpacking a list: every target is assigned the value its element has when its turn comes *)
Theorem unpacked_elements_are_assigned_as_values : forall rec l lr r rr s,
  let_all rec (l :: lr) (r :: rr) s false =
    match rec (CLet l) (set_rv s (Imm (deref (r_st s) r))) with
    | Ok s1 => let_all rec lr rr s1 false
    | Err e s1 => Err e s1
    | Abort a => Abort a
    end.
Proof. reflexivity. Qed.

(* return hands back a value *)
Theorem a_returned_value_is_a_value : forall rec e s s1,
  rec (CExpr e) s = Ok s1 ->
  exists s2, run_return rec [e] s = Ok s2 /\ r_rv s2 = Imm (deref (r_st s1) (r_rv s1)) /\ r_st s2 = r_st s1.
Proof. intros rec e s s1 H. unfold run_return. rewrite H. eexists; repeat split. Qed.

(* a store at index len through something one cannot assign to fails before anything is written *)
Theorem a_store_at_len_that_cannot_be_assigned_back_writes_nothing : forall rec ie l off len cap value s e s1,
  is_place_expr ie = false ->
  rec (CLet ie) (set_rv s (Imm (VSlice l off len cap))) = Err e s1 ->
  let_item_slice rec ie l off len cap (VInt (Z.of_nat len)) value s = Err e s1.
Proof.
  intros rec ie l off len cap value s e s1 Hp He. unfold let_item_slice, try_to_int, try_to_int64. cbn [tri_bind].
  rewrite Z.eqb_refl, Hp, He. reflexivity.
Qed.

(* strings: for EVERY string and index, the element read at an in-range index is exactly the byte there
   (the one-byte slice s[i:i+1], whatever the byte's value), an index at or beyond the length is an
   error, and the elements put together again are the string *)
Theorem string_element_is_its_one_byte_slice : forall s i, i < String.length s ->
  index_string s i = TOk (String.substring i 1 s).
Proof. exact index_string_spec. Qed.

Theorem string_index_beyond_the_end_is_an_error : forall s i, String.length s <= i -> index_string s i = TErr.
Proof. exact index_string_out. Qed.

Theorem string_is_the_concatenation_of_its_elements : forall s,
  concat_ok (elements_from s 0 (String.length s)) = Some s.
Proof. exact rebuilt. Qed.

Example non_ascii_element : index_string (String (Ascii.ascii_of_nat 97) (String (Ascii.ascii_of_nat 195) (String (Ascii.ascii_of_nat 169) EmptyString))) 1
  = TOk (String (Ascii.ascii_of_nat 195) EmptyString).
Proof. reflexivity. Qed.

Print Assumptions string_element_is_its_one_byte_slice.
Print Assumptions string_index_beyond_the_end_is_an_error.
Print Assumptions string_is_the_concatenation_of_its_elements.
Print Assumptions views_of_one_array_share_storage.
Print Assumptions arguments_are_passed_as_values.
Print Assumptions unpacked_elements_are_assigned_as_values.
Print Assumptions a_store_at_len_that_cannot_be_assigned_back_writes_nothing.
Print Assumptions append_beyond_capacity_moves_to_a_fresh_array.
Print Assumptions index_store_out_of_range_changes_nothing.
Print Assumptions maps_never_hold_a_key_twice.
Print Assumptions unhashable_key_store_is_an_error_and_changes_nothing.
Print Assumptions typed_containers_only_hold_their_declared_type.
Print Assumptions a_failing_typed_store_leaves_the_old_content.
Print Assumptions typed_element_reads_back_what_was_stored.
Print Assumptions typed_map_entry_reads_back_what_was_stored.
Print Assumptions a_field_reads_back_what_was_last_stored.
