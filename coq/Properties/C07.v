(* C07 — operands are evaluated exactly once, left to right; skipped operands never run.
   In the model every operand list is evaluated by [eval_rvals] / [eval_values], which make exactly
   one call of the interpreter per list element, in list order, and stop at the first error. *)
From Coq Require Import String List ZArith Bool Arith Lia.
From Anko Require Import Base.Assoc Env.EnvModel Interp.Ast Interp.Value Interp.ToX Interp.Equal Interp.Model.
Import ListNotations.

(* sequencing law: evaluating es1 ++ es2 is evaluating es1, then es2, for lists of any length *)
Theorem operand_lists_evaluate_left_to_right : forall rec es1 es2 s acc k,
  eval_rvals rec (es1 ++ es2) s acc k =
  eval_rvals rec es1 s acc (fun rs s1 => eval_rvals rec es2 s1 (rev rs) k).
Proof.
  intros rec es1. induction es1 as [|e r IH]; intros es2 s acc k; cbn [app eval_rvals].
  - now rewrite rev_involutive.
  - destruct (rec (CExpr e) s); auto.
Qed.

(* one element = exactly one evaluation, and an error ends the evaluation of the operands after it *)
Theorem each_operand_evaluated_exactly_once : forall rec e es s acc k,
  eval_rvals rec (e :: es) s acc k =
    match rec (CExpr e) s with
    | Ok s1 => eval_rvals rec es s1 (detach (r_st s1) (r_rv s1) :: acc) k
    | Err x s0 => Err x s0
    | Abort a => Abort a
    end.
Proof. reflexivity. Qed.

Theorem literal_operands_left_to_right : forall rec es1 es2 s acc k,
  eval_values rec (es1 ++ es2) s acc k =
  eval_values rec es1 s acc (fun vs s1 => eval_values rec es2 s1 (rev vs) k).
Proof.
  intros rec es1. induction es1 as [|e r IH]; intros es2 s acc k; cbn [app eval_values].
  - now rewrite rev_involutive.
  - destruct (rec (CExpr e) s); auto.
Qed.

(* a plain call of a script function with the right number of arguments: the arguments, in order,
   then the call (the direct path and the reflect path have the same order) *)
Theorem call_evaluates_arguments_then_calls : forall cancel_at rec c cl args s,
  nth_error (st_closures (r_st s)) c = Some cl -> cl_vararg cl = false ->
  length (cl_params cl) = length args ->
  call_function cancel_at rec (VFunc c) args false false s =
    eval_rvals rec args s [] (fun argv s1 => call_finish cancel_at rec (VFunc c) argv false s1).
Proof.
  intros cancel_at rec c cl args s Hc Hv Hl. unfold call_function. rewrite Hc, Hv. cbv zeta.
  rewrite Hl, Nat.eqb_refl. reflexivity.
Qed.

(* a call rejected for a wrong argument count evaluates no operand: the state is untouched *)
Theorem wrong_argument_count_evaluates_nothing : forall cancel_at rec c cl args s,
  nth_error (st_closures (r_st s)) c = Some cl -> cl_vararg cl = false ->
  1 <= length (cl_params cl) -> length (cl_params cl) <> length args ->
  call_function cancel_at rec (VFunc c) args false false s =
    arity_error (length (cl_params cl)) (length args) s.
Proof.
  intros cancel_at rec c cl args s Hc Hv H1 Hne. unfold call_function. rewrite Hc, Hv. cbv zeta.
  destruct (Nat.eqb_spec (length (cl_params cl)) (length args)); [contradiction|]. cbn [andb negb].
  destruct (length (cl_params cl) <? 1) eqn:E; [apply Nat.ltb_lt in E; lia|]. reflexivity.
Qed.

(* && and || evaluate the right operand only when the result depends on it *)
Theorem or_short_circuits : forall orc rec l r s s1,
  rec (CExpr l) s = Ok s1 ->
  to_bool orc (len_of_st (r_st s1)) (deref (r_st s1) (r_rv s1)) = TOk true ->
  invoke_binary orc rec l "||" r s = Ok (set_rv s1 (Imm (VBool true))).
Proof.
  intros orc rec l r s s1 Hl Ht. unfold invoke_binary, eval_operand. rewrite Hl, Ht. reflexivity.
Qed.

Theorem and_short_circuits : forall orc rec l r s s1,
  rec (CExpr l) s = Ok s1 ->
  to_bool orc (len_of_st (r_st s1)) (deref (r_st s1) (r_rv s1)) = TOk false ->
  invoke_binary orc rec l "&&" r s = Ok (set_rv s1 (Imm (VBool false))).
Proof.
  intros orc rec l r s s1 Hl Ht. unfold invoke_binary, eval_operand. rewrite Hl, Ht. reflexivity.
Qed.

(* ?: evaluates the condition and exactly the selected branch *)
Theorem ternary_evaluates_selected_branch_only : forall orc rec c l r s s1 b,
  rec (CExpr c) s = Ok s1 ->
  to_bool orc (len_of_st (r_st s1)) (deref (r_st s1) (r_rv s1)) = TOk b ->
  invoke_ternary orc rec c l r s = rec (CExpr (if b then l else r)) s1.
Proof.
  intros orc rec c l r s s1 b Hc Ht. unfold invoke_ternary, truthy. rewrite Hc, Ht. reflexivity.
Qed.

(* ?? evaluates its right side only when the left is nil or fails *)
Theorem coalesce_skips_right_when_left_is_a_value : forall cancel rec l r s s1,
  rec (CExpr l) s = Ok s1 -> is_nil (deref (r_st s1) (r_rv s1)) = false ->
  invoke_coalesce cancel rec l r s = Ok s1.
Proof. intros cancel rec l r s s1 Hl Hn. unfold invoke_coalesce. now rewrite Hl, Hn. Qed.

(* binary operators: left operand, then right operand, each once *)
Theorem binary_operands_left_then_right : forall rec l r s k,
  eval_operand rec l s (fun lv s1 => eval_operand rec r s1 (k lv)) =
    match rec (CExpr l) s with
    | Ok s1 => match rec (CExpr r) s1 with
               | Ok s2 => k (deref (r_st s1) (r_rv s1)) (deref (r_st s2) (r_rv s2)) s2
               | Err e s0 => Err e s0
               | Abort a => Abort a
               end
    | Err e s0 => Err e s0
    | Abort a => Abort a
    end.
Proof. reflexivity. Qed.

Print Assumptions operand_lists_evaluate_left_to_right.
Print Assumptions literal_operands_left_to_right.
Print Assumptions call_evaluates_arguments_then_calls.
Print Assumptions wrong_argument_count_evaluates_nothing.
Print Assumptions or_short_circuits.
Print Assumptions ternary_evaluates_selected_branch_only.
Print Assumptions coalesce_skips_right_when_left_is_a_value.

(* non-vacuity: f(probe(1), probe(2)) || probe(3) with f returning its second argument *)
Open Scope string_scope.
Definition ex_c07 : stmt :=
  SStmts [SExpr (EFunc "f" (Some (SStmts [SReturn [EIdent "b"]])) ["a"; "b"] false);
          SExpr (EOp (OBinary (ECall "f" [ECall "probe" [ELit (LInt 1)] false false; ECall "probe" [ELit (LInt 2)] false false] false false)
                              "||" (ECall "probe" [ELit (LInt 3)] false false)))].
Example ex_c07_runs :
  match exec (mkOracle [] []) None 400 (CStmt (Some ex_c07))
             (mkR (mkStore [mkScope None [("probe", Imm (VHost 0))] [] None] [] [] [] [] 0) 0 rv_nil []) with
  | Ok s' => st_trace (r_st s') = [[VInt 2]; [VInt 1]] /\ deref (r_st s') (r_rv s') = VBool true
  | _ => False
  end.
Proof. vm_compute. split; reflexivity. Qed.
