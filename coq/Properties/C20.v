(* C20 — a value behaves the same wherever it came from.
   In the interpreter model a reflect.Value is [Imm v] or [Place l i] (an addressable element); there is
   no "kind Interface" attribute at all: every operation consumes its operands through [deref], so an
   operation cannot depend on how an operand was obtained except through aliasing of places (a later
   write to the element), which the property does not speak about.  The hop lemmas below say that each
   provenance hop hands on exactly the value (and therefore its dynamic type); the tie to vm/*.go, where
   the unwrap idiom is written out by hand at ~40 sites, is the exhaustive template x value x provenance
   correspondence of ./check C20. *)
From Coq Require Import String List ZArith Bool Arith Lia.
From Anko Require Import Base.Assoc Env.EnvModel Interp.Ast Interp.Value Interp.ToX Interp.Equal Interp.Model.
Import ListNotations.

(* the unwrap idiom never changes the value *)
Theorem unwrap_keeps_value : forall st r, deref st (unwrap st r) = deref st r.
Proof.
  intros st r. destruct r as [v|l i]; cbn; [reflexivity|].
  destruct (array_get st l i) as [v|] eqn:E; cbn; [|now rewrite E].
  destruct v; cbn; rewrite ?E; reflexivity.
Qed.

(* operators see operands only through their value: two evaluations that leave the same store and
   the same denoted value continue identically, whatever reflect.Value carried it *)
Theorem operand_enters_by_value : forall rec e s k s1,
  rec (CExpr e) s = Ok s1 ->
  eval_operand rec e s k = k (deref (r_st s1) (r_rv s1)) s1.
Proof. intros rec e s k s1 H. unfold eval_operand. now rewrite H. Qed.

(* hops *)
Theorem hop_parentheses : forall orc cancel f x s,
  exec orc cancel (S f) (CExpr (EParen x)) s = exec orc cancel f (CExpr x) s.
Proof. reflexivity. Qed.

Theorem hop_ternary : forall orc cancel f x y s,
  exec orc cancel (S (S f)) (CExpr (ETernary (ELit (LBool true)) x y)) s =
  exec orc cancel (S f) (CExpr x) (set_rv s (Imm (VBool true))).
Proof. reflexivity. Qed.

Theorem hop_coalesce : forall orc cancel f x s,
  exec orc cancel (S (S f)) (CExpr (ECoalesce (ELit LNil) x)) s =
  exec orc cancel (S f) (CExpr x) (set_rv s (Imm VNil)).
Proof. reflexivity. Qed.

(* an element of a list literal denotes the value the element expression had *)
Theorem hop_element : forall orc cancel f x s s1,
  exec orc cancel (S (S f)) (CExpr x) s = Ok s1 ->
  exec orc cancel (S f) (CExpr x) s = Ok s1 ->
  match exec orc cancel (S (S (S (S f)))) (CExpr (EItem (EArray [x] None) (ELit (LInt 0)))) s with
  | Ok s2 => deref (r_st s2) (r_rv s2) = deref (r_st s1) (r_rv s1)
  | _ => False
  end.
Proof.
  intros orc cancel f x s s1 H2 H1.
  change (exec orc cancel (S (S (S (S f)))) (CExpr (EItem (EArray [x] None) (ELit (LInt 0)))) s)
    with (invoke_item (exec orc cancel (S (S (S f)))) (EArray [x] None) (ELit (LInt 0)) s).
  unfold invoke_item.
  change (exec orc cancel (S (S (S f))) (CExpr (EArray [x] None)) s)
    with (invoke_array (exec orc cancel (S (S f))) [x] s).
  unfold invoke_array. cbn [eval_values]. rewrite H2. cbn [rev app].
  unfold new_slice, alloc_array. cbn.
  unfold array_get. cbn. rewrite nth_error_app2 by lia. rewrite Nat.sub_diag. reflexivity.
Qed.

(* a map entry read back is the stored value *)
Theorem hop_map_entry : forall st m es k v,
  nth_error (st_maps st) m = Some es -> hashable k = true -> map_lookup es k = Some v ->
  get_map_index st k m = v.
Proof. intros st m es k v Hm Hh Hl. unfold get_map_index. now rewrite Hh, Hm, Hl. Qed.

(* a Go function declared to return interface{} hands back the value it was given *)
Theorem hop_go_identity : forall x s, host_call 8 [x] s = Ok (set_rv s (Imm x)).
Proof. reflexivity. Qed.

(* a script function returns the value its return statement evaluated to *)
Theorem hop_script_return : forall rec e s s1,
  rec (CExpr e) s = Ok s1 -> run_return rec [e] s = Ok (set_rv s1 (Imm (deref (r_st s1) (r_rv s1)))).
Proof. intros rec e s s1 H. unfold run_return. rewrite H. reflexivity. Qed.

Print Assumptions unwrap_keeps_value.
Print Assumptions operand_enters_by_value.
Print Assumptions hop_element.
Print Assumptions hop_map_entry.

Open Scope string_scope.
(* non-vacuity: -[[5][0]][0] is the integer -5 in the model *)
Example ex_c20 :
  match exec (mkOracle [] []) None 50
          (CExpr (EUnary "-" (EItem (EArray [EItem (EArray [ELit (LInt 5)] None) (ELit (LInt 0))] None) (ELit (LInt 0)))))
          (mkR (mkStore [mkScope None [] [] None] [] [] [] [] 0) 0 rv_nil []) with
  | Ok s' => deref (r_st s') (r_rv s') = VInt (-5)
  | _ => False
  end.
Proof. vm_compute. reflexivity. Qed.
