(* C03 — the parser builds the tree the source spells out.
   Model: the table-driven parser of Parse/ExprParser.v instantiated with the operator table of the
   property statement (Parse/Spec.v: `?:` and `??` right-associative, `||`, `&&`, comparisons,
   `+ - |`, `* / % << >> &`, `in` (right-associative), prefix `- ! ^ & *`, postfix call / index /
   member), over atoms.  Tie to the code: Obligations/C03.v compares the %left/%right lines
   regenerated from parser/parser.go.y with Spec.prec_lines_spec; ./check C03 runs the real parser
   and this model on the same sources (trees printed by the extracted [minp]/[full]) and compares
   trees and values.  Literals are compared with Go's strconv by the check only (no model). *)
From Coq Require Import List Arith Bool Lia.
From Anko Require Import Parse.ExprParser Parse.ExprFacts Parse.ExprRoundTrip Parse.ExprParens Parse.Spec.
Import ListNotations.

Lemma spec_table_ok : table_ok T_spec qop_spec = true.
Proof. vm_compute. reflexivity. Qed.

(* For every expression tree over the language's operators, to any nesting depth: the spelling with
   every implied parenthesis made explicit and the spelling with only the parentheses the table
   requires are both accepted, consume all their tokens, and are read back as that same tree (up to
   the parenthesis nodes themselves). *)
Theorem explicit_parentheses_same_tree : forall t, known T_spec unops_spec qop_spec t = true ->
  exists fuel t1 t2,
    (forall m, fuel <= m -> pexpr T_spec unops_spec qop_spec m T_spec (print qop_spec (full t)) = Some (t1, [])) /\
    (forall m, fuel <= m -> pexpr T_spec unops_spec qop_spec m T_spec (print qop_spec (minp T_spec unops_spec qop_spec t)) = Some (t2, [])) /\
    strip t1 = strip t /\ strip t2 = strip t.
Proof. exact (both_spellings_same_tree T_spec unops_spec qop_spec spec_table_ok). Qed.

(* the reading is unique: two trees that need no further parentheses and spell the same are equal *)
Theorem spelling_determines_tree : forall t1 t2,
  wf T_spec unops_spec qop_spec 0 t1 = true -> wf T_spec unops_spec qop_spec 0 t2 = true ->
  print qop_spec t1 = print qop_spec t2 -> t1 = t2.
Proof.
  intros t1 t2 H1 H2 E.
  pose proof (table_ok_disj _ _ spec_table_ok) as Hd. pose proof (table_ok_q _ _ spec_table_ok) as Hq.
  destruct (roundtrip T_spec unops_spec qop_spec Hd Hq t1 [] H1 I) as [n1 P1].
  destruct (roundtrip T_spec unops_spec qop_spec Hd Hq t2 [] H2 I) as [n2 P2].
  rewrite app_nil_r in P1, P2. rewrite E in P1.
  pose proof (mono_e _ _ _ n1 (max n1 n2) _ _ _ ltac:(lia) P1) as Q1.
  pose proof (mono_e _ _ _ n2 (max n1 n2) _ _ _ ltac:(lia) P2) as Q2.
  congruence.
Qed.

(* what the table says about the two classic neighbourhoods *)
Example mul_binds_tighter_than_add :
  minp T_spec unops_spec qop_spec (Bin 13 (Bin 10 (Atom 0) (Atom 1)) (Atom 2))
  = Bin 13 (Paren (Bin 10 (Atom 0) (Atom 1))) (Atom 2)
  /\ minp T_spec unops_spec qop_spec (Bin 10 (Atom 0) (Bin 13 (Atom 1) (Atom 2))) = Bin 10 (Atom 0) (Bin 13 (Atom 1) (Atom 2)).
Proof. split; reflexivity. Qed.
Example ternary_and_coalesce_right_assoc :
  pexpr T_spec unops_spec qop_spec 60 T_spec [TAtom 0; TOp 0; TAtom 1; TColon; TAtom 2; TOp 1; TAtom 3; TOp 0; TAtom 4; TColon; TAtom 5]
  = Some (Tern (Atom 0) (Atom 1) (Bin 1 (Atom 2) (Tern (Atom 3) (Atom 4) (Atom 5))), []).
Proof. vm_compute. reflexivity. Qed.
Example postfix_under_unary :
  pexpr T_spec unops_spec qop_spec 60 T_spec [TOp 11; TAtom 0; TLB; TAtom 1; TRB; TDot; TAtom 2; TLP; TRP; TOp 19; TAtom 3]
  = Some (Bin 19 (Un 11 (Call0 (Member (Index (Atom 0) (Atom 1)) 2))) (Atom 3), []).
Proof. vm_compute. reflexivity. Qed.

Print Assumptions explicit_parentheses_same_tree.
Print Assumptions spelling_determines_tree.
