(* C15 — parsing is total, position-accurate and compositional.  PARTIAL (see level_note).
   Proved on the scanner model (Parse/Scanner.v, compared token by token - kinds, literals, lines,
   columns, error flags - with the real Scanner by ./check C15): for EVERY list of runes the token
   stream is finite and ends with EOF within the fuel the model supplies (every call of Scan
   consumes input unless it reports EOF - including the comment loop that steps back), and every
   reported position is the coordinate of an offset of the input: its line is a line of the input and
   its column at most one past the end of that line.  The parser's errors carry the position of a
   token, so this is the position claim for scanner-detected and syntax errors alike.
   The scanner half of the concatenation law is proved too (Parse/ScannerConcat.v): for EVERY pair of
   texts A, B where A scans without an error token, the stream of A ++ newline ++ B is A's stream with
   its EOF replaced by the newline token, then B's stream with every line number raised by the line A
   ends on (kinds, literals, columns and error flags of B's tokens unchanged).
   Not proved: termination, no-panic and the concatenation law of the LALR driver (statement lists
   of the concatenation) - those are decided by execution over generated inputs in ./check C15. *)
From Coq Require Import List ZArith Bool Lia String.
From Anko Require Import Parse.Scanner Parse.ScannerProofs Parse.ScannerConcat Parse.ScannerDriver.
Import ListNotations.

Theorem scanning_terminates_with_EOF : forall (is_letter : Z -> bool), is_letter NL = false ->
  forall src, exists l l0 t, tokens is_letter src = Some l /\ l = (l0 ++ [t])%list /\ t_kind t = KEOF.
Proof.
  intros is_letter H src. destruct (tokens_total is_letter H src) as (l & E & _ & l0 & t & -> & Hk).
  exists (l0 ++ [t])%list, l0, t. auto.
Qed.

Theorem positions_lie_inside_the_input : forall (is_letter : Z -> bool), is_letter NL = false ->
  forall src l, tokens is_letter src = Some l ->
  Forall (fun t => (1 <= t_line t <= List.length (split_lines src))%nat
                   /\ (1 <= t_col t <= S (List.length (nth (t_line t - 1) (split_lines src) [])))%nat) l.
Proof.
  intros is_letter H src l E.
  destruct (tokens_total is_letter H src) as (l' & E' & Hall & _). rewrite E in E'. injection E' as <-.
  eapply Forall_impl; [|exact Hall].
  intros t (m & r & -> & Hl & Hc).
  destruct (offset_coordinates_in_range m r) as [H1 H2].
  rewrite Hl, Hc. cbn [Nat.sub]. rewrite Nat.sub_0_r. lia.
Qed.

(* the instance that is extracted and run against the real scanner *)
Corollary extracted_scanner_is_total : forall src, exists l, tokens letter_table src = Some l.
Proof. intro src. destruct (scanning_terminates_with_EOF letter_table eq_refl src) as (l & _ & _ & E & _). eauto. Qed.

(* scanning has no memory: the stream is a function of the text *)
Theorem scanning_is_a_function_of_the_text : forall is_letter s1 s2, s1 = s2 -> tokens is_letter s1 = tokens is_letter s2.
Proof. intros; subst; reflexivity. Qed.

(* compositional, at the level of tokens: what follows the next newline does not change what was
   scanned before it, and where a text starts only moves its line numbers *)
Theorem scanning_is_compositional : forall (is_letter : Z -> bool), is_letter NL = false -> forall A B la lb,
  tokens is_letter A = Some la -> Forall (fun t => t_err t = false) la -> tokens is_letter B = Some lb ->
  exists ts eof, la = (ts ++ [eof])%list /\ t_kind eof = KEOF /\
    tokens is_letter (A ++ NL :: B) = Some (ts ++ nl_tok eof :: map (shift_tok (t_line eof)) lb)%list.
Proof. exact tokens_of_concatenation. Qed.

Theorem scanning_does_not_depend_on_the_starting_line : forall is_letter k fuel s,
  scan_all is_letter fuel (shift k s) = match scan_all is_letter fuel s with Some l => Some (map (shift_tok k) l) | None => None end.
Proof. intros. apply scan_all_shift. Qed.

Example comment_loop_terminates :
  option_map (map t_kind) (tokens letter_table [47; 42; 42; 42; 47; 97]) = Some [KName "IDENT"%string; KEOF].
Proof. vm_compute. reflexivity. Qed.
Example unterminated_comment_reports_and_ends :
  option_map (map (fun t => (t_kind t, t_err t))) (tokens letter_table [97; 47; 42; 10; 42]) = Some [(KName "IDENT"%string, false); (KChar 0, true); (KEOF, false)].
Proof. vm_compute. reflexivity. Qed.

Print Assumptions scanning_terminates_with_EOF.
Print Assumptions positions_lie_inside_the_input.
Print Assumptions extracted_scanner_is_total.
Print Assumptions scanning_is_compositional.
Print Assumptions scanning_does_not_depend_on_the_starting_line.
