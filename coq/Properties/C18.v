(* C18 — the command-line tool reports exactly what the library computes.
   Theorems about the model of anko.go (Cli/CliModel.v: Go's flag parsing over -v / -e, choice of the
   source, exit-code mapping) with the library and the file system as parameters.  ./check C18 builds
   the real binary from /repo, runs it and the library on the same scripts and feeds both to the
   extracted model (entry c18). *)
From Coq Require Import String List Bool ZArith.
From Anko Require Import Cli.CliModel Cli.CliProofs.
Import ListNotations.
Open Scope string_scope.

(* once the tool has a source (from -e or from a readable file) its standard output is what the
   script printed followed by the diagnostic line exactly when the library reports an error, and it
   exits 0 iff the library's verdict for that source with those arguments is success, 4 iff it is an
   error *)
Theorem verdict_agrees_with_the_library : forall (lib : library) (fs : filesystem) p src args r,
  source_of fs p = Some (src, args) -> run_plan lib fs p = Some r ->
  stdout r = fst (lib src args) ++ diagnostic (snd (lib src args))
  /\ (exit_code r = 0%Z <-> snd (lib src args) = VOk)
  /\ (exit_code r = 4%Z <-> exists m, snd (lib src args) = VErr m)
  /\ (exit_code r = 0%Z \/ exit_code r = 4%Z).
Proof. exact run_plan_agrees. Qed.

(* exit status 2 exactly when the file cannot be read; the library is then not consulted *)
Theorem unreadable_file_is_2 : forall (lib : library) (fs : filesystem) n args r,
  run_plan lib fs (File n args) = Some r ->
  (exit_code r = 2%Z <-> exists e, fs n = inr e)
  /\ (forall e, fs n = inr e -> forall lib', run_plan lib' fs (File n args) = Some r
                                   /\ stdout r = "ReadFile error: " ++ e ++ nl).
Proof.
  intros lib fs n args r H. split; [exact (exit_2_iff _ _ _ _ _ H)|].
  intros e He lib'. rewrite (run_plan_unreadable lib _ _ _ _ He) in H. injection H as <-.
  split; [exact (run_plan_unreadable lib' _ _ _ _ He) | reflexivity].
Qed.

Theorem exit_status_is_0_2_or_4 : forall (lib : library) (fs : filesystem) p r, run_plan lib fs p = Some r ->
  match p with Exec _ _ | File _ _ => exit_code r = 0%Z \/ exit_code r = 2%Z \/ exit_code r = 4%Z | _ => True end.
Proof. exact exit_codes. Qed.

(* both ways of supplying the script: `anko file args...` and `anko -e src args...` *)
Theorem file_invocation : forall file args, flag_like file = false -> plan_of (file :: args) = File file args.
Proof. exact plan_file. Qed.

Theorem execute_invocation : forall src args,
  match args with [] => True | a :: _ => flag_like a = false end ->
  plan_of ("-e" :: src :: args) = Exec src args.
Proof. exact plan_exec. Qed.

(* end to end, for a -e invocation *)
Corollary execute_end_to_end : forall (lib : library) (fs : filesystem) src args,
  match args with [] => True | a :: _ => flag_like a = false end ->
  exists r, cli lib fs ("-e" :: src :: args) = Some r
    /\ (exit_code r = 0%Z <-> snd (lib src args) = VOk)
    /\ stdout r = fst (lib src args) ++ diagnostic (snd (lib src args)).
Proof.
  intros lib fs src args H2. unfold cli. rewrite (plan_exec src args H2).
  exists (finish (lib src args)). split; [reflexivity|].
  destruct (run_plan_agrees lib fs (Exec src args) src args _ eq_refl eq_refl) as (Ho & H0 & _).
  split; assumption.
Qed.

Print Assumptions verdict_agrees_with_the_library.
Print Assumptions unreadable_file_is_2.
Print Assumptions exit_status_is_0_2_or_4.
Print Assumptions file_invocation.
Print Assumptions execute_invocation.
Print Assumptions execute_end_to_end.
