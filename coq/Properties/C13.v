(* C13 — an environment is safe to share between goroutines.  PARTIAL (see level_note).
   What is proved:
   (1) the decision procedure run on every recorded concurrent history is exactly linearizability
       against the sequential environment model: [linearizable_iff];
   (2) any execution in which every operation takes effect atomically is linearizable
       [atomic_operations_linearize] - the premise is what the obligations on the regenerated lock
       table (Obligations/C13.v: every map access under the scope's lock, one critical section per
       scope and operation) establish for the Go code, outside the logic;
   (2') one reader-writer lock, every operation one critical section (reads under the read lock and
       pure, writes under the write lock): then EVERY interleaving of the operations' individual
       steps - acquire, each micro-step of a write, the moment of a read, release - yields per-thread
       histories that are linearizable [one_section_per_operation_makes_every_schedule_linearizable]
       (Conc/LockReduction.v); this is the step from what the lock table says about env/*.go to (2),
       and the reason the schedule exploration of ./check C13 may interleave at lock acquisitions only;
   (3) a copy taken atomically is a snapshot: it equals the scope's content at one point of the
       sequential order [copy_is_a_snapshot];
   (4) no deadlock: with writer-preferring reader-writer locks, one per scope, threads made of sections
       (one lock at a time) keep every lock exclusive and can always move until all are done, in every
       schedule [sectioned_operations_never_deadlock]; a read lock asked for twice by one thread deadlocks
       with one writer [a_read_lock_taken_twice_can_deadlock] (Conc/RWLockProgress.v).
   What is checked rather than proved: that the Go methods are the model's steps when run under
   every schedule of their lock acquisitions (./check C13: controlled scheduler over the real env
   package, all interleavings of 2-3 goroutines, each outcome fed to (1)); absence of data races
   (race detector stress); absence of deadlock (the scheduler sees every acquisition). *)
From Coq Require Import String List Bool Arith.
From Anko Require Import Base.Assoc Env.EnvModel Env.EnvCases Conc.Lin Conc.EnvConc Conc.LockTable.
From Anko Require Conc.LockReduction Conc.EnvLocks Conc.RWLockProgress.
Import ListNotations.

Theorem linearizable_iff_sequential_order : forall h0 ts fin,
  linearizable h0 ts fin = true <->
  exists l h', Interleave ts l /\ run_matches kstep kout_eqb h0 l = Some h' /\ final_ok fin h' = true.
Proof. exact linearizable_iff. Qed.

Lemma kout_eqb_refl_on_model : forall h o, kout_eqb (snd (kstep h o)) (snd (kstep h o)) = true -> True.
Proof. trivial. Qed.

(* generic: atomic operations give linearizable executions, for any state machine whose result
   comparison is reflexive *)
Theorem atomic_operations_linearize :
  forall (St Op Out : Type) (step : St -> Op -> St * Out) (out_eqb : Out -> Out -> bool),
  (forall y, out_eqb y y = true) ->
  forall st ts st' obs (final : St -> bool),
  Exec step st ts st' obs -> final st' = true -> Lin step out_eqb final st obs.
Proof. intros St Op Out step out_eqb Hr. apply atomic_executions_are_linearizable. exact Hr. Qed.

(* a Copy that takes effect atomically returns the content the scope has at that point *)
Theorem copy_is_a_snapshot : forall (h : list cscope) e sc,
  nth_error h e = Some sc ->
  kstep h (KSnap e) = (h, KDump (dump_of sc)).
Proof.
  intros h e sc H. unfold kstep, cstep, step. cbn [target].
  unfold valid. assert (Hlt : e < length h) by (apply nth_error_Some; congruence).
  apply Nat.ltb_lt in Hlt. rewrite Hlt. unfold lift_h, copy. rewrite H.
  rewrite nth_error_app2 by apply Nat.le_refl. rewrite Nat.sub_diag. reflexivity.
Qed.

(* the static conditions mean what they say *)
Theorem lock_table_condition : forall l, locks_ok l = true ->
  forall a, In a l -> a_lock a <> 0 /\ (a_write a = true -> a_lock a = 2).
Proof. exact locks_ok_spec. Qed.

(* coarse-grained locking reduces every fine-grained schedule to one operation at a time *)
Theorem one_section_per_operation_makes_every_schedule_linearizable :
  forall (St Op Out : Type) (step : St -> Op -> St * Out) (is_write : Op -> bool) (micro : Op -> list (St -> St)),
  (forall st o, is_write o = false -> fst (step st o) = st) ->
  (forall st o, is_write o = true -> LockReduction.run_micro (micro o) st = fst (step st o)) ->
  forall (out_eqb : Out -> Out -> bool) st ts s' (final : St -> bool),
  LockReduction.frun step is_write micro (LockReduction.start st ts) s' -> LockReduction.finished s' ->
  final (LockReduction.sigma s') = true ->
  clean_obs out_eqb (map LockReduction.hist (LockReduction.ths s')) ->
  Lin step out_eqb final st (map LockReduction.hist (LockReduction.ths s')).
Proof.
  intros St Op Out step is_write micro Hr Hm out_eqb st ts s' final.
  apply (LockReduction.every_schedule_is_linearizable step is_write micro Hr Hm out_eqb).
Qed.

(* the instance for package env's model: lookups, listings and the snapshot of Copy are pure, so with
   every method one critical section (the lock table) every schedule of environment operations is
   explained by the sequential model *)
Theorem environment_operations_under_one_lock_linearize :
  forall h0 ts s' (final : list cscope -> bool),
  LockReduction.frun kstep EnvLocks.k_is_write EnvLocks.k_micro (LockReduction.start h0 ts) s' -> LockReduction.finished s' ->
  final (LockReduction.sigma s') = true ->
  clean_obs kout_eqb (map LockReduction.hist (LockReduction.ths s')) ->
  Lin kstep kout_eqb final h0 (map LockReduction.hist (LockReduction.ths s')).
Proof. exact EnvLocks.environment_schedules_are_linearizable. Qed.

Theorem environment_reads_do_not_change_the_scopes : forall h o, EnvLocks.k_is_write o = false -> fst (kstep h o) = h.
Proof. exact EnvLocks.env_reads_are_pure. Qed.

(* not vacuous: a counter with a two-step increment and a read; the reader gets in between two increments *)
Definition ctr_step (st : nat) (o : bool) : nat * nat := if o then (S (S st), st) else (st, st).
Example a_fine_grained_run_exists :
  let micro := fun o : bool => if o then [S; S] else [] in
  exists s', LockReduction.frun ctr_step (fun o => o) micro (LockReduction.start 0 [[true; true]; [false]]) s'
    /\ LockReduction.finished s' /\ LockReduction.sigma s' = 4
    /\ map LockReduction.hist (LockReduction.ths s') = [[(true, 0); (true, 2)]; [(false, 2)]].
Proof.
  intro micro. eexists. split.
  - eapply LockReduction.run_cons; [eapply (LockReduction.acq_w ctr_step (fun o => o) micro _ 0); [reflexivity | reflexivity | repeat constructor]|]. cbn.
    eapply LockReduction.run_cons; [eapply (LockReduction.step_w ctr_step (fun o => o) micro _ 0); reflexivity|]. cbn.
    eapply LockReduction.run_cons; [eapply (LockReduction.step_w ctr_step (fun o => o) micro _ 0); reflexivity|]. cbn.
    eapply LockReduction.run_cons; [eapply (LockReduction.rel_w ctr_step (fun o => o) micro _ 0); reflexivity|]. cbn.
    eapply LockReduction.run_cons; [eapply (LockReduction.acq_r ctr_step (fun o => o) micro _ 1); [reflexivity | reflexivity | repeat constructor]|]. cbn.
    eapply LockReduction.run_cons; [eapply (LockReduction.read_r ctr_step (fun o => o) micro _ 1); reflexivity|]. cbn.
    eapply LockReduction.run_cons; [eapply (LockReduction.rel_r ctr_step (fun o => o) micro _ 1); reflexivity|]. cbn.
    eapply LockReduction.run_cons; [eapply (LockReduction.acq_w ctr_step (fun o => o) micro _ 0); [reflexivity | reflexivity | repeat constructor]|]. cbn.
    eapply LockReduction.run_cons; [eapply (LockReduction.step_w ctr_step (fun o => o) micro _ 0); reflexivity|]. cbn.
    eapply LockReduction.run_cons; [eapply (LockReduction.step_w ctr_step (fun o => o) micro _ 0); reflexivity|]. cbn.
    eapply LockReduction.run_cons; [eapply (LockReduction.rel_w ctr_step (fun o => o) micro _ 0); reflexivity|]. cbn.
    apply LockReduction.run_refl.
  - cbn. repeat split; repeat constructor.
Qed.

(* Deadlock freedom.  sync.RWMutex gives a writer that has announced itself precedence over new readers; the
   machine of Conc/RWLockProgress.v has one such lock per scope and threads running arbitrary acquire / release
   sequences.  Threads made of sections (take one lock, release it, then the next - what the lock table's
   [sections_ok] establishes for the methods of package env) keep the locks exclusive and never deadlock, in
   every schedule; a thread that asks for a read lock it already holds can deadlock with one writer. *)
Theorem sectioned_operations_never_deadlock :
  forall progs ts, Forall RWLockProgress.sections progs -> RWLockProgress.run (RWLockProgress.start progs) ts ->
    RWLockProgress.no_two_holders ts /\ ~ RWLockProgress.stuck ts.
Proof. exact RWLockProgress.sectioned_programs_are_safe_and_live. Qed.

Theorem some_thread_can_always_move :
  forall ts, Forall RWLockProgress.disciplined ts -> RWLockProgress.finished ts \/ exists ts', RWLockProgress.step ts ts'.
Proof. exact RWLockProgress.progress. Qed.

Theorem a_read_lock_taken_twice_can_deadlock :
  RWLockProgress.run (RWLockProgress.start [RWLockProgress.nested_reader; RWLockProgress.writer]) RWLockProgress.deadlocked
  /\ RWLockProgress.stuck RWLockProgress.deadlocked.
Proof. exact RWLockProgress.nested_read_lock_deadlocks. Qed.


Print Assumptions linearizable_iff_sequential_order.
Print Assumptions atomic_operations_linearize.
Print Assumptions copy_is_a_snapshot.
Print Assumptions lock_table_condition.
Print Assumptions one_section_per_operation_makes_every_schedule_linearizable.
Print Assumptions environment_operations_under_one_lock_linearize.
Print Assumptions sectioned_operations_never_deadlock.
Print Assumptions some_thread_can_always_move.
Print Assumptions a_read_lock_taken_twice_can_deadlock.
