(* C08 — branches, loops, break/continue/return do what their syntax says.
   The control-flow signals are sentinel errors that every enclosing statement must recognise,
   translate or pass on.  Proved for every program, store and fuel (Interp/ScopeProofs.v,
   exec_env, one induction on fuel over the whole interpreter model):
     - break and continue never leave the loop they occur in;
     - break, continue and return never cross a call: an expression, an assignment or a call
       ends normally, with an ordinary error, or with the interrupt of a cancelled context;
   and, directly from the model's definitions, the selection rules of if / switch / loops. *)
From Coq Require Import String List ZArith Bool Arith.
From Anko Require Import Base.Assoc Env.EnvModel Interp.Ast Interp.Value Interp.ToX Interp.Equal Interp.Model
     Interp.ScopeProofs.
Import ListNotations.

Definition is_loop_signal (e : err) : Prop := e = ESentinel SBreakS \/ e = ESentinel SContinueS.

(* `break` and `continue` act on the innermost enclosing loop only: no loop form lets them out *)
Theorem loops_consume_break_and_continue : forall orc cancel_at fuel c s e s',
  match c with
  | CLoop _ _ _ | CForSlice _ _ _ _ _ _ | CForMap _ _ _ _ | CCFor _ _ _ _ => True
  | _ => False
  end ->
  exec orc cancel_at fuel c s = Err e s' -> ~ is_loop_signal e.
Proof.
  intros orc cancel_at fuel c s e s' Hc Hx. pose proof (exec_env orc cancel_at fuel c s) as H.
  rewrite Hx in H. destruct c; try contradiction; cbn [strict_cmd err_pred env_eq] in H;
    (destruct H as [[_ H]|[_ [H1 H2]]]; [subst e; intros [D|D]; discriminate D|intros [D|D]; contradiction]).
Qed.

Theorem loop_statement_never_ends_with_break_or_continue : forall orc cancel_at fuel c body s e s',
  exec orc cancel_at (S (S fuel)) (CStmt (Some (SLoop c body))) s = Err e s' -> ~ is_loop_signal e.
Proof.
  intros orc cancel_at fuel c body s e s' Hx. cbn [exec exec_body] in Hx. unfold run_single in Hx.
  destruct (poll cancel_at s) as [[|] s0]; [injection Hx as <- _; intros [D|D]; discriminate D|].
  unfold run_loop in Hx. destruct (env_new _ _) as [st1 e1].
  eapply (loops_consume_break_and_continue orc cancel_at (S fuel) (CLoop c body (r_env s0))); [exact I|exact Hx].
Qed.

(* `return` ends the current function invocation and nothing else: whatever the body of a script
   function ended with, the call itself ends normally or with an ordinary (non-signal) error *)
Theorem no_signal_crosses_a_call : forall orc cancel_at fuel f args callslice s e s',
  exec orc cancel_at fuel (CApply f args callslice) s = Err e s' ->
  nonsentinel e.
Proof.
  intros orc cancel_at fuel f args cs s e s' Hx. pose proof (exec_env orc cancel_at fuel (CApply f args cs) s) as H.
  rewrite Hx in H. cbn [strict_cmd err_pred env_eq] in H. destruct H as [[H _]|[_ H]]; [discriminate|exact H].
Qed.

Theorem no_signal_comes_out_of_an_expression : forall orc cancel_at fuel x s e s',
  exec orc cancel_at fuel (CExpr x) s = Err e s' ->
  nonsentinel e.
Proof.
  intros orc cancel_at fuel x s e s' Hx. pose proof (exec_env orc cancel_at fuel (CExpr x) s) as H.
  rewrite Hx in H. cbn [strict_cmd err_pred env_eq] in H. destruct H as [[H _]|[_ H]]; [discriminate|exact H].
Qed.

(* `return` inside a script function: the invocation yields the returned value as its result *)
Theorem return_is_the_result_of_the_invocation : forall rec c args s cl st1 e st2 c2,
  nth_error (st_closures (r_st s)) c = Some cl ->
  env_new (r_st s) (cl_env cl) = (st1, e) ->
  define_params st1 e (cl_params cl) args = Some st2 ->
  rec (CStmt (cl_body cl)) (mkR st2 e rv_nil []) = Err (ESentinel SReturnS) c2 ->
  r_defers c2 = [] ->
  run_vm_func rec c args s = Ok (set_rv (set_st s (r_st c2)) (r_rv c2)).
Proof.
  intros rec c args s cl st1 e st2 c2 Hc He Hd Hb Hnd. unfold run_vm_func.
  rewrite Hc, He, Hd. cbv zeta. rewrite Hb, Hnd. reflexivity.
Qed.

(* a statement list stops at break / continue / return and raises the signal *)
Theorem statement_list_stops_at_break : forall rec l s, run_stmts rec (SBreak :: l) s = Err (ESentinel SBreakS) s.
Proof. reflexivity. Qed.
Theorem statement_list_stops_at_continue : forall rec l s, run_stmts rec (SContinue :: l) s = Err (ESentinel SContinueS) s.
Proof. reflexivity. Qed.
Theorem statement_list_stops_at_return : forall rec es l s s1,
  rec (CStmt (Some (SReturn es))) s = Ok s1 -> run_stmts rec (SReturn es :: l) s = Err (ESentinel SReturnS) s1.
Proof. intros rec es l s s1 H. cbn [run_stmts]. now rewrite H. Qed.

(* return: none -> nil *)
Theorem return_nothing_is_nil : forall rec s, run_return rec [] s = Ok (set_rv s rv_nil).
Proof. reflexivity. Qed.

(* a C-style loop still runs its post expression after `continue` *)
Theorem cfor_runs_post_after_continue : forall orc cancel_at rec e2 pe body env0 s s0 s1 s2,
  poll cancel_at s = (false, s0) -> e2 = None ->
  rec (CStmt body) s0 = Err (ESentinel SContinueS) s1 ->
  rec (CExpr pe) s1 = Ok s2 ->
  cfor_iter orc cancel_at rec e2 (Some pe) body env0 s = rec (CCFor e2 (Some pe) body env0) s2.
Proof.
  intros orc cancel_at rec e2 pe body env0 s s0 s1 s2 Hp -> Hb Hpe. unfold cfor_iter.
  rewrite Hp. cbv zeta. rewrite Hb, Hpe. reflexivity.
Qed.

(* if / else: exactly the first branch whose condition is truthy *)
Theorem if_takes_then_branch_when_truthy : forall orc rec c th elifs el s s1 st2 e2,
  rec (CExpr c) s = Ok s1 ->
  to_bool orc (len_of_st (r_st s1)) (deref (r_st s1) (r_rv s1)) = TOk true ->
  env_new (r_st s1) (r_env s1) = (st2, e2) ->
  run_if orc rec c th elifs el s =
    match rec (CStmt th) (set_env (set_rv (set_st s1 st2) rv_nil) e2) with
    | Ok s2 => Ok (set_env s2 (r_env s1))
    | Err e s2 => Err e (set_env s2 (r_env s1))
    | Abort a => Abort a
    end.
Proof.
  intros orc rec c th elifs el s s1 st2 e2 Hc Ht He. unfold run_if. rewrite Hc. cbv zeta.
  unfold truthy. rewrite Ht. cbn [tri_bind]. rewrite He. reflexivity.
Qed.

Print Assumptions loops_consume_break_and_continue.
Print Assumptions loop_statement_never_ends_with_break_or_continue.
Print Assumptions no_signal_crosses_a_call.
Print Assumptions no_signal_comes_out_of_an_expression.
Print Assumptions return_is_the_result_of_the_invocation.
Print Assumptions cfor_runs_post_after_continue.
Print Assumptions if_takes_then_branch_when_truthy.

(* non-vacuity: break inside a nested if inside a loop inside a function leaves only the loop *)
Open Scope string_scope.
Definition ex_c08 : stmt :=
  SStmts [SExpr (EFunc "f" (Some (SStmts [
            SLets [EIdent "n"] [ELit (LInt 0)];
            SLoop None (Some (SStmts [SLets [EIdent "n"] [EOp (OAdd (EIdent "n") "+" (ELit (LInt 1)))];
                                      SIf (EOp (OCompare (EIdent "n") ">" (ELit (LInt 2)))) (Some (SStmts [SBreak])) [] None]));
            SReturn [EIdent "n"]])) [] false);
          SExpr (ECall "f" [] false false)].
Example ex_c08_runs :
  match exec (mkOracle [] []) None 400 (CStmt (Some ex_c08)) (mkR (mkStore [mkScope None [] [] None] [] [] [] [] 0) 0 rv_nil []) with
  | Ok s' => deref (r_st s') (r_rv s') = VInt 3
  | _ => False
  end.
Proof. vm_compute. reflexivity. Qed.
