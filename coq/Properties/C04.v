(* C04 — names follow lexical block scope; closures capture their defining scope.
   Statements only; proofs are in Interp/ScopeProofs.v and Interp/ScopeFacts.v.
   [exec] is the interpreter model of Interp/Model.v; the theorems hold for every
   program, every store, every oracle and cancellation instant, and every fuel. *)
From Coq Require Import String List ZArith Bool Arith.
From Anko Require Import Base.Assoc Env.EnvModel Env.EnvProofs Interp.Ast Interp.Value Interp.ToX Interp.Model
     Interp.ScopeProofs Interp.ScopeFacts.
Import ListNotations.

(* "After any statement finishes - normally, by break/continue/return, or by an error that
   is later caught - execution continues in exactly the scope that was current before it."
   For statements the only error that can come back with another scope current is the
   failure of NewModule on a dotted module name, which no parsed tree contains. *)
Theorem scope_restored_after_statement : forall orc cancel_at fuel (so : option stmt) s,
  match exec orc cancel_at fuel (CStmt so) s with
  | Ok s' => r_env s' = r_env s
  | Err e s' => e = dotted_err \/ r_env s' = r_env s
  | Abort _ => True
  end.
Proof.
  intros orc cancel_at fuel so s. pose proof (exec_env orc cancel_at fuel (CStmt so) s) as H.
  cbn [strict_cmd post_env env_eq] in H. destruct (exec orc cancel_at fuel (CStmt so) s); auto.
  destruct H as [[_ H]|[H _]]; auto.
Qed.

(* expressions, assignments and calls: the scope is the same afterwards on every path,
   including calls of script functions (which run in their own invocation record) *)
Theorem scope_restored_after_expression : forall orc cancel_at fuel e s,
  match exec orc cancel_at fuel (CExpr e) s with
  | Ok s' | Err _ s' => r_env s' = r_env s
  | Abort _ => True
  end.
Proof.
  intros orc cancel_at fuel e s. pose proof (exec_env orc cancel_at fuel (CExpr e) s) as H.
  cbn [strict_cmd post_env env_eq] in H. destruct (exec orc cancel_at fuel (CExpr e) s); auto.
  destruct H as [[H _]|[H _]]; [discriminate|auto].
Qed.

Theorem scope_restored_after_call : forall orc cancel_at fuel f args callslice s,
  match exec orc cancel_at fuel (CApply f args callslice) s with
  | Ok s' | Err _ s' => r_env s' = r_env s
  | Abort _ => True
  end.
Proof.
  intros orc cancel_at fuel f args cs s. pose proof (exec_env orc cancel_at fuel (CApply f args cs) s) as H.
  cbn [strict_cmd post_env env_eq] in H. destruct (exec orc cancel_at fuel (CApply f args cs) s); auto.
  destruct H as [[H _]|[H _]]; [discriminate|auto].
Qed.

(* a name refers to the nearest enclosing binding *)
Theorem lookup_nearest : forall st e x,
  wf (st_heap st) -> e < length (st_heap st) ->
  env_get st e x =
    match first_answer (st_heap st) (fun sc => own_value (fun _ _ => None) sc x) (chain (hfuel st) (st_heap st) e) with
    | Some v => EnvModel.Ok v
    | None => EnvModel.Err ErrUndefSym
    end.
Proof. exact env_get_nearest. Qed.

(* plain assignment updates the nearest existing binding and otherwise creates one in the current block *)
Theorem assign_nearest_else_here : forall rec x s,
  wf (st_heap (r_st s)) -> r_env s < length (st_heap (r_st s)) ->
  invoke_let rec (EIdent x) s =
    match nearest_binding (st_heap (r_st s)) x (chain (hfuel (r_st s)) (st_heap (r_st s)) (r_env s)) with
    | Some j => Ok (set_st s (set_heap (r_st s)
                      (upd (st_heap (r_st s)) j (fun sc => set_values sc (aset (sc_values sc) x (r_rv s))))))
    | None => Ok (set_st s (env_define (r_st s) (r_env s) x (r_rv s)))
    end.
Proof.
  intros rec x s Hwf He. rewrite assign_ident, env_set_nearest by assumption.
  destruct (nearest_binding _ _ _); reflexivity.
Qed.

(* var, loop variables, catch variables and parameters bind in the current scope only *)
Theorem define_binds_current_scope_only : forall names st e rvs j,
  j <> e -> nth_error (st_heap (define_all st e names rvs)) j = nth_error (st_heap st) j.
Proof. exact define_all_frame. Qed.

(* every block and every invocation runs in a fresh scope whose parent is the scope it was entered
   from (blocks) or the scope the function was created in (invocations, see Model.run_vm_func) *)
Theorem fresh_child_scope : forall st e st' i,
  env_new st e = (st', i) ->
  i = length (st_heap st) /\
  nth_error (st_heap st') i = Some (mkScope (Some e) [] [] None) /\
  (forall j, j < length (st_heap st) -> nth_error (st_heap st') j = nth_error (st_heap st) j) /\
  st_arrays st' = st_arrays st /\ st_maps st' = st_maps st /\ st_trace st' = st_trace st.
Proof. exact env_new_fresh. Qed.

(* bindings made inside a block are not visible after it ends: the block's scope is not on the chain
   of the scope that is current again *)
Theorem block_scope_unreachable_afterwards : forall (h : list (@scope rval unit)) env0 fuel sc,
  wf h -> env0 < length h -> ~ In (length h) (chain fuel (h ++ [sc]) env0).
Proof. exact child_not_on_chain. Qed.

(* a function value captures the scope in which it was created, by reference *)
Theorem closure_captures_defining_scope : forall name body params vararg s,
  exists c st', invoke_func name body params vararg s = Ok (set_rv (set_st s st') (Imm (VFunc c))) /\
                nth_error (st_closures st') c = Some (mkClosure name params vararg body (r_env s)).
Proof. exact closure_captures_current_scope. Qed.

Print Assumptions scope_restored_after_statement.
Print Assumptions scope_restored_after_expression.
Print Assumptions scope_restored_after_call.
Print Assumptions lookup_nearest.
Print Assumptions assign_nearest_else_here.
Print Assumptions define_binds_current_scope_only.
Print Assumptions fresh_child_scope.
Print Assumptions block_scope_unreachable_afterwards.
Print Assumptions closure_captures_defining_scope.

(* non-vacuity: a concrete program that shadows a name in a block, leaves the block by an error that is
   caught, and reads the name again; the model runs it and the scope is the top-level one afterwards *)
Open Scope string_scope.
Definition ex_prog : stmt :=
  SStmts [SLets [EIdent "a"] [ELit (LInt 1)];
          STry (Some (SStmts [SIf (ELit (LBool true))
                                  (Some (SStmts [SVar ["a"] [ELit (LInt 2)];
                                                 SExpr (EOp (OMul (ELit (LInt 1)) "%" (ELit (LInt 0))))]))
                                  [] None])) "e" (Some (SStmts [SExpr (EIdent "a")])) None;
          SExpr (EIdent "a")].

Example ex_prog_runs :
  match exec (mkOracle [] []) None 200 (CStmt (Some ex_prog)) (mkR (mkStore [mkScope None [] [] None] [] [] [] [] 0) 0 rv_nil []) with
  | Ok s' => r_env s' = 0 /\ deref (r_st s') (r_rv s') = VInt 1
  | _ => False
  end.
Proof. vm_compute. split; reflexivity. Qed.
