From Anko Require Import Interp.Model.
