(* C02 — cancelling the context always stops a running script.
   The context is the oracle [cancel_at]: the first poll (statement start, loop iteration, the
   check of `??`) with index >= cancel_at sees Done, and so does every later one.  The theorems
   below say that in a cancelled state no statement begins, no loop iterates, `??` does not
   recover, and try does not catch; together with C08/C09 (a call boundary wraps any error, try
   passes the interrupt) nothing of the script runs after the instant except expressions already
   under evaluation and deferred calls.  Wall-clock time and the Go scheduler are not modelled. *)
From Coq Require Import String List ZArith Bool Arith Lia.
From Anko Require Import Base.Assoc Env.EnvModel Interp.Ast Interp.Value Interp.ToX Interp.Equal Interp.Model.
Import ListNotations.

Definition cancelled (cancel_at : option nat) (s : rstate) : Prop :=
  match cancel_at with Some k => k <= st_polls (r_st s) | None => False end.

Definition polled (s : rstate) : rstate := set_st s (set_polls (r_st s) (S (st_polls (r_st s)))).

Lemma poll_cancelled cancel_at s : cancelled cancel_at s -> poll cancel_at s = (true, polled s).
Proof.
  unfold cancelled, poll, polled. destruct cancel_at as [k|]; [|contradiction].
  intros H. apply Nat.leb_le in H. now rewrite H.
Qed.

(* once cancelled, stays cancelled: a poll only moves the counter up *)
Theorem poll_keeps_cancelled : forall cancel_at s, cancelled cancel_at s -> cancelled cancel_at (polled s).
Proof. unfold cancelled, polled. intros [k|] s H; cbn in *; [lia|assumption]. Qed.

(* no statement begins after the cancellation instant: it returns the interrupt at once and the only
   thing it changes is the poll counter (no store write, no host call, no scope change) *)
Theorem no_statement_begins_after_cancel : forall orc cancel_at f so s,
  cancelled cancel_at s ->
  exec orc cancel_at (S f) (CStmt so) s = Err (ESentinel SInterruptS) (set_rv (polled s) rv_nil).
Proof.
  intros orc cancel_at f so s Hc. cbn [exec exec_body]. unfold run_single. now rewrite (poll_cancelled _ _ Hc).
Qed.

(* no loop form iterates after the instant; the scope saved at loop entry is put back *)
Theorem no_loop_iteration_after_cancel : forall orc cancel_at f c body env0 s,
  cancelled cancel_at s ->
  exec orc cancel_at (S f) (CLoop c body env0) s = Err (ESentinel SInterruptS) (set_env (set_rv (polled s) rv_nil) env0).
Proof.
  intros orc cancel_at f c body env0 s Hc. cbn [exec exec_body]. unfold loop_iter. now rewrite (poll_cancelled _ _ Hc).
Qed.

Theorem no_cfor_iteration_after_cancel : forall orc cancel_at f e2 e3 body env0 s,
  cancelled cancel_at s ->
  exec orc cancel_at (S f) (CCFor e2 e3 body env0) s = Err (ESentinel SInterruptS) (set_env (set_rv (polled s) rv_nil) env0).
Proof.
  intros orc cancel_at f e2 e3 body env0 s Hc. cbn [exec exec_body]. unfold cfor_iter. now rewrite (poll_cancelled _ _ Hc).
Qed.

Theorem no_forin_iteration_after_cancel : forall orc cancel_at f var body l off len i s,
  cancelled cancel_at s -> i < len ->
  exec orc cancel_at (S f) (CForSlice var body l off len i) s = Err (ESentinel SInterruptS) (set_rv (polled s) rv_nil).
Proof.
  intros orc cancel_at f var body l off len i s Hc Hi. cbn [exec exec_body]. unfold for_slice_iter.
  destruct (Nat.leb_spec len i); [lia|]. now rewrite (poll_cancelled _ _ Hc).
Qed.

Theorem no_map_iteration_after_cancel : forall orc cancel_at f vars body m k kr s,
  cancelled cancel_at s ->
  exec orc cancel_at (S f) (CForMap vars body m (k :: kr)) s = Err (ESentinel SInterruptS) (set_rv (polled s) rv_nil).
Proof.
  intros orc cancel_at f vars body m k kr s Hc. cbn [exec exec_body]. unfold for_map_iter. now rewrite (poll_cancelled _ _ Hc).
Qed.

(* no call begins once the context is cancelled: the callee is resolved, the context is polled, and
   neither an argument is evaluated nor the function (script or host) entered; so two host calls
   written in one statement are always separated by a poll, and only the time inside one single
   host call is outside the bound *)
Theorem no_call_begins_after_cancel : forall orc cancel_at f fv args va go s,
  cancelled cancel_at s ->
  exec orc cancel_at (S f) (CCall fv args va go) s = Err (ESentinel SInterruptS) (set_rv (polled s) rv_nil).
Proof.
  intros orc cancel_at f fv args va go s Hc. cbn [exec exec_body]. unfold call_polled. now rewrite (poll_cancelled _ _ Hc).
Qed.

(* nor is a function entered when the cancellation came while its arguments were evaluated (a nested
   call of a slow Go function): in f(g(h())) every host call is preceded by its own look at the context *)
Theorem no_function_is_entered_after_cancel : forall cancel_at rec f argv cs s,
  cancelled cancel_at s ->
  call_finish cancel_at rec f argv cs s = Err (ESentinel SInterruptS) (set_rv (polled s) rv_nil).
Proof. intros cancel_at rec f argv cs s Hc. unfold call_finish. now rewrite (poll_cancelled _ _ Hc). Qed.

(* `??` cannot swallow the interruption: when its left side failed and the context is cancelled,
   the right side is not evaluated and the interrupt comes out *)
Theorem coalesce_does_not_recover_after_cancel : forall cancel_at rec l r s e s1,
  rec (CExpr l) s = Err e s1 -> cancelled cancel_at s1 ->
  invoke_coalesce cancel_at rec l r s = Err (ESentinel SInterruptS) (set_rv (polled s1) rv_nil).
Proof.
  intros cancel_at rec l r s e s1 Hl Hc. unfold invoke_coalesce. rewrite Hl. now rewrite (poll_cancelled _ _ Hc).
Qed.

(* try does not route the interrupt to catch *)
Theorem try_does_not_catch_the_interrupt : forall rec t v c f s st1 e1 s1,
  env_new (r_st s) (r_env s) = (st1, e1) ->
  rec (CStmt t) (set_env (set_st s st1) e1) = Err (ESentinel SInterruptS) s1 ->
  run_try rec t v c f s = Err (ESentinel SInterruptS) (set_env s1 (r_env s)).
Proof. intros rec t v c f s st1 e1 s1 He Ht. unfold run_try. rewrite He, Ht. reflexivity. Qed.

(* the error the host sees: the sentinel itself, or - after crossing a script function - an error
   with the same message "execution interrupted" *)
Theorem wrapped_interrupt_keeps_its_message :
  err_message (wrap_err (ESentinel SInterruptS)) = "execution interrupted"%string.
Proof. reflexivity. Qed.

Print Assumptions no_statement_begins_after_cancel.
Print Assumptions no_loop_iteration_after_cancel.
Print Assumptions no_forin_iteration_after_cancel.
Print Assumptions no_call_begins_after_cancel.
Print Assumptions no_function_is_entered_after_cancel.
Print Assumptions coalesce_does_not_recover_after_cancel.
Print Assumptions try_does_not_catch_the_interrupt.

(* non-vacuity: for { n = spin() ?? 1 } cancelled at poll 7 ends with the interrupt *)
Open Scope string_scope.
Definition ex_c02 : stmt :=
  SStmts [SLoop None (Some (SStmts [SLets [EIdent "n"] [ECoalesce (EOp (OMul (ELit (LInt 1)) "%" (ELit (LInt 0)))) (ELit (LInt 2))]]))].
Example ex_c02_runs :
  match run_context (mkOracle [] []) (Some 7) 400 (Some ex_c02) (mkR (mkStore [mkScope None [] [] None] [] [] [] [] 0) 0 rv_nil []) with
  | Err (ESentinel SInterruptS) _ => True
  | _ => False
  end.
Proof. vm_compute. exact I. Qed.

(* non-vacuity: [probe(1), probe(2), probe(3)] in one statement, cancelled at the poll of the third
   call: the first two host calls ran, the third did not start *)
Definition ex_c02_calls : stmt :=
  SStmts [SExpr (EArray [ECall "probe" [ELit (LInt 1)] false false; ECall "probe" [ELit (LInt 2)] false false;
                         ECall "probe" [ELit (LInt 3)] false false] None)].
Example ex_c02_calls_runs :
  match run_context (mkOracle [] []) (Some 6) 400 (Some ex_c02_calls)
                    (mkR (mkStore [mkScope None [("probe", Imm (VHost 0))] [] None] [] [] [] [] 0) 0 rv_nil []) with
  | Err (ESentinel SInterruptS) s' => st_trace (r_st s') = [[VInt 2]; [VInt 1]]
  | _ => False
  end.
Proof. vm_compute. reflexivity. Qed.

(* non-vacuity: probe(probe(probe(1))) cancelled while the innermost call runs: the two outer host calls
   do not start *)
Definition ex_c02_nested : stmt :=
  SStmts [SExpr (ECall "probe" [ECall "probe" [ECall "probe" [ELit (LInt 1)] false false] false false] false false)].
Example ex_c02_nested_runs :
  match run_context (mkOracle [] []) (Some 6) 400 (Some ex_c02_nested)
                    (mkR (mkStore [mkScope None [("probe", Imm (VHost 0))] [] None] [] [] [] [] 0) 0 rv_nil []) with
  | Err (ESentinel SInterruptS) s' => st_trace (r_st s') = [[VInt 1]]
  | _ => False
  end.
Proof. vm_compute. reflexivity. Qed.
