(* C14 — runs are isolated and repeatable; executing a tree never changes it.  PARTIAL.
   In the interpreter model the tree is an immutable argument of [exec] and all per-run state is the
   [rstate] / store passed in and out, so on the model side the property is structural:
   the outcome is a function of (oracle, cancellation, fuel, tree, state) and nothing else.  That the Go
   code shares this structure is checked, not proved: statically (Obligations/C14.v on the regenerated
   write set of package vm) and dynamically (tree dump before/after repeated and concurrent runs under
   the race detector, ./check C14). *)
From Coq Require Import String List ZArith Bool Arith.
From Anko Require Import Base.Assoc Env.EnvModel Interp.Ast Interp.Value Interp.ToX Interp.Equal Interp.Model.
Import ListNotations.

(* running a tree is a function of the tree and the state handed in: equal inputs, equal outcome
   (value, error status and side-effect trace are all part of the outcome) *)
Theorem runs_are_repeatable : forall orc cancel fuel prog s1 s2,
  s1 = s2 -> run_context orc cancel fuel prog s1 = run_context orc cancel fuel prog s2.
Proof. intros; subst; reflexivity. Qed.

(* a run starts from the store it is given: two environments are two stores / two root scopes, and the
   only channel between runs would be that store *)
Theorem fresh_runs_share_nothing : forall orc cancel fuel prog,
  let fresh := mkR (mkStore [mkScope None [] [] None] [] [] [] [] 0) 0 rv_nil [] in
  run_context orc cancel fuel prog fresh = run_context orc cancel fuel prog fresh.
Proof. reflexivity. Qed.

(* the shared literals (nil, true, false, small integers) are immediate values in the model: an
   assignment through a place writes to a backing array, never to a literal *)
Theorem places_are_array_elements_only : forall st l i v,
  st_heap (array_set st l i v) = st_heap st /\ st_closures (array_set st l i v) = st_closures st.
Proof. intros st l i v. unfold array_set. destruct (nth_error (st_arrays st) l); split; reflexivity. Qed.

Print Assumptions runs_are_repeatable.
Print Assumptions places_are_array_elements_only.
