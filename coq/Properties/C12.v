(* C12 — the environment API behaves as a chain of dictionaries.
   Statements only: each theorem is closed by [exact] of a lemma proved in
   Env/EnvProofs.v or Env/EnvStep.v, with its assumptions printed beneath.
   They hold for every value/type universe (V, T), every external-lookup
   table, every heap satisfying the invariant, and every history.          *)
From Coq Require Import String List Bool Arith.
From Anko Require Import Base.Assoc Env.EnvModel Env.EnvProofs Env.EnvStep Env.EnvCases.
Import ListNotations.

Section C12.
Context {V T : Type}.
Variable as_env : V -> option nat.
Variable mk_env : nat -> V.
Variable can_addr : V -> bool.
Variable ext_get : nat -> string -> option V.
Variable ext_type : nat -> string -> option T.
Variable basic_type : string -> option T.
Hypothesis mk_env_is_env : forall m, as_env (mk_env m) = Some m.

Notation scope := (@scope V T).
Notation op := (@op V T).
(* the code as it stands: GetEnvFromPath repaired *)
Notation step := (@step V T as_env mk_env can_addr ext_get ext_type basic_type true).
Notation run := (@run V T as_env mk_env can_addr ext_get ext_type basic_type true).
Notation inv := (@inv V T as_env).
Notation hist_valid := (@hist_valid V T as_env mk_env can_addr ext_get ext_type basic_type true).

(* a lookup returns the nearest enclosing binding; a scope's external lookup
   is consulted after its own table *)
Theorem get_nearest : forall fuel (h : list scope) e sym,
  wf h -> e < fuel -> e < length h ->
  get_value ext_get fuel h e sym =
    match first_answer h (fun sc => own_value ext_get sc sym) (chain fuel h e) with
    | Some v => Ok v
    | None => Err ErrUndefSym
    end.
Proof. exact (get_value_spec ext_get). Qed.

(* ... built-in type names last *)
Theorem type_nearest_ext_then_basic : forall fuel (h : list scope) e sym,
  wf h -> e < fuel -> e < length h ->
  get_type ext_type basic_type fuel h e sym =
    match first_answer h (fun sc => own_type ext_type sc sym) (chain fuel h e) with
    | Some t => Ok t
    | None => match basic_type sym with Some t => Ok t | None => Err ErrUndefType end
    end.
Proof. exact (get_type_spec ext_type basic_type). Qed.

(* set updates the nearest existing binding or fails without creating one *)
Theorem set_nearest_or_fail : forall fuel (h : list scope) e sym v,
  wf h -> e < fuel -> e < length h ->
  set_value fuel h e sym v =
    match nearest_binding h sym (chain fuel h e) with
    | Some j => Ok (upd h j (fun sc => set_values sc (aset (sc_values sc) sym v)))
    | None => Err ErrUndefSym
    end.
Proof. exact set_value_spec. Qed.

(* define and delete touch only the addressed scope ... *)
Theorem define_local : forall (h : list scope) e s v,
  e < length h ->
  step h (ODefine e s v) =
    if contains_dot s then (h, RErr ErrDot)
    else (upd h e (fun sc => set_values sc (aset (sc_values sc) s v)), RNone).
Proof. exact (step_define as_env mk_env can_addr ext_get ext_type basic_type true mk_env_is_env). Qed.

Theorem delete_local : forall (h : list scope) e s,
  e < length h ->
  step h (ODelete e s) = (upd h e (fun sc => set_values sc (adel (sc_values sc) s)), RNone).
Proof. exact (step_delete as_env mk_env can_addr ext_get ext_type basic_type true mk_env_is_env). Qed.

(* ... where [upd] changes exactly one scope *)
Theorem upd_only_addressed : forall (h : list scope) e f i,
  nth_error (upd h e f) i = if Nat.eqb i e then option_map f (nth_error h e) else nth_error h i.
Proof. exact upd_nth. Qed.

(* names containing '.' are rejected and nothing changes *)
Theorem dotted_rejected : forall (h : list scope) (o : op) s,
  contains_dot s = true ->
  match o with
  | ODefine _ s' _ | ODefineGlobal _ s' _ | ODefineType _ s' _ | ODefineGlobalType _ s' _ => s' = s
  | _ => False
  end ->
  inv h -> op_valid as_env h o = true -> step h o = (h, RErr ErrDot).
Proof. exact (EnvStep.dotted_rejected as_env mk_env can_addr ext_get ext_type basic_type true mk_env_is_env). Qed.

(* an invalid request returns an error and leaves every scope unchanged *)
Theorem invalid_no_change : forall (h : list scope) (o : op) c,
  inv h -> op_valid as_env h o = true -> snd (step h o) = RErr c -> fst (step h o) = h.
Proof. exact (step_err_unchanged as_env mk_env can_addr ext_get ext_type basic_type true mk_env_is_env). Qed.

(* ... it never panics: for every history of well-addressed requests, no call
   panics, runs out of fuel or is rejected as malformed, and the invariant is kept *)
Theorem never_panics : forall (ops : list op) (h : list scope),
  inv h -> hist_valid h ops ->
  inv (fst (run h ops)) /\ Forall (@good_out V T) (snd (run h ops)).
Proof.
  intros ops h.
  exact (run_good as_env mk_env can_addr ext_get ext_type basic_type true mk_env_is_env ops h eq_refl).
Qed.

(* every operation only touches the chain of the scope it addresses: scopes in a
   protected set P that no addressed chain meets are the same after any history *)
Theorem frame_for_every_history : forall (P : nat -> Prop) (ops : list op) (h : list scope),
  inv h -> hist_valid h ops -> (forall i, P i -> i < length h) ->
  hist_avoids as_env mk_env can_addr ext_get ext_type basic_type true P h ops ->
  forall i, P i -> nth_error (fst (run h ops)) i = nth_error h i.
Proof.
  intros P ops h.
  exact (run_frame as_env mk_env can_addr ext_get ext_type basic_type true mk_env_is_env P ops h eq_refl).
Qed.

(* Copy is an exact snapshot of one scope under a new identity *)
Theorem copy_is_snapshot : forall (h : list scope) e sc,
  nth_error h e = Some sc -> step h (OCopy e) = ((h ++ [sc])%list, REnv (length h)).
Proof. exact (copy_snapshot as_env mk_env can_addr ext_get ext_type basic_type true mk_env_is_env). Qed.

(* later changes on either side are invisible to the other: Copy *)
Theorem copy_changes_invisible_to_original : forall (h : list scope) e sc (ops : list op),
  inv h -> nth_error h e = Some sc ->
  Forall (fun o => target o = Some (length h)) ops -> hist_valid (h ++ [sc])%list ops ->
  nth_error (fst (run (h ++ [sc])%list ops)) e = Some sc.
Proof.
  intros h e sc ops.
  exact (copy_isolates_original as_env mk_env can_addr ext_get ext_type basic_type true mk_env_is_env h e sc ops eq_refl).
Qed.

Theorem original_changes_invisible_to_copy : forall (h : list scope) e sc (ops : list op),
  inv h -> nth_error h e = Some sc ->
  Forall (fun o => exists t, target o = Some t /\ t < length h) ops -> hist_valid (h ++ [sc])%list ops ->
  nth_error (fst (run (h ++ [sc])%list ops)) (length h) = Some sc.
Proof.
  intros h e sc ops.
  exact (copy_isolated_from_original as_env mk_env can_addr ext_get ext_type basic_type true mk_env_is_env h e sc ops eq_refl).
Qed.

(* DeepCopy: the whole chain is fresh, and no history on one side changes a scope of the other *)
Theorem deepcopy_chain_is_fresh : forall (h : list scope) e,
  inv h -> e < length h ->
  exists h' c, step h (ODeepCopy e) = (h', REnv c) /\ length h <= c /\ c < length h' /\
               (forall i, In i (chain (length h') h' c) -> length h <= i) /\
               (forall i, i < length h -> nth_error h' i = nth_error h i).
Proof. exact (deep_copy_fresh as_env mk_env can_addr ext_get ext_type basic_type true mk_env_is_env). Qed.

Theorem deepcopy_changes_invisible_to_original : forall (h : list scope) e h' c (ops : list op),
  inv h -> e < length h -> step h (ODeepCopy e) = (h', REnv c) ->
  Forall (fun o => target o = Some c) ops -> hist_valid h' ops ->
  forall i, i < length h -> nth_error (fst (run h' ops)) i = nth_error h i.
Proof.
  intros h e h' c ops.
  exact (deepcopy_isolates_original as_env mk_env can_addr ext_get ext_type basic_type true mk_env_is_env h e h' c ops eq_refl).
Qed.

Theorem original_changes_invisible_to_deepcopy : forall (h : list scope) e h' c (ops : list op),
  inv h -> e < length h -> step h (ODeepCopy e) = (h', REnv c) ->
  Forall (fun o => exists t, target o = Some t /\ t < length h) ops -> hist_valid h' ops ->
  forall i, length h <= i -> i < length h' -> nth_error (fst (run h' ops)) i = nth_error h' i.
Proof.
  intros h e h' c ops.
  exact (deepcopy_isolated_from_original as_env mk_env can_addr ext_get ext_type basic_type true mk_env_is_env h e h' c ops eq_refl).
Qed.

(* the symbol listing is the domain of the scope's own table *)
Theorem symbols_are_domain : forall (h : list scope) e sc,
  nth_error h e = Some sc ->
  step h (OSymbols e) = (h, RSyms (akeys (sc_values sc))) /\
  forall k, In k (akeys (sc_values sc)) <-> amem (sc_values sc) k = true.
Proof.
  intros h e sc E. split.
  - exact (step_symbols as_env mk_env can_addr ext_get ext_type basic_type true mk_env_is_env h e sc E).
  - intros k. symmetry. exact (amem_in_keys (sc_values sc) k).
Qed.

End C12.

Print Assumptions get_nearest.
Print Assumptions type_nearest_ext_then_basic.
Print Assumptions set_nearest_or_fail.
Print Assumptions define_local.
Print Assumptions delete_local.
Print Assumptions upd_only_addressed.
Print Assumptions dotted_rejected.
Print Assumptions invalid_no_change.
Print Assumptions never_panics.
Print Assumptions frame_for_every_history.
Print Assumptions copy_is_snapshot.
Print Assumptions copy_changes_invisible_to_original.
Print Assumptions original_changes_invisible_to_copy.
Print Assumptions deepcopy_chain_is_fresh.
Print Assumptions deepcopy_changes_invisible_to_original.
Print Assumptions original_changes_invisible_to_deepcopy.
Print Assumptions symbols_are_domain.

(* ---- non-vacuity: the hypotheses are met by a concrete, non-trivial history
   in the universe the correspondence check uses (tokens and modules) ---- *)
Open Scope string_scope.
Definition ex_ops : list cop :=
  [ONewRoot; ODefine 0 "a" (CTok 1 false); ONewEnv 0; ONewModule 1 "m"; ODefine 2 "b" (CEnv 0);
   OSet 1 "a" (CTok 2 true); ODeepCopy 2; OCopy 1; ODeleteGlobal 1 "a"; OPath 1 ["m"; "b"];
   ODefine 1 "x.y" (CTok 3 false); OGet 5 "a"].

Example ex_history_valid :
  @EnvStep.hist_valid cval ctype c_as_env CEnv c_can_addr c_ext_get c_ext_type c_basic true [] ex_ops.
Proof. vm_compute. repeat split. Qed.

Example ex_history_outputs :
  snd (@EnvModel.run cval ctype c_as_env CEnv c_can_addr c_ext_get c_ext_type c_basic true [] ex_ops)
  = [REnv 0; RNone; REnv 1; RModule 2 None; RNone; RNone; REnv 5; REnv 6; RNone; REnv 0;
     RErr ErrDot; RVal (CTok 2 true)].
Proof. vm_compute. reflexivity. Qed.

(* the defect that was repaired (known_findings.txt, fixed: C12): with the
   unrepaired first loop of GetEnvFromPath the model panics on this history *)
Example path_panics_when_unfixed :
  snd (@EnvModel.run cval ctype c_as_env CEnv c_can_addr c_ext_get c_ext_type c_basic false []
         [ONewRoot; ONewEnv 0; ODefine 1 "a" (CTok 1 false); OPath 1 ["a"; "b"]])
  = [REnv 0; REnv 1; RNone; RPanic].
Proof. vm_compute. reflexivity. Qed.
