(* C01 — a script can never crash the embedding Go program.  PARTIAL.
   The decision for the implementation is the property itself as oracle (child processes, ./check C01).
   What is proved here is about the model of fragment F1: the guards that were missing in vm/*.go and
   were repaired (known_findings.txt, fixed: C01) are errors, not faults, in the model for every input;
   a panicking Go function is an error of the call; value-level conversions are total.  The theorem
   "exec never yields Abort (APanic _) from a well-formed store" is NOT proved (it needs a store and
   tree well-formedness invariant threaded through the whole interpreter); see DESIGN.md. *)
From Coq Require Import String List ZArith Bool Arith Lia.
From Anko Require Import Base.Assoc Env.EnvModel Interp.Ast Interp.Value Interp.ToX Interp.Equal Interp.Model.
Import ListNotations.

(* `var a =` : an error for every name list and state *)
Theorem var_without_rhs_is_an_error : forall rec names s, run_var rec names [] s = raise "invalid operation" s.
Proof. intros rec names s. unfold run_var. destruct names; reflexivity. Qed.

(* `a, = ` / `= 1`: lets with an empty side *)
Theorem lets_with_empty_side_is_an_error : forall rec ls s, run_lets rec ls [] s = raise "invalid operation" s.
Proof. intros rec ls s. unfold run_lets. destruct ls; reflexivity. Qed.

(* f(...) with no argument: an argument-count error, the state untouched *)
Theorem empty_spread_call_is_an_error : forall cancel_at rec c cl s,
  nth_error (st_closures (r_st s)) c = Some cl -> cl_vararg cl = false -> 1 <= length (cl_params cl) ->
  call_function cancel_at rec (VFunc c) [] true false s = arity_error (length (cl_params cl)) 0 s.
Proof.
  intros cancel_at rec c cl s Hc Hv H1. unfold call_function. rewrite Hc, Hv. cbv zeta. cbn [negb andb length].
  destruct (length (cl_params cl) <? 1) eqn:E; [apply Nat.ltb_lt in E; lia|].
  cbn. destruct (length (cl_params cl) =? 0), (length (cl_params cl) <? 0); reflexivity.
Qed.

(* a Go function that panics is an error of the call (the call-site recover) *)
Theorem panicking_go_function_is_an_error : forall x s, host_call 4 [x] s = Err (EGo "boom") (set_rv s rv_nil).
Proof. reflexivity. Qed.

(* string * n: negative counts are errors *)
Theorem negative_repeat_is_an_error : forall orc x n s, (n < 0)%Z ->
  mul_values orc (VStr x) (VInt n) s = raise "negative repeat count" s.
Proof. intros orc x n s H. unfold mul_values. apply Z.ltb_lt in H. now rewrite H. Qed.

(* % by zero is an error *)
Theorem rem_by_zero_is_an_error : forall orc cancel f a s,
  exec orc cancel (S (S f)) (CExpr (EOp (OMul (ELit (LInt a)) "%" (ELit (LInt 0))))) s
  = Err (EVm "integer divide by zero") (set_rv s rv_nil).
Proof. reflexivity. Qed.

(* index reads: every integer index outside [0, len) is an error, never a fault *)
Theorem index_out_of_range_is_an_error : forall rec e i s s1 s2 l off len cap z,
  rec (CExpr e) s = Ok s1 -> rec (CExpr i) s1 = Ok s2 ->
  deref (r_st s2) (r_rv s1) = VSlice l off len cap -> deref (r_st s2) (r_rv s2) = VInt z ->
  (z < 0 \/ Z.of_nat len <= z)%Z ->
  invoke_item rec e i s = raise "index out of range" s2.
Proof.
  intros rec e i s s1 s2 l off len cap z He Hi Hd Hz Hr. unfold invoke_item. rewrite He, Hi, Hd, Hz. cbn.
  destruct Hr as [Hr|Hr].
  - apply Z.ltb_lt in Hr. now rewrite Hr.
  - apply Z.leb_le in Hr. rewrite Hr. now rewrite Bool.orb_true_r.
Qed.

(* the conversions behind every operator are total functions: they answer, fail, or miss the oracle *)
Theorem conversions_total : forall orc v,
  (exists z, to_int64 v = TOk z) /\
  ((exists f, to_float64 orc v = TOk f) \/ (exists w, to_float64 orc v = TMiss w)).
Proof.
  intros orc v. split.
  - unfold to_int64. destruct (try_to_int64 v) eqn:E; eauto. destruct v; cbn in E; try discriminate.
    destruct (str_to_int s); discriminate.
  - unfold to_float64. destruct (try_to_float64 orc v) eqn:E; eauto.
Qed.

Print Assumptions var_without_rhs_is_an_error.
Print Assumptions empty_spread_call_is_an_error.
Print Assumptions index_out_of_range_is_an_error.
Print Assumptions conversions_total.
