(* Model of ast/astutil/walk.go as a table-driven traversal of rose trees.
   A node is (identity, kind, children grouped by child field).  The walker's
   behaviour on a kind is an entry of the walk table: the order in which it
   visits the child fields (AField), two slice fields it interleaves (AZip: the
   Keys/Values loop of MapExpr), a synthetic node it presents that is not part
   of the tree (AExtra: the CallExpr built for an AnonCallExpr), or Unknown
   (the default branch: "unknown statement/expression"). *)
From Coq Require Import List Arith Bool.
Import ListNotations.

Inductive tree := Node (id : nat) (kind : nat) (fields : list (list tree)).

Inductive action := AField (f : nat) | AZip (f g : nat) | AExtra.
Inductive entry := Unknown | Acts (l : list action).

Notation wtable := (list (nat * entry)) (only parsing).
Notation atable := (list (nat * nat)) (only parsing).   (* kind -> number of child fields *)

Fixpoint lookup {A} (t : list (nat * A)) (k : nat) : option A :=
  match t with
  | [] => None
  | (k', v) :: r => if Nat.eqb k k' then Some v else lookup r k
  end.

Inductive ev := EVisit (id : nat) | EExtra.

Definition field (fs : list (list tree)) (i : nat) : list tree := nth i fs [].

(* interleave x1 y1 x2 y2 ...: for i := range xs { walk xs[i]; walk ys[i] } *)
Fixpoint zip_map {B} (f : tree -> list B) (xs ys : list tree) : list B :=
  match xs, ys with
  | x :: xr, y :: yr => f x ++ f y ++ zip_map f xr yr
  | _, _ => []
  end.

(* the complete presentation order when the callback never fails and no kind is Unknown *)
Fixpoint flat (fuel : nat) (wt : wtable) (t : tree) : list ev :=
  match fuel with
  | 0 => []
  | S f =>
    match t with
    | Node id k fs =>
      EVisit id ::
      match lookup wt k with
      | Some (Acts acts) =>
          flat_map (fun a => match a with
                             | AField i => flat_map (flat f wt) (field fs i)
                             | AZip i j => zip_map (flat f wt) (field fs i) (field fs j)
                             | AExtra => [EExtra]
                             end) acts
      | _ => []
      end
    end
  end.

(* the walker proper: presents nodes to a callback that fails on its (k+1)-th
   call (fail = Some k) or never (None); stops at the first error *)
Inductive wres := WOk | WCallbackErr | WUnknown (kind : nat).

Definition calls := nat.

Section Walk.
Variable wt : wtable.
Variable fail : option nat.

Definition present (e : ev) (st : list ev) : list ev * bool :=
  (* returns the new log (reversed) and whether the callback failed *)
  (e :: st, match fail with Some k => Nat.eqb (length st) k | None => false end).

Fixpoint walk_list (walk1 : tree -> list ev -> list ev * wres) (l : list tree) (st : list ev) : list ev * wres :=
  match l with
  | [] => (st, WOk)
  | x :: r => match walk1 x st with
              | (st', WOk) => walk_list walk1 r st'
              | other => other
              end
  end.

Fixpoint walk_zip (walk1 : tree -> list ev -> list ev * wres) (xs ys : list tree) (st : list ev) : list ev * wres :=
  match xs, ys with
  | x :: xr, y :: yr =>
      match walk1 x st with
      | (st1, WOk) => match walk1 y st1 with
                      | (st2, WOk) => walk_zip walk1 xr yr st2
                      | other => other
                      end
      | other => other
      end
  | _, _ => (st, WOk)
  end.

Fixpoint walk_acts (walk1 : tree -> list ev -> list ev * wres) (fs : list (list tree)) (acts : list action)
         (st : list ev) : list ev * wres :=
  match acts with
  | [] => (st, WOk)
  | a :: r =>
    let res := match a with
               | AField i => walk_list walk1 (field fs i) st
               | AZip i j => walk_zip walk1 (field fs i) (field fs j) st
               | AExtra => let '(st', failed) := present EExtra st in
                           (st', if failed then WCallbackErr else WOk)
               end in
    match res with
    | (st', WOk) => walk_acts walk1 fs r st'
    | other => other
    end
  end.

Fixpoint walk (fuel : nat) (t : tree) (st : list ev) : list ev * wres :=
  match fuel with
  | 0 => (st, WOk)
  | S f =>
    match t with
    | Node id k fs =>
      let '(st1, failed) := present (EVisit id) st in
      if failed then (st1, WCallbackErr)
      else match lookup wt k with
           | Some (Acts acts) => walk_acts (walk f) fs acts st1
           | _ => (st1, WUnknown k)
           end
    end
  end.

End Walk.

(* ---- the tree itself ---- *)
Fixpoint depth (fuel : nat) (t : tree) : nat :=
  match fuel with
  | 0 => 0
  | S f => match t with
           | Node _ _ fs => S (fold_right Nat.max 0 (map (fun l => fold_right Nat.max 0 (map (depth f) l)) fs))
           end
  end.

(* identities of all nodes, children in declared field order *)
Fixpoint ids (fuel : nat) (t : tree) : list nat :=
  match fuel with
  | 0 => []
  | S f => match t with
           | Node id _ fs => id :: flat_map (fun l => flat_map (ids f) l) fs
           end
  end.

(* every node has the number of child fields its kind declares; zipped fields have equal lengths *)
Definition zips_ok (wt : wtable) (k : nat) (fs : list (list tree)) : bool :=
  match lookup wt k with
  | Some (Acts acts) =>
      forallb (fun a => match a with
                        | AZip i j => Nat.eqb (length (field fs i)) (length (field fs j))
                        | _ => true end) acts
  | _ => true
  end.

Fixpoint well_kinded (fuel : nat) (at_ : atable) (wt : wtable) (t : tree) : bool :=
  match fuel with
  | 0 => false
  | S f => match t with
           | Node _ k fs =>
             match lookup at_ k with
             | Some n => Nat.eqb (length fs) n && zips_ok wt k fs
                         && forallb (fun l => forallb (well_kinded f at_ wt) l) fs
             | None => false
             end
           end
  end.

(* the side condition on the tables: every kind of the AST has an entry whose
   actions mention each child field exactly once *)
Definition act_fields (a : action) : list nat :=
  match a with AField i => [i] | AZip i j => [i; j] | AExtra => [] end.

Definition covers_kind (wt : wtable) (kn : nat * nat) : bool :=
  let '(k, n) := kn in
  match lookup wt k with
  | Some (Acts acts) =>
      let fl := flat_map act_fields acts in
      forallb (fun i => Nat.eqb (count_occ Nat.eq_dec fl i) 1) (seq 0 n)
      && forallb (fun i => i <? n) fl
  | _ => false
  end.

Definition covers (wt : wtable) (at_ : atable) : bool := forallb (covers_kind wt) at_.

Definition visits (l : list ev) : list nat :=
  flat_map (fun e => match e with EVisit i => [i] | EExtra => [] end) l.

Fixpoint size (fuel : nat) (t : tree) : nat :=
  match fuel with
  | 0 => 0
  | S f => match t with
           | Node _ _ fs => S (fold_right Nat.add 0 (map (fun l => fold_right Nat.add 0 (map (size f) l)) fs))
           end
  end.
