(* The walker presents exactly the nodes of the tree, parents first, and stops
   at the first callback error: for every tree (any size, any depth) and every
   pair of tables satisfying the decidable side condition [covers]. *)
From Coq Require Import List Arith Bool Lia Permutation.
From Anko Require Import Walk.WalkModel.
Import ListNotations.

(* ------------------------------------------------------------------ *)
(* 1. the walker as "emit the events of [flat], stop at the failing call" *)

Definition comp := list ev -> list ev * wres.

(* [c] emits the events F (unless the callback fails first) *)
Definition emits (fail : option nat) (c : comp) (F : list ev) : Prop :=
  forall st,
    (match fail with Some k => length st <= k | None => True end) ->
    c st =
      match fail with
      | None => (rev F ++ st, WOk)
      | Some k => if length st + length F <=? k then (rev F ++ st, WOk)
                  else (rev (firstn (S k - length st) F) ++ st, WCallbackErr)
      end.

Definition seqc (c1 c2 : comp) : comp :=
  fun st => match c1 st with (st', WOk) => c2 st' | other => other end.

Lemma emits_nil fail : emits fail (fun st => (st, WOk)) [].
Proof.
  intros st Hst. destruct fail as [k|]; cbn; auto.
  rewrite Nat.add_0_r. destruct (Nat.leb_spec (length st) k); [reflexivity|lia].
Qed.

Lemma emits_seq fail c1 c2 F1 F2 : emits fail c1 F1 -> emits fail c2 F2 -> emits fail (seqc c1 c2) (F1 ++ F2).
Proof.
  intros H1 H2 st Hst. unfold seqc. rewrite (H1 st Hst).
  destruct fail as [k|].
  - rewrite app_length.
    destruct (Nat.leb_spec (length st + length F1) k) as [Hle|Hgt].
    + rewrite H2 by (cbn; rewrite app_length, rev_length; lia).
      rewrite app_length, rev_length.
      replace (length F1 + length st + length F2) with (length st + (length F1 + length F2)) by lia.
      destruct (Nat.leb_spec (length st + (length F1 + length F2)) k) as [Hle2|Hgt2].
      * now rewrite rev_app_distr, app_assoc.
      * f_equal. rewrite firstn_app.
        rewrite (@firstn_all2 _ (S k - length st) F1) by lia.
        replace (S k - (length F1 + length st)) with (S k - length st - length F1) by lia.
        now rewrite rev_app_distr, app_assoc.
    + destruct (Nat.leb_spec (length st + (length F1 + length F2)) k); [lia|].
      f_equal. rewrite firstn_app.
      replace (S k - length st - length F1) with 0 by lia. cbn. now rewrite app_nil_r.
  - rewrite H2 by exact I. now rewrite rev_app_distr, app_assoc.
Qed.

Lemma emits_ext fail c1 c2 F : (forall st, c1 st = c2 st) -> emits fail c1 F -> emits fail c2 F.
Proof. intros He H st Hst. rewrite <- He. now apply H. Qed.

(* presenting one event to the callback *)
Lemma emits_present fail e (cont : comp) F :
  emits fail cont F ->
  emits fail (fun st => let '(st1, failed) := present fail e st in
                   if failed then (st1, WCallbackErr) else cont st1) (e :: F).
Proof.
  intros Hc st Hst. unfold present. destruct fail as [k|].
  - destruct (Nat.eqb_spec (length st) k) as [Heq|Hne].
    + cbn [length]. destruct (Nat.leb_spec (length st + S (length F)) k); [lia|].
      replace (S k - length st) with 1 by lia. reflexivity.
    + rewrite Hc by (cbn; lia). cbn [length].
      replace (S (length st) + length F) with (length st + S (length F)) by lia.
      destruct (Nat.leb_spec (length st + S (length F)) k).
      * cbn. now rewrite <- app_assoc.
      * f_equal. replace (S k - length st) with (S (k - length st)) by lia.
        cbn [firstn rev]. replace (S k - S (length st)) with (k - length st) by lia.
        now rewrite <- app_assoc.
  - rewrite Hc by exact I. cbn. now rewrite <- app_assoc.
Qed.

Lemma walk_list_emits fail (walk1 : tree -> comp) (fl : tree -> list ev) l :
  (forall x, In x l -> emits fail (walk1 x) (fl x)) ->
  emits fail (walk_list walk1 l) (flat_map fl l).
Proof.
  induction l as [|x r IH]; intros H; cbn.
  - apply emits_nil.
  - apply (emits_ext fail (seqc (walk1 x) (walk_list walk1 r))); [reflexivity|].
    apply emits_seq; [apply H; now left|apply IH; intros; apply H; now right].
Qed.

Lemma walk_zip_emits fail (walk1 : tree -> comp) (fl : tree -> list ev) xs : forall ys,
  (forall x, In x xs -> emits fail (walk1 x) (fl x)) ->
  (forall y, In y ys -> emits fail (walk1 y) (fl y)) ->
  emits fail (walk_zip walk1 xs ys) (zip_map fl xs ys).
Proof.
  induction xs as [|x xr IH]; intros ys Hx Hy; cbn.
  - apply emits_nil.
  - destruct ys as [|y yr]; [apply emits_nil|].
    apply (emits_ext fail (seqc (walk1 x) (seqc (walk1 y) (walk_zip walk1 xr yr)))).
    + intros st. unfold seqc. destruct (walk1 x st) as [st1 [| |]]; auto.
    + apply emits_seq; [apply Hx; now left|].
      apply emits_seq; [apply Hy; now left|].
      apply IH; intros; [apply Hx|apply Hy]; now right.
Qed.


Lemma In_field fs i x : In x (field fs i) -> exists l, In l fs /\ In x l.
Proof.
  unfold field. intros H. destruct (nth_in_or_default i fs []) as [Hin|Heq].
  - eauto.
  - rewrite Heq in H. destruct H.
Qed.

Definition act_flat (fl : tree -> list ev) (fs : list (list tree)) (a : action) : list ev :=
  match a with
  | AField i => flat_map fl (field fs i)
  | AZip i j => zip_map fl (field fs i) (field fs j)
  | AExtra => [EExtra]
  end.

Lemma walk_acts_emits fail (walk1 : tree -> comp) (fl : tree -> list ev) fs acts :
  (forall l x, In l fs -> In x l -> emits fail (walk1 x) (fl x)) ->
  emits fail (walk_acts fail walk1 fs acts) (flat_map (act_flat fl fs) acts).
Proof.
  intros H. induction acts as [|a r IH]; cbn [walk_acts flat_map].
  - apply emits_nil.
  - set (c1 := fun st => match a with
                         | AField i => walk_list walk1 (field fs i) st
                         | AZip i j => walk_zip walk1 (field fs i) (field fs j) st
                         | AExtra => let '(st', failed) := present fail EExtra st in
                                     (st', if failed then WCallbackErr else WOk)
                         end).
    apply (emits_ext fail (seqc c1 (walk_acts fail walk1 fs r))).
    { intros st. unfold seqc, c1.
      destruct a as [i|i j|];
        [destruct (walk_list walk1 (field fs i) st) as [? [| |]]
        |destruct (walk_zip walk1 (field fs i) (field fs j) st) as [? [| |]]
        |destruct (present fail EExtra st) as [? [|]]]; reflexivity. }
    apply emits_seq; [|exact IH].
    unfold c1. destruct a as [i|i j|]; cbn [act_flat].
    + apply (emits_ext fail (walk_list walk1 (field fs i))); [reflexivity|].
      apply walk_list_emits. intros x Hx. destruct (In_field _ _ _ Hx) as [l [Hl Hxl]]. eauto.
    + apply (emits_ext fail (walk_zip walk1 (field fs i) (field fs j))); [reflexivity|].
      apply walk_zip_emits; intros x Hx; destruct (In_field _ _ _ Hx) as [l [Hl Hxl]]; eauto.
    + apply (emits_ext fail (fun st => let '(st1, failed) := present fail EExtra st in
                                       if failed then (st1, WCallbackErr) else (fun s => (s, WOk)) st1)).
      * intros st. unfold present. destruct fail as [k|]; [destruct (Nat.eqb _ _)|]; reflexivity.
      * apply emits_present. apply emits_nil.
Qed.

(* all kinds met in the tree have an entry *)
Fixpoint known (fuel : nat) (wt : list (nat * entry)) (t : tree) : bool :=
  match fuel with
  | 0 => false
  | S f => match t with
           | Node _ k fs => match lookup wt k with
                            | Some (Acts _) => forallb (fun l => forallb (known f wt) l) fs
                            | _ => false
                            end
           end
  end.

Theorem walk_emits_flat fail wt fuel : forall t,
  known fuel wt t = true -> emits fail (walk wt fail fuel t) (flat fuel wt t).
Proof.
  induction fuel as [|f IH]; intros [id k fs] Hk; cbn in Hk; [discriminate|].
  cbn [walk flat].
  destruct (lookup wt k) as [[|acts]|] eqn:L; try discriminate.
  apply (emits_ext fail (fun st => let '(st1, failed) := present fail (EVisit id) st in
                                   if failed then (st1, WCallbackErr)
                                   else walk_acts fail (walk wt fail f) fs acts st1)).
  { intros st. reflexivity. }
  apply emits_present.
  change (flat_map _ acts) with (flat_map (act_flat (flat f wt) fs) acts).
  apply walk_acts_emits. intros l x Hl Hx. apply IH.
  rewrite forallb_forall in Hk. specialize (Hk _ Hl). rewrite forallb_forall in Hk. auto.
Qed.

(* the two readings used by the property: *)
Corollary walk_complete wt fuel t :
  known fuel wt t = true ->
  walk wt None fuel t [] = (rev (flat fuel wt t), WOk).
Proof.
  intros Hk. rewrite (walk_emits_flat None wt fuel t Hk [] I). cbn. now rewrite app_nil_r.
Qed.

Corollary walk_stops_at_callback_error wt fuel t k :
  known fuel wt t = true -> k < length (flat fuel wt t) ->
  walk wt (Some k) fuel t [] = (rev (firstn (S k) (flat fuel wt t)), WCallbackErr).
Proof.
  intros Hk Hlt. rewrite (walk_emits_flat (Some k) wt fuel t Hk []) by (cbn; lia).
  cbn [length Nat.add]. destruct (Nat.leb_spec (length (flat fuel wt t)) k); [lia|].
  now rewrite Nat.sub_0_r, app_nil_r.
Qed.

Corollary walk_unaffected_by_later_failure wt fuel t k :
  known fuel wt t = true -> length (flat fuel wt t) <= k ->
  walk wt (Some k) fuel t [] = (rev (flat fuel wt t), WOk).
Proof.
  intros Hk Hle. rewrite (walk_emits_flat (Some k) wt fuel t Hk []) by (cbn; lia).
  cbn [length Nat.add]. destruct (Nat.leb_spec (length (flat fuel wt t)) k); [|lia].
  now rewrite app_nil_r.
Qed.

(* ------------------------------------------------------------------ *)
(* 2. [flat] presents every node exactly once when the tables cover the AST *)

Lemma visits_app a b : visits (a ++ b) = visits a ++ visits b.
Proof. unfold visits. now rewrite flat_map_app. Qed.

Lemma visits_flat_map {A} (f : A -> list ev) l :
  visits (flat_map f l) = flat_map (fun x => visits (f x)) l.
Proof. induction l as [|x r IH]; cbn; auto. now rewrite visits_app, IH. Qed.

Lemma zip_map_perm (f : tree -> list ev) (g : tree -> list nat) xs : forall ys,
  length xs = length ys ->
  (forall x, In x xs -> Permutation (visits (f x)) (g x)) ->
  (forall y, In y ys -> Permutation (visits (f y)) (g y)) ->
  Permutation (visits (zip_map f xs ys)) (flat_map g xs ++ flat_map g ys).
Proof.
  induction xs as [|x xr IH]; intros [|y yr] Hlen Hx Hy; cbn in *; try discriminate; auto.
  rewrite !visits_app.
  assert (Px := Hx x (or_introl eq_refl)). assert (Py := Hy y (or_introl eq_refl)).
  assert (Pr := IH yr ltac:(lia) (fun z Hz => Hx z (or_intror Hz)) (fun z Hz => Hy z (or_intror Hz))).
  rewrite Px, Py, Pr.
  rewrite <- !app_assoc. apply Permutation_app_head.
  rewrite !app_assoc. apply Permutation_app_tail. apply Permutation_app_comm.
Qed.

(* the children selected by a list of field indices *)
Definition pick (g : tree -> list nat) (fs : list (list tree)) (idx : list nat) : list nat :=
  flat_map (fun i => flat_map g (field fs i)) idx.

Lemma pick_perm g fs idx idx' : Permutation idx idx' -> Permutation (pick g fs idx) (pick g fs idx').
Proof.
  intros H. unfold pick. induction H; cbn; auto.
  - now apply Permutation_app_head.
  - rewrite !app_assoc. apply Permutation_app_tail. apply Permutation_app_comm.
  - etransitivity; eauto.
Qed.

Lemma skipn_cons_tail {A} k : forall (l : list A) x r, skipn k l = x :: r -> skipn (S k) l = r.
Proof.
  induction k as [|k IH]; intros [|y l] x r H; cbn in *; try discriminate.
  - now injection H as _ ->.
  - now apply (IH l x r).
Qed.

Lemma pick_seq g fs : pick g fs (seq 0 (length fs)) = flat_map (fun l => flat_map g l) fs.
Proof.
  unfold pick.
  assert (H : forall k, flat_map (fun i => flat_map g (field fs i)) (seq k (length fs - k))
                        = flat_map (fun l => flat_map g l) (skipn k fs)).
  { intros k. remember (length fs - k) as n eqn:En. revert k En.
    induction n as [|n IH]; intros k En; cbn.
    - rewrite skipn_all2 by lia. reflexivity.
    - assert (Hk : k < length fs) by lia.
      destruct (skipn k fs) as [|l rest] eqn:Es.
      { apply (f_equal (@length _)) in Es. rewrite skipn_length in Es. cbn in Es. lia. }
      assert (Hnth : field fs k = l).
      { unfold field. rewrite <- (firstn_skipn k fs) at 1. rewrite app_nth2; rewrite firstn_length_le by lia; [|lia].
        rewrite Nat.sub_diag, Es. reflexivity. }
      assert (Hsk : skipn (S k) fs = rest).
      { eapply skipn_cons_tail; eauto. }
      rewrite Hnth, IH by lia. cbn [flat_map]. now rewrite Hsk. }
  specialize (H 0). now rewrite Nat.sub_0_r in H.
Qed.

(* a list of naturals below n in which each of 0..n-1 occurs once is a permutation of seq 0 n *)
Lemma once_each_perm (fl : list nat) n :
  forallb (fun i => Nat.eqb (count_occ Nat.eq_dec fl i) 1) (seq 0 n) = true ->
  forallb (fun i => i <? n) fl = true ->
  Permutation fl (seq 0 n).
Proof.
  intros H1 H2. rewrite (Permutation_count_occ Nat.eq_dec). intros x.
  rewrite forallb_forall in H1, H2.
  destruct (Nat.lt_ge_cases x n) as [Hlt|Hge].
  - assert (Hin : In x (seq 0 n)) by (apply in_seq; lia).
    specialize (H1 _ Hin). apply Nat.eqb_eq in H1. rewrite H1.
    symmetry. assert (Hnd := seq_NoDup n 0).
    apply (proj1 (NoDup_count_occ' Nat.eq_dec _) Hnd). assumption.
  - rewrite (proj1 (count_occ_not_In Nat.eq_dec fl x)).
    + symmetry. apply count_occ_not_In. rewrite in_seq. lia.
    + intros Hin. specialize (H2 _ Hin). apply Nat.ltb_lt in H2. lia.
Qed.

Lemma acts_perm (f : tree -> list ev) (g : tree -> list nat) fs acts :
  (forall l x, In l fs -> In x l -> Permutation (visits (f x)) (g x)) ->
  forallb (fun a => match a with
                    | AZip i j => Nat.eqb (length (field fs i)) (length (field fs j))
                    | _ => true end) acts = true ->
  Permutation (visits (flat_map (act_flat f fs) acts)) (pick g fs (flat_map act_fields acts)).
Proof.
  intros H Hz. induction acts as [|a r IH]; cbn in *; auto.
  apply andb_true_iff in Hz as [Ha Hr].
  rewrite visits_app. unfold pick in *. rewrite flat_map_app.
  apply Permutation_app; [|now apply IH].
  destruct a as [i|i j|]; cbn.
  - rewrite app_nil_r, visits_flat_map.
    assert (Hi : forall x, In x (field fs i) -> Permutation (visits (f x)) (g x)).
    { intros x Hx. destruct (In_field _ _ _ Hx) as [l [Hl Hxl]]. eauto. }
    induction (field fs i) as [|x xr IHx]; cbn; auto.
    apply Permutation_app; [apply Hi; now left|apply IHx; intros; apply Hi; now right].
  - rewrite app_nil_r. apply Nat.eqb_eq in Ha.
    apply zip_map_perm; auto; intros x Hx; destruct (In_field _ _ _ Hx) as [l [Hl Hxl]]; eauto.
  - constructor.
Qed.

Theorem flat_presents_every_node_once wt at_ fuel : forall t,
  covers wt at_ = true -> well_kinded fuel at_ wt t = true ->
  Permutation (visits (flat fuel wt t)) (ids fuel t).
Proof.
  intros t Hc. revert t. induction fuel as [|f IH]; intros [id k fs] Hw; cbn in Hw; [discriminate|].
  destruct (lookup at_ k) as [n|] eqn:La; [|discriminate].
  apply andb_true_iff in Hw as [Hw Hch]. apply andb_true_iff in Hw as [Hn Hz].
  apply Nat.eqb_eq in Hn.
  (* the entry for k *)
  assert (Hck : covers_kind wt (k, n) = true).
  { unfold covers in Hc. rewrite forallb_forall in Hc. apply Hc.
    clear -La. induction at_ as [|[k' n'] r IHr]; cbn in La; [discriminate|].
    destruct (Nat.eqb_spec k k') as [->|]; [injection La as ->; now left|right; auto]. }
  cbn in Hck. unfold zips_ok in Hz.
  destruct (lookup wt k) as [[|acts]|] eqn:Lw; try discriminate.
  apply andb_true_iff in Hck as [Hc1 Hc2].
  cbn [flat ids]. rewrite Lw. cbn [visits flat_map app]. apply perm_skip.
  change (flat_map _ acts) with (flat_map (act_flat (flat f wt) fs) acts).
  etransitivity.
  - apply (acts_perm (flat f wt) (ids f) fs acts); [|exact Hz].
    intros l x Hl Hx. apply IH.
    rewrite forallb_forall in Hch. specialize (Hch _ Hl). rewrite forallb_forall in Hch. auto.
  - rewrite <- pick_seq. apply pick_perm. rewrite Hn. now apply once_each_perm.
Qed.

(* a well-kinded tree under covering tables meets no Unknown kind *)
Lemma covers_known wt at_ fuel : forall t,
  covers wt at_ = true -> well_kinded fuel at_ wt t = true -> known fuel wt t = true.
Proof.
  intros t Hc. revert t. induction fuel as [|f IH]; intros [id k fs] Hw; cbn in *; [discriminate|].
  destruct (lookup at_ k) as [n|] eqn:La; [|discriminate].
  apply andb_true_iff in Hw as [Hw Hch].
  assert (Hck : covers_kind wt (k, n) = true).
  { unfold covers in Hc. rewrite forallb_forall in Hc. apply Hc.
    clear -La. induction at_ as [|[k' n'] r IHr]; cbn in La; [discriminate|].
    destruct (Nat.eqb_spec k k') as [->|]; [injection La as ->; now left|right; auto]. }
  cbn in Hck. destruct (lookup wt k) as [[|acts]|]; try discriminate.
  rewrite forallb_forall. intros l Hl. rewrite forallb_forall. intros x Hx. apply IH.
  rewrite forallb_forall in Hch. specialize (Hch _ Hl). rewrite forallb_forall in Hch. auto.
Qed.

(* ------------------------------------------------------------------ *)
(* 3. a parent is presented before everything below it *)

Theorem flat_root_first fuel wt id k fs :
  exists rest, flat (S fuel) wt (Node id k fs) = EVisit id :: rest.
Proof. cbn [flat]. eexists. reflexivity. Qed.

(* the presentation of a child reached through a plain field is a contiguous
   block strictly after its parent *)
Theorem flat_child_block fuel wt id k fs acts i c :
  lookup wt k = Some (Acts acts) -> In (AField i) acts -> In c (field fs i) ->
  exists before after,
    flat (S fuel) wt (Node id k fs) = EVisit id :: before ++ flat fuel wt c ++ after.
Proof.
  intros L Ha Hc. cbn [flat]. rewrite L.
  change (flat_map _ acts) with (flat_map (act_flat (flat fuel wt) fs) acts).
  apply in_split in Ha as [a1 [a2 ->]]. apply in_split in Hc as [c1 [c2 Hc]].
  exists (flat_map (act_flat (flat fuel wt) fs) a1 ++ flat_map (flat fuel wt) c1).
  exists (flat_map (flat fuel wt) c2 ++ flat_map (act_flat (flat fuel wt) fs) a2).
  rewrite flat_map_app. cbn [flat_map act_flat]. rewrite Hc, flat_map_app. cbn [flat_map].
  now rewrite <- !app_assoc.
Qed.
