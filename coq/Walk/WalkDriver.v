(* Entry point of the extracted C17 checker: decode (table, tree, observed
   presentation order, error flag, failing-callback run) and compare with the model. *)
From Coq Require Import String List Bool Arith.
From Anko Require Import Base.Sexp Walk.WalkModel.
Import ListNotations.
Open Scope string_scope.

Definition dec_action (s : sexp) : option action :=
  match s with
  | SL [SA "F"; i] => option_map AField (as_nat i)
  | SL [SA "Z"; i; j] => match as_nat i, as_nat j with Some i, Some j => Some (AZip i j) | _, _ => None end
  | SL [SA "X"] => Some AExtra
  | _ => None
  end.

Definition dec_tables (s : sexp) : option (list (nat * nat) * list (nat * entry)) :=
  match as_list (fun e => match e with
                          | SL [k; n; SA "unknown"] =>
                              match as_nat k, as_nat n with Some k, Some n => Some (k, n, Unknown) | _, _ => None end
                          | SL [k; n; acts] =>
                              match as_nat k, as_nat n, as_list dec_action acts with
                              | Some k, Some n, Some a => Some (k, n, Acts a) | _, _, _ => None end
                          | _ => None end) s with
  | Some l => Some (map (fun '(k, n, _) => (k, n)) l, map (fun '(k, _, e) => (k, e)) l)
  | None => None
  end.

Fixpoint dec_tree (fuel : nat) (s : sexp) : option tree :=
  match fuel with
  | 0 => None
  | S f =>
    match s with
    | SL (id :: k :: fs) =>
        match as_nat id, as_nat k, map_opt (as_list (dec_tree f)) fs with
        | Some id, Some k, Some fs => Some (Node id k fs)
        | _, _, _ => None
        end
    | _ => None
    end
  end.

Definition ev_code (e : ev) : nat := match e with EVisit i => S i | EExtra => 0 end.

Definition list_nat_eqb (a b : list nat) : bool :=
  Nat.eqb (length a) (length b) && forallb (fun '(x, y) => Nat.eqb x y) (combine a b).

Definition fuel0 := 4000.

Definition c17_check (s : sexp) : sexp :=
  match s with
  | SL [tb; tr; seq; SA errflag; SL [failat; presented; ours]] =>
    match dec_tables tb, dec_tree fuel0 tr, as_list as_nat seq, as_nat failat, as_nat presented, as_bool ours with
    | Some (at_, wt), Some t, Some seq, Some failat, Some presented, Some ours =>
      let '(log, res) := walk wt None fuel0 t [] in
      let mseq := map ev_code (rev log) in
      let err_model := match res with WOk => "ok" | _ => "err" end in
      let full_ok := list_nat_eqb mseq seq && String.eqb err_model errflag in
      let fail_ok :=
        match failat with
        | 0 => true
        | S k => let '(log2, res2) := walk wt (Some k) fuel0 t [] in
                 Nat.eqb (length log2) presented
                 && match res2 with WCallbackErr => ours | _ => negb ours end
        end in
      if full_ok && fail_ok then SL [SA "ok"]
      else SL [SA "mismatch"; SA (if full_ok then "failing-callback-run" else "presentation-order");
               SL (map snat mseq); SA err_model]
    | _, _, _, _, _, _ => SL [SA "undecodable"]
    end
  | _ => SL [SA "undecodable"]
  end.
