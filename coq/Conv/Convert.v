(* Model of vm/vmConvertToX.go convertReflectValueToType on the script values nil, bool, int64, float64,
   string and []interface{} (nested), towards the Go types bool, the integer types, float64 / float32, string,
   interface{} and slices of these - in the order of cases of the Go function: interface target /
   same type, reflect's ConvertibleTo + Convert, slices element by element (an element is an
   interface value: nil gives the zero value, anything else is unwrapped first), the one-byte string
   to byte / rune extension, else an error. *)
From Coq Require Import List ZArith String Ascii Bool Lia Floats.SpecFloat.
From Anko Require Import Base.Int64 Base.F64.
Import ListNotations.
Open Scope Z_scope.

Inductive sval := SNil | SBool (b : bool) | SInt (z : Z) | SStr (bytes : list Z) | SList (l : list sval) | SFloat (f : f64).

Inductive ty :=
| TIface
| TBool
| TInt (name : string) (signed : bool) (bits : Z)
| TString
| TSlice (t : ty)
| TFloat (name : string) (bits : Z).        (* float64 (bits = 64) or float32 (bits = 32) *)

Inductive tval :=
| VDyn (v : sval)                         (* an interface{} slot holding the script value as it is *)
| VBool (b : bool)
| VInt (name : string) (signed : bool) (bits : Z) (z : Z)
| VStr (bytes : list Z)
| VSlice (t : ty) (l : list tval)
| VFloat (name : string) (bits : Z) (f : f64).   (* for bits = 32 a float64 that is a binary32 value *)

(* Go's integer conversion: wrap into the target width *)
Definition wrap (signed : bool) (bits : Z) (z : Z) : Z :=
  let m := 2 ^ bits in
  let r := z mod m in
  if signed && (2 ^ (bits - 1) <=? r) then r - m else r.

(* float32(float64): one rounding to nearest even into binary32 (reflect stores float32(v)) *)
Definition round32 (f : f64) : f64 :=
  match f with
  | S754_finite s m e => binary_normalize 24 128 (if s then Zneg m else Zpos m) e s
  | _ => f
  end.
Definition narrow (bits : Z) (f : f64) : f64 := if bits =? 32 then round32 f else f.

(* the integer part of a float, toward zero; none for NaN and the infinities *)
Definition trunc (f : f64) : option Z :=
  match f with
  | S754_zero _ => Some 0
  | S754_finite s m e =>
      let mag := if 0 <=? e then Zpos m * 2 ^ e else Zpos m / 2 ^ (- e) in
      Some (if s then - mag else mag)
  | _ => None
  end.

(* uint64(float64) as the amd64 code of this toolchain computes it: CVTTSD2SQ below 2^63 (negative
   values wrap, values below -2^63 give the "integer indefinite" pattern 2^63), and for the rest the
   conversion of f - 2^63 with the top bit set: exact up to 2^64, the pattern 2^63 beyond and for NaN *)
Definition to_u64 (f : f64) : Z :=
  match trunc f with
  | None => 2 ^ 63
  | Some v => if v <? - 2 ^ 63 then 2 ^ 63 else if v <? 0 then v + 2 ^ 64 else if v <? 2 ^ 64 then v else 2 ^ 63
  end.

(* string(rune): UTF-8, U+FFFD for surrogates and values outside Unicode *)
Definition utf8 (z : Z) : list Z :=
  let z := if (z <? 0) || (1114111 <? z) || ((55296 <=? z) && (z <=? 57343)) then 65533 else z in
  if z <? 128 then [z]
  else if z <? 2048 then [192 + z / 64; 128 + z mod 64]
  else if z <? 65536 then [224 + z / 4096; 128 + (z / 64) mod 64; 128 + z mod 64]
  else [240 + z / 262144; 128 + (z / 4096) mod 64; 128 + (z / 64) mod 64; 128 + z mod 64].

Definition zero (t : ty) : tval :=
  match t with
  | TIface => VDyn SNil
  | TBool => VBool false
  | TInt n s b => VInt n s b 0
  | TString => VStr []
  | TSlice e => VSlice e []
  | TFloat n w => VFloat n w fzero
  end.

Fixpoint ty_eqb (a b : ty) : bool :=
  match a, b with
  | TIface, TIface | TBool, TBool | TString, TString => true
  | TInt n s w, TInt n' s' w' => String.eqb n n'
  | TSlice x, TSlice y => ty_eqb x y
  | TFloat n w, TFloat n' w' => String.eqb n n'
  | _, _ => false
  end.

Definition is_byte (t : ty) : bool := match t with TInt _ false 8 => true | _ => false end.
Definition is_rune (t : ty) : bool := match t with TInt _ true 32 => true | _ => false end.

Fixpoint map_opt {A B} (f : A -> option B) (l : list A) : option (list B) :=
  match l with
  | [] => Some []
  | x :: r => match f x, map_opt f r with Some y, Some ys => Some (y :: ys) | _, _ => None end
  end.

(* conversion of a script value (as it sits in an interface{}) to a parameter of type t *)
Fixpoint conv (v : sval) (t : ty) {struct v} : option tval :=
  match t with
  | TIface => Some (VDyn v)
  | _ =>
    match v with
    | SNil => Some (zero t)
    | SBool b => match t with TBool => Some (VBool b) | _ => None end
    | SInt z =>
        match t with
        | TInt n s w => Some (VInt n s w (wrap s w z))
        | TString => Some (VStr (utf8 z))
        | TFloat n w => Some (VFloat n w (narrow w (of_int z)))      (* reflect: float64(int64), then the store *)
        | _ => None
        end
    | SStr bs =>
        match t with
        | TString => Some (VStr bs)
        | TSlice e => if is_byte e then Some (VSlice e (map (fun b => match e with TInt n s w => VInt n s w b | _ => VBool false end) bs))
                      else None      (* []rune is outside this model *)
        | TInt n s w =>
            if is_byte t || is_rune t then
              match bs with
              | [] => Some (VInt n s w 0)
              | [b] => Some (VInt n s w b)
              | _ => None
              end
            else None
        | _ => None
        end
    | SList l =>
        match t with
        | TSlice e =>
            option_map (VSlice e)
              ((fix go (l : list sval) : option (list tval) :=
                  match l with
                  | [] => Some []
                  | x :: r => match conv x e, go r with Some y, Some ys => Some (y :: ys) | _, _ => None end
                  end) l)
        | _ => None
        end
    | SFloat f =>
        match t with
        | TInt n s w => Some (VInt n s w (wrap s w (if s then F64.to_int f else to_u64 f)))   (* reflect: int64(f) / uint64(f), then the width *)
        | TFloat n w => Some (VFloat n w (narrow w f))
        | _ => None
        end
    end
  end.

Definition type_of (v : tval) : option ty :=
  match v with
  | VDyn _ => None               (* dynamic *)
  | VBool _ => Some TBool
  | VInt n s w _ => Some (TInt n s w)
  | VStr _ => Some TString
  | VSlice e _ => Some (TSlice e)
  | VFloat n w _ => Some (TFloat n w)
  end.
