(* Floats at the Go boundary (Conv/Convert.v): what reflect's Convert does with a script float64 handed
   to an integer or float parameter, and with a script int64 handed to a float parameter.
   The integer part is taken toward zero and is within one of the float; inside the range of the target
   kind (int64 resp. uint64) the parameter receives that integer reduced to the parameter's width;
   outside, and for NaN and the infinities, the amd64 patterns (MinInt64 resp. 2^63) - stated as what they
   are, platform behaviour that Go leaves implementation-defined. *)
From Coq Require Import List ZArith String Bool Lia Floats.SpecFloat.
From Anko Require Import Base.Int64 Base.F64 Conv.Convert.
Import ListNotations.
Open Scope Z_scope.

Lemma pow63 : 2 ^ 63 = two63. Proof. reflexivity. Qed.
Lemma pow64 : 2 ^ 64 = two64. Proof. reflexivity. Qed.

(* truncation is toward zero and loses less than one *)
Theorem trunc_toward_zero s m e v : trunc (S754_finite s m e) = Some v ->
  (if s then v <= 0 else 0 <= v) /\
  (0 <= e -> Z.abs v = Zpos m * 2 ^ e) /\
  (e < 0 -> Z.abs v * 2 ^ (- e) <= Zpos m < (Z.abs v + 1) * 2 ^ (- e)).
Proof.
  unfold trunc. pose proof (Pos2Z.is_pos m) as HM. set (M := Zpos m) in *. clearbody M.
  intro H. injection H as <-.
  destruct (0 <=? e) eqn:E.
  - apply Z.leb_le in E. assert (Hp : 0 < 2 ^ e) by (apply Z.pow_pos_nonneg; lia).
    assert (Hm : 0 < M * 2 ^ e) by lia.
    destruct s; (split; [lia|]); (split; [intros _; lia | lia]).
  - apply Z.leb_gt in E. assert (Hp : 0 < 2 ^ (- e)) by (apply Z.pow_pos_nonneg; lia).
    pose proof (Z.div_mod M (2 ^ (- e)) ltac:(lia)) as Hd.
    pose proof (Z.mod_pos_bound M (2 ^ (- e)) Hp) as Hr.
    assert (Hq : 0 <= M / 2 ^ (- e)) by (apply Z.div_pos; lia).
    destruct s; (split; [lia|]); (split; [lia|]); intros _.
    + rewrite Z.abs_opp, Z.abs_eq by lia. nia.
    + rewrite Z.abs_eq by lia. nia.
Qed.

Lemma to_int_in_range f v : trunc f = Some v -> min_int64 <= v <= max_int64 -> F64.to_int f = v.
Proof.
  destruct f as [s| s | | s m e]; unfold trunc, F64.to_int; intros H Hr; try discriminate.
  - injection H as <-. reflexivity.
  - cbv zeta in *. set (M := Zpos m) in *. clearbody M. injection H as H. rewrite H. unfold in_int64b.
    destruct (Z.leb_spec min_int64 v), (Z.leb_spec v max_int64); cbn [andb]; try reflexivity; lia.
Qed.

Lemma to_int_out_of_range f : (trunc f = None \/ exists v, trunc f = Some v /\ (v < min_int64 \/ max_int64 < v)) ->
  F64.to_int f = min_int64.
Proof.
  destruct f as [s| s | | s m e]; unfold trunc, F64.to_int; intros [H|(v & H & Hr)]; try discriminate; try reflexivity.
  - injection H as <-. unfold min_int64, max_int64, two63 in Hr. lia.
  - cbv zeta in *. set (M := Zpos m) in *. clearbody M. injection H as H. rewrite H. unfold in_int64b.
    destruct (Z.leb_spec min_int64 v), (Z.leb_spec v max_int64); cbn [andb]; try reflexivity; lia.
Qed.

Theorem float_to_signed_parameter n w f v : trunc f = Some v -> min_int64 <= v <= max_int64 ->
  conv (SFloat f) (TInt n true w) = Some (VInt n true w (wrap true w v)).
Proof. intros H Hr. cbn [conv]. rewrite (to_int_in_range f v H Hr). reflexivity. Qed.

Ltac ltb_cases := repeat match goal with |- context [?a <? ?b] => destruct (Z.ltb_spec a b) end.

Theorem float_to_unsigned_parameter n w f v : trunc f = Some v -> 0 <= v < 2 ^ 64 ->
  conv (SFloat f) (TInt n false w) = Some (VInt n false w (wrap false w v)).
Proof.
  intros H Hr. cbn [conv]. unfold to_u64. rewrite H. rewrite pow63, pow64 in *. unfold two63, two64 in *.
  ltb_cases; try lia; reflexivity.
Qed.

(* a negative float handed to an unsigned parameter wraps like the integer it truncates to *)
Theorem negative_float_to_unsigned_parameter n w f v : trunc f = Some v -> - 2 ^ 63 <= v < 0 -> 0 < w <= 64 ->
  conv (SFloat f) (TInt n false w) = Some (VInt n false w (wrap false w v)).
Proof.
  intros H Hr Hw. cbn [conv]. unfold to_u64. rewrite H. rewrite pow63, pow64 in *. unfold two63, two64 in *.
  ltb_cases; try lia.
  unfold wrap. cbn [andb]. do 2 f_equal.
  replace 18446744073709551616 with (2 ^ (64 - w) * 2 ^ w).
  - rewrite Z.mod_add; [reflexivity|]. apply Z.pow_nonzero; lia.
  - rewrite <- Z.pow_add_r by lia. replace (64 - w + w) with 64 by lia. reflexivity.
Qed.

(* amd64: what is not representable gives the "integer indefinite" pattern *)
Theorem unrepresentable_float_to_signed_parameter n w f :
  (trunc f = None \/ exists v, trunc f = Some v /\ (v < min_int64 \/ max_int64 < v)) ->
  conv (SFloat f) (TInt n true w) = Some (VInt n true w (wrap true w min_int64)).
Proof. intro H. cbn [conv]. rewrite (to_int_out_of_range f H). reflexivity. Qed.

Theorem unrepresentable_float_to_unsigned_parameter n w f :
  (trunc f = None \/ exists v, trunc f = Some v /\ (v < - 2 ^ 63 \/ 2 ^ 64 <= v)) ->
  conv (SFloat f) (TInt n false w) = Some (VInt n false w (wrap false w (2 ^ 63))).
Proof.
  intros [H|(v & H & Hr)]; cbn [conv]; unfold to_u64; rewrite H; [reflexivity|].
  rewrite pow63, pow64 in *. unfold two63, two64 in *. ltb_cases; try lia; reflexivity.
Qed.

Theorem float64_parameter_receives_the_float n f : conv (SFloat f) (TFloat n 64) = Some (VFloat n 64 f).
Proof. reflexivity. Qed.

Theorem float_parameter_from_an_integer n w z : conv (SInt z) (TFloat n w) = Some (VFloat n w (narrow w (F64.of_int z))).
Proof. reflexivity. Qed.

Theorem float_parameters_take_numbers_only n w :
  (forall b, conv (SBool b) (TFloat n w) = None) /\ (forall bs, conv (SStr bs) (TFloat n w) = None) /\
  (forall l, conv (SList l) (TFloat n w) = None).
Proof. repeat split; reflexivity. Qed.

Theorem floats_become_numbers_only f :
  conv (SFloat f) TString = None /\ conv (SFloat f) TBool = None /\ (forall e, conv (SFloat f) (TSlice e) = None).
Proof. repeat split; reflexivity. Qed.

(* concrete values, computed by the kernel: float32(16777217) rounds to 16777216, float32(0.1), int8(255.9) = -1,
   uint8(-129.0) = 127, uint64(1e19) exact, uint64(1e20) the pattern *)
Example int_to_float32_rounds :
  conv (SInt 16777217) (TFloat "float32" 32) = Some (VFloat "float32" 32 (S754_finite false 8388608 1)).   (* 2^23 * 2 *)
Proof. vm_compute. reflexivity. Qed.
Example float_to_int8 : conv (SFloat (F64.of_bits 4643208355896801690)) (TInt "int8" true 8) = Some (VInt "int8" true 8 (-1)).
Proof. vm_compute. reflexivity. Qed.
Example float_to_uint8 : conv (SFloat (F64.fneg (F64.of_int 129))) (TInt "uint8" false 8) = Some (VInt "uint8" false 8 127).
Proof. vm_compute. reflexivity. Qed.
Example float_1e19_to_uint64 :
  conv (SFloat (F64.of_int 10000000000000000000)) (TInt "uint64" false 64) = Some (VInt "uint64" false 64 10000000000000000000).
Proof. vm_compute. reflexivity. Qed.
Example float_1e20_to_uint64 :
  conv (SFloat (F64.of_int 100000000000000000000)) (TInt "uint64" false 64) = Some (VInt "uint64" false 64 (2 ^ 63)).
Proof. vm_compute. reflexivity. Qed.
