(* Typed containers (make([]T, n), typed literals, map[K]V, struct values made with make): every store
   goes through the conversion routine of Conv/Convert.v (vm/vmLetExpr.go, vm/vmOperator.go and
   vm/vm.go all call convertReflectValueToType with the declared element / key / field type) and
   either stores the converted value or fails and leaves the container as it was.  One container,
   a sequence of operations, the observation each returns. *)
From Coq Require Import List ZArith String Bool Lia.
From Anko Require Import Base.F64 Conv.Convert.
Import ListNotations.
Open Scope Z_scope.

Inductive tcont :=
| KSlice (e : ty) (l : list tval)
| KMap (k e : ty) (m : list (tval * tval))          (* insertion order; keys unique *)
| KStruct (fs : list (string * ty * tval)).

Inductive top :=
| OStore (i : Z) (v : sval)          (* c[i] = v; i = len appends *)
| ORead (i : Z)                      (* c[i] *)
| OAppend (v : sval)                 (* c += [v] *)
| OMapStore (k v : sval)             (* c[k] = v *)
| OMapRead (k : sval)                (* c[k]: a missing or unconvertible key reads as nil *)
| OMapDelete (k : sval)              (* delete(c, k) *)
| OFieldStore (f : string) (v : sval)
| OFieldRead (f : string).

Inductive obs := XErr | XNil | XVal (v : tval) | XCont (c : tcont).

(* equality of map keys: keys are values of one non-interface type *)
Fixpoint bytes_eqb (a b : list Z) : bool :=
  match a, b with
  | [], [] => true
  | x :: a, y :: b => Z.eqb x y && bytes_eqb a b
  | _, _ => false
  end.

Definition key_eqb (a b : tval) : bool :=
  match a, b with
  | VBool x, VBool y => Bool.eqb x y
  | VInt _ _ _ x, VInt _ _ _ y => Z.eqb x y
  | VStr x, VStr y => bytes_eqb x y
  | _, _ => false
  end.

Fixpoint m_get (m : list (tval * tval)) (k : tval) : option tval :=
  match m with
  | [] => None
  | (k', v) :: r => if key_eqb k' k then Some v else m_get r k
  end.

Fixpoint m_set (m : list (tval * tval)) (k v : tval) : list (tval * tval) :=
  match m with
  | [] => [(k, v)]
  | (k', v') :: r => if key_eqb k' k then (k', v) :: r else (k', v') :: m_set r k v
  end.

Fixpoint m_del (m : list (tval * tval)) (k : tval) : list (tval * tval) :=
  match m with
  | [] => []
  | (k', v') :: r => if key_eqb k' k then r else (k', v') :: m_del r k
  end.

Fixpoint f_get (fs : list (string * ty * tval)) (f : string) : option (ty * tval) :=
  match fs with
  | [] => None
  | (n, t, v) :: r => if String.eqb n f then Some (t, v) else f_get r f
  end.

Fixpoint f_set (fs : list (string * ty * tval)) (f : string) (x : tval) : list (string * ty * tval) :=
  match fs with
  | [] => []
  | (n, t, v) :: r => if String.eqb n f then (n, t, x) :: r else (n, t, v) :: f_set r f x
  end.

Fixpoint l_set (l : list tval) (i : nat) (x : tval) : list tval :=
  match l, i with
  | [], _ => []
  | _ :: r, O => x :: r
  | y :: r, S i => y :: l_set r i x
  end.

(* `c += [v]` goes through vm.go appendSlice, which has its own element conversion: Go's ConvertibleTo /
   Convert only (no one-character-string extension, a string is not a list), nil as the zero value of
   a non-slice element type, and for a slice element type the value must itself be a list, converted
   element by element *)
Fixpoint append_conv (t : ty) (v : sval) {struct t} : option tval :=
  match t with
  | TIface => Some (VDyn v)
  | TSlice e => match v with
                | SList l => option_map (VSlice e) (Convert.map_opt (append_conv e) l)
                | _ => None
                end
  | TBool => match v with SNil => Some (zero t) | SBool b => Some (VBool b) | _ => None end
  | TInt n s w => match v with
                  | SNil => Some (zero t)
                  | SInt z => Some (VInt n s w (wrap s w z))
                  | SFloat f => Some (VInt n s w (wrap s w (if s then F64.to_int f else to_u64 f)))
                  | _ => None
                  end
  | TFloat n w => match v with
                  | SNil => Some (zero t)
                  | SInt z => Some (VFloat n w (narrow w (F64.of_int z)))
                  | SFloat f => Some (VFloat n w (narrow w f))
                  | _ => None
                  end
  | TString => match v with SNil => Some (zero t) | SInt z => Some (VStr (utf8 z)) | SStr bs => Some (VStr bs) | _ => None end
  end.

(* one operation: the container afterwards and what the script observes; an operation that does not
   fit the container's kind is an error *)
Definition tstep (c : tcont) (o : top) : tcont * obs :=
  match c, o with
  | KSlice e l, OStore i v =>
      if (i <? 0) || (Z.of_nat (List.length l) <? i) then (c, XErr)
      else match conv v e with
           | None => (c, XErr)
           | Some x => let c' := if i =? Z.of_nat (List.length l) then KSlice e (l ++ [x]) else KSlice e (l_set l (Z.to_nat i) x) in
                       (c', XCont c')
           end
  | KSlice e l, ORead i =>
      if (i <? 0) || (Z.of_nat (List.length l) <=? i) then (c, XErr)
      else match nth_error l (Z.to_nat i) with Some x => (c, XVal x) | None => (c, XErr) end
  | KSlice e l, OAppend v =>
      match append_conv e v with
      | None => (c, XErr)
      | Some x => let c' := KSlice e (l ++ [x]) in (c', XCont c')
      end
  | KMap kt et m, OMapStore k v =>
      match conv k kt, conv v et with
      | Some k', Some v' => let c' := KMap kt et (m_set m k' v') in (c', XCont c')
      | _, _ => (c, XErr)
      end
  | KMap kt et m, OMapRead k =>
      match conv k kt with
      | None => (c, XNil)
      | Some k' => match m_get m k' with Some v => (c, XVal v) | None => (c, XNil) end
      end
  | KMap kt et m, OMapDelete k =>
      match conv k kt with
      | None => (c, XErr)
      | Some k' => let c' := KMap kt et (m_del m k') in (c', XCont c')
      end
  | KStruct fs, OFieldStore f v =>
      match f_get fs f with
      | None => (c, XErr)
      | Some (t, _) => match conv v t with
                       | None => (c, XErr)
                       | Some x => (KStruct (f_set fs f x), XVal x)
                       end
      end
  | KStruct fs, OFieldRead f =>
      match f_get fs f with
      | None => (c, XErr)
      | Some (_, x) => (c, XVal x)
      end
  | _, _ => (c, XErr)
  end.

Fixpoint trun (c : tcont) (ops : list top) : tcont * list obs :=
  match ops with
  | [] => (c, [])
  | o :: r => let '(c1, x) := tstep c o in let '(c2, xs) := trun c1 r in (c2, x :: xs)
  end.

(* a value of the declared type: an interface{} slot holds any script value as it is *)
Definition has_type (t : ty) (v : tval) : Prop :=
  match t with
  | TIface => exists s, v = VDyn s
  | _ => type_of v = Some t
  end.

(* the invariant: every cell holds a value of its declared type *)
Definition well_typed (c : tcont) : Prop :=
  match c with
  | KSlice e l => Forall (has_type e) l
  | KMap kt et m => Forall (fun kv => has_type kt (fst kv) /\ has_type et (snd kv)) m
  | KStruct fs => Forall (fun f => has_type (snd (fst f)) (snd f)) fs
  end.
