(* Model of makeCallArgs (vm/vmExprFunction.go) for Go functions: which of the supplied argument
   values reach which parameter, for the four call shapes (fixed / variadic function, plain / spread
   call).  `pre` are the values of the ordinary argument expressions, `sp` the elements of the list
   that a spread call `f(pre..., list...)` spreads. *)
From Coq Require Import List Arith Bool Lia.
Import ListNotations.

Section Args.
Context {A : Type}.

Inductive delivered :=
| Deliver (fixed : list A) (tail : list A)            (* fixed parameters, then the variadic slice *)
| DeliverListAsOne (fixed : list A) (whole : list A)  (* the spread list itself lands in the last fixed parameter *)
| Reject.

Definition build (n : nat) (variadic : bool) (pre : list A) (sp : option (list A)) : delivered :=
  let spread := match sp with Some _ => true | None => false end in
  let num_exprs := length pre + (if spread then 1 else 0) in
  if n =? 0 then
    if (0 <? num_exprs) && negb spread then Reject else Deliver [] []
  else if (negb variadic && negb spread && negb (n =? num_exprs))
       || (variadic && spread && ((n <? num_exprs) || (num_exprs + 1 <? n)))
       || (variadic && negb spread && (num_exprs + 1 <? n))
       || (negb variadic && spread && ((n <? num_exprs) || (num_exprs <? 1)))
  then Reject
  else
    match variadic, sp with
    | false, None => Deliver pre []
    | false, Some l =>
        if length l <? n - length pre then Reject
        else Deliver (pre ++ firstn (n - length pre) l) []           (* surplus elements of l are dropped *)
    | true, None =>
        if num_exprs =? 0 then Deliver [] []
        else if num_exprs <? n then Deliver pre []
        else Deliver (firstn (n - 1) pre) (skipn (n - 1) pre)
    | true, Some l =>
        if num_exprs <? n then DeliverListAsOne pre l
        else Deliver pre l
    end.

(* exactly the supplied arguments *)
Definition supplied (pre : list A) (sp : option (list A)) : list A := pre ++ match sp with Some l => l | None => [] end.
Definition received (d : delivered) : option (list A) :=
  match d with Deliver f t => Some (f ++ t) | _ => None end.

Ltac off b := replace b with false by (symmetry; first [apply Nat.ltb_ge | apply Nat.eqb_neq]; lia).

Theorem fixed_plain_exact n pre : n <> 0 ->
  build n false pre None = (if n =? length pre then Deliver pre [] else Reject).
Proof.
  intro Hn. unfold build. cbn [length]. rewrite Nat.add_0_r. off (n =? 0).
  cbn -[Nat.ltb Nat.eqb]. destruct (n =? length pre); reflexivity.
Qed.

Theorem variadic_plain_exact n pre : n <> 0 -> n - 1 <= length pre ->
  received (build n true pre None) = Some pre.
Proof.
  intros Hn Hl. unfold build. cbn [length]. rewrite Nat.add_0_r. off (n =? 0).
  cbn -[Nat.ltb Nat.eqb]. off (length pre + 1 <? n). cbn -[Nat.ltb Nat.eqb].
  destruct (length pre =? 0) eqn:E2.
  - apply Nat.eqb_eq in E2. destruct pre; [reflexivity | discriminate].
  - destruct (length pre <? n) eqn:E3; cbn -[Nat.ltb Nat.eqb]; [now rewrite app_nil_r | now rewrite firstn_skipn].
Qed.

Theorem variadic_spread_exact n pre l : n <> 0 -> length pre = n - 1 ->
  received (build n true pre (Some l)) = Some (pre ++ l).
Proof.
  intros Hn Hl. unfold build. cbn [length]. off (n =? 0).
  cbn -[Nat.ltb Nat.eqb]. off (n <? length pre + 1). off (length pre + 1 + 1 <? n). cbn -[Nat.ltb Nat.eqb].
  off (length pre + 1 <? n). reflexivity.
Qed.

Theorem fixed_spread_exact n pre l : n <> 0 -> l <> [] -> length pre + length l = n ->
  received (build n false pre (Some l)) = Some (pre ++ l).
Proof.
  intros Hn Hne Hl. assert (1 <= length l) by (destruct l; [contradiction | cbn; lia]). unfold build. cbn [length]. off (n =? 0).
  cbn -[Nat.ltb Nat.eqb]. off (n <? length pre + 1). off (length pre + 1 <? 1). cbn -[Nat.ltb Nat.eqb].
  off (length l <? n - length pre).
  replace (n - length pre) with (length l) by lia. rewrite firstn_all. cbn. now rewrite app_nil_r.
Qed.

End Args.

(* the deviations: a spread into a fixed function drops surplus elements, a spread into a function
   without parameters drops everything, and a short spread call of a variadic function passes the
   list as one argument - each is pinned by the project's own test table (vmFunctions_test.go) *)
Example spread_surplus_dropped_refuted :
  exists n pre l, received (build n false pre (Some l)) <> Some (supplied pre (Some l)) /\ received (build (A:=nat) n false pre (Some l)) <> None.
Proof. exists 2, [], [1; 2; 3]. cbn. split; discriminate. Qed.
Example spread_into_noparam_dropped_refuted :
  received (build (A:=nat) 0 false [] (Some [1])) = Some [].
Proof. reflexivity. Qed.
