(* Entry points of the extracted C11 checker.
   c11_check  ((value) (type))                   -> projection of the converted value | (error)
   c11a_check (n variadic (pre ...) spread)      -> (deliver (fixed ...) (tail ...)) | (list-as-one ...) | (reject) *)
From Coq Require Import List ZArith String Ascii Bool.
From Coq Require Import Floats.SpecFloat.
From Anko Require Import Base.Sexp Base.F64 Conv.Convert Conv.CallArgs.
Import ListNotations.
Open Scope string_scope.

Fixpoint dec_sval (fuel : nat) (s : sexp) : option sval :=
  match fuel with O => None | S f =>
  match s with
  | SL [SA "nil"] => Some SNil
  | SL [SA "b"; b] => option_map SBool (as_bool b)
  | SL [SA "i"; z] => option_map SInt (as_Z z)
  | SL (SA "s" :: bs) => option_map SStr (Sexp.map_opt as_Z bs)
  | SL (SA "l" :: vs) => option_map SList (Sexp.map_opt (dec_sval f) vs)
  | SL [SA "f"; bits] => option_map (fun b => SFloat (F64.of_bits b)) (as_Z bits)
  | _ => None
  end end.

Fixpoint dec_ty (fuel : nat) (s : sexp) : option ty :=
  match fuel with O => None | S f =>
  match s with
  | SL [SA "iface"] => Some TIface
  | SL [SA "bool"] => Some TBool
  | SL [SA "string"] => Some TString
  | SL [SA "int"; SA n; w] => option_map (TInt n true) (as_Z w)
  | SL [SA "uint"; SA n; w] => option_map (TInt n false) (as_Z w)
  | SL [SA "slice"; e] => option_map TSlice (dec_ty f e)
  | SL [SA "float"; SA n; w] => option_map (TFloat n) (as_Z w)
  | _ => None
  end end.

Fixpoint join (sep : string) (l : list string) : string :=
  match l with [] => "" | [x] => x | x :: r => x ++ sep ++ join sep r end.

Definition hexd (n : Z) : string := String (ascii_of_nat (Z.to_nat (if (n <? 10)%Z then 48 + n else 87 + n)%Z)) "".
Definition hex_bytes (bs : list Z) : string := concat "" (map (fun b => hexd (b / 16) ++ hexd (b mod 16))%Z bs).

Fixpoint ty_name (t : ty) : string :=
  match t with
  | TIface => "interface {}"
  | TBool => "bool"
  | TInt n _ _ => n
  | TString => "string"
  | TSlice e => "[]" ++ ty_name e
  | TFloat n _ => n
  end.

(* bit pattern of a binary32 value held as a spec_float (results of round32 are canonical) *)
Definition to_bits32 (f : f64) : Z :=
  (let sb (s : bool) := if s then 2 ^ 31 else 0 in
  match f with
  | S754_zero s => sb s
  | S754_infinity s => sb s + 255 * 2 ^ 23
  | S754_nan => 2143289344
  | S754_finite s m e => if Zpos m <? 2 ^ 23 then sb s + Zpos m else sb s + (e + 150) * 2 ^ 23 + (Zpos m - 2 ^ 23)
  end)%Z.

Fixpoint proj_s (v : sval) : string :=
  match v with
  | SNil => "nil"
  | SBool b => if b then "bool:true" else "bool:false"
  | SInt z => "int64:" ++ Z_to_string z
  | SStr bs => "string:#" ++ hex_bytes bs ++ "#"
  | SList l => "[]interface {}[" ++ join "," (map proj_s l) ++ "]"
  | SFloat f => "float64:b" ++ Z_to_string (F64.to_bits f)
  end.

Fixpoint proj_t (v : tval) : string :=
  match v with
  | VDyn s => proj_s s
  | VBool b => if b then "bool:true" else "bool:false"
  | VInt n _ _ z => n ++ ":" ++ Z_to_string z
  | VStr bs => "string:#" ++ hex_bytes bs ++ "#"
  | VSlice e l => "[]" ++ ty_name e ++ "[" ++ join "," (map proj_t l) ++ "]"
  | VFloat n w f => n ++ ":b" ++ Z_to_string (if (w =? 32)%Z then to_bits32 f else F64.to_bits f)
  end.

Fixpoint sdepth (s : sexp) : nat :=
  match s with SA _ => 1%nat | SL l => S (fold_right (fun x acc => Nat.max (sdepth x) acc) 0%nat l) end.

Definition c11_check (s : sexp) : sexp :=
  match s with
  | SL [v; t] =>
    match dec_sval (S (sdepth v)) v, dec_ty (S (sdepth t)) t with
    | Some v, Some t => match conv v t with Some r => SL [SA "ok"; SA (proj_t r)] | None => SL [SA "error"] end
    | _, _ => SL [SA "undecodable"]
    end
  | _ => SL [SA "undecodable"]
  end.

Definition c11a_check (s : sexp) : sexp :=
  match s with
  | SL [n; v; pre; sp] =>
    match as_nat n, as_bool v, as_list as_Z pre, as_opt (as_list as_Z) sp with
    | Some n, Some v, Some pre, Some sp =>
      match build n v pre sp with
      | Deliver f t => SL [SA "deliver"; SL (map sZ f); SL (map sZ t)]
      | DeliverListAsOne f w => SL [SA "list-as-one"; SL (map sZ f); SL (map sZ w)]
      | Reject => SL [SA "reject"]
      end
    | _, _, _, _ => SL [SA "undecodable"]
    end
  | _ => SL [SA "undecodable"]
  end.

(* Entry point c10t: a typed container and a history of operations (Conv/Typed.v).
   input  ((slice TY n) | (map KT ET) | (struct (name TY) ...))  (op ...)
   ops    (store i V) (read i) (append V) (mstore K V) (mread K) (mdel K) (fstore name V) (fread name)
   output one observation per operation: (E) (nil) (v proj) (m typename (kproj vproj) ...) *)
From Anko Require Import Conv.Typed.

Definition dec_field (s : sexp) : option (string * ty * tval) :=
  match s with
  | SL [SA n; t] => match dec_ty 6 t with Some t => Some (n, t, zero t) | None => None end
  | _ => None
  end.

Definition dec_cont (s : sexp) : option tcont :=
  match s with
  | SL [SA "slice"; t; n] => match dec_ty 6 t, as_nat n with Some t, Some n => Some (KSlice t (repeat (zero t) n)) | _, _ => None end
  | SL [SA "map"; k; e] => match dec_ty 6 k, dec_ty 6 e with Some k, Some e => Some (KMap k e []) | _, _ => None end
  | SL (SA "struct" :: fs) => option_map KStruct (Sexp.map_opt dec_field fs)
  | _ => None
  end.

Definition dec_top (s : sexp) : option top :=
  let V x := dec_sval (S (sdepth x)) x in
  match s with
  | SL [SA "store"; i; v] => match as_Z i, V v with Some i, Some v => Some (OStore i v) | _, _ => None end
  | SL [SA "read"; i] => option_map ORead (as_Z i)
  | SL [SA "append"; v] => option_map OAppend (V v)
  | SL [SA "mstore"; k; v] => match V k, V v with Some k, Some v => Some (OMapStore k v) | _, _ => None end
  | SL [SA "mread"; k] => option_map OMapRead (V k)
  | SL [SA "mdel"; k] => option_map OMapDelete (V k)
  | SL [SA "fstore"; SA f; v] => option_map (OFieldStore f) (V v)
  | SL [SA "fread"; SA f] => Some (OFieldRead f)
  | _ => None
  end.

Definition enc_obs (x : obs) : sexp :=
  match x with
  | XErr => SL [SA "E"]
  | XNil => SL [SA "nil"]
  | XVal v => SL [SA "v"; SA (proj_t v)]
  | XCont (KSlice e l) => SL [SA "v"; SA (proj_t (VSlice e l))]
  | XCont (KMap k e m) => SL (SA "m" :: SA ("map[" ++ ty_name k ++ "]" ++ ty_name e) :: map (fun kv => SL [SA (proj_t (fst kv)); SA (proj_t (snd kv))]) m)
  | XCont (KStruct _) => SL [SA "struct"]
  end.

Definition c10t_check (s : sexp) : sexp :=
  match s with
  | SL [c; SL ops] =>
    match dec_cont c, Sexp.map_opt dec_top ops with
    | Some c, Some ops => SL (map enc_obs (snd (trun c ops)))
    | _, _ => SL [SA "undecodable"]
    end
  | _ => SL [SA "undecodable"]
  end.
