(* Typed containers only ever hold values of their declared type; a failing store leaves the container
   as it was; a cell reads back what was last stored in it; other cells are not disturbed. *)
From Coq Require Import List ZArith String Bool Lia.
From Anko Require Import Conv.Convert Conv.Typed.
Import ListNotations.
Open Scope Z_scope.

Lemma conv_nil t : conv SNil t = Some (zero t).
Proof. destruct t; reflexivity. Qed.

Lemma conv_type v t r : t <> TIface -> conv v t = Some r -> type_of r = Some t.
Proof.
  intros Ht H. destruct v as [| b | z | bs | l | f].
  - rewrite conv_nil in H. injection H as <-. destruct t; try reflexivity. exfalso; apply Ht; reflexivity.
  - destruct t; cbn in H; try discriminate; try (exfalso; apply Ht; reflexivity). injection H as <-. reflexivity.
  - destruct t; cbn in H; try discriminate; try (exfalso; apply Ht; reflexivity); injection H as <-; reflexivity.
  - destruct t as [| | n s w | | e | fn fw]; cbn in H; try discriminate; try (exfalso; apply Ht; reflexivity);
      repeat match type of H with context [if ?c then _ else _] => destruct c end;
      try discriminate; try (injection H as <-; reflexivity).
    destruct bs as [|b [|b2 r2]]; try discriminate; injection H as <-; reflexivity.
  - destruct t as [| | n s w | | e | fn fw]; try discriminate; try (exfalso; apply Ht; reflexivity).
    cbn in H. match type of H with option_map _ ?x = _ => destruct x as [ys|] end; [|discriminate].
    injection H as <-. reflexivity.
  - destruct t; cbn in H; try discriminate; try (exfalso; apply Ht; reflexivity); injection H as <-; reflexivity.
Qed.

Lemma conv_has_type v t r : conv v t = Some r -> has_type t r.
Proof.
  intro H. destruct t as [| | n s w | | e | fn fw].
  - destruct v; cbn in H; injection H as <-; eexists; reflexivity.
  - apply (conv_type v); [discriminate | exact H].
  - apply (conv_type v); [discriminate | exact H].
  - apply (conv_type v); [discriminate | exact H].
  - apply (conv_type v); [discriminate | exact H].
  - apply (conv_type v); [discriminate | exact H].
Qed.

Lemma append_conv_has_type t v r : append_conv t v = Some r -> has_type t r.
Proof.
  destruct t as [| | n s w | | e | fn fw]; cbn; intro H.
  - injection H as <-. eexists; reflexivity.
  - destruct v; try discriminate; injection H as <-; reflexivity.
  - destruct v; try discriminate; injection H as <-; reflexivity.
  - destruct v; try discriminate; injection H as <-; reflexivity.
  - destruct v as [| | | |l|]; try discriminate.
    destruct (Convert.map_opt (append_conv e) l); [|discriminate]. injection H as <-. reflexivity.
  - destruct v; try discriminate; injection H as <-; reflexivity.
Qed.

(* ---- list cells ---- *)
Lemma l_set_length l i x : List.length (l_set l i x) = List.length l.
Proof. revert i. induction l as [|y r IH]; intros [|i]; cbn; auto. Qed.

Lemma l_set_same l i x : (i < List.length l)%nat -> nth_error (l_set l i x) i = Some x.
Proof. revert i. induction l as [|y r IH]; intros [|i] H; cbn in *; try lia; auto; apply IH; lia. Qed.

Lemma l_set_other l i j x : j <> i -> nth_error (l_set l i x) j = nth_error l j.
Proof. revert i j. induction l as [|y r IH]; intros [|i] [|j] H; cbn; auto; try lia; apply IH; lia. Qed.

Lemma l_set_forall (P : tval -> Prop) l i x : Forall P l -> P x -> Forall P (l_set l i x).
Proof.
  intros Hl Hx. revert i. induction Hl as [|y r Hy Hr IH]; intros [|i]; cbn; constructor; auto.
Qed.

(* ---- map cells ---- *)
Lemma m_set_forall (P : tval * tval -> Prop) m k v : Forall P m -> (forall k', P (k', v) \/ True) ->
  (forall k' v', P (k', v') -> key_eqb k' k = true -> P (k', v)) -> P (k, v) -> Forall P (m_set m k v).
Proof.
  intros Hm _ Hrep Hkv. induction Hm as [|[k' v'] r Hy Hr IH]; cbn.
  - constructor; [exact Hkv | constructor].
  - destruct (key_eqb k' k) eqn:E; constructor; auto. eapply Hrep; eauto.
Qed.

Lemma m_del_forall (P : tval * tval -> Prop) m k : Forall P m -> Forall P (m_del m k).
Proof.
  intro Hm. induction Hm as [|[k' v'] r Hy Hr IH]; cbn; [constructor|].
  destruct (key_eqb k' k); [exact Hr | constructor; assumption].
Qed.

Lemma m_get_set_same m k v : key_eqb k k = true -> m_get (m_set m k v) k = Some v.
Proof.
  intro Hk. induction m as [|[k' v'] r IH]; cbn.
  - rewrite Hk. reflexivity.
  - destruct (key_eqb k' k) eqn:E; cbn; rewrite E; [reflexivity | exact IH].
Qed.

Lemma bytes_eqb_refl b : bytes_eqb b b = true.
Proof. induction b as [|x r IH]; cbn; [reflexivity|]. rewrite Z.eqb_refl. exact IH. Qed.

Lemma bytes_eqb_eq a b : bytes_eqb a b = true -> a = b.
Proof.
  revert b. induction a as [|x a IH]; intros [|y b] H; cbn in H; try discriminate; [reflexivity|].
  apply andb_prop in H as [H1 H2]. apply Z.eqb_eq in H1. subst. f_equal. apply IH. exact H2.
Qed.

(* the key types of Go maps in this model: bool, integers, strings *)
Definition keyable (t : ty) : Prop := match t with TBool | TInt _ _ _ | TString => True | _ => False end.

Lemma key_eqb_refl t k : keyable t -> has_type t k -> key_eqb k k = true.
Proof.
  intros Hk Ht. destruct t; try contradiction; cbn in Ht; destruct k; cbn in Ht; try discriminate; cbn.
  - destruct b; reflexivity.
  - apply Z.eqb_refl.
  - apply bytes_eqb_refl.
Qed.

Lemma key_eqb_trans a b c : key_eqb a b = true -> key_eqb b c = key_eqb a c.
Proof.
  destruct a, b; cbn; try discriminate; intro H; destruct c; cbn; try reflexivity.
  - apply Bool.eqb_prop in H. subst. reflexivity.
  - apply Z.eqb_eq in H. subst. reflexivity.
  - apply bytes_eqb_eq in H. subst. reflexivity.
Qed.

Lemma m_get_set_other m k k2 v : key_eqb k k2 = false -> key_eqb k k = true -> m_get (m_set m k v) k2 = m_get m k2.
Proof.
  intros Hne Hk. induction m as [|[k' v'] r IH]; cbn.
  - rewrite Hne. reflexivity.
  - destruct (key_eqb k' k) eqn:E; cbn.
    + rewrite (key_eqb_trans _ _ k2 E) in Hne. rewrite Hne.
      destruct (key_eqb k' k2) eqn:E2; [congruence | reflexivity].
    + destruct (key_eqb k' k2); [reflexivity | exact IH].
Qed.

(* ---- struct fields ---- *)
Lemma f_set_forall fs f x t v0 : Forall (fun g => has_type (snd (fst g)) (snd g)) fs -> f_get fs f = Some (t, v0) -> has_type t x ->
  Forall (fun g => has_type (snd (fst g)) (snd g)) (f_set fs f x).
Proof.
  intros Hf. revert t v0. induction Hf as [|[[n t'] v'] r Hy Hr IH]; intros t v0 Hg Hx; cbn in *; [constructor|].
  destruct (String.eqb n f); constructor; auto.
  - cbn. injection Hg as -> _. exact Hx.
  - eapply IH; eauto.
Qed.

Lemma f_get_set_same fs f x t v0 : f_get fs f = Some (t, v0) -> f_get (f_set fs f x) f = Some (t, x).
Proof.
  revert t v0. induction fs as [|[[n t'] v'] r IH]; intros t v0 H; cbn in *; [discriminate|].
  destruct (String.eqb n f) eqn:E; cbn; rewrite E; [injection H as -> _; reflexivity | eapply IH; eauto].
Qed.

Lemma f_get_set_other fs f g x : f <> g -> f_get (f_set fs f x) g = f_get fs g.
Proof.
  intro Hne. induction fs as [|[[n t'] v'] r IH]; cbn; [reflexivity|].
  destruct (String.eqb n f) eqn:E; cbn.
  - apply String.eqb_eq in E. subst n. destruct (String.eqb f g) eqn:E2; [apply String.eqb_eq in E2; contradiction | reflexivity].
  - destruct (String.eqb n g); [reflexivity | exact IH].
Qed.

(* ---- the invariant ---- *)
Theorem step_keeps_types c o : well_typed c -> well_typed (fst (tstep c o)).
Proof.
  intro H. destruct c as [e l | kt et m | fs], o; cbn [tstep]; try exact H.
  - (* slice store *)
    destruct ((i <? 0) || (Z.of_nat (List.length l) <? i)); [exact H|].
    destruct (conv v e) as [x|] eqn:E; [|exact H]. apply conv_has_type in E.
    destruct (i =? Z.of_nat (List.length l)); cbn.
    + apply Forall_app. split; [exact H | constructor; [exact E | constructor]].
    + apply l_set_forall; assumption.
  - destruct ((i <? 0) || (Z.of_nat (List.length l) <=? i)); [exact H|]. destruct (nth_error l (Z.to_nat i)); exact H.
  - destruct (append_conv e v) as [x|] eqn:E; [|exact H]. apply append_conv_has_type in E. cbn.
    apply Forall_app. split; [exact H | constructor; [exact E | constructor]].
  - destruct (conv k kt) as [k'|] eqn:Ek; [|exact H]. destruct (conv v et) as [v'|] eqn:Ev; [|exact H].
    apply conv_has_type in Ek. apply conv_has_type in Ev. cbn. cbn in H.
    clear - H Ek Ev. induction H as [|[k0 v0] r Hy Hr IH]; cbn.
    + constructor; [split; assumption | constructor].
    + destruct (key_eqb k0 k'); constructor; auto. split; [apply Hy | exact Ev].
  - destruct (conv k kt) as [k'|]; [|exact H]. destruct (m_get m k'); exact H.
  - destruct (conv k kt) as [k'|]; [|exact H]. cbn. apply m_del_forall. exact H.
  - destruct (f_get fs f) as [[t v0]|] eqn:Eg; [|exact H]. destruct (conv v t) as [x|] eqn:E; [|exact H].
    apply conv_has_type in E. cbn. eapply f_set_forall; eauto.
  - destruct (f_get fs f) as [[t x]|]; exact H.
Qed.

Lemma trun_fst c ops : fst (trun c ops) = fold_left (fun c o => fst (tstep c o)) ops c.
Proof.
  revert c. induction ops as [|o r IH]; intro c; cbn; [reflexivity|].
  destruct (tstep c o) as [c1 x] eqn:E1. destruct (trun c1 r) as [c2 xs] eqn:E2. cbn.
  specialize (IH c1). rewrite E2 in IH. exact IH.
Qed.

Theorem every_reachable_container_is_well_typed c ops : well_typed c -> well_typed (fst (trun c ops)).
Proof.
  rewrite trun_fst. revert c. induction ops as [|o r IH]; intros c H; cbn; [exact H|].
  apply IH. apply step_keeps_types. exact H.
Qed.

(* a failing operation leaves the container exactly as it was *)
Theorem error_leaves_the_container c o : snd (tstep c o) = XErr -> fst (tstep c o) = c.
Proof.
  destruct c as [e l | kt et m | fs], o; cbn [tstep]; try reflexivity.
  - destruct ((i <? 0) || (Z.of_nat (List.length l) <? i)); [reflexivity|]. destruct (conv v e); [|reflexivity]. cbn. discriminate.
  - destruct ((i <? 0) || (Z.of_nat (List.length l) <=? i)); [reflexivity|]. destruct (nth_error l (Z.to_nat i)); reflexivity.
  - destruct (append_conv e v); [|reflexivity]. cbn. discriminate.
  - destruct (conv k kt); [|reflexivity]. destruct (conv v et); [|reflexivity]. cbn. discriminate.
  - destruct (conv k kt) as [k'|]; [|reflexivity]. destruct (m_get m k'); reflexivity.
  - destruct (conv k kt); [|reflexivity]. cbn. discriminate.
  - destruct (f_get fs f) as [[t v0]|]; [|reflexivity]. destruct (conv v t); [|reflexivity]. cbn. discriminate.
  - destruct (f_get fs f) as [[t x]|]; reflexivity.
Qed.

(* reads never change anything *)
Theorem reads_change_nothing c : (forall i, fst (tstep c (ORead i)) = c) /\ (forall k, fst (tstep c (OMapRead k)) = c)
  /\ (forall f, fst (tstep c (OFieldRead f)) = c).
Proof.
  repeat split; intros; destruct c as [e l | kt et m | fs]; cbn [tstep]; try reflexivity.
  - destruct ((i <? 0) || (Z.of_nat (List.length l) <=? i)); [reflexivity|]. destruct (nth_error l (Z.to_nat i)); reflexivity.
  - destruct (conv k kt) as [k'|]; [|reflexivity]. destruct (m_get m k'); reflexivity.
  - destruct (f_get fs f) as [[t x]|]; reflexivity.
Qed.

Lemma read_in_range e l i x : 0 <= i < Z.of_nat (List.length l) -> nth_error l (Z.to_nat i) = Some x ->
  tstep (KSlice e l) (ORead i) = (KSlice e l, XVal x).
Proof.
  intros Hi Hn. cbn [tstep].
  destruct (Z.ltb_spec i 0); [lia|]. destruct (Z.leb_spec (Z.of_nat (List.length l)) i); [lia|].
  cbn [orb]. rewrite Hn. reflexivity.
Qed.

Lemma store_in_range e l i v x : 0 <= i <= Z.of_nat (List.length l) -> conv v e = Some x ->
  tstep (KSlice e l) (OStore i v) =
  (KSlice e (if i =? Z.of_nat (List.length l) then l ++ [x] else l_set l (Z.to_nat i) x),
   XCont (KSlice e (if i =? Z.of_nat (List.length l) then l ++ [x] else l_set l (Z.to_nat i) x))).
Proof.
  intros Hi Hc. cbn [tstep].
  destruct (Z.ltb_spec i 0); [lia|]. destruct (Z.ltb_spec (Z.of_nat (List.length l)) i); [lia|]. cbn [orb].
  rewrite Hc. destruct (i =? Z.of_nat (List.length l)); reflexivity.
Qed.

(* a slice element reads back the converted value last stored at its index; other indices keep theirs *)
Theorem slice_store_then_read e l i v x : 0 <= i <= Z.of_nat (List.length l) -> conv v e = Some x ->
  exists l', tstep (KSlice e l) (OStore i v) = (KSlice e l', XCont (KSlice e l'))
    /\ tstep (KSlice e l') (ORead i) = (KSlice e l', XVal x)
    /\ (forall j, j <> Z.to_nat i -> (j < List.length l)%nat -> nth_error l' j = nth_error l j)
    /\ List.length l' = (if i =? Z.of_nat (List.length l) then S (List.length l) else List.length l).
Proof.
  intros Hi Hc. rewrite (store_in_range e l i v x Hi Hc).
  destruct (Z.eqb_spec i (Z.of_nat (List.length l))) as [E|E].
  - exists (l ++ [x]). split; [reflexivity|]. repeat split.
    + apply read_in_range; [rewrite app_length; cbn; lia|].
      subst i. rewrite Nat2Z.id. rewrite nth_error_app2 by lia. rewrite Nat.sub_diag. reflexivity.
    + intros j _ Hj. apply nth_error_app1. exact Hj.
    + rewrite app_length. cbn. lia.
  - exists (l_set l (Z.to_nat i) x). split; [reflexivity|]. repeat split.
    + apply read_in_range; [rewrite l_set_length; lia|]. apply l_set_same. lia.
    + intros j Hj _. apply l_set_other. exact Hj.
    + apply l_set_length.
Qed.

(* a map entry reads back the converted value last stored under its key; other keys keep theirs *)
Theorem map_store_then_read kt et m k v k' v' : keyable kt -> conv k kt = Some k' -> conv v et = Some v' ->
  tstep (KMap kt et m) (OMapStore k v) = (KMap kt et (m_set m k' v'), XCont (KMap kt et (m_set m k' v')))
  /\ tstep (KMap kt et (m_set m k' v')) (OMapRead k) = (KMap kt et (m_set m k' v'), XVal v')
  /\ forall k2, key_eqb k' k2 = false -> m_get (m_set m k' v') k2 = m_get m k2.
Proof.
  intros Hk Ek Ev. pose proof (key_eqb_refl kt k' Hk (conv_has_type _ _ _ Ek)) as Hr.
  cbn [tstep]. rewrite Ek, Ev. repeat split.
  - rewrite m_get_set_same by exact Hr. reflexivity.
  - intros k2 Hne. apply m_get_set_other; assumption.
Qed.

(* a field reads back the converted value last stored in it; an unknown field is an error; other fields keep theirs *)
Theorem field_store_then_read fs f t v0 v x : f_get fs f = Some (t, v0) -> conv v t = Some x ->
  tstep (KStruct fs) (OFieldStore f v) = (KStruct (f_set fs f x), XVal x)
  /\ tstep (KStruct (f_set fs f x)) (OFieldRead f) = (KStruct (f_set fs f x), XVal x)
  /\ forall g, f <> g -> f_get (f_set fs f x) g = f_get fs g.
Proof.
  intros Hg Hc. cbn [tstep]. rewrite Hg, Hc. repeat split.
  - rewrite (f_get_set_same _ _ _ _ _ Hg). reflexivity.
  - intros g Hne. apply f_get_set_other. exact Hne.
Qed.

Theorem unknown_field_is_an_error fs f v : f_get fs f = None ->
  tstep (KStruct fs) (OFieldStore f v) = (KStruct fs, XErr) /\ tstep (KStruct fs) (OFieldRead f) = (KStruct fs, XErr).
Proof. intro H. cbn [tstep]. rewrite H. split; reflexivity. Qed.
