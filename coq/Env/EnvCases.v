(* Concrete instantiation of the env model used by the correspondence check,
   and the comparison function evaluated by vm_compute on harness-written
   cases.  The harness (harness/c12.go) uses the same value/type universe. *)
From Coq Require Import String List Bool Arith.
From Anko Require Import Base.Assoc Env.EnvModel.
Import ListNotations.
Open Scope string_scope.

(* values bound by the harness: opaque tokens (addressable or not) and modules *)
Inductive cval := CTok (n : nat) (addressable : bool) | CEnv (i : nat).
Definition ctype := nat.

Definition c_as_env (v : cval) : option nat := match v with CEnv i => Some i | _ => None end.
Definition c_can_addr (v : cval) : bool := match v with CTok _ a => a | CEnv _ => false end.

(* external lookups offered by the harness: two fixed tables *)
Definition c_ext_get (x : nat) (s : string) : option cval :=
  match x with
  | 0 => if String.eqb s "a" then Some (CTok 900 false)
         else if String.eqb s "x" then Some (CTok 901 true) else None
  | 1 => if String.eqb s "b" then Some (CTok 910 false)
         else if String.eqb s "m" then Some (CTok 911 false) else None
  | _ => None
  end.
Definition c_ext_type (x : nat) (s : string) : option ctype :=
  match x with
  | 0 => if String.eqb s "T" then Some 800 else if String.eqb s "int64" then Some 801 else None
  | 1 => if String.eqb s "U" then Some 810 else None
  | _ => None
  end.

(* env.go basicTypes as tokens 100..112 in the order of the Go map literal;
   rune is an alias of int32 in Go, so both names denote one type *)
Definition c_basic (s : string) : option ctype :=
  alookup [("interface", 100); ("bool", 101); ("string", 102); ("int", 103); ("int32", 104);
           ("int64", 105); ("uint", 106); ("uint32", 107); ("uint64", 108); ("byte", 109);
           ("rune", 104); ("float32", 111); ("float64", 112)] s.

(* the code as it stands: GetEnvFromPath repaired (see known_findings.txt) *)
Definition c_path_fixed := true.

Definition cstep := @step cval ctype c_as_env CEnv c_can_addr c_ext_get c_ext_type c_basic c_path_fixed.
Notation cscope := (@scope cval ctype).
Notation cop := (@op cval ctype).
Notation cout := (@out cval ctype).

(* ---- comparison ---- *)
Definition errc_eqb (a b : errc) : bool :=
  match a, b with
  | ErrDot, ErrDot | ErrUndefSym, ErrUndefSym | ErrUndefType, ErrUndefType
  | ErrNoNamespace, ErrNoNamespace | ErrUnaddressable, ErrUnaddressable => true
  | _, _ => false
  end.
Definition cval_eqb (a b : cval) : bool :=
  match a, b with
  | CTok n x, CTok m y => Nat.eqb n m && Bool.eqb x y
  | CEnv i, CEnv j => Nat.eqb i j
  | _, _ => false
  end.
Definition subset (a b : list string) : bool :=
  forallb (fun x => existsb (String.eqb x) b) a.
Definition same_set (a b : list string) : bool :=
  Nat.eqb (length a) (length b) && subset a b && subset b a.

Definition out_eqb (a b : cout) : bool :=
  match a, b with
  | RNone, RNone => true
  | RErr x, RErr y => errc_eqb x y
  | RVal x, RVal y => cval_eqb x y
  | RTy x, RTy y => Nat.eqb x y
  | RSyms x, RSyms y => same_set x y
  | REnv x, REnv y => Nat.eqb x y
  | RModule x None, RModule y None => Nat.eqb x y
  | RModule x (Some c), RModule y (Some d) => Nat.eqb x y && errc_eqb c d
  | RBool x, RBool y => Bool.eqb x y
  | RPanic, RPanic => true
  | _, _ => false
  end.

(* the observable content of one scope: what Get/Type return for each listed symbol *)
Definition dump := (list (string * cval) * list (string * ctype))%type.

Definition assoc_sub {A} (eqb : A -> A -> bool) (a b : list (string * A)) : bool :=
  forallb (fun '(k, v) => match alookup b k with Some w => eqb v w | None => false end) a.
Definition assoc_same {A} (eqb : A -> A -> bool) (a b : list (string * A)) : bool :=
  Nat.eqb (length a) (length b) && assoc_sub eqb a b && assoc_sub eqb b a.

Definition dump_eqb (a b : dump) : bool :=
  assoc_same cval_eqb (fst a) (fst b) && assoc_same Nat.eqb (snd a) (snd b).
Definition dump_of (sc : cscope) : dump := (sc_values sc, sc_types sc).

(* After a step the harness lists (id, dump) for every visible scope whose
   dump changed, or which is new.  The model must agree: listed scopes have the
   listed content, every other visible scope is unchanged. *)
Definition delta_ok (hidden : list nat) (h h' : list cscope) (delta : list (nat * dump)) : bool :=
  forallb (fun '(i, d) => match nth_error h' i with
                          | Some sc => dump_eqb (dump_of sc) d
                          | None => false end) delta
  && forallb (fun i =>
       if existsb (Nat.eqb i) hidden then true
       else if existsb (fun '(j, _) => Nat.eqb i j) delta then true
       else match nth_error h i, nth_error h' i with
            | Some a, Some b => dump_eqb (dump_of a) (dump_of b)
            | None, Some b => dump_eqb (dump_of b) ([], [])
            | _, _ => false
            end) (seq 0 (length h')).

Definition cstep_rec := (cop * cout * list (nat * dump))%type.

(* index of the first step on which model and implementation differ *)
Fixpoint check_steps (hidden : list nat) (h : list cscope) (l : list cstep_rec) (i : nat) : option nat :=
  match l with
  | [] => None
  | (o, expect, delta) :: r =>
    let '(h', got) := cstep h o in
    if out_eqb got expect && delta_ok hidden h h' delta
    then check_steps hidden h' r (S i)
    else Some i
  end.

Definition check_case (c : list nat * list cstep_rec) : option nat :=
  check_steps (fst c) [] (snd c) 0.

(* indices (case, step) of mismatching cases *)
Definition mismatches (cs : list (list nat * list cstep_rec)) : list (nat * nat) :=
  (fix go (l : list (list nat * list cstep_rec)) (i : nat) :=
     match l with
     | [] => []
     | c :: r => match check_case c with
                 | Some k => (i, k) :: go r (S i)
                 | None => go r (S i)
                 end
     end) cs 0.

(* for replay: the model's own outputs *)
Definition model_outputs (c : list nat * list cstep_rec) : list cout :=
  (fix go (h : list cscope) (l : list cstep_rec) :=
     match l with
     | [] => []
     | (o, _, _) :: r => let '(h', got) := cstep h o in got :: go h' r
     end) [] (snd c).
