(* Invariants of the API state machine and the frame property, for every
   operation and, by induction on the operation list, for every history. *)
From Coq Require Import String List Bool Arith Lia.
From Anko Require Import Base.Assoc Env.EnvModel Env.EnvProofs.
Import ListNotations.
Set Default Proof Using "All".

Section Step.
Context {V T : Type}.
Variable as_env : V -> option nat.
Variable mk_env : nat -> V.
Variable can_addr : V -> bool.
Variable ext_get : nat -> string -> option V.
Variable ext_type : nat -> string -> option T.
Variable basic_type : string -> option T.
Variable path_fixed : bool.
Hypothesis mk_env_is_env : forall m, as_env (mk_env m) = Some m.

Notation scope := (@scope V T).
Notation op := (@op V T).
Notation out := (@out V T).
Notation step := (@step V T as_env mk_env can_addr ext_get ext_type basic_type path_fixed).
Notation run := (@run V T as_env mk_env can_addr ext_get ext_type basic_type path_fixed).
Notation modules_valid := (@modules_valid V T as_env).

Definition inv (h : list scope) : Prop := wf h /\ modules_valid h.

(* a request the harness (or a script) can make: the addressed scope exists
   and a module passed as a value is a scope of the heap *)
Definition val_ok (h : list scope) (v : V) : bool :=
  match as_env v with Some m => m <? length h | None => true end.

Definition op_valid (h : list scope) (o : op) : bool :=
  match target o with
  | None => true
  | Some e => (e <? length h) &&
              match o with
              | ODefine _ _ v | ODefineGlobal _ _ v | OSet _ _ v => val_ok h v
              | _ => true
              end
  end.

Fixpoint hist_valid (h : list scope) (ops : list op) : Prop :=
  match ops with
  | [] => True
  | o :: r => op_valid h o = true /\ hist_valid (fst (step h o)) r
  end.

Definition good_out (o : out) : Prop := o <> RPanic /\ o <> RFuel /\ o <> RBad.

(* ---------- small facts ---------- *)
Lemma modules_valid_upd_values (h : list scope) e f :
  modules_valid h ->
  (forall sc k v m, nth_error h e = Some sc -> alookup (sc_values (f sc)) k = Some v -> as_env v = Some m -> m < length h) ->
  modules_valid (upd h e f).
Proof.
  intros Hmv Hf i sc k v m Hn Hl Ha. rewrite upd_length. rewrite upd_nth in Hn.
  destruct (Nat.eqb_spec i e) as [->|Hne].
  - destruct (nth_error h e) as [sc0|] eqn:E; cbn in Hn; [|discriminate].
    injection Hn as <-. eauto.
  - eauto.
Qed.

Lemma modules_valid_app (h : list scope) l :
  modules_valid h ->
  (forall sc k v m, In sc l -> alookup (sc_values sc) k = Some v -> as_env v = Some m -> m < length h + length l) ->
  modules_valid (h ++ l).
Proof.
  intros Hmv Hl i sc k v m Hn Hlk Ha. rewrite app_length.
  destruct (Nat.lt_ge_cases i (length h)) as [Hlt|Hge].
  - rewrite nth_error_app1 in Hn by assumption. specialize (Hmv _ _ _ _ _ Hn Hlk Ha). lia.
  - rewrite nth_error_app2 in Hn by assumption. apply nth_error_In in Hn. eauto.
Qed.

Lemma inv_set (h : list scope) e sym v :
  inv h -> val_ok h v = true ->
  inv (upd h e (fun sc => set_values sc (aset (sc_values sc) sym v))).
Proof.
  intros [Hwf Hmv] Hv. split.
  - apply wf_upd; auto.
  - apply modules_valid_upd_values; auto.
    intros sc k w m E Hl Ha. cbn in Hl. rewrite alookup_aset in Hl.
    destruct (String.eqb k sym).
    + injection Hl as <-. unfold val_ok in Hv. rewrite Ha in Hv. now apply Nat.ltb_lt in Hv.
    + eauto.
Qed.

Lemma inv_del (h : list scope) e sym : inv h -> inv (delete h e sym).
Proof.
  intros [Hwf Hmv]. split.
  - apply wf_upd; auto.
  - apply modules_valid_upd_values; auto.
    intros sc k w m E Hl Ha. cbn in Hl. rewrite alookup_adel in Hl.
    destruct (String.eqb k sym); [discriminate|]. eauto.
Qed.

Lemma inv_set_types (h : list scope) e sym t :
  inv h -> inv (upd h e (fun sc => set_types sc (aset (sc_types sc) sym t))).
Proof.
  intros [Hwf Hmv]. split.
  - apply wf_upd; auto.
  - apply modules_valid_upd_values; auto. intros sc k w m E Hl Ha. cbn in Hl. eauto.
Qed.

Lemma inv_set_ext (h : list scope) e x : inv h -> inv (upd h e (fun sc => set_ext sc x)).
Proof.
  intros [Hwf Hmv]. split.
  - apply wf_upd; auto.
  - apply modules_valid_upd_values; auto. intros sc k w m E Hl Ha. cbn in Hl. eauto.
Qed.

Lemma inv_app_child (h : list scope) (p : option nat) :
  inv h -> (forall q, p = Some q -> q < length h) -> inv (h ++ [mkScope p [] [] None]).
Proof.
  intros [Hwf Hmv] Hp. split.
  - apply wf_app; auto.
  - apply modules_valid_app; auto. intros sc k v m [<-|[]] Hl. discriminate.
Qed.

Lemma inv_app_copy (h : list scope) sc e p :
  inv h -> nth_error h e = Some sc -> (forall q, p = Some q -> q < length h) ->
  inv (h ++ [mkScope p (sc_values sc) (sc_types sc) (sc_ext sc)]).
Proof.
  intros [Hwf Hmv] E Hp. split.
  - apply wf_app; auto.
  - apply modules_valid_app; auto. intros sc' k v m [<-|[]] Hl Ha. cbn in Hl.
    specialize (Hmv _ _ _ _ _ E Hl Ha). cbn. lia.
Qed.

(* ---------- deep copy ---------- *)
Lemma deep_copy_spec fuel (h : list scope) e :
  inv h -> e < fuel -> e < length h ->
  exists l, deep_copy fuel h e = Ok (h ++ l, length h + length l - 1) /\ l <> [] /\ inv (h ++ l) /\
            (forall k sc, nth_error l k = Some sc ->
                          forall p, sc_parent sc = Some p -> length h <= p).
Proof.
  intros Hinv. pose proof Hinv as [Hwf Hmv].
  revert e. induction fuel as [|f IH]; intros e Hf Hl; [lia|].
  cbn.
  destruct (nth_error h e) as [sc|] eqn:E.
  2:{ apply nth_error_None in E. lia. }
  destruct (sc_parent sc) as [p|] eqn:P.
  - pose proof (Hwf _ _ _ E P) as Hp.
    destruct (IH p) as [l1 [Heq [Hne [Hinv1 Hpar]]]]; try lia.
    rewrite Heq.
    exists (l1 ++ [mkScope (Some (length h + length l1 - 1)) (sc_values sc) (sc_types sc) (sc_ext sc)]).
    rewrite app_assoc, !app_length. cbn [length].
    assert (length l1 > 0) by (destruct l1; [congruence|cbn; lia]).
    split; [f_equal; f_equal; lia|].
    split; [destruct l1; discriminate|].
    split.
    + assert (Eh1 : nth_error (h ++ l1) e = Some sc) by (rewrite nth_error_app1 by lia; assumption).
      eapply inv_app_copy; eauto. intros q [= <-]. rewrite app_length. lia.
    + intros k sc' Hn q Hq.
      destruct (Nat.lt_ge_cases k (length l1)) as [Hlt|Hge].
      * rewrite nth_error_app1 in Hn by assumption. eauto.
      * rewrite nth_error_app2 in Hn by assumption.
        destruct (k - length l1) as [|k'] eqn:Ek; cbn in Hn.
        -- injection Hn as <-. cbn in Hq. injection Hq as <-. lia.
        -- destruct k'; discriminate.
  - exists [sc]. cbn [length]. split; [f_equal; f_equal; lia|].
    split; [discriminate|]. split.
    + destruct sc as [pp vs ts x]. cbn in P. subst pp.
      apply (inv_app_copy h _ e None Hinv E). discriminate.
    + intros [|k] sc' Hn q Hq; cbn in Hn.
      * injection Hn as <-. congruence.
      * destruct k; discriminate.
Qed.

(* ---------- one step ---------- *)
Ltac inv_pair := match goal with H : (_, _) = (_, _) |- _ => injection H as <- <- end.

Lemma op_valid_target h o e : op_valid h o = true -> target o = Some e -> e < length h.
Proof.
  unfold op_valid. intros H Ht. rewrite Ht in H. apply andb_true_iff in H as [H _].
  now apply Nat.ltb_lt in H.
Qed.

Lemma step_inv h o :
  path_fixed = true -> inv h -> op_valid h o = true ->
  inv (fst (step h o)) /\ length h <= length (fst (step h o)) /\ good_out (snd (step h o)).
Proof.
  intros Hfix Hinv Hv. pose proof Hinv as [Hwf Hmv].
  assert (Hgood : forall x, (forall y : out, x = y -> y <> RPanic /\ y <> RFuel /\ y <> RBad) -> good_out x)
    by (intros x Hx; apply (Hx x eq_refl)).
  unfold EnvModel.step.
  destruct (target o) as [e|] eqn:Ht.
  2:{ destruct o; try discriminate. cbn. split; [|split].
      - apply inv_app_child; auto. discriminate.
      - rewrite app_length. lia.
      - repeat split; discriminate. }
  pose proof (op_valid_target _ _ _ Hv Ht) as He.
  unfold valid. replace (e <? length h) with true by (symmetry; now apply Nat.ltb_lt).
  assert (Hval : forall v, match o with ODefine _ _ w | ODefineGlobal _ _ w | OSet _ _ w => w = v | _ => False end ->
                           val_ok h v = true).
  { intros v Hm. unfold op_valid in Hv. rewrite Ht in Hv. apply andb_true_iff in Hv as [_ Hv].
    destruct o; try contradiction; subst; assumption. }
  destruct (nth_error h e) as [sc|] eqn:E.
  2:{ apply nth_error_None in E. lia. }
  destruct o; cbn in Ht; try discriminate; injection Ht as ->; cbn [fst snd].
  - (* NewEnv *) cbn. split; [|split].
    + apply inv_app_child; auto. intros q [= <-]. assumption.
    + rewrite app_length; lia.
    + repeat split; discriminate.
  - (* NewModule *)
    unfold EnvModel.new_module, new_env, define_value.
    destruct (contains_dot s) eqn:D; cbn.
    + split; [|split]; [|rewrite app_length; lia|repeat split; discriminate].
      apply inv_app_child; auto. intros q [= <-]. assumption.
    + split; [|split]; [|rewrite upd_length, app_length; lia|repeat split; discriminate].
      apply inv_set.
      * apply inv_app_child; auto. intros q [= <-]. assumption.
      * unfold val_ok. rewrite mk_env_is_env. apply Nat.ltb_lt. rewrite app_length. cbn. lia.
  - (* SetExt *) cbn. split; [|split]; [apply inv_set_ext; auto|rewrite upd_length; lia|repeat split; discriminate].
  - (* Define *)
    unfold define_value. destruct (contains_dot s); cbn.
    + split; [|split]; auto. repeat split; discriminate.
    + split; [|split]; [apply inv_set; auto|rewrite upd_length; lia|repeat split; discriminate].
  - (* DefineGlobal *)
    unfold define_global_value.
    destruct (root_of_spec (length h) h e Hwf) as [r [_ Hr]]; try lia. rewrite Hr.
    unfold define_value. destruct (contains_dot s); cbn.
    + split; [|split]; auto. repeat split; discriminate.
    + split; [|split]; [apply inv_set; auto|rewrite upd_length; lia|repeat split; discriminate].
  - (* Set *)
    rewrite set_value_spec by (auto; lia).
    destruct (nearest_binding h s _); cbn.
    + split; [|split]; [apply inv_set; auto|rewrite upd_length; lia|repeat split; discriminate].
    + split; [|split]; auto. repeat split; discriminate.
  - (* Get *)
    rewrite (get_value_spec ext_get) by (auto; lia).
    destruct (first_answer _ _ _); cbn; (split; [|split]; auto; repeat split; discriminate).
  - (* Addr *)
    destruct (addr_total can_addr ext_get (length h) h e s Hwf) as [[v Hr]|[c Hr]]; try lia;
      rewrite Hr; cbn; (split; [|split]; auto; repeat split; discriminate).
  - (* Symbols *) rewrite E. cbn. split; [|split]; auto. repeat split; discriminate.
  - (* Delete *) cbn. split; [|split]; [apply inv_del; auto|unfold delete; rewrite upd_length; lia|repeat split; discriminate].
  - (* DeleteGlobal *)
    destruct (delete_global_spec (length h) h e s Hwf) as [j [_ Hr]]; try lia. rewrite Hr. cbn.
    split; [|split]; [apply inv_del; auto|unfold delete; rewrite upd_length; lia|repeat split; discriminate].
  - (* DefineType *)
    unfold define_type. destruct (contains_dot s); cbn.
    + split; [|split]; auto. repeat split; discriminate.
    + split; [|split]; [apply inv_set_types; auto|rewrite upd_length; lia|repeat split; discriminate].
  - (* DefineGlobalType *)
    unfold define_global_type.
    destruct (root_of_spec (length h) h e Hwf) as [r [_ Hr]]; try lia. rewrite Hr.
    unfold define_type. destruct (contains_dot s); cbn.
    + split; [|split]; auto. repeat split; discriminate.
    + split; [|split]; [apply inv_set_types; auto|rewrite upd_length; lia|repeat split; discriminate].
  - (* Type *)
    rewrite (get_type_spec ext_type basic_type) by (auto; lia).
    destruct (first_answer _ _ _); cbn; [split; [|split]; auto; repeat split; discriminate|].
    destruct (basic_type s); cbn; (split; [|split]; auto; repeat split; discriminate).
  - (* TypeSymbols *) rewrite E. cbn. split; [|split]; auto. repeat split; discriminate.
  - (* Path *)
    unfold EnvModel.get_env_from_path. destruct p as [|p0 r]; cbn.
    { split; [|split]; auto. repeat split; discriminate. }
    destruct (path_start_total as_env path_fixed (length h) h e p0 Hfix Hwf Hmv) as [[m [Hr Hm]]|Hr];
      try lia; rewrite Hr.
    + destruct (path_rest_total as_env h m r Hmv Hm) as [[m' [Hr' _]]|Hr']; rewrite Hr'; cbn;
        (split; [|split]; auto; repeat split; discriminate).
    + cbn. split; [|split]; auto. repeat split; discriminate.
  - (* Copy *)
    unfold copy. rewrite E. cbn. split; [|split]; [|rewrite app_length; lia|repeat split; discriminate].
    destruct sc as [pp vs ts x]. apply (inv_app_copy h _ e pp Hinv E).
    intros q ->. specialize (Hwf _ _ _ E eq_refl). lia.
  - (* DeepCopy *)
    destruct (deep_copy_spec (length h) h e Hinv) as [l [Hr [_ [Hinv' _]]]]; auto; try lia.
    rewrite Hr. cbn. split; [|split]; auto; [rewrite app_length; lia|repeat split; discriminate].
  - (* HasParent *) rewrite E. cbn. split; [|split]; auto. repeat split; discriminate.
Qed.

(* ---------- every history ---------- *)
Lemma inv_nil : inv [].
Proof. split; intros [|i] ? ?; intros; discriminate. Qed.

Lemma run_cons h o r :
  run h (o :: r) = (fst (run (fst (step h o)) r), snd (step h o) :: snd (run (fst (step h o)) r)).
Proof. cbn. destruct (step h o) as [h1 x]. cbn. destruct (run h1 r) as [h2 xs]. reflexivity. Qed.

Theorem run_good ops : forall h,
  path_fixed = true -> inv h -> hist_valid h ops ->
  inv (fst (run h ops)) /\ Forall good_out (snd (run h ops)).
Proof.
  induction ops as [|o r IH]; intros h Hfix Hinv Hv.
  - cbn. auto.
  - destruct Hv as [Hvo Hvr]. rewrite run_cons. cbn [fst snd].
    destruct (step_inv h o Hfix Hinv Hvo) as [Hi [_ Hg]].
    destruct (IH _ Hfix Hi Hvr) as [Hi' Hg']. split; auto.
Qed.

(* ---------- frame: an operation only touches the chain of the scope it addresses ---------- *)
Definition avoids (P : nat -> Prop) (h : list scope) (o : op) : Prop :=
  match target o with
  | None => True
  | Some e => forall i, In i (chain (length h) h e) -> ~ P i
  end.

Lemma step_frame h o (P : nat -> Prop) :
  inv h -> op_valid h o = true -> avoids P h o ->
  forall i, P i -> i < length h -> nth_error (fst (step h o)) i = nth_error h i.
Proof.
  intros Hinv Hv Hav i HP Hi. pose proof Hinv as [Hwf Hmv].
  unfold EnvModel.step, avoids in *.
  destruct (target o) as [e|] eqn:Ht.
  2:{ destruct o; try discriminate. cbn. now apply nth_app_old. }
  pose proof (op_valid_target _ _ _ Hv Ht) as He.
  unfold valid. replace (e <? length h) with true by (symmetry; now apply Nat.ltb_lt).
  destruct (nth_error h e) as [sc|] eqn:E.
  2:{ apply nth_error_None in E. lia. }
  assert (Hie : i <> e).
  { intros ->. apply (Hav e); auto. destruct (length h) eqn:L; [lia|]. eapply chain_head; eauto. }
  assert (Hchain : forall j, In j (chain (length h) h e) -> i <> j) by (intros j Hj ->; eapply Hav; eauto).
  destruct o; cbn in Ht; try discriminate; injection Ht as ->; cbn [fst snd]; auto;
    try (rewrite E; reflexivity).
  - cbn. now apply nth_app_old.
  - unfold EnvModel.new_module, new_env, define_value.
    destruct (contains_dot s); cbn; [now apply nth_app_old|].
    rewrite upd_other by auto. now apply nth_app_old.
  - cbn. now apply upd_other.
  - unfold define_value. destruct (contains_dot s); cbn; auto. now apply upd_other.
  - unfold define_global_value.
    destruct (root_of_spec (length h) h e Hwf) as [r [Hin Hr]]; try lia. rewrite Hr.
    unfold define_value. destruct (contains_dot s); cbn; auto. apply upd_other. auto.
  - rewrite set_value_spec by (auto; lia).
    destruct (nearest_binding h s _) eqn:N; cbn; auto.
    apply upd_other. apply Hchain. eapply nearest_binding_in; eauto.
  - destruct (EnvModel.get_value _ _ _ _ _); cbn; auto.
  - destruct (EnvModel.addr _ _ _ _ _ _); cbn; auto.
  - cbn. unfold delete. now apply upd_other.
  - destruct (delete_global_spec (length h) h e s Hwf) as [j [Hin Hr]]; try lia. rewrite Hr. cbn.
    unfold delete. apply upd_other. auto.
  - unfold define_type. destruct (contains_dot s); cbn; auto. now apply upd_other.
  - unfold define_global_type.
    destruct (root_of_spec (length h) h e Hwf) as [r [Hin Hr]]; try lia. rewrite Hr.
    unfold define_type. destruct (contains_dot s); cbn; auto. apply upd_other. auto.
  - destruct (EnvModel.get_type _ _ _ _ _ _); cbn; auto.
  - destruct (EnvModel.get_env_from_path _ _ _ _ _ _); cbn; auto.
  - unfold copy. rewrite E. cbn. now apply nth_app_old.
  - destruct (deep_copy_spec (length h) h e Hinv) as [l [Hr _]]; auto; try lia.
    rewrite Hr. cbn. now apply nth_app_old.
Qed.

(* ---------- parents never change; existing scopes stay ---------- *)
Definition extends (h h' : list scope) : Prop :=
  forall i sc, nth_error h i = Some sc ->
               exists sc', nth_error h' i = Some sc' /\ sc_parent sc' = sc_parent sc.

Lemma extends_refl h : extends h h.
Proof. intros i sc E. eauto. Qed.

Lemma extends_trans h1 h2 h3 : extends h1 h2 -> extends h2 h3 -> extends h1 h3.
Proof.
  intros H12 H23 i sc E. destruct (H12 _ _ E) as [sc2 [E2 P2]].
  destruct (H23 _ _ E2) as [sc3 [E3 P3]]. exists sc3. split; congruence.
Qed.

Lemma extends_upd h e f : (forall sc, sc_parent (f sc) = sc_parent sc) -> extends h (upd h e f).
Proof.
  intros Hf i sc E. rewrite upd_nth. destruct (Nat.eqb_spec i e) as [->|Hne].
  - rewrite E. cbn. eauto.
  - eauto.
Qed.

Lemma extends_app (h : list scope) l : extends h (h ++ l).
Proof.
  intros i sc E. exists sc. split; auto. rewrite nth_error_app1; auto.
  apply nth_error_Some. congruence.
Qed.

Lemma step_extends h o : inv h -> op_valid h o = true -> extends h (fst (step h o)).
Proof.
  intros Hinv Hv. pose proof Hinv as [Hwf Hmv].
  unfold EnvModel.step.
  destruct (target o) as [e|] eqn:Ht.
  2:{ destruct o; try discriminate. cbn. apply extends_app. }
  pose proof (op_valid_target _ _ _ Hv Ht) as He.
  unfold valid. replace (e <? length h) with true by (symmetry; now apply Nat.ltb_lt).
  destruct (nth_error h e) as [sc|] eqn:E.
  2:{ apply nth_error_None in E. lia. }
  destruct o; cbn in Ht; try discriminate; injection Ht as ->; cbn [fst snd];
    try (rewrite E; apply extends_refl).
  - cbn. apply extends_app.
  - unfold EnvModel.new_module, new_env, define_value.
    destruct (contains_dot s); cbn; [apply extends_app|].
    eapply extends_trans; [apply extends_app|apply extends_upd; auto].
  - cbn. apply extends_upd; auto.
  - unfold define_value. destruct (contains_dot s); cbn; [apply extends_refl|apply extends_upd; auto].
  - unfold define_global_value.
    destruct (root_of_spec (length h) h e Hwf) as [r [Hin Hr]]; try lia. rewrite Hr.
    unfold define_value. destruct (contains_dot s); cbn; [apply extends_refl|apply extends_upd; auto].
  - rewrite set_value_spec by (auto; lia).
    destruct (nearest_binding h s _) eqn:N; cbn; [apply extends_upd; auto|apply extends_refl].
  - destruct (EnvModel.get_value _ _ _ _ _); cbn; apply extends_refl.
  - destruct (EnvModel.addr _ _ _ _ _ _); cbn; apply extends_refl.
  - cbn. unfold delete. apply extends_upd; auto.
  - destruct (delete_global_spec (length h) h e s Hwf) as [j [Hin Hr]]; try lia. rewrite Hr. cbn.
    unfold delete. apply extends_upd; auto.
  - unfold define_type. destruct (contains_dot s); cbn; [apply extends_refl|apply extends_upd; auto].
  - unfold define_global_type.
    destruct (root_of_spec (length h) h e Hwf) as [r [Hin Hr]]; try lia. rewrite Hr.
    unfold define_type. destruct (contains_dot s); cbn; [apply extends_refl|apply extends_upd; auto].
  - destruct (EnvModel.get_type _ _ _ _ _ _); cbn; apply extends_refl.
  - destruct (EnvModel.get_env_from_path _ _ _ _ _ _); cbn; apply extends_refl.
  - unfold copy. rewrite E. cbn. apply extends_app.
  - destruct (deep_copy_spec (length h) h e Hinv) as [l [Hr _]]; auto; try lia.
    rewrite Hr. cbn. apply extends_app.
Qed.

(* the chain of an existing scope is the same in every later heap *)
Lemma chain_extends fuel fuel' h h' e :
  wf h -> extends h h' -> e < fuel -> e < fuel' -> e < length h ->
  chain fuel' h' e = chain fuel h e.
Proof.
  intros Hwf Hext. revert fuel' e. induction fuel as [|f IH]; intros fuel' e Hf Hf' Hl; [lia|].
  destruct fuel' as [|f']; [lia|]. cbn.
  destruct (nth_error h e) as [sc|] eqn:E.
  2:{ apply nth_error_None in E. lia. }
  destruct (Hext _ _ E) as [sc' [E' P']]. rewrite E', P'.
  destruct (sc_parent sc) as [p|] eqn:P; [|reflexivity].
  pose proof (Hwf _ _ _ E P). f_equal. apply IH; lia.
Qed.

(* ---------- frame for every history ---------- *)
Fixpoint hist_avoids (P : nat -> Prop) (h : list scope) (ops : list op) : Prop :=
  match ops with
  | [] => True
  | o :: r => avoids P h o /\ hist_avoids P (fst (step h o)) r
  end.

Theorem run_frame (P : nat -> Prop) ops : forall h,
  path_fixed = true -> inv h -> hist_valid h ops -> (forall i, P i -> i < length h) ->
  hist_avoids P h ops ->
  forall i, P i -> nth_error (fst (run h ops)) i = nth_error h i.
Proof.
  induction ops as [|o r IH]; intros h Hfix Hinv Hv HP Hav i Hi; [reflexivity|].
  destruct Hv as [Hvo Hvr]. destruct Hav as [Hao Har]. rewrite run_cons. cbn [fst].
  destruct (step_inv h o Hfix Hinv Hvo) as [Hi' [Hlen _]].
  rewrite IH; auto.
  - eapply step_frame; eauto.
  - intros j Hj. specialize (HP j Hj). lia.
Qed.

(* a history whose operations all address scope t, whose chain avoids P *)
Lemma targets_avoid (P : nat -> Prop) t ops : forall h,
  path_fixed = true -> inv h -> hist_valid h ops -> t < length h ->
  Forall (fun o => target o = Some t) ops ->
  (forall i, In i (chain (length h) h t) -> ~ P i) ->
  hist_avoids P h ops.
Proof.
  induction ops as [|o r IH]; intros h Hfix Hinv Hv Ht Hall Hch; cbn; auto.
  destruct Hv as [Hvo Hvr]. inversion Hall as [|? ? Hto Hr]; subst.
  destruct (step_inv h o Hfix Hinv Hvo) as [Hi' [Hlen _]].
  split.
  - unfold avoids. rewrite Hto. assumption.
  - apply IH; auto; [lia|].
    intros i Hin. apply Hch.
    rewrite <- (chain_extends (length h) (length (fst (step h o))) h (fst (step h o)) t); auto;
      try lia; [apply Hinv|apply step_extends; auto].
Qed.

(* chains of scopes allocated at or after n whose parents are also >= n stay >= n *)
Lemma chain_ge fuel (h : list scope) n e i :
  (forall j sc p, n <= j -> nth_error h j = Some sc -> sc_parent sc = Some p -> n <= p) ->
  n <= e -> In i (chain fuel h e) -> n <= i.
Proof.
  intros Hpar. revert e. induction fuel as [|f IH]; cbn; intros e He Hin; [destruct Hin|].
  destruct (nth_error h e) as [sc|] eqn:E; [|destruct Hin].
  destruct Hin as [<-|Hin]; [assumption|].
  destruct (sc_parent sc) as [p|] eqn:P; [|destruct Hin].
  eapply IH; [|exact Hin]. eauto.
Qed.

(* DeepCopy: the whole chain of the copy is freshly allocated *)
Theorem deep_copy_fresh h e :
  inv h -> e < length h ->
  exists h' c, step h (ODeepCopy e) = (h', REnv c) /\ length h <= c /\ c < length h' /\
               (forall i, In i (chain (length h') h' c) -> length h <= i) /\
               (forall i, i < length h -> nth_error h' i = nth_error h i).
Proof.
  intros Hinv He. unfold EnvModel.step. cbn [target]. unfold valid.
  replace (e <? length h) with true by (symmetry; now apply Nat.ltb_lt).
  destruct (deep_copy_spec (length h) h e Hinv) as [l [Hr [Hne [Hinv' Hpar]]]]; auto.
  rewrite Hr. cbn. exists (h ++ l), (length h + length l - 1).
  assert (length l > 0) by (destruct l; [congruence|cbn; lia]).
  split; [reflexivity|]. split; [lia|]. split; [rewrite app_length; lia|]. split.
  - intros i Hin. eapply chain_ge; [|
      |exact Hin]; [|lia].
    intros j sc p Hj Hn Hp. rewrite nth_error_app2 in Hn by assumption. eauto.
  - intros i Hi. now apply nth_app_old.
Qed.

(* Copy: an exact snapshot of one scope under a fresh identity *)
Theorem copy_snapshot h e sc :
  nth_error h e = Some sc ->
  step h (OCopy e) = (h ++ [sc], REnv (length h)).
Proof.
  intros E. unfold EnvModel.step. cbn [target]. unfold valid.
  assert (e < length h) by (apply nth_error_Some; congruence).
  replace (e <? length h) with true by (symmetry; now apply Nat.ltb_lt).
  unfold copy. rewrite E. reflexivity.
Qed.

(* ---------- what the single operations do ---------- *)
Lemma valid_true (h : list scope) e : e < length h -> valid h e = true.
Proof. intros. now apply Nat.ltb_lt. Qed.

Theorem step_define h e s v :
  e < length h ->
  step h (ODefine e s v) =
    if contains_dot s then (h, RErr ErrDot)
    else (upd h e (fun sc => set_values sc (aset (sc_values sc) s v)), RNone).
Proof.
  intros He. unfold EnvModel.step. cbn [target]. rewrite valid_true by assumption.
  unfold define_value. destruct (contains_dot s); reflexivity.
Qed.

Theorem step_define_type h e s t :
  e < length h ->
  step h (ODefineType e s t) =
    if contains_dot s then (h, RErr ErrDot)
    else (upd h e (fun sc => set_types sc (aset (sc_types sc) s t)), RNone).
Proof.
  intros He. unfold EnvModel.step. cbn [target]. rewrite valid_true by assumption.
  unfold define_type. destruct (contains_dot s); reflexivity.
Qed.

Theorem step_delete h e s :
  e < length h ->
  step h (ODelete e s) = (upd h e (fun sc => set_values sc (adel (sc_values sc) s)), RNone).
Proof.
  intros He. unfold EnvModel.step. cbn [target]. rewrite valid_true by assumption. reflexivity.
Qed.

Theorem step_symbols h e sc :
  nth_error h e = Some sc -> step h (OSymbols e) = (h, RSyms (akeys (sc_values sc))).
Proof.
  intros E. unfold EnvModel.step. cbn [target].
  rewrite valid_true by (apply nth_error_Some; congruence). now rewrite E.
Qed.

Theorem dotted_rejected h o s :
  contains_dot s = true ->
  match o with
  | ODefine _ s' _ | ODefineGlobal _ s' _ | ODefineType _ s' _ | ODefineGlobalType _ s' _ => s' = s
  | _ => False
  end ->
  inv h -> op_valid h o = true -> step h o = (h, RErr ErrDot).
Proof.
  intros Hd Ho Hinv Hv. pose proof Hinv as [Hwf _].
  destruct o; try contradiction; subst;
    pose proof (op_valid_target _ _ _ Hv eq_refl) as He;
    unfold EnvModel.step; cbn [target]; rewrite valid_true by assumption.
  - unfold define_value. now rewrite Hd.
  - unfold define_global_value.
    destruct (root_of_spec (length h) h e Hwf) as [r [_ Hr]]; try lia. rewrite Hr.
    unfold define_value. now rewrite Hd.
  - unfold define_type. now rewrite Hd.
  - unfold define_global_type.
    destruct (root_of_spec (length h) h e Hwf) as [r [_ Hr]]; try lia. rewrite Hr.
    unfold define_type. now rewrite Hd.
Qed.

Theorem dotted_module_rejected h e s :
  contains_dot s = true -> e < length h ->
  step h (ONewModule e s) = (h ++ [mkScope (Some e) [] [] None], RModule (length h) (Some ErrDot)).
Proof.
  intros Hd He. unfold EnvModel.step. cbn [target]. rewrite valid_true by assumption.
  unfold EnvModel.new_module, new_env, define_value. now rewrite Hd.
Qed.

(* an operation that reports an error has changed nothing *)
Theorem step_err_unchanged h o c :
  inv h -> op_valid h o = true -> snd (step h o) = RErr c -> fst (step h o) = h.
Proof.
  intros Hinv Hv. pose proof Hinv as [Hwf Hmv].
  unfold EnvModel.step.
  destruct (target o) as [e|] eqn:Ht.
  2:{ destruct o; try discriminate. }
  pose proof (op_valid_target _ _ _ Hv Ht) as He.
  rewrite valid_true by assumption.
  destruct (nth_error h e) as [sc|] eqn:E.
  2:{ apply nth_error_None in E. lia. }
  destruct o; cbn in Ht; try discriminate; injection Ht as ->; cbn [fst snd];
    try (rewrite E; cbn; discriminate); try (cbn; discriminate).
  - unfold EnvModel.new_module, new_env, define_value. destruct (contains_dot s); cbn; discriminate.
  - unfold define_value. destruct (contains_dot s); cbn; [reflexivity|discriminate].
  - unfold define_global_value.
    destruct (root_of_spec (length h) h e Hwf) as [r [_ Hr]]; try lia. rewrite Hr.
    unfold define_value. destruct (contains_dot s); cbn; [reflexivity|discriminate].
  - destruct (EnvModel.set_value _ _ _ _ _); cbn; try reflexivity; discriminate.
  - destruct (EnvModel.get_value _ _ _ _ _); cbn; reflexivity.
  - destruct (EnvModel.addr _ _ _ _ _ _); cbn; reflexivity.
  - destruct (EnvModel.delete_global _ _ _ _); cbn; try reflexivity; discriminate.
  - unfold define_type. destruct (contains_dot s); cbn; [reflexivity|discriminate].
  - unfold define_global_type.
    destruct (root_of_spec (length h) h e Hwf) as [r [_ Hr]]; try lia. rewrite Hr.
    unfold define_type. destruct (contains_dot s); cbn; [reflexivity|discriminate].
  - destruct (EnvModel.get_type _ _ _ _ _ _); cbn; reflexivity.
  - destruct (EnvModel.get_env_from_path _ _ _ _ _ _); cbn; reflexivity.
  - unfold copy. rewrite E. cbn. discriminate.
  - destruct (deep_copy_spec (length h) h e Hinv) as [l [Hr _]]; auto; try lia.
    rewrite Hr. cbn. discriminate.
Qed.

(* operations that address scopes below n never touch scopes at or above n *)
Lemma low_targets_avoid (P : nat -> Prop) n ops : forall h,
  path_fixed = true -> inv h -> hist_valid h ops ->
  Forall (fun o => exists t, target o = Some t /\ t < n) ops ->
  (forall i, P i -> n <= i) ->
  hist_avoids P h ops.
Proof.
  induction ops as [|o r IH]; intros h Hfix Hinv Hv Hall HP; cbn; auto.
  destruct Hv as [Hvo Hvr]. inversion Hall as [|? ? [t [Hto Hlt]] Hr]; subst.
  destruct (step_inv h o Hfix Hinv Hvo) as [Hi' _].
  split; [|apply IH; auto].
  unfold avoids. rewrite Hto. intros i Hin HPi.
  pose proof (chain_le _ _ _ _ (proj1 Hinv) Hin). specialize (HP _ HPi). lia.
Qed.

(* DeepCopy: later changes on either side are invisible to the other *)
Theorem deepcopy_isolates_original h e h' c ops :
  path_fixed = true -> inv h -> e < length h ->
  step h (ODeepCopy e) = (h', REnv c) ->
  Forall (fun o => target o = Some c) ops -> hist_valid h' ops ->
  forall i, i < length h -> nth_error (fst (run h' ops)) i = nth_error h i.
Proof.
  intros Hfix Hinv He Hs Hall Hv i Hi.
  destruct (deep_copy_fresh h e Hinv He) as [h2 [c2 [Hs2 [Hc [Hc' [Hch Hold]]]]]].
  rewrite Hs in Hs2. injection Hs2 as <- <-.
  assert (Hinv' : inv h').
  { assert (Hov : op_valid h (ODeepCopy e) = true)
      by (unfold op_valid; cbn; rewrite andb_true_r; now apply Nat.ltb_lt).
    pose proof (step_inv h _ Hfix Hinv Hov) as [Hx _]. now rewrite Hs in Hx. }
  rewrite <- Hold by assumption.
  apply (run_frame (fun j => j < length h) ops h'); auto.
  - intros j Hj. lia.
  - eapply targets_avoid; eauto. intros j Hin Hj. specialize (Hch _ Hin). lia.
Qed.

Theorem deepcopy_isolated_from_original h e h' c ops :
  path_fixed = true -> inv h -> e < length h ->
  step h (ODeepCopy e) = (h', REnv c) ->
  Forall (fun o => exists t, target o = Some t /\ t < length h) ops -> hist_valid h' ops ->
  forall i, length h <= i -> i < length h' -> nth_error (fst (run h' ops)) i = nth_error h' i.
Proof.
  intros Hfix Hinv He Hs Hall Hv i Hi Hi'.
  assert (Hinv' : inv h').
  { assert (Hov : op_valid h (ODeepCopy e) = true)
      by (unfold op_valid; cbn; rewrite andb_true_r; now apply Nat.ltb_lt).
    pose proof (step_inv h _ Hfix Hinv Hov) as [Hx _]. now rewrite Hs in Hx. }
  apply (run_frame (fun j => length h <= j /\ j < length h') ops h'); auto.
  - intros j [_ Hj]. exact Hj.
  - eapply low_targets_avoid; eauto. intros j [Hj _]. exact Hj.
Qed.

(* Copy: the two scopes evolve independently (their common ancestors are shared by design) *)
Theorem copy_isolates_original h e sc ops :
  path_fixed = true -> inv h -> nth_error h e = Some sc ->
  Forall (fun o => target o = Some (length h)) ops -> hist_valid (h ++ [sc]) ops ->
  nth_error (fst (run (h ++ [sc]) ops)) e = Some sc.
Proof.
  intros Hfix Hinv E Hall Hv.
  assert (He : e < length h) by (apply nth_error_Some; congruence).
  assert (Hinv' : inv (h ++ [sc])).
  { assert (Hov : op_valid h (OCopy e) = true)
      by (unfold op_valid; cbn; rewrite andb_true_r; now apply Nat.ltb_lt).
    pose proof (step_inv h _ Hfix Hinv Hov) as [Hx _]. now rewrite (copy_snapshot h e sc E) in Hx. }
  rewrite (run_frame (fun j => j = e) ops (h ++ [sc])); auto.
  - now rewrite nth_error_app1.
  - intros j ->. rewrite app_length. lia.
  - eapply targets_avoid; eauto; [rewrite app_length; cbn; lia|].
    intros j Hin ->. rewrite app_length in Hin. cbn [length] in Hin.
    replace (length h + 1) with (S (length h)) in Hin by lia. cbn in Hin.
    rewrite nth_error_app2 in Hin by lia. rewrite Nat.sub_diag in Hin. cbn in Hin.
    destruct Hin as [Hin|Hin]; [lia|].
    destruct (sc_parent sc) as [p|] eqn:P; [|destruct Hin].
    apply (chain_le _ _ _ _ (proj1 Hinv')) in Hin.
    pose proof (proj1 Hinv _ _ _ E P). lia.
Qed.

Theorem copy_isolated_from_original h e sc ops :
  path_fixed = true -> inv h -> nth_error h e = Some sc ->
  Forall (fun o => exists t, target o = Some t /\ t < length h) ops -> hist_valid (h ++ [sc]) ops ->
  nth_error (fst (run (h ++ [sc]) ops)) (length h) = Some sc.
Proof.
  intros Hfix Hinv E Hall Hv.
  assert (He : e < length h) by (apply nth_error_Some; congruence).
  assert (Hinv' : inv (h ++ [sc])).
  { assert (Hov : op_valid h (OCopy e) = true)
      by (unfold op_valid; cbn; rewrite andb_true_r; now apply Nat.ltb_lt).
    pose proof (step_inv h _ Hfix Hinv Hov) as [Hx _]. now rewrite (copy_snapshot h e sc E) in Hx. }
  rewrite (run_frame (fun j => j = length h) ops (h ++ [sc])); auto.
  - rewrite nth_error_app2 by lia. now rewrite Nat.sub_diag.
  - intros j ->. rewrite app_length. cbn. lia.
  - eapply low_targets_avoid; eauto. intros j ->. lia.
Qed.

End Step.
