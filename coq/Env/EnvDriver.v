(* Decoder from the harness' S-expression format to C12 cases, and the entry
   point of the extracted checker. *)
From Coq Require Import String List Bool Arith.
From Anko Require Import Base.Assoc Base.Sexp Env.EnvModel Env.EnvCases.
Import ListNotations.
Open Scope string_scope.

Definition dec_val (s : sexp) : option cval :=
  match s with
  | SL [SA "tok"; n; a] =>
      match as_nat n, as_bool a with Some n, Some a => Some (CTok n a) | _, _ => None end
  | SL [SA "env"; i] => option_map CEnv (as_nat i)
  | _ => None
  end.

Definition dec_errc (s : sexp) : option errc :=
  match s with
  | SA "ErrDot" => Some ErrDot | SA "ErrUndefSym" => Some ErrUndefSym
  | SA "ErrUndefType" => Some ErrUndefType | SA "ErrNoNamespace" => Some ErrNoNamespace
  | SA "ErrUnaddressable" => Some ErrUnaddressable | _ => None
  end.

Definition dec_op (s : sexp) : option cop :=
  match s with
  | SL [SA "NewRoot"] => Some ONewRoot
  | SL [SA k; e] =>
      match as_nat e with
      | Some e =>
        if String.eqb k "NewEnv" then Some (ONewEnv e)
        else if String.eqb k "Symbols" then Some (OSymbols e)
        else if String.eqb k "TypeSymbols" then Some (OTypeSymbols e)
        else if String.eqb k "Copy" then Some (OCopy e)
        else if String.eqb k "DeepCopy" then Some (ODeepCopy e)
        else if String.eqb k "HasParent" then Some (OHasParent e)
        else None
      | None => None
      end
  | SL [SA "SetExt"; e; x] =>
      match as_nat e, as_opt as_nat x with Some e, Some x => Some (OSetExt e x) | _, _ => None end
  | SL [SA "Path"; e; p] =>
      match as_nat e, as_list as_atom p with Some e, Some p => Some (OPath e p) | _, _ => None end
  | SL [SA k; e; SA s] =>
      match as_nat e with
      | Some e =>
        if String.eqb k "NewModule" then Some (ONewModule e s)
        else if String.eqb k "Get" then Some (OGet e s)
        else if String.eqb k "Addr" then Some (OAddr e s)
        else if String.eqb k "Delete" then Some (ODelete e s)
        else if String.eqb k "DeleteGlobal" then Some (ODeleteGlobal e s)
        else if String.eqb k "Type" then Some (OType e s)
        else None
      | None => None
      end
  | SL [SA k; e; SA s; x] =>
      match as_nat e with
      | Some e =>
        if String.eqb k "Define" then option_map (ODefine e s) (dec_val x)
        else if String.eqb k "DefineGlobal" then option_map (ODefineGlobal e s) (dec_val x)
        else if String.eqb k "Set" then option_map (OSet e s) (dec_val x)
        else if String.eqb k "DefineType" then option_map (ODefineType e s) (as_nat x)
        else if String.eqb k "DefineGlobalType" then option_map (ODefineGlobalType e s) (as_nat x)
        else None
      | None => None
      end
  | _ => None
  end.

Definition dec_out (s : sexp) : option cout :=
  match s with
  | SL [SA "none"] => Some RNone
  | SL [SA "err"; c] => option_map RErr (dec_errc c)
  | SL [SA "val"; v] => option_map RVal (dec_val v)
  | SL [SA "ty"; t] => option_map RTy (as_nat t)
  | SL (SA "syms" :: l) => option_map RSyms (map_opt as_atom l)
  | SL [SA "env"; i] => option_map REnv (as_nat i)
  | SL [SA "module"; i; c] =>
      match as_nat i, as_opt dec_errc c with Some i, Some c => Some (RModule i c) | _, _ => None end
  | SL [SA "bool"; b] => option_map RBool (as_bool b)
  | SL [SA "panic"] => Some RPanic
  | SL [SA "bad"] => Some RBad
  | _ => None
  end.

Definition dec_kv {A} (f : sexp -> option A) (s : sexp) : option (string * A) :=
  match s with
  | SL [SA k; v] => option_map (fun v => (k, v)) (f v)
  | _ => None
  end.

Definition dec_delta (s : sexp) : option (nat * dump) :=
  match s with
  | SL [i; vs; ts] =>
      match as_nat i, as_list (dec_kv dec_val) vs, as_list (dec_kv as_nat) ts with
      | Some i, Some vs, Some ts => Some (i, (vs, ts))
      | _, _, _ => None
      end
  | _ => None
  end.

Definition dec_step (s : sexp) : option cstep_rec :=
  match s with
  | SL [o; x; d] =>
      match dec_op o, dec_out x, as_list dec_delta d with
      | Some o, Some x, Some d => Some (o, x, d)
      | _, _, _ => None
      end
  | _ => None
  end.

Definition dec_case (s : sexp) : option (list nat * list cstep_rec) :=
  match s with
  | SL [h; st] =>
      match as_list as_nat h, as_list dec_step st with
      | Some h, Some st => Some (h, st)
      | _, _ => None
      end
  | _ => None
  end.

(* model outputs back to text *)
Definition enc_val (v : cval) : sexp :=
  match v with
  | CTok n a => SL [SA "tok"; snat n; sbool a]
  | CEnv i => SL [SA "env"; snat i]
  end.
Definition enc_errc (c : errc) : sexp :=
  SA (match c with ErrDot => "ErrDot" | ErrUndefSym => "ErrUndefSym" | ErrUndefType => "ErrUndefType"
              | ErrNoNamespace => "ErrNoNamespace" | ErrUnaddressable => "ErrUnaddressable" end).
Definition enc_out (o : cout) : sexp :=
  match o with
  | RNone => SL [SA "none"]
  | RErr c => SL [SA "err"; enc_errc c]
  | RVal v => SL [SA "val"; enc_val v]
  | RTy t => SL [SA "ty"; snat t]
  | RSyms l => SL (SA "syms" :: map SA l)
  | REnv i => SL [SA "env"; snat i]
  | RModule i None => SL [SA "module"; snat i; SL []]
  | RModule i (Some c) => SL [SA "module"; snat i; SL [enc_errc c]]
  | RBool b => SL [SA "bool"; sbool b]
  | RPanic => SL [SA "panic"]
  | RBad => SL [SA "bad"]
  | RFuel => SL [SA "fuel"]
  end.

(* entry point: (ok) | (mismatch step model-outputs) | (undecodable) *)
Definition c12_check (s : sexp) : sexp :=
  match dec_case s with
  | None => SL [SA "undecodable"]
  | Some c =>
    match check_case c with
    | None => SL [SA "ok"]
    | Some k => SL [SA "mismatch"; snat k; SL (map enc_out (model_outputs c))]
    end
  end.
