(* Proofs about the env model: every statement is for an arbitrary heap /
   arbitrary history, by induction on fuel or on the operation list. *)
From Coq Require Import String List Bool Arith Lia.
From Anko Require Import Base.Assoc Env.EnvModel.
Import ListNotations.
Set Default Proof Using "Type".

Section Proofs.
Context {V T : Type}.
Variable as_env : V -> option nat.
Variable mk_env : nat -> V.
Variable can_addr : V -> bool.
Variable ext_get : nat -> string -> option V.
Variable ext_type : nat -> string -> option T.
Variable basic_type : string -> option T.
Variable path_fixed : bool.

Notation scope := (@scope V T).
Notation step := (@step V T as_env mk_env can_addr ext_get ext_type basic_type path_fixed).
Notation run := (@run V T as_env mk_env can_addr ext_get ext_type basic_type path_fixed).
Notation final := (@final V T as_env mk_env can_addr ext_get ext_type basic_type path_fixed).
Notation get_value := (@get_value V T ext_get).
Notation get_type := (@get_type V T ext_type basic_type).
Notation addr := (@addr V T can_addr ext_get).
Notation path_start := (@path_start V T as_env path_fixed).
Notation path_rest := (@path_rest V T as_env).
Notation get_env_from_path := (@get_env_from_path V T as_env path_fixed).
Notation new_module := (@new_module V T mk_env).

(* ---------- heaps ---------- *)
(* every scope's parent was allocated before it: chains are acyclic *)
Definition wf (h : list scope) : Prop :=
  forall i sc p, nth_error h i = Some sc -> sc_parent sc = Some p -> p < i.

Lemma upd_length (h : list scope) e f : length (upd h e f) = length h.
Proof. revert e; induction h as [|sc r IH]; intros [|e]; cbn; auto. Qed.

Lemma upd_other (h : list scope) e f i : i <> e -> nth_error (upd h e f) i = nth_error h i.
Proof.
  revert e i; induction h as [|sc r IH]; intros [|e] [|i] Hne; cbn; auto; try lia.
  all: try (apply IH; lia).
Qed.

Lemma upd_same (h : list scope) e f sc :
  nth_error h e = Some sc -> nth_error (upd h e f) e = Some (f sc).
Proof.
  revert e; induction h as [|x r IH]; intros [|e]; cbn; try discriminate.
  - now intros [= ->].
  - apply IH.
Qed.

Lemma upd_nth (h : list scope) e f i :
  nth_error (upd h e f) i = if Nat.eqb i e then option_map f (nth_error h e) else nth_error h i.
Proof.
  destruct (Nat.eqb_spec i e) as [->|Hne].
  - destruct (nth_error h e) eqn:E; cbn.
    + now apply upd_same.
    + apply nth_error_None. rewrite upd_length. now apply nth_error_None.
  - now apply upd_other.
Qed.

Lemma wf_upd h e f :
  wf h -> (forall sc, sc_parent (f sc) = sc_parent sc) -> wf (upd h e f).
Proof.
  intros Hwf Hp i sc p Hn Hpar. rewrite upd_nth in Hn.
  destruct (Nat.eqb_spec i e) as [->|Hne].
  - destruct (nth_error h e) as [sc0|] eqn:E; cbn in Hn; [|discriminate].
    injection Hn as <-. rewrite Hp in Hpar. eauto.
  - eauto.
Qed.

Lemma wf_app h sc :
  wf h -> (forall p, sc_parent sc = Some p -> p < length h) -> wf (h ++ [sc]).
Proof.
  intros Hwf Hp i sc' p Hn Hpar.
  destruct (Nat.lt_ge_cases i (length h)) as [Hlt|Hge].
  - rewrite nth_error_app1 in Hn by assumption. eauto.
  - rewrite nth_error_app2 in Hn by assumption.
    destruct (i - length h) as [|k] eqn:E; cbn in Hn.
    + injection Hn as <-. specialize (Hp _ Hpar). lia.
    + destruct k; discriminate.
Qed.

Lemma nth_app_old (h : list scope) l i : i < length h -> nth_error (h ++ l) i = nth_error h i.
Proof. intros; now apply nth_error_app1. Qed.

(* ---------- the chain of a scope ---------- *)
Fixpoint chain (fuel : nat) (h : list scope) (e : nat) : list nat :=
  match fuel with
  | 0 => []
  | S f => match nth_error h e with
           | None => []
           | Some sc => e :: match sc_parent sc with
                             | None => []
                             | Some p => chain f h p
                             end
           end
  end.

Lemma chain_le fuel h e i : wf h -> In i (chain fuel h e) -> i <= e.
Proof.
  intros Hwf. revert e. induction fuel as [|f IH]; cbn; intros e Hin; [destruct Hin|].
  destruct (nth_error h e) as [sc|] eqn:E; [|destruct Hin].
  destruct Hin as [->|Hin]; [lia|].
  destruct (sc_parent sc) as [p|] eqn:P; [|destruct Hin].
  specialize (IH _ Hin). specialize (Hwf _ _ _ E P). lia.
Qed.

Lemma chain_valid fuel h e i : In i (chain fuel h e) -> i < length h.
Proof.
  revert e. induction fuel as [|f IH]; cbn; intros e Hin; [destruct Hin|].
  destruct (nth_error h e) as [sc|] eqn:E; [|destruct Hin].
  destruct Hin as [->|Hin].
  - apply nth_error_Some. congruence.
  - destruct (sc_parent sc); [eauto|destruct Hin].
Qed.

Lemma chain_head fuel h e sc : nth_error h e = Some sc -> In e (chain (S fuel) h e).
Proof. intros E. cbn. rewrite E. now left. Qed.

Lemma chain_parent fuel h e sc p i :
  nth_error h e = Some sc -> sc_parent sc = Some p ->
  In i (chain fuel h p) -> In i (chain (S fuel) h e).
Proof. intros E P Hin. cbn. rewrite E, P. now right. Qed.

(* ---------- specification of lookup: nearest binding along the chain ---------- *)
Definition own_value (sc : scope) (sym : string) : option V :=
  match alookup (sc_values sc) sym with
  | Some v => Some v
  | None => match sc_ext sc with Some x => ext_get x sym | None => None end
  end.

Definition own_type (sc : scope) (sym : string) : option T :=
  match alookup (sc_types sc) sym with
  | Some t => Some t
  | None => match sc_ext sc with Some x => ext_type x sym | None => None end
  end.

(* first scope of a list of scope ids that answers *)
Fixpoint first_answer {A} (h : list scope) (f : scope -> option A) (ids : list nat) : option A :=
  match ids with
  | [] => None
  | i :: r => match nth_error h i with
              | Some sc => match f sc with Some a => Some a | None => first_answer h f r end
              | None => None
              end
  end.

Lemma get_value_spec fuel h e sym :
  wf h -> e < fuel -> e < length h ->
  get_value fuel h e sym =
    match first_answer h (fun sc => own_value sc sym) (chain fuel h e) with
    | Some v => Ok v
    | None => Err ErrUndefSym
    end.
Proof.
  intros Hwf. revert e. induction fuel as [|f IH]; intros e Hf Hl; [lia|].
  cbn. destruct (nth_error h e) as [sc|] eqn:E.
  2:{ apply nth_error_None in E. lia. }
  cbn. rewrite E. unfold own_value.
  destruct (alookup (sc_values sc) sym) as [v|]; [reflexivity|].
  destruct (match sc_ext sc with Some x => ext_get x sym | None => None end) as [v|]; [reflexivity|].
  destruct (sc_parent sc) as [p|] eqn:P; [|reflexivity].
  specialize (Hwf _ _ _ E P). apply IH; lia.
Qed.

Lemma get_type_spec fuel h e sym :
  wf h -> e < fuel -> e < length h ->
  get_type fuel h e sym =
    match first_answer h (fun sc => own_type sc sym) (chain fuel h e) with
    | Some t => Ok t
    | None => match basic_type sym with Some t => Ok t | None => Err ErrUndefType end
    end.
Proof.
  intros Hwf. revert e. induction fuel as [|f IH]; intros e Hf Hl; [lia|].
  cbn. destruct (nth_error h e) as [sc|] eqn:E.
  2:{ apply nth_error_None in E. lia. }
  cbn. rewrite E. unfold own_type.
  destruct (alookup (sc_types sc) sym) as [v|]; [reflexivity|].
  destruct (match sc_ext sc with Some x => ext_type x sym | None => None end) as [v|]; [reflexivity|].
  destruct (sc_parent sc) as [p|] eqn:P; [|reflexivity].
  specialize (Hwf _ _ _ E P). apply IH; lia.
Qed.

(* ---------- set: nearest existing binding or failure ---------- *)
(* index of the nearest scope of the chain whose own table binds sym *)
Fixpoint nearest_binding (h : list scope) (sym : string) (ids : list nat) : option nat :=
  match ids with
  | [] => None
  | i :: r => match nth_error h i with
              | Some sc => if amem (sc_values sc) sym then Some i else nearest_binding h sym r
              | None => None
              end
  end.

Lemma set_value_spec fuel h e sym v :
  wf h -> e < fuel -> e < length h ->
  set_value fuel h e sym v =
    match nearest_binding h sym (chain fuel h e) with
    | Some j => Ok (upd h j (fun sc => set_values sc (aset (sc_values sc) sym v)))
    | None => Err ErrUndefSym
    end.
Proof.
  intros Hwf. revert e. induction fuel as [|f IH]; intros e Hf Hl; [lia|].
  cbn. destruct (nth_error h e) as [sc|] eqn:E.
  2:{ apply nth_error_None in E. lia. }
  cbn. rewrite E.
  destruct (amem (sc_values sc) sym); [reflexivity|].
  destruct (sc_parent sc) as [p|] eqn:P; [|reflexivity].
  specialize (Hwf _ _ _ E P). apply IH; lia.
Qed.

Lemma nearest_binding_in h sym ids j : nearest_binding h sym ids = Some j -> In j ids.
Proof.
  induction ids as [|i r IH]; cbn; [discriminate|].
  destruct (nth_error h i) as [sc|]; [|discriminate].
  destruct (amem (sc_values sc) sym).
  - intros [= ->]. now left.
  - intros H. right. auto.
Qed.

Lemma delete_global_spec fuel h e sym :
  wf h -> e < fuel -> e < length h ->
  exists j, In j (chain fuel h e) /\ delete_global fuel h e sym = Ok (delete h j sym).
Proof.
  intros Hwf. revert e. induction fuel as [|f IH]; intros e Hf Hl; [lia|].
  cbn. destruct (nth_error h e) as [sc|] eqn:E.
  2:{ apply nth_error_None in E. lia. }
  destruct (sc_parent sc) as [p|] eqn:P.
  - destruct (amem (sc_values sc) sym).
    + exists e. split; [now left|reflexivity].
    + specialize (Hwf _ _ _ E P). destruct (IH p) as [j [Hin Heq]]; try lia.
      exists j. split; [now right|assumption].
  - exists e. split; [now left|reflexivity].
Qed.

Lemma root_of_spec fuel h e :
  wf h -> e < fuel -> e < length h ->
  exists r, In r (chain fuel h e) /\ root_of fuel h e = Ok r.
Proof.
  intros Hwf. revert e. induction fuel as [|f IH]; intros e Hf Hl; [lia|].
  cbn. destruct (nth_error h e) as [sc|] eqn:E.
  2:{ apply nth_error_None in E. lia. }
  destruct (sc_parent sc) as [p|] eqn:P.
  - specialize (Hwf _ _ _ E P). destruct (IH p) as [j [Hin Heq]]; try lia.
    exists j. split; [now right|assumption].
  - exists e. split; [now left|reflexivity].
Qed.

(* ---------- totality: no fuel exhaustion, no panic ---------- *)
Lemma addr_total fuel h e sym :
  wf h -> e < fuel -> e < length h ->
  (exists v, addr fuel h e sym = Ok v) \/ (exists c, addr fuel h e sym = Err c).
Proof.
  intros Hwf. revert e. induction fuel as [|f IH]; intros e Hf Hl; [lia|].
  cbn. destruct (nth_error h e) as [sc|] eqn:E.
  2:{ apply nth_error_None in E. lia. }
  destruct (alookup (sc_values sc) sym) as [v|].
  { destruct (can_addr v); eauto. }
  destruct (match sc_ext sc with Some x => ext_get x sym | None => None end) as [v|].
  { destruct (can_addr v); eauto. }
  destruct (sc_parent sc) as [p|] eqn:P; [|eauto].
  specialize (Hwf _ _ _ E P). apply IH; lia.
Qed.

(* modules are scopes of the heap *)
Definition modules_valid (h : list scope) : Prop :=
  forall i sc k v m, nth_error h i = Some sc -> alookup (sc_values sc) k = Some v ->
                     as_env v = Some m -> m < length h.

Lemma path_start_total fuel h e p0 :
  path_fixed = true -> wf h -> modules_valid h -> e < fuel -> e < length h ->
  (exists m, path_start fuel h e p0 = Ok m /\ m < length h) \/ path_start fuel h e p0 = Err ErrNoNamespace.
Proof.
  intros Hfix Hwf Hmv. revert e. induction fuel as [|f IH]; intros e Hf Hl; [lia|].
  cbn. destruct (nth_error h e) as [sc|] eqn:E.
  2:{ apply nth_error_None in E. lia. }
  assert (Hcont : (exists m, match sc_parent sc with
                             | Some p => path_start f h p p0 | None => Err ErrNoNamespace end = Ok m /\ m < length h)
                  \/ match sc_parent sc with
                     | Some p => path_start f h p p0 | None => Err ErrNoNamespace end = Err ErrNoNamespace).
  { destruct (sc_parent sc) as [p|] eqn:P; [|now right].
    specialize (Hwf _ _ _ E P). apply IH; lia. }
  destruct (alookup (sc_values sc) p0) as [v|] eqn:L; [|exact Hcont].
  destruct (as_env v) as [m|] eqn:A.
  - left. exists m. split; [reflexivity|]. eapply Hmv; eauto.
  - match goal with |- context [if path_fixed then ?a else ?b] => replace (if path_fixed then a else b) with a by (now rewrite Hfix) end. exact Hcont.
Qed.

Lemma path_rest_total h e p :
  modules_valid h -> e < length h ->
  (exists m, path_rest h e p = Ok m /\ m < length h) \/ path_rest h e p = Err ErrNoNamespace.
Proof.
  intros Hmv. revert e. induction p as [|x r IH]; intros e Hl; cbn.
  - left. eauto.
  - destruct (nth_error h e) as [sc|] eqn:E.
    2:{ apply nth_error_None in E. lia. }
    destruct (alookup (sc_values sc) x) as [v|] eqn:L; [|now right].
    destruct (as_env v) as [m|] eqn:A; [|now right].
    apply IH. eapply Hmv; eauto.
Qed.

End Proofs.
