(* Code-shaped model of /repo/env (env.go, envValues.go, envTypes.go).
   Every definition carries the Go method it mirrors.  A scope is identified by
   the order of its allocation (index into the heap); the Go pointer identity
   of *Env is exactly that.  Maps are association lists with distinct keys.
   The lazily created nil maps of the Go code are not distinguished from empty
   maps: no API call can tell them apart. *)
From Coq Require Import String List Bool Arith Lia.
From Anko Require Import Base.Assoc.
Import ListNotations.

Inductive errc := ErrDot | ErrUndefSym | ErrUndefType | ErrNoNamespace | ErrUnaddressable.

Section Env.
Context {V T : Type}.
Variable as_env : V -> option nat.        (* value.Interface().( *Env ) *)
Variable mk_env : nat -> V.               (* reflect.ValueOf(module) *)
Variable can_addr : V -> bool.            (* v.CanAddr() *)
Variable ext_get : nat -> string -> option V.   (* externalLookup.Get, err == nil *)
Variable ext_type : nat -> string -> option T.  (* externalLookup.Type *)
Variable basic_type : string -> option T.       (* basicTypes *)

Record scope := mkScope {
  sc_parent : option nat;
  sc_values : list (string * V);
  sc_types  : list (string * T);
  sc_ext    : option nat }.

Notation heap := (list scope) (only parsing).

Definition set_values (sc : scope) vs := mkScope (sc_parent sc) vs (sc_types sc) (sc_ext sc).
Definition set_types (sc : scope) ts := mkScope (sc_parent sc) (sc_values sc) ts (sc_ext sc).
Definition set_ext (sc : scope) x := mkScope (sc_parent sc) (sc_values sc) (sc_types sc) x.

Fixpoint upd (h : list scope) (e : nat) (f : scope -> scope) : list scope :=
  match h, e with
  | [], _ => []
  | sc :: r, 0 => f sc :: r
  | sc :: r, S e' => sc :: upd r e' f
  end.

(* results of the recursive methods *)
Inductive res (A : Type) := Ok (a : A) | Err (c : errc) | Panic | Bad | Fuel.
Arguments Ok {A}. Arguments Err {A}. Arguments Panic {A}. Arguments Bad {A}. Arguments Fuel {A}.

(* env.go NewEnv / (e *Env) NewEnv *)
Definition new_root (h : list scope) : list scope * nat :=
  (h ++ [mkScope None [] [] None], length h).
Definition new_env (h : list scope) (e : nat) : list scope * nat :=
  (h ++ [mkScope (Some e) [] [] None], length h).

(* envValues.go DefineValue *)
Definition define_value (h : list scope) (e : nat) (sym : string) (v : V) : res (list scope) :=
  if contains_dot sym then Err ErrDot
  else Ok (upd h e (fun sc => set_values sc (aset (sc_values sc) sym v))).

(* envTypes.go DefineReflectType *)
Definition define_type (h : list scope) (e : nat) (sym : string) (t : T) : res (list scope) :=
  if contains_dot sym then Err ErrDot
  else Ok (upd h e (fun sc => set_types sc (aset (sc_types sc) sym t))).

(* for e.parent != nil { e = e.parent } *)
Fixpoint root_of (fuel : nat) (h : list scope) (e : nat) : res nat :=
  match fuel with
  | 0 => Fuel
  | S f => match nth_error h e with
           | None => Bad
           | Some sc => match sc_parent sc with
                        | None => Ok e
                        | Some p => root_of f h p
                        end
           end
  end.

(* envValues.go DefineGlobalValue *)
Definition define_global_value fuel h e sym v : res (list scope) :=
  match root_of fuel h e with
  | Ok r => define_value h r sym v
  | Err c => Err c | Panic => Panic | Bad => Bad | Fuel => Fuel
  end.

(* envTypes.go DefineGlobalReflectType *)
Definition define_global_type fuel h e sym t : res (list scope) :=
  match root_of fuel h e with
  | Ok r => define_type h r sym t
  | Err c => Err c | Panic => Panic | Bad => Bad | Fuel => Fuel
  end.

(* env.go NewModule: the child is allocated first, then Define(symbol, module) *)
Definition new_module (h : list scope) (e : nat) (sym : string) : list scope * nat * res unit :=
  let '(h1, m) := new_env h e in
  match define_value h1 e sym (mk_env m) with
  | Ok h2 => (h2, m, Ok tt)
  | Err c => (h1, m, Err c)
  | _ => (h1, m, Bad)
  end.

(* envValues.go SetValue *)
Fixpoint set_value (fuel : nat) (h : list scope) (e : nat) (sym : string) (v : V) : res (list scope) :=
  match fuel with
  | 0 => Fuel
  | S f =>
    match nth_error h e with
    | None => Bad
    | Some sc =>
      if amem (sc_values sc) sym
      then Ok (upd h e (fun sc => set_values sc (aset (sc_values sc) sym v)))
      else match sc_parent sc with
           | None => Err ErrUndefSym
           | Some p => set_value f h p sym v
           end
    end
  end.

(* envValues.go GetValue *)
Fixpoint get_value (fuel : nat) (h : list scope) (e : nat) (sym : string) : res V :=
  match fuel with
  | 0 => Fuel
  | S f =>
    match nth_error h e with
    | None => Bad
    | Some sc =>
      match alookup (sc_values sc) sym with
      | Some v => Ok v
      | None =>
        match (match sc_ext sc with Some x => ext_get x sym | None => None end) with
        | Some v => Ok v
        | None => match sc_parent sc with
                  | None => Err ErrUndefSym
                  | Some p => get_value f h p sym
                  end
        end
      end
    end
  end.

(* envTypes.go Type *)
Fixpoint get_type (fuel : nat) (h : list scope) (e : nat) (sym : string) : res T :=
  match fuel with
  | 0 => Fuel
  | S f =>
    match nth_error h e with
    | None => Bad
    | Some sc =>
      match alookup (sc_types sc) sym with
      | Some t => Ok t
      | None =>
        match (match sc_ext sc with Some x => ext_type x sym | None => None end) with
        | Some t => Ok t
        | None => match sc_parent sc with
                  | None => match basic_type sym with
                            | Some t => Ok t
                            | None => Err ErrUndefType
                            end
                  | Some p => get_type f h p sym
                  end
        end
      end
    end
  end.

(* envValues.go Addr *)
Fixpoint addr (fuel : nat) (h : list scope) (e : nat) (sym : string) : res V :=
  match fuel with
  | 0 => Fuel
  | S f =>
    match nth_error h e with
    | None => Bad
    | Some sc =>
      match alookup (sc_values sc) sym with
      | Some v => if can_addr v then Ok v else Err ErrUnaddressable
      | None =>
        match (match sc_ext sc with Some x => ext_get x sym | None => None end) with
        | Some v => if can_addr v then Ok v else Err ErrUnaddressable
        | None => match sc_parent sc with
                  | None => Err ErrUndefSym
                  | Some p => addr f h p sym
                  end
        end
      end
    end
  end.

(* envValues.go Delete *)
Definition delete (h : list scope) (e : nat) (sym : string) : list scope :=
  upd h e (fun sc => set_values sc (adel (sc_values sc) sym)).

(* envValues.go DeleteGlobal *)
Fixpoint delete_global (fuel : nat) (h : list scope) (e : nat) (sym : string) : res (list scope) :=
  match fuel with
  | 0 => Fuel
  | S f =>
    match nth_error h e with
    | None => Bad
    | Some sc =>
      match sc_parent sc with
      | None => Ok (delete h e sym)
      | Some p => if amem (sc_values sc) sym then Ok (delete h e sym)
                  else delete_global f h p sym
      end
    end
  end.

(* env.go GetEnvFromPath, first loop ("find starting env").
   [fixed] = true mirrors the repaired code, in which a binding that is not a
   module is skipped and the search continues in the parent; with
   [fixed] = false a failed type assertion leaves e == nil and the following
   e.parent dereferences nil. *)
Variable path_fixed : bool.

Fixpoint path_start (fuel : nat) (h : list scope) (e : nat) (p0 : string) : res nat :=
  match fuel with
  | 0 => Fuel
  | S f =>
    match nth_error h e with
    | None => Bad
    | Some sc =>
      let continue :=
        match sc_parent sc with
        | None => Err ErrNoNamespace
        | Some p => path_start f h p p0
        end in
      match alookup (sc_values sc) p0 with
      | Some v => match as_env v with
                  | Some m => Ok m
                  | None => if path_fixed then continue else Panic
                  end
      | None => continue
      end
    end
  end.

(* second loop ("find child env") *)
Fixpoint path_rest (h : list scope) (e : nat) (p : list string) : res nat :=
  match p with
  | [] => Ok e
  | x :: r =>
    match nth_error h e with
    | None => Bad
    | Some sc =>
      match alookup (sc_values sc) x with
      | Some v => match as_env v with
                  | Some m => path_rest h m r
                  | None => Err ErrNoNamespace
                  end
      | None => Err ErrNoNamespace
      end
    end
  end.

Definition get_env_from_path fuel h e (p : list string) : res nat :=
  match p with
  | [] => Ok e
  | p0 :: r => match path_start fuel h e p0 with
               | Ok m => path_rest h m r
               | x => x
               end
  end.

(* env.go Copy *)
Definition copy (h : list scope) (e : nat) : res (list scope * nat) :=
  match nth_error h e with
  | None => Bad
  | Some sc => Ok (h ++ [sc], length h)
  end.

(* env.go DeepCopy: e = e.Copy(); if e.parent != nil { e.parent = e.parent.DeepCopy() }.
   The order in which the Go code allocates the copies is not observable; the
   model numbers the copy of the parent chain first, so that every scope's
   parent has a smaller index than the scope itself. *)
Fixpoint deep_copy (fuel : nat) (h : list scope) (e : nat) : res (list scope * nat) :=
  match fuel with
  | 0 => Fuel
  | S f =>
    match nth_error h e with
    | None => Bad
    | Some sc =>
      match sc_parent sc with
      | None => Ok (h ++ [sc], length h)
      | Some p =>
        match deep_copy f h p with
        | Ok (h1, pc) => Ok (h1 ++ [mkScope (Some pc) (sc_values sc) (sc_types sc) (sc_ext sc)], length h1)
        | x => x
        end
      end
    end
  end.

(* ---------------------------------------------------------------- *)
(* The API as a state machine                                         *)

Inductive op :=
| ONewRoot
| ONewEnv (e : nat)
| ONewModule (e : nat) (s : string)
| OSetExt (e : nat) (x : option nat)
| ODefine (e : nat) (s : string) (v : V)
| ODefineGlobal (e : nat) (s : string) (v : V)
| OSet (e : nat) (s : string) (v : V)
| OGet (e : nat) (s : string)
| OAddr (e : nat) (s : string)
| OSymbols (e : nat)
| ODelete (e : nat) (s : string)
| ODeleteGlobal (e : nat) (s : string)
| ODefineType (e : nat) (s : string) (t : T)
| ODefineGlobalType (e : nat) (s : string) (t : T)
| OType (e : nat) (s : string)
| OTypeSymbols (e : nat)
| OPath (e : nat) (p : list string)
| OCopy (e : nat)
| ODeepCopy (e : nat)
| OHasParent (e : nat).

Inductive out :=
| RNone | RErr (c : errc) | RVal (v : V) | RTy (t : T) | RSyms (l : list string)
| REnv (i : nat) | RModule (i : nat) (r : option errc) | RBool (b : bool)
| RPanic | RBad | RFuel.

Definition target (o : op) : option nat :=
  match o with
  | ONewRoot => None
  | ONewEnv e | ONewModule e _ | OSetExt e _ | ODefine e _ _ | ODefineGlobal e _ _
  | OSet e _ _ | OGet e _ | OAddr e _ | OSymbols e | ODelete e _ | ODeleteGlobal e _
  | ODefineType e _ _ | ODefineGlobalType e _ _ | OType e _ | OTypeSymbols e
  | OPath e _ | OCopy e | ODeepCopy e | OHasParent e => Some e
  end.

Definition lift_h {A} (h : list scope) (r : res A) (k : A -> list scope * out) : list scope * out :=
  match r with
  | Ok a => k a
  | Err c => (h, RErr c)
  | Panic => (h, RPanic)
  | Bad => (h, RBad)
  | Fuel => (h, RFuel)
  end.

Definition valid (h : list scope) (e : nat) : bool := e <? length h.

Definition step (h : list scope) (o : op) : list scope * out :=
  let fuel := length h in
  match target o with
  | Some e => if valid h e then
    match o with
    | ONewRoot => (h, RBad)
    | ONewEnv e => let '(h', i) := new_env h e in (h', REnv i)
    | ONewModule e s =>
        match new_module h e s with
        | (h', m, Ok _) => (h', RModule m None)
        | (h', m, Err c) => (h', RModule m (Some c))
        | (h', m, _) => (h', RBad)
        end
    | OSetExt e x => (upd h e (fun sc => set_ext sc x), RNone)
    | ODefine e s v => lift_h h (define_value h e s v) (fun h' => (h', RNone))
    | ODefineGlobal e s v => lift_h h (define_global_value fuel h e s v) (fun h' => (h', RNone))
    | OSet e s v => lift_h h (set_value fuel h e s v) (fun h' => (h', RNone))
    | OGet e s => lift_h h (get_value fuel h e s) (fun v => (h, RVal v))
    | OAddr e s => lift_h h (addr fuel h e s) (fun v => (h, RVal v))
    | OSymbols e => match nth_error h e with
                    | Some sc => (h, RSyms (akeys (sc_values sc)))
                    | None => (h, RBad)
                    end
    | ODelete e s => (delete h e s, RNone)
    | ODeleteGlobal e s => lift_h h (delete_global fuel h e s) (fun h' => (h', RNone))
    | ODefineType e s t => lift_h h (define_type h e s t) (fun h' => (h', RNone))
    | ODefineGlobalType e s t => lift_h h (define_global_type fuel h e s t) (fun h' => (h', RNone))
    | OType e s => lift_h h (get_type fuel h e s) (fun t => (h, RTy t))
    | OTypeSymbols e => match nth_error h e with
                        | Some sc => (h, RSyms (akeys (sc_types sc)))
                        | None => (h, RBad)
                        end
    | OPath e p => lift_h h (get_env_from_path fuel h e p) (fun m => (h, REnv m))
    | OCopy e => lift_h h (copy h e) (fun '(h', c) => (h', REnv c))
    | ODeepCopy e => lift_h h (deep_copy fuel h e) (fun '(h', c) => (h', REnv c))
    | OHasParent e => match nth_error h e with
                      | Some sc => (h, RBool (match sc_parent sc with Some _ => true | None => false end))
                      | None => (h, RBad)
                      end
    end
    else (h, RBad)
  | None => let '(h', i) := new_root h in (h', REnv i)
  end.

Fixpoint run (h : list scope) (ops : list op) : list scope * list out :=
  match ops with
  | [] => (h, [])
  | o :: r => let '(h1, x) := step h o in
              let '(h2, xs) := run h1 r in (h2, x :: xs)
  end.

Definition final (h : list scope) (ops : list op) : list scope := fst (run h ops).

End Env.

Arguments Ok {A}. Arguments Err {A}. Arguments Panic {A}. Arguments Bad {A}. Arguments Fuel {A}.
Arguments mkScope {V T}.
