(* Decimal numerals: printing a number and reading it back gives the number - for every N and Z, no
   bound.  (Sexp.N_to_string / N_of_string carry every number exchanged with the harness; the same
   functions spell integers in the interpreter model's string conversions.) *)
From Coq Require Import String Ascii NArith ZArith Lia Bool ZifyN ZifyNat.
From Anko Require Import Base.Sexp.
Open Scope N_scope.

Lemma digit_roundtrip d : d < 10 -> digit_of (digit_char d) = Some d.
Proof.
  intro H. unfold digit_of, digit_char.
  rewrite N_ascii_embedding by lia.
  replace (48 <=? 48 + d) with true by (symmetry; apply N.leb_le; lia).
  replace (48 + d <=? 57) with true by (symmetry; apply N.leb_le; lia).
  cbn [andb]. f_equal. lia.
Qed.

Lemma to_digits_parse f : forall n acc, n < 10 ^ N.of_nat (S f) ->
  exists d, forall a, N_of_digits (N_to_digits (S f) n acc) a = N_of_digits acc (a * 10 ^ d + n).
Proof.
  induction f as [|f IH]; intros n acc Hn.
  - assert (n < 10) by (cbn in Hn; lia).
    exists 1. intro a. cbn [N_to_digits]. replace (n <? 10) with true by (symmetry; apply N.ltb_lt; lia).
    cbn [N_of_digits]. rewrite N.mod_small by lia. rewrite digit_roundtrip by lia. f_equal; try lia.
  - cbn [N_to_digits]. destruct (n <? 10) eqn:E.
    + apply N.ltb_lt in E. exists 1. intro a. cbn [N_of_digits]. rewrite N.mod_small by lia.
      rewrite digit_roundtrip by lia. f_equal; try lia.
    + apply N.ltb_ge in E.
      assert (Hq : n / 10 < 10 ^ N.of_nat (S f)).
      { apply N.div_lt_upper_bound; [lia|]. rewrite <- N.pow_succ_r'. rewrite <- Nnat.Nat2N.inj_succ. exact Hn. }
      destruct (IH (n / 10) (String (digit_char (n mod 10)) acc) Hq) as [d Hd].
      exists (N.succ d). intro a. change (N_to_digits (S f) (n / 10) (String (digit_char (n mod 10)) acc))
        with (N_to_digits (S f) (n / 10) (String (digit_char (n mod 10)) acc)).
      rewrite Hd. cbn [N_of_digits].
      rewrite digit_roundtrip by (apply N.mod_lt; lia). f_equal.
      rewrite N.pow_succ_r'. pose proof (N.div_mod n 10 ltac:(lia)). lia.
Qed.

Lemma to_digits_nonempty f n acc : N_to_digits (S f) n acc <> EmptyString.
Proof.
  revert n acc. induction f as [|f IH]; intros n acc; cbn [N_to_digits].
  - destruct (n <? 10); discriminate.
  - destruct (n <? 10); [discriminate | apply IH].
Qed.

Lemma fuel_suffices n : n < 10 ^ N.of_nat (S (N.to_nat (N.log2 n))).
Proof.
  rewrite Nnat.Nat2N.inj_succ, Nnat.N2Nat.id.
  destruct n as [|p]; [cbn; lia|].
  pose proof (N.log2_spec (N.pos p) ltac:(lia)) as [_ H].
  eapply N.lt_le_trans; [exact H|].
  apply N.pow_le_mono_l. lia.
Qed.

Theorem N_decimal_roundtrip : forall n, N_of_string (N_to_string n) = Some n.
Proof.
  intro n. unfold N_of_string, N_to_string.
  destruct (N_to_digits (S (N.to_nat (N.log2 n))) n "") eqn:E.
  - exfalso. eapply to_digits_nonempty; eauto.
  - rewrite <- E. destruct (to_digits_parse (N.to_nat (N.log2 n)) n ""%string (fuel_suffices n)) as [d Hd].
    rewrite Hd. cbn [N_of_digits]. f_equal; try lia.
Qed.

(* the first character of a numeral is a digit: no sign is mistaken for one *)
Lemma to_digits_head f : forall n acc, exists c r, N_to_digits (S f) n acc = String c r /\ (c = digit_char (n mod 10) \/ exists m, c = digit_char (m mod 10)).
Proof.
  induction f as [|f IH]; intros n acc; cbn [N_to_digits].
  - destruct (n <? 10); eexists _, _; split; eauto.
  - destruct (n <? 10); [eexists _, _; split; eauto|].
    destruct (IH (n / 10) (String (digit_char (n mod 10)) acc)) as (c & r & E & Hc).
    exists c, r. split; [exact E|]. right. destruct Hc as [->|[m ->]]; eauto.
Qed.

Lemma digit_char_not_sign m : digit_char (m mod 10) <> "-"%char /\ digit_char (m mod 10) <> "+"%char.
Proof.
  assert (H : m mod 10 < 10) by (apply N.mod_lt; lia).
  remember (m mod 10) as k eqn:Ek. clear Ek.
  unfold digit_char. split; intro E; apply (f_equal N_of_ascii) in E; rewrite N_ascii_embedding in E by lia;
    [change (N_of_ascii "-") with 45 in E | change (N_of_ascii "+") with 43 in E]; lia.
Qed.

Theorem Z_decimal_roundtrip : forall z, Z_of_string (Z_to_string z) = Some z.
Proof.
  intro z. destruct z as [|p|p]; unfold Z_to_string.
  - reflexivity.
  - unfold Z_of_string, N_to_string.
    destruct (to_digits_head (N.to_nat (N.log2 (N.pos p))) (N.pos p) ""%string) as (c & r & E & Hc).
    rewrite E. assert (Hs : c <> "-"%char) by (destruct Hc as [->|[m ->]]; apply digit_char_not_sign).
    rewrite <- E. fold (N_to_string (N.pos p)).
    destruct (N_to_string (N.pos p)) as [|c' r'] eqn:E2; [unfold N_to_string in E2; exfalso; eapply to_digits_nonempty; eauto|].
    assert (c' = c). { unfold N_to_string in E2. rewrite E in E2. now injection E2. } subst c'.
    destruct c as [[] [] [] [] [] [] [] []]; try (rewrite <- E2, N_decimal_roundtrip; reflexivity). exfalso; apply Hs; reflexivity.
  - unfold Z_of_string. rewrite N_decimal_roundtrip. reflexivity.
Qed.
