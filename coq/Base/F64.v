(* float64 as Coq.Floats.SpecFloat at prec = 53, emax = 1024: pure Z
   computation, no primitive floats, no axioms. *)
From Coq Require Import ZArith Bool Floats.SpecFloat Lia.
From Anko Require Import Base.Int64.
Open Scope Z_scope.

Notation f64 := spec_float (only parsing).
Definition prec := 53.
Definition emax := 1024.

Definition fadd (a b : f64) : f64 := SFadd prec emax a b.
Definition fsub (a b : f64) : f64 := SFsub prec emax a b.
Definition fmul (a b : f64) : f64 := SFmul prec emax a b.
Definition fdiv (a b : f64) : f64 := SFdiv prec emax a b.
Definition fneg (a : f64) : f64 := SFopp a.
Definition feqb (a b : f64) : bool := SFeqb a b.
Definition fltb (a b : f64) : bool := SFltb a b.
Definition fleb (a b : f64) : bool := SFleb a b.
Definition fzero : f64 := S754_zero false.
Definition fis_zero (a : f64) : bool := match a with S754_zero _ => true | _ => false end.

(* float64(int64) *)
Definition of_int (z : Z) : f64 :=
  match z with
  | Z0 => S754_zero false
  | Zpos p => binary_normalize prec emax (Zpos p) 0 false
  | Zneg p => SFopp (binary_normalize prec emax (Zpos p) 0 false)
  end.

(* int64(float64) as the amd64 CVTTSD2SQ instruction computes it: truncation
   toward zero, and the "integer indefinite" value MinInt64 for NaN, infinities
   and values out of range *)
Definition to_int (f : f64) : Z :=
  match f with
  | S754_zero _ => 0
  | S754_infinity _ | S754_nan => min_int64
  | S754_finite s m e =>
      let mag := if 0 <=? e then Zpos m * 2 ^ e else Zpos m / 2 ^ (- e) in
      let v := if s then - mag else mag in
      if in_int64b v then v else min_int64
  end.

(* IEEE 754 binary64 bit pattern <-> spec_float *)
Definition of_bits (b : Z) : f64 :=
  let s := Z.testbit b 63 in
  let e := Z.land (Z.shiftr b 52) 2047 in
  let m := Z.land b (2 ^ 52 - 1) in
  if e =? 0 then
    match m with
    | Zpos p => S754_finite s p (-1074)
    | _ => S754_zero s
    end
  else if e =? 2047 then
    (if m =? 0 then S754_infinity s else S754_nan)
  else
    match m + 2 ^ 52 with
    | Zpos p => S754_finite s p (e - 1075)
    | _ => S754_nan
    end.

(* canonical NaN pattern 0x7FF8000000000001 as Go prints math.NaN(); all NaNs are one class *)
Definition nan_bits : Z := 9221120237041090561.

Definition to_bits (f : f64) : Z :=
  let sb (s : bool) := if s then 2 ^ 63 else 0 in
  match f with
  | S754_zero s => sb s
  | S754_infinity s => sb s + 2047 * 2 ^ 52
  | S754_nan => nan_bits
  | S754_finite s m e =>
      (* results of the SF operations are canonical: either 53 significant bits or e = -1074 *)
      if Zpos m <? 2 ^ 52 then sb s + Zpos m
      else sb s + (e + 1075) * 2 ^ 52 + (Zpos m - 2 ^ 52)
  end.

Definition is_nan (f : f64) : bool := match f with S754_nan => true | _ => false end.
