(* float64(int64) is exact below 2^53: an integer of at most 53 bits handed to a float64 parameter (or met
   by float arithmetic) becomes the float of the same value, and comes back unchanged.  Proved on the
   definitions of Coq.Floats.SpecFloat (binary_normalize at prec = 53, emax = 1024) used by Base/F64.v. *)
From Coq Require Import ZArith Lia Bool Floats.SpecFloat Zpower.
From Anko Require Import Base.Int64 Base.F64.
Open Scope Z_scope.

Lemma digits2_pos_bounds p : 2 ^ (Zpos (digits2_pos p) - 1) <= Zpos p < 2 ^ Zpos (digits2_pos p).
Proof.
  induction p as [p IH|p IH|]; cbn [digits2_pos].
  - rewrite Pos2Z.inj_succ. replace (Z.succ (Zpos (digits2_pos p)) - 1) with (Zpos (digits2_pos p)) by lia.
    rewrite Z.pow_succ_r by lia.
    assert (E : 2 ^ Zpos (digits2_pos p) = 2 * 2 ^ (Zpos (digits2_pos p) - 1)).
    { rewrite <- Z.pow_succ_r by lia. f_equal. lia. }
    change (Zpos p~1) with (2 * Zpos p + 1). lia.
  - rewrite Pos2Z.inj_succ. replace (Z.succ (Zpos (digits2_pos p)) - 1) with (Zpos (digits2_pos p)) by lia.
    rewrite Z.pow_succ_r by lia.
    assert (E : 2 ^ Zpos (digits2_pos p) = 2 * 2 ^ (Zpos (digits2_pos p) - 1)).
    { rewrite <- Z.pow_succ_r by lia. f_equal. lia. }
    change (Zpos p~0) with (2 * Zpos p). lia.
  - cbn. lia.
Qed.

Lemma digits2_pos_shift n p : digits2_pos (shift_pos n p) = (digits2_pos p + n)%positive.
Proof.
  unfold shift_pos. induction n as [|n IH] using Pos.peano_ind.
  - cbn. lia.
  - rewrite Pos.iter_succ. cbn [digits2_pos]. rewrite IH. lia.
Qed.

Lemma shift_pos_value n p : Zpos (shift_pos n p) = Zpos p * 2 ^ Zpos n.
Proof. rewrite shift_pos_correct, Zpower_pos_nat, Zpower_nat_Z, positive_nat_Z. lia. Qed.

(* a mantissa of exactly 53 bits with an exponent in range is already a float64: rounding leaves it alone *)
Lemma round_canonical sx m e : Zpos (digits2_pos m) = 53 -> -1074 <= e <= 971 ->
  binary_round_aux 53 1024 sx (Zpos m) e loc_Exact = S754_finite sx m e.
Proof.
  intros Hd He. unfold binary_round_aux, shr_fexp. cbn [Zdigits2 shr_record_of_loc]. rewrite Hd.
  assert (E : fexp 53 1024 (53 + e) - e = 0) by (unfold fexp, emin; lia).
  rewrite E. cbn [shr loc_of_shr_record shr_m round_nearest_even Zdigits2 shr_record_of_loc]. rewrite Hd, E.
  cbn [shr shr_m]. replace (Zle_bool e (1024 - 53)) with true; [reflexivity|].
  symmetry. apply Zle_is_le_bool. lia.
Qed.

Lemma of_int_pos p : Zpos p < 2 ^ 53 ->
  exists m e, F64.of_int (Zpos p) = S754_finite false m e /\ -52 <= e <= 0 /\ Zpos m = Zpos p * 2 ^ (- e).
Proof.
  intro Hp. pose proof (digits2_pos_bounds p) as [Hlo Hhi].
  assert (Hd : 1 <= Zpos (digits2_pos p) <= 53).
  { split; [lia|]. destruct (Z_le_gt_dec (Zpos (digits2_pos p)) 53) as [H|H]; [exact H|exfalso].
    assert (2 ^ 53 <= 2 ^ (Zpos (digits2_pos p) - 1)) by (apply Z.pow_le_mono_r; lia). lia. }
  unfold F64.of_int, binary_normalize, binary_round.
  assert (Ef : fexp F64.prec F64.emax (Zpos (digits2_pos p) + 0) = Zpos (digits2_pos p) - 53).
  { unfold fexp, emin, F64.prec, F64.emax. lia. }
  rewrite Ef. unfold shl_align.
  destruct (Zpos (digits2_pos p) - 53 - 0) as [|q|q] eqn:Eq.
  - exists p, 0. split; [|split; [lia | rewrite Z.mul_1_r; reflexivity]].
    apply round_canonical; lia.
  - lia.
  - exists (shift_pos q p), (Zpos (digits2_pos p) - 53). split; [|split; [lia|]].
    + apply round_canonical; [|lia]. rewrite digits2_pos_shift, Pos2Z.inj_add. lia.
    + rewrite shift_pos_value. f_equal. f_equal. lia.
Qed.

Theorem small_integers_are_floats_exactly z : - 2 ^ 53 < z < 2 ^ 53 -> F64.to_int (F64.of_int z) = z.
Proof.
  intro Hz. destruct z as [|p|p].
  - reflexivity.
  - destruct (of_int_pos p ltac:(lia)) as (m & e & E & He & Hm). rewrite E. unfold F64.to_int. cbv beta iota zeta.
    destruct (0 <=? e) eqn:E0.
    + apply Z.leb_le in E0. assert (e = 0) by lia. subst e. change (2 ^ (- 0)) with 1 in Hm. change (2 ^ 0) with 1.
      rewrite Z.mul_1_r in Hm. rewrite Z.mul_1_r, Hm. unfold in_int64b, min_int64, max_int64, two63.
      repeat match goal with |- context [?a <=? ?b] => destruct (Z.leb_spec a b) end; cbn [andb]; try reflexivity; lia.
    + rewrite Hm, Z.div_mul by (apply Z.pow_nonzero; lia).
      unfold in_int64b, min_int64, max_int64, two63.
      repeat match goal with |- context [?a <=? ?b] => destruct (Z.leb_spec a b) end; cbn [andb]; try reflexivity; lia.
  - assert (Hp : Zpos p < 2 ^ 53) by lia.
    destruct (of_int_pos p Hp) as (m & e & E & He & Hm).
    unfold F64.of_int in *. rewrite E. cbn [SFopp negb]. unfold F64.to_int. cbv beta iota zeta.
    destruct (0 <=? e) eqn:E0.
    + apply Z.leb_le in E0. assert (e = 0) by lia. subst e. change (2 ^ (- 0)) with 1 in Hm. change (2 ^ 0) with 1.
      rewrite Z.mul_1_r in Hm. rewrite Z.mul_1_r, Hm. unfold in_int64b, min_int64, max_int64, two63.
      repeat match goal with |- context [?a <=? ?b] => destruct (Z.leb_spec a b) end; cbn [andb]; try reflexivity; lia.
    + rewrite Hm, Z.div_mul by (apply Z.pow_nonzero; lia).
      unfold in_int64b, min_int64, max_int64, two63.
      repeat match goal with |- context [?a <=? ?b] => destruct (Z.leb_spec a b) end; cbn [andb]; try reflexivity; lia.
Qed.
