(* Go int64 arithmetic on Z: every operation wraps to the two's-complement range. *)
From Coq Require Import ZArith Lia.
Open Scope Z_scope.

Definition two63 : Z := 9223372036854775808.
Definition two64 : Z := 18446744073709551616.
Definition min_int64 : Z := - two63.
Definition max_int64 : Z := two63 - 1.

Definition in_int64 (z : Z) : Prop := min_int64 <= z <= max_int64.
Definition in_int64b (z : Z) : bool := (min_int64 <=? z) && (z <=? max_int64).

(* the unique representative of z modulo 2^64 in [-2^63, 2^63) *)
Definition wrap64 (z : Z) : Z := (z + two63) mod two64 - two63.

Definition add64 (a b : Z) : Z := wrap64 (a + b).
Definition sub64 (a b : Z) : Z := wrap64 (a - b).
Definition mul64 (a b : Z) : Z := wrap64 (a * b).
Definition neg64 (a : Z) : Z := wrap64 (- a).
Definition not64 (a : Z) : Z := wrap64 (- a - 1).            (* ^a *)
Definition and64 (a b : Z) : Z := wrap64 (Z.land a b).
Definition or64 (a b : Z) : Z := wrap64 (Z.lor a b).
(* Go's % truncates toward zero: the result has the sign of the dividend *)
Definition rem64 (a b : Z) : Z := wrap64 (Z.rem a b).
(* shift counts are converted to uint64: a negative count is a huge count *)
Definition ucount (c : Z) : Z := c mod two64.
Definition shl64 (a c : Z) : Z :=
  let u := ucount c in if 64 <=? u then 0 else wrap64 (a * 2 ^ u).
Definition shr64 (a c : Z) : Z :=
  let u := ucount c in if 64 <=? u then (if a <? 0 then -1 else 0) else Z.shiftr a u.

Lemma wrap64_range z : in_int64 (wrap64 z).
Proof.
  unfold in_int64, wrap64, min_int64, max_int64.
  pose proof (Z.mod_pos_bound (z + two63) two64 ltac:(reflexivity)). unfold two63, two64 in *. lia.
Qed.

Lemma wrap64_id z : in_int64 z -> wrap64 z = z.
Proof.
  unfold in_int64, wrap64, min_int64, max_int64. intros H.
  rewrite Z.mod_small; unfold two63, two64 in *; lia.
Qed.

Lemma wrap64_congr z : (wrap64 z - z) mod two64 = 0.
Proof.
  unfold wrap64.
  replace ((z + two63) mod two64 - two63 - z) with ((z + two63) mod two64 - (z + two63)) by lia.
  rewrite Zminus_mod, Zmod_mod, Z.sub_diag. reflexivity.
Qed.

Lemma wrap64_idem z : wrap64 (wrap64 z) = wrap64 z.
Proof. apply wrap64_id, wrap64_range. Qed.
