(* Association lists keyed by strings: the model of a Go map[string]X.
   Invariant kept by every operation: keys are pairwise distinct. *)
From Coq Require Import String Ascii List Bool Arith Lia.
Import ListNotations.

Section Assoc.
Context {A : Type}.

Fixpoint alookup (l : list (string * A)) (k : string) : option A :=
  match l with
  | [] => None
  | (k', v) :: r => if String.eqb k k' then Some v else alookup r k
  end.

Definition amem (l : list (string * A)) (k : string) : bool :=
  match alookup l k with Some _ => true | None => false end.

(* m[k] = v *)
Fixpoint aset (l : list (string * A)) (k : string) (v : A) : list (string * A) :=
  match l with
  | [] => [(k, v)]
  | (k', v') :: r => if String.eqb k k' then (k', v) :: r else (k', v') :: aset r k v
  end.

(* delete(m, k) *)
Fixpoint adel (l : list (string * A)) (k : string) : list (string * A) :=
  match l with
  | [] => []
  | (k', v') :: r => if String.eqb k k' then adel r k else (k', v') :: adel r k
  end.

Definition akeys (l : list (string * A)) : list string := map fst l.

Lemma alookup_aset_same l k v : alookup (aset l k v) k = Some v.
Proof.
  induction l as [|[k' v'] r IH]; cbn.
  - now rewrite String.eqb_refl.
  - destruct (String.eqb k k') eqn:E; cbn; rewrite E; auto.
Qed.

Lemma alookup_aset_other l k v k2 : k2 <> k -> alookup (aset l k v) k2 = alookup l k2.
Proof.
  intros Hne. induction l as [|[k' v'] r IH]; cbn.
  - destruct (String.eqb k2 k) eqn:E; auto. apply String.eqb_eq in E. contradiction.
  - destruct (String.eqb k k') eqn:E; cbn.
    + apply String.eqb_eq in E. subst k'.
      destruct (String.eqb k2 k) eqn:E2; auto. apply String.eqb_eq in E2. contradiction.
    + rewrite IH. reflexivity.
Qed.

Lemma alookup_aset l k v k2 :
  alookup (aset l k v) k2 = if String.eqb k2 k then Some v else alookup l k2.
Proof.
  destruct (String.eqb k2 k) eqn:E.
  - apply String.eqb_eq in E. subst. apply alookup_aset_same.
  - apply alookup_aset_other. intros ->. now rewrite String.eqb_refl in E.
Qed.

Lemma alookup_adel l k k2 :
  alookup (adel l k) k2 = if String.eqb k2 k then None else alookup l k2.
Proof.
  induction l as [|[k' v'] r IH]; cbn.
  - now destruct (String.eqb k2 k).
  - destruct (String.eqb k k') eqn:E; cbn.
    + apply String.eqb_eq in E. subst k'. rewrite IH.
      destruct (String.eqb k2 k); reflexivity.
    + rewrite IH. destruct (String.eqb k2 k) eqn:E2; auto.
      apply String.eqb_eq in E2. subst k2. now rewrite E.
Qed.

Lemma amem_aset l k v k2 : amem (aset l k v) k2 = (String.eqb k2 k || amem l k2).
Proof. unfold amem. rewrite alookup_aset. destruct (String.eqb k2 k); reflexivity. Qed.

Lemma amem_adel l k k2 : amem (adel l k) k2 = (negb (String.eqb k2 k) && amem l k2).
Proof. unfold amem. rewrite alookup_adel. destruct (String.eqb k2 k); reflexivity. Qed.

Lemma alookup_in l k v : alookup l k = Some v -> In (k, v) l.
Proof.
  induction l as [|[k' v'] r IH]; cbn; [discriminate|].
  destruct (String.eqb k k') eqn:E.
  - apply String.eqb_eq in E. subst. intros [= ->]. now left.
  - intros H. right. auto.
Qed.

Lemma amem_in_keys l k : amem l k = true <-> In k (akeys l).
Proof.
  unfold amem, akeys. induction l as [|[k' v'] r IH]; cbn.
  - split; [discriminate|tauto].
  - destruct (String.eqb k k') eqn:E.
    + apply String.eqb_eq in E. subst. split; auto.
    + rewrite IH. split; [tauto|]. intros [H|H]; auto. subst.
      now rewrite String.eqb_refl in E.
Qed.

(* distinct keys *)
Lemma NoDup_keys_aset l k v : NoDup (akeys l) -> NoDup (akeys (aset l k v)).
Proof.
  unfold akeys. induction l as [|[k' v'] r IH]; cbn; intros H.
  - constructor; [tauto|constructor].
  - inversion H as [|? ? Hn Hr]; subst.
    destruct (String.eqb k k') eqn:E; cbn.
    + constructor; auto.
    + constructor; auto. intros Hin. apply Hn.
      change (In k' (akeys (aset r k v))) in Hin. apply amem_in_keys in Hin.
      rewrite amem_aset in Hin. apply orb_true_iff in Hin as [Hin|Hin].
      * apply String.eqb_eq in Hin. subst. now rewrite String.eqb_refl in E.
      * now apply amem_in_keys in Hin.
Qed.

Lemma NoDup_keys_adel l k : NoDup (akeys l) -> NoDup (akeys (adel l k)).
Proof.
  unfold akeys. induction l as [|[k' v'] r IH]; cbn; intros H; [constructor|].
  inversion H as [|? ? Hn Hr]; subst.
  destruct (String.eqb k k') eqn:E; cbn; auto.
  constructor; auto. intros Hin. apply Hn.
  change (In k' (akeys (adel r k))) in Hin. apply amem_in_keys in Hin.
  rewrite amem_adel in Hin. apply andb_true_iff in Hin as [_ Hin].
  now apply amem_in_keys in Hin.
Qed.

End Assoc.

(* strings.Contains(s, ".") *)
Fixpoint contains_dot (s : string) : bool :=
  match s with
  | EmptyString => false
  | String c r => if Ascii.eqb c "."%char then true else contains_dot r
  end.
