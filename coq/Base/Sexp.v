(* S-expressions: the exchange format between the Go harness and the
   extracted models.  Atoms are byte strings; numbers are decimal atoms. *)
From Coq Require Import String Ascii List ZArith NArith Bool.
Import ListNotations.
Open Scope string_scope.

Inductive sexp := SA (s : string) | SL (l : list sexp).

Definition digit_of (c : ascii) : option N :=
  let n := N_of_ascii c in
  if (N.leb 48 n && N.leb n 57)%bool then Some (n - 48)%N else None.

Fixpoint N_of_digits (s : string) (acc : N) : option N :=
  match s with
  | EmptyString => Some acc
  | String c r => match digit_of c with
                  | Some d => N_of_digits r (acc * 10 + d)%N
                  | None => None
                  end
  end.

Definition N_of_string (s : string) : option N :=
  match s with EmptyString => None | _ => N_of_digits s 0%N end.

Definition Z_of_string (s : string) : option Z :=
  match s with
  | String "-"%char r => option_map (fun n => Z.opp (Z.of_N n)) (N_of_string r)
  | _ => option_map Z.of_N (N_of_string s)
  end.

Definition as_atom (s : sexp) : option string := match s with SA a => Some a | SL _ => None end.
Definition as_N (s : sexp) : option N := match s with SA a => N_of_string a | SL _ => None end.
Definition as_nat (s : sexp) : option nat := option_map N.to_nat (as_N s).
Definition as_Z (s : sexp) : option Z := match s with SA a => Z_of_string a | SL _ => None end.
Definition as_bool (s : sexp) : option bool :=
  match s with
  | SA "true" => Some true | SA "false" => Some false | _ => None
  end.

Fixpoint map_opt {A B} (f : A -> option B) (l : list A) : option (list B) :=
  match l with
  | [] => Some []
  | x :: r => match f x, map_opt f r with
              | Some y, Some ys => Some (y :: ys)
              | _, _ => None
              end
  end.

Definition as_list {A} (f : sexp -> option A) (s : sexp) : option (list A) :=
  match s with SL l => map_opt f l | SA _ => None end.

Definition as_opt {A} (f : sexp -> option A) (s : sexp) : option (option A) :=
  match s with
  | SL [] => Some None
  | SL [x] => option_map Some (f x)
  | _ => None
  end.

(* printing numbers *)
Definition digit_char (d : N) : ascii := ascii_of_N (48 + d).
Fixpoint N_to_digits (fuel : nat) (n : N) (acc : string) : string :=
  match fuel with
  | O => acc
  | S f => let acc' := String (digit_char (n mod 10)) acc in
           if (n <? 10)%N then acc' else N_to_digits f (n / 10)%N acc'
  end.
Definition N_to_string (n : N) : string := N_to_digits (S (N.to_nat (N.log2 n))) n "".
Definition nat_to_string (n : nat) : string := N_to_string (N.of_nat n).
Definition Z_to_string (z : Z) : string :=
  match z with
  | Z0 => "0"
  | Zpos p => N_to_string (Npos p)
  | Zneg p => String "-" (N_to_string (Npos p))
  end.

Definition sN (n : N) : sexp := SA (N_to_string n).
Definition snat (n : nat) : sexp := SA (nat_to_string n).
Definition sZ (z : Z) : sexp := SA (Z_to_string z).
Definition sbool (b : bool) : sexp := SA (if b then "true" else "false").
