(* The lock structure of package env as data (regenerated from env/*.go on every run into
   AnkoGen/GenLocks.v by harness/c13static.go) and the two conditions checked on it:
   [locks_ok]    every access to the maps of a scope happens under that scope's lock, writes under
                 the write lock;
   [sections_ok] on every control path a method acquires the lock of one scope at most once (directly
                 or by calling another locking method on the same receiver) before it moves on to
                 another scope - so each operation is one critical section per scope.  [two_phase] lists
                 exempted methods: none (DeleteGlobal was, until its check-then-act was found
                 non-linearizable by the thorough schedule exploration and repaired). *)
From Coq Require Import String List Bool Arith.
Import ListNotations.
Open Scope string_scope.

Record access := mkAccess {
  a_func : string; a_field : string; a_write : bool;
  a_lock : nat;      (* 0 none, 1 read lock, 2 write lock, 3 unknown *)
  a_line : nat }.

Inductive event := EAcq | EMove | ECall (m : string).
Record method := mkMethod { m_name : string; m_paths : list (list event) }.

Definition access_ok (a : access) : bool :=
  if a_write a then Nat.eqb (a_lock a) 2 else Nat.eqb (a_lock a) 1 || Nat.eqb (a_lock a) 2.
Definition locks_ok (l : list access) : bool := forallb access_ok l.

Definition mem (s : string) (l : list string) : bool := existsb (String.eqb s) l.

(* methods that take a lock of their receiver's scope, directly or through calls on the same receiver *)
Definition locking_step (ms : list method) (known : list string) : list string :=
  map m_name (filter (fun m => existsb (fun p => existsb (fun e => match e with
                                                                     | EAcq => true
                                                                     | ECall c => mem c known
                                                                     | EMove => false end) p) (m_paths m)) ms).
Fixpoint locking (n : nat) (ms : list method) : list string :=
  match n with O => [] | S k => locking_step ms (locking k ms) end.

(* at most one acquisition per scope along a path *)
Fixpoint path_ok (lk : list string) (held : nat) (p : list event) : bool :=
  match p with
  | [] => true
  | EMove :: r => path_ok lk 0 r
  | EAcq :: r => Nat.eqb held 0 && path_ok lk 1 r
  | ECall c :: r => if mem c lk then Nat.eqb held 0 && path_ok lk 1 r else path_ok lk held r
  end.

Definition two_phase : list string := [].

Definition sections_ok (ms : list method) : bool :=
  let lk := locking (S (length ms)) ms in
  forallb (fun m => mem (m_name m) two_phase || forallb (path_ok lk 0) (m_paths m)) ms.

Lemma locks_ok_spec l : locks_ok l = true ->
  forall a, In a l -> a_lock a <> 0 /\ (a_write a = true -> a_lock a = 2).
Proof.
  unfold locks_ok. rewrite forallb_forall. intros H a Ha. specialize (H a Ha).
  unfold access_ok in H. destruct (a_write a).
  - apply Nat.eqb_eq in H. split; [rewrite H; discriminate | auto].
  - apply orb_prop in H as [H|H]; apply Nat.eqb_eq in H; split; try (rewrite H; discriminate); discriminate.
Qed.

Example unlocked_read_rejected : locks_ok [mkAccess "GetValueSymbols" "values" false 0 111] = false.
Proof. reflexivity. Qed.
Example check_then_act_rejected :
  sections_ok [mkMethod "Delete" [[EAcq]]; mkMethod "SetIfPresent" [[EAcq; ECall "Delete"]]] = false.
Proof. reflexivity. Qed.
Example walk_up_accepted :
  sections_ok [mkMethod "GetValue" [[EAcq]]; mkMethod "Lookup" [[EAcq; EMove; EAcq; EMove]]] = true.
Proof. reflexivity. Qed.
