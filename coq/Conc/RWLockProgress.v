(* Reader-writer locks with writer precedence (what sync.RWMutex is: once a writer has announced itself,
   new readers wait until it has had the lock), many locks (one per scope), threads that run arbitrary
   sequences of acquire / release actions.

   [no_two_holders]   the lock is a lock: never a writer together with another holder.
   [progress]         threads that hold at most one lock at a time, and ask for none while holding one
                      (what LockTable.sections_ok establishes for the methods of package env, which walk the
                      parent chain releasing each scope before they lock the next), can never deadlock:
                      in every state some thread can move or all are finished.
   [nested_read_lock_deadlocks]   the discipline is needed: one thread that asks for a read lock it
                      already holds and one writer reach a state where nobody can move - the seeded change
                      C13-g (String() calling GetValueSymbols under its own read lock). *)
From Coq Require Import List Bool Arith Lia.
From Anko Require Import Conc.LockReduction.
Import ListNotations.

Inductive act := Acq (l : nat) (w : bool) | Rel (l : nat) (w : bool).

Record thread := mkT {
  todo : list act;
  held : list (nat * bool);      (* locks held, with the mode *)
  ann : option nat }.            (* announced as a writer of this lock, waiting for its readers to leave *)

Definition holds (l : nat) (w : bool) (t : thread) : Prop := In (l, w) (held t).
Definition announced (l : nat) (t : thread) : Prop := ann t = Some l.

Fixpoint remove1 (x : nat * bool) (h : list (nat * bool)) : list (nat * bool) :=
  match h with
  | [] => []
  | y :: r => if (Nat.eqb (fst x) (fst y) && Bool.eqb (snd x) (snd y))%bool then r else y :: remove1 x r
  end.

Inductive step : list thread -> list thread -> Prop :=
| racq ts i l r h : nth_error ts i = Some (mkT (Acq l false :: r) h None) ->
    Forall (fun t => ~ holds l true t /\ ~ announced l t) ts ->
    step ts (upd ts i (mkT r ((l, false) :: h) None))
| announce ts i l r h : nth_error ts i = Some (mkT (Acq l true :: r) h None) ->
    Forall (fun t => ~ holds l true t /\ ~ announced l t) ts ->
    step ts (upd ts i (mkT (Acq l true :: r) h (Some l)))
| wacq ts i l r h : nth_error ts i = Some (mkT (Acq l true :: r) h (Some l)) ->
    Forall (fun t => ~ holds l false t) ts ->
    step ts (upd ts i (mkT r ((l, true) :: h) None))
| rel ts i l w r h : nth_error ts i = Some (mkT (Rel l w :: r) h None) -> In (l, w) h ->
    step ts (upd ts i (mkT r (remove1 (l, w) h) None)).

Inductive run : list thread -> list thread -> Prop :=
| run_refl ts : run ts ts
| run_cons ts ts1 ts2 : step ts ts1 -> run ts1 ts2 -> run ts ts2.

Definition finished (ts : list thread) : Prop := Forall (fun t => todo t = []) ts.
Definition stuck (ts : list thread) : Prop := ~ finished ts /\ forall ts', ~ step ts ts'.

(* ---- the discipline: sections, one lock at a time ---- *)
Fixpoint sections (p : list act) : Prop :=
  match p with
  | [] => True
  | Acq l w :: Rel l' w' :: r => l = l' /\ w = w' /\ sections r
  | _ => False
  end.

Definition disciplined (t : thread) : Prop :=
  match held t, ann t with
  | [], None => sections (todo t)
  | [], Some l => exists r, todo t = Acq l true :: r /\ sections (todo t)
  | [(l, w)], None => exists r, todo t = Rel l w :: r /\ sections r
  | _, _ => False
  end.

Lemma Forall_upd {A} (P : A -> Prop) (l : list A) i x : Forall P l -> P x -> Forall P (upd l i x).
Proof.
  revert i. induction l as [|y r IH]; intros i Hl Hx; [destruct i; constructor|].
  inversion Hl as [|? ? Hy Hr]; subst. destruct i as [|i]; cbn; constructor; auto.
Qed.

Lemma Forall_nth {A} (P : A -> Prop) (l : list A) i x : Forall P l -> nth_error l i = Some x -> P x.
Proof. intros H Hn. rewrite Forall_forall in H. apply H. eapply nth_error_In; eauto. Qed.

Lemma remove1_head l w : remove1 (l, w) [(l, w)] = [].
Proof. cbn. rewrite Nat.eqb_refl, Bool.eqb_reflx. reflexivity. Qed.

Theorem discipline_is_kept ts ts' : Forall disciplined ts -> step ts ts' -> Forall disciplined ts'.
Proof.
  intros Hd Hs. destruct Hs as [ts i l r h Hn _ | ts i l r h Hn _ | ts i l r h Hn _ | ts i l w r h Hn Hin];
    pose proof (Forall_nth _ _ _ _ Hd Hn) as Ht; apply Forall_upd; auto; unfold disciplined in *; cbn in *.
  - destruct h as [|[l0 w0] [|? ?]]; try contradiction.
    + destruct r as [|[|l' w'] r']; try contradiction. destruct Ht as (-> & <- & Hr). eauto.
    + destruct Ht as (r0 & Hr0 & _). discriminate.
  - destruct h as [|[l0 w0] [|? ?]]; try contradiction.
    + eauto.
    + destruct Ht as (r0 & Hr0 & _). discriminate.
  - destruct h as [|[l0 w0] [|? ?]]; try contradiction.
    destruct Ht as (r0 & Hr0 & Hsec). cbn in Hsec.
    destruct r as [|[|l' w'] r']; try contradiction. destruct Hsec as (-> & <- & Hr). eauto.
  - destruct h as [|[l0 w0] [|? ?]]; try contradiction.
    destruct Ht as (r0 & Hr0 & Hsec). injection Hr0 as -> -> ->. rewrite remove1_head. exact Hsec.
Qed.

Lemma exists_or_all {A} (P : A -> Prop) (dec : forall x, {P x} + {~ P x}) (l : list A) :
  (exists i x, nth_error l i = Some x /\ P x) \/ Forall (fun x => ~ P x) l.
Proof.
  induction l as [|y r IH]; [right; constructor|].
  destruct (dec y) as [Hy|Hy]; [left; exists 0, y; auto|].
  destruct IH as [(i & x & Hn & Hx)|Hall]; [left; exists (S i), x; auto | right; constructor; auto].
Qed.

Definition holding (t : thread) : Prop := held t <> [].
Definition waiting (t : thread) : Prop := ann t <> None.
Definition unfinished (t : thread) : Prop := todo t <> [].

Lemma holding_dec t : {holding t} + {~ holding t}.
Proof. unfold holding. destruct (held t); [right; auto | left; discriminate]. Qed.
Lemma waiting_dec t : {waiting t} + {~ waiting t}.
Proof. unfold waiting. destruct (ann t); [left; discriminate | right; auto]. Qed.
Lemma unfinished_dec t : {unfinished t} + {~ unfinished t}.
Proof. unfold unfinished. destruct (todo t); [right; auto | left; discriminate]. Qed.

(* deadlock freedom under the discipline *)
Theorem progress ts : Forall disciplined ts -> finished ts \/ exists ts', step ts ts'.
Proof.
  intro Hd.
  destruct (exists_or_all holding holding_dec ts) as [(i & t & Hn & Hh)|Hnone].
  { (* somebody holds a lock: its next action is the release *)
    right. pose proof (Forall_nth _ _ _ _ Hd Hn) as Ht. unfold disciplined, holding in *.
    destruct t as [p h a]. cbn in *. destruct h as [|[l w] [|? ?]]; try congruence.
    - destruct a; try contradiction. destruct Ht as (r & -> & _).
      eexists. eapply rel; [exact Hn | left; reflexivity].
    - destruct a; contradiction. }
  assert (Hfree : forall l w, Forall (fun t => ~ holds l w t) ts).
  { intros l w. rewrite Forall_forall in *. intros t Ht Hin. apply (Hnone t Ht). unfold holding, holds in *.
    destruct (held t); [contradiction | discriminate]. }
  destruct (exists_or_all waiting waiting_dec ts) as [(i & t & Hn & Hw)|Hnow].
  { (* nobody holds anything, a writer is waiting: it gets the lock *)
    right. pose proof (Forall_nth _ _ _ _ Hd Hn) as Ht. pose proof (Forall_nth _ _ _ _ Hnone Hn) as Hh.
    unfold disciplined, waiting, holding in *. destruct t as [p h a]. cbn in *.
    destruct h as [|? ?]; [|exfalso; apply Hh; discriminate]. destruct a as [l|]; [|congruence].
    destruct Ht as (r & -> & _). eexists. eapply wacq; [exact Hn | apply Hfree]. }
  destruct (exists_or_all unfinished unfinished_dec ts) as [(i & t & Hn & Hu)|Hfin].
  { (* nobody holds, nobody waits: whoever has something left to do may start *)
    right. pose proof (Forall_nth _ _ _ _ Hd Hn) as Ht. pose proof (Forall_nth _ _ _ _ Hnone Hn) as Hh.
    pose proof (Forall_nth _ _ _ _ Hnow Hn) as Ha.
    unfold disciplined, waiting, holding, unfinished in *. destruct t as [p h a]. cbn in *.
    destruct h as [|? ?]; [|exfalso; apply Hh; discriminate]. destruct a; [exfalso; apply Ha; discriminate|].
    destruct p as [|[l w|l w] r]; try congruence; try contradiction.
    assert (Hok : Forall (fun t => ~ holds l true t /\ ~ announced l t) ts).
    { apply Forall_forall. intros u Hu'. split.
      - pose proof (Hfree l true) as Hf. rewrite Forall_forall in Hf. apply Hf; auto.
      - intro Hann. rewrite Forall_forall in Hnow. apply (Hnow u Hu'). unfold announced in Hann. congruence. }
    destruct w; eexists; [eapply announce | eapply racq]; eauto. }
  left. unfold finished. rewrite Forall_forall in *. intros t Ht. specialize (Hfin t Ht). unfold unfinished in Hfin.
  destruct (todo t); [reflexivity | exfalso; apply Hfin; discriminate].
Qed.

Corollary disciplined_threads_never_deadlock ts ts' :
  Forall disciplined ts -> run ts ts' -> ~ stuck ts'.
Proof.
  intros Hd Hr. induction Hr as [ts|ts ts1 ts2 Hs _ IH].
  - intros [Hnf Hno]. destruct (progress ts Hd) as [Hf|(ts' & Hs)]; [auto | exact (Hno ts' Hs)].
  - apply IH. eapply discipline_is_kept; eauto.
Qed.

(* ---- the lock is a lock ---- *)
(* mutual exclusion is stated for disciplined threads, where it has a one-line reading *)
Definition no_two_holders (ts : list thread) : Prop :=
  forall l i j t u, nth_error ts i = Some t -> nth_error ts j = Some u -> i <> j ->
    holds l true t -> ~ holds l true u /\ ~ holds l false u.

Definition one_announcer (ts : list thread) : Prop :=
  forall l i j t u, nth_error ts i = Some t -> nth_error ts j = Some u -> i <> j ->
    (announced l t \/ holds l true t) -> ~ announced l u /\ ~ holds l true u.

Definition lock_inv (ts : list thread) : Prop :=
  Forall disciplined ts /\ one_announcer ts /\ no_two_holders ts.

Lemma nth_upd_cases {A} (l : list A) i j x y : nth_error (upd l i x) j = Some y ->
  (j = i /\ y = x) \/ (j <> i /\ nth_error l j = Some y).
Proof.
  intro H. destruct (Nat.eq_dec j i) as [->|Hne].
  - left. split; [reflexivity|]. assert (Hlt : i < length l).
    { rewrite <- (upd_length l i x). apply nth_error_Some. congruence. }
    rewrite upd_same in H by exact Hlt. congruence.
  - right. rewrite upd_other in H by exact Hne. auto.
Qed.

Theorem lock_inv_step ts ts' : lock_inv ts -> step ts ts' -> lock_inv ts'.
Proof.
  intros (Hd & Hone & Hex) Hs. split; [eapply discipline_is_kept; eauto|].
  destruct Hs as [ts i0 l0 r h Hn Hall | ts i0 l0 r h Hn Hall | ts i0 l0 r h Hn Hall | ts i0 l0 w0 r h Hn Hin];
    pose proof (Forall_nth _ _ _ _ Hd Hn) as Hdt; unfold disciplined in Hdt; cbn in Hdt.
  - (* read acquire: h = [] *)
    destruct h as [|[? ?] [|? ?]]; try contradiction; [|destruct Hdt as (? & ? & _); discriminate].
    split.
    + intros l i j t u Hi Hj Hij Hor.
      apply nth_upd_cases in Hi as [(-> & ->)|(Hi0 & Hi)]; apply nth_upd_cases in Hj as [(-> & ->)|(Hj0 & Hj)]; try congruence.
      * unfold announced, holds in Hor. cbn in Hor. destruct Hor as [?|[?|[]]]; discriminate.
      * unfold announced, holds. cbn. split; [discriminate | intros [?|[]]; discriminate].
      * exact (Hone l i j t u Hi Hj Hij Hor).
    + intros l i j t u Hi Hj Hij Hw.
      apply nth_upd_cases in Hi as [(-> & ->)|(Hi0 & Hi)]; apply nth_upd_cases in Hj as [(-> & ->)|(Hj0 & Hj)]; try congruence.
      * unfold holds in Hw. cbn in Hw. destruct Hw as [?|[]]; discriminate.
      * unfold holds. cbn. split; [intros [?|[]]; discriminate|]. intros [E|[]]. injection E as ->.
        apply (proj1 (Forall_nth _ _ _ _ Hall Hi)). exact Hw.
      * exact (Hex l i j t u Hi Hj Hij Hw).
  - (* announce *)
    destruct h as [|[? ?] [|? ?]]; try contradiction; [|destruct Hdt as (? & ? & _); discriminate].
    split.
    + intros l i j t u Hi Hj Hij Hor.
      apply nth_upd_cases in Hi as [(-> & ->)|(Hi0 & Hi)]; apply nth_upd_cases in Hj as [(-> & ->)|(Hj0 & Hj)]; try congruence.
      * unfold announced, holds in Hor. cbn in Hor. destruct Hor as [E|[]]. injection E as <-.
        destruct (Forall_nth _ _ _ _ Hall Hj) as (Hh & Ha). split; auto.
      * unfold announced, holds. cbn. split; [|intros []]. intro E. injection E as ->.
        destruct (Forall_nth _ _ _ _ Hall Hi) as (Hh & Ha). destruct Hor; contradiction.
      * exact (Hone l i j t u Hi Hj Hij Hor).
    + intros l i j t u Hi Hj Hij Hw.
      apply nth_upd_cases in Hi as [(-> & ->)|(Hi0 & Hi)]; apply nth_upd_cases in Hj as [(-> & ->)|(Hj0 & Hj)]; try congruence.
      * unfold holds in Hw. cbn in Hw. destruct Hw.
      * unfold holds. cbn. split; intros [].
      * exact (Hex l i j t u Hi Hj Hij Hw).
  - (* write acquire: the announcer gets the lock *)
    destruct h as [|[? ?] [|? ?]]; try contradiction.
    split.
    + intros l i j t u Hi Hj Hij Hor.
      apply nth_upd_cases in Hi as [(-> & ->)|(Hi0 & Hi)]; apply nth_upd_cases in Hj as [(-> & ->)|(Hj0 & Hj)]; try congruence.
      * unfold announced, holds in Hor. cbn in Hor. destruct Hor as [?|[E|[]]]; [discriminate|]. injection E as <-.
        eapply (Hone l0 i0 j _ u Hn Hj); auto. left. reflexivity.
      * unfold announced, holds. cbn. split; [discriminate|]. intros [E|[]]. injection E as ->.
        destruct (Hone l i0 i _ t Hn Hi ltac:(auto) ltac:(left; reflexivity)) as (Ha & Hh). destruct Hor; contradiction.
      * exact (Hone l i j t u Hi Hj Hij Hor).
    + intros l i j t u Hi Hj Hij Hw.
      apply nth_upd_cases in Hi as [(-> & ->)|(Hi0 & Hi)]; apply nth_upd_cases in Hj as [(-> & ->)|(Hj0 & Hj)]; try congruence.
      * unfold holds in Hw. cbn in Hw. destruct Hw as [E|[]]. injection E as <-. split.
        -- eapply (Hone l0 i0 j _ u Hn Hj); auto. left. reflexivity.
        -- apply (Forall_nth _ _ _ _ Hall Hj).
      * unfold holds. cbn. split; [|intros [?|[]]; discriminate]. intros [E|[]]. injection E as ->.
        destruct (Hone l i0 i _ t Hn Hi ltac:(auto) ltac:(left; reflexivity)) as (Ha & Hh). contradiction.
      * exact (Hex l i j t u Hi Hj Hij Hw).
  - (* release *)
    destruct h as [|[l1 w1] [|? ?]]; try contradiction. destruct Hdt as (r0 & E & _). injection E as -> -> ->.
    rewrite remove1_head. split.
    + intros l i j t u Hi Hj Hij Hor.
      apply nth_upd_cases in Hi as [(-> & ->)|(Hi0 & Hi)]; apply nth_upd_cases in Hj as [(-> & ->)|(Hj0 & Hj)]; try congruence.
      * unfold announced, holds in Hor. cbn in Hor. destruct Hor as [?|[]]; discriminate.
      * unfold announced, holds. cbn. split; [discriminate | intros []].
      * exact (Hone l i j t u Hi Hj Hij Hor).
    + intros l i j t u Hi Hj Hij Hw.
      apply nth_upd_cases in Hi as [(-> & ->)|(Hi0 & Hi)]; apply nth_upd_cases in Hj as [(-> & ->)|(Hj0 & Hj)]; try congruence.
      * unfold holds in Hw. cbn in Hw. destruct Hw.
      * unfold holds. cbn. split; intros [].
      * exact (Hex l i j t u Hi Hj Hij Hw).
Qed.

Theorem lock_inv_run ts ts' : lock_inv ts -> run ts ts' -> lock_inv ts'.
Proof. intros H Hr. induction Hr as [|ts ts1 ts2 Hs _ IH]; [exact H | apply IH; eapply lock_inv_step; eauto]. Qed.

Definition start (progs : list (list act)) : list thread := map (fun p => mkT p [] None) progs.

Lemma start_inv progs : Forall sections progs -> lock_inv (start progs).
Proof.
  intro H. split; [|split].
  - unfold start. rewrite Forall_map. eapply Forall_impl; [|exact H]. intros p Hp. exact Hp.
  - intros l i j t u Hi _ _ Hor. unfold start in Hi. rewrite nth_error_map in Hi.
    destruct (nth_error progs i); [|discriminate]. injection Hi as <-. unfold announced, holds in Hor. cbn in Hor.
    destruct Hor as [?|[]]; discriminate.
  - intros l i j t u Hi _ _ Hw. unfold start in Hi. rewrite nth_error_map in Hi.
    destruct (nth_error progs i); [|discriminate]. injection Hi as <-. destruct Hw.
Qed.

(* every schedule of programs made of sections: exclusion holds throughout and nobody ever deadlocks *)
Theorem sectioned_programs_are_safe_and_live progs ts :
  Forall sections progs -> run (start progs) ts -> no_two_holders ts /\ ~ stuck ts.
Proof.
  intros Hp Hr. pose proof (lock_inv_run _ _ (start_inv progs Hp) Hr) as (Hd & _ & Hex).
  split; [exact Hex|]. intros [Hnf Hno]. destruct (progress ts Hd) as [Hf|(ts' & Hs)]; [auto | exact (Hno ts' Hs)].
Qed.

(* ---- the discipline is needed: a read lock asked for twice, and a writer ---- *)
Definition nested_reader : list act := [Acq 0 false; Acq 0 false; Rel 0 false; Rel 0 false].
Definition writer : list act := [Acq 0 true; Rel 0 true].

Definition deadlocked : list thread :=
  [mkT [Acq 0 false; Rel 0 false; Rel 0 false] [(0, false)] None; mkT writer [] (Some 0)].

Theorem nested_read_lock_deadlocks : run (start [nested_reader; writer]) deadlocked /\ stuck deadlocked.
Proof.
  split.
  - pose (s0 := start [nested_reader; writer]).
    pose (s1 := [mkT [Acq 0 false; Rel 0 false; Rel 0 false] [(0, false)] None; mkT writer [] None]).
    assert (H1 : step s0 s1).
    { change s1 with (upd s0 0 (mkT [Acq 0 false; Rel 0 false; Rel 0 false] [(0, false)] None)).
      apply (racq s0 0 0 [Acq 0 false; Rel 0 false; Rel 0 false] []); [reflexivity|].
      unfold s0, start; cbn. repeat constructor; unfold holds, announced; cbn; try tauto; discriminate. }
    assert (H2 : step s1 deadlocked).
    { change deadlocked with (upd s1 1 (mkT writer [] (Some 0))).
      apply (announce s1 1 0 [Rel 0 true] []); [reflexivity|].
      unfold s1. repeat constructor; unfold holds, announced; cbn; try tauto; try discriminate; intros [E|[]]; discriminate. }
    exact (run_cons _ _ _ H1 (run_cons _ _ _ H2 (run_refl _))).
  - split.
    + intro Hf. inversion Hf as [|? ? H0 _]. discriminate.
    + intros ts' Hs. unfold deadlocked in Hs. inversion Hs as [ts i l r h Hn Hall | ts i l r h Hn Hall | ts i l r h Hn Hall | ts i l w r h Hn Hin]; subst.
      * destruct i as [|[|[|]]]; cbn in Hn; try discriminate. injection Hn as <- <- <-.
        inversion Hall as [|? ? _ Hall']. inversion Hall' as [|? ? (_ & Ha) _]. apply Ha. reflexivity.
      * destruct i as [|[|[|]]]; cbn in Hn; discriminate.
      * destruct i as [|[|[|]]]; cbn in Hn; try discriminate. injection Hn as <- <- <-.
        inversion Hall as [|? ? Hh _]. apply Hh. left. reflexivity.
      * destruct i as [|[|[|]]]; cbn in Hn; discriminate.
Qed.

Example a_sectioned_run_exists :
  Forall sections [[Acq 1 false; Rel 1 false; Acq 0 false; Rel 0 false]; [Acq 1 true; Rel 1 true]].
Proof. repeat constructor. Qed.
