(* One reader-writer lock, every operation one critical section: then every interleaving of the
   operations' individual steps is an execution in which operations take effect one at a time (Lin.Exec),
   hence linearizable.  This is what makes the lock table meaningful: [locks_ok] and [sections_ok]
   (LockTable.v, checked on the table regenerated from env/*.go) say that every method of a scope is one
   section under that scope's lock with writes under the write lock; this file says what follows from
   that, for every schedule.
   The fine-grained machine: a thread acquires the write lock when nobody holds the lock, performs the
   micro-steps of its operation one by one (other threads may run in between, but only threads that
   hold no lock, which can do nothing but wait), releases; or acquires the read lock when no writer
   holds it, reads at some moment while holding it, releases. *)
From Coq Require Import List Bool Arith Lia.
From Anko Require Import Conc.Lin.
Import ListNotations.

Section Red.
Context {St Op Out : Type}.
Variable step : St -> Op -> St * Out.
Variable is_write : Op -> bool.
Variable micro : Op -> list (St -> St).

Definition run_micro (fs : list (St -> St)) (st : St) : St := fold_left (fun s f => f s) fs st.

(* what the two conditions of the lock table amount to *)
Hypothesis read_pure : forall st o, is_write o = false -> fst (step st o) = st.
Hypothesis micro_ok : forall st o, is_write o = true -> run_micro (micro o) st = fst (step st o).

Inductive phase :=
| Idle
| WHold (o : Op) (y : Out) (rest : list (St -> St))    (* write lock held, result known, steps still to do *)
| RHold (o : Op) (y : option Out).                      (* read lock held, the read done or not yet *)

Record thread := mkTh { todo : list Op; ph : phase; hist : list (Op * Out) }.
Record fstate := mkF { sigma : St; ths : list thread }.

Fixpoint upd {A} (l : list A) (i : nat) (x : A) : list A :=
  match l, i with
  | [], _ => []
  | _ :: r, O => x :: r
  | y :: r, S i => y :: upd r i x
  end.

Definition holds_nothing (t : thread) : Prop := ph t = Idle.
Definition not_writing (t : thread) : Prop := match ph t with WHold _ _ _ => False | _ => True end.

Inductive fstep : fstate -> fstate -> Prop :=
| acq_w s i o r h : nth_error (ths s) i = Some (mkTh (o :: r) Idle h) -> is_write o = true ->
    Forall holds_nothing (ths s) ->
    fstep s (mkF (sigma s) (upd (ths s) i (mkTh r (WHold o (snd (step (sigma s) o)) (micro o)) h)))
| step_w s i o y f rest r h : nth_error (ths s) i = Some (mkTh r (WHold o y (f :: rest)) h) ->
    fstep s (mkF (f (sigma s)) (upd (ths s) i (mkTh r (WHold o y rest) h)))
| rel_w s i o y r h : nth_error (ths s) i = Some (mkTh r (WHold o y []) h) ->
    fstep s (mkF (sigma s) (upd (ths s) i (mkTh r Idle (h ++ [(o, y)]))))
| acq_r s i o r h : nth_error (ths s) i = Some (mkTh (o :: r) Idle h) -> is_write o = false ->
    Forall not_writing (ths s) ->
    fstep s (mkF (sigma s) (upd (ths s) i (mkTh r (RHold o None) h)))
| read_r s i o r h : nth_error (ths s) i = Some (mkTh r (RHold o None) h) ->
    fstep s (mkF (sigma s) (upd (ths s) i (mkTh r (RHold o (Some (snd (step (sigma s) o)))) h)))
| rel_r s i o y r h : nth_error (ths s) i = Some (mkTh r (RHold o (Some y)) h) ->
    fstep s (mkF (sigma s) (upd (ths s) i (mkTh r Idle (h ++ [(o, y)])))).

Inductive frun : fstate -> fstate -> Prop :=
| run_refl s : frun s s
| run_cons s s1 s2 : fstep s s1 -> frun s1 s2 -> frun s s2.

Definition finished (s : fstate) : Prop := Forall (fun t => todo t = [] /\ ph t = Idle) (ths s).

(* ---- the abstraction ---- *)
Definition pending_steps (t : thread) : list (St -> St) := match ph t with WHold _ _ rest => rest | _ => [] end.
Definition abs_sigma (s : fstate) : St := run_micro (concat (map pending_steps (ths s))) (sigma s).
Definition abs_todo (t : thread) : list Op := match ph t with RHold o None => o :: todo t | _ => todo t end.
Definition pending (t : thread) : list (Op * Out) :=
  match ph t with WHold o y _ => [(o, y)] | RHold o (Some y) => [(o, y)] | _ => [] end.

(* at most one lock holder when a writer holds the lock *)
Definition inv (s : fstate) : Prop :=
  forall i t, nth_error (ths s) i = Some t -> ~ not_writing t ->
    forall j u, nth_error (ths s) j = Some u -> j <> i -> holds_nothing u.


(* ---- lists ---- *)
Lemma upd_length {A} (l : list A) i x : length (upd l i x) = length l.
Proof. revert i. induction l as [|y r IH]; intros [|i]; cbn; auto. Qed.

Lemma upd_same {A} (l : list A) i x : i < length l -> nth_error (upd l i x) i = Some x.
Proof. revert i. induction l as [|y r IH]; intros [|i] H; cbn in *; try lia; auto; apply IH; lia. Qed.

Lemma upd_other {A} (l : list A) i j x : j <> i -> nth_error (upd l i x) j = nth_error l j.
Proof. revert i j. induction l as [|y r IH]; intros [|i] [|j] H; cbn; auto; try lia; apply IH; lia. Qed.

Lemma upd_map {A B} (f : A -> B) (l : list A) i x : map f (upd l i x) = upd (map f l) i (f x).
Proof. revert i. induction l as [|y r IH]; intros [|i]; cbn; auto. f_equal. apply IH. Qed.

Lemma nth_error_lt {A} (l : list A) i x : nth_error l i = Some x -> i < length l.
Proof. intro H. apply nth_error_Some. congruence. Qed.

Lemma drop_head_upd {A} (ts : list (list A)) i o t : nth_error ts i = Some (o :: t) -> drop_head ts i = upd ts i t.
Proof.
  revert i. induction ts as [|u r IH]; intros [|i] H; cbn in *; try discriminate.
  - injection H as ->. reflexivity.
  - f_equal. apply IH. exact H.
Qed.

Lemma push_head_upd {A} (l : list (list A)) i x t : nth_error l i = Some t -> push_head l i x = upd l i (x :: t).
Proof.
  revert i. induction l as [|u r IH]; intros [|i] H; cbn in *; try discriminate.
  - injection H as ->. reflexivity.
  - f_equal. apply IH. exact H.
Qed.

Lemma concat_single {A} (l : list (list A)) i x : nth_error l i = Some x ->
  (forall j u, nth_error l j = Some u -> j <> i -> u = []) -> concat l = x.
Proof.
  revert i. induction l as [|u r IH]; intros [|i] H Hq; cbn in *; try discriminate.
  - injection H as ->. assert (E : concat r = []).
    { clear -Hq. induction r as [|v r IH]; [reflexivity|]. cbn.
      rewrite (Hq 1 v eq_refl ltac:(lia)). cbn. apply IH. intros j u Hj Hne. destruct j as [|j]; [lia|].
      apply (Hq (S (S j)) u); [exact Hj | lia]. }
    rewrite E. apply app_nil_r.
  - rewrite (Hq 0 u eq_refl ltac:(lia)). cbn. apply (IH i H). intros j v Hj Hne. apply (Hq (S j) v Hj). lia.
Qed.

Lemma concat_all_nil {A} (l : list (list A)) : (forall j u, nth_error l j = Some u -> u = []) -> concat l = [].
Proof.
  induction l as [|u r IH]; intro H; [reflexivity|]. cbn. rewrite (H 0 u eq_refl). cbn. apply IH.
  intros j v Hj. apply (H (S j) v Hj).
Qed.

(* ---- the abstraction under the steps ---- *)
Lemma not_writing_steps t : not_writing t -> pending_steps t = [].
Proof. unfold not_writing, pending_steps. destruct (ph t); [reflexivity | contradiction | reflexivity]. Qed.

Lemma idle_not_writing t : holds_nothing t -> not_writing t.
Proof. unfold holds_nothing, not_writing. intros ->. exact I. Qed.

(* when every thread but i has nothing pending, the abstract state is thread i's pending steps applied *)
Lemma abs_sigma_at s i t : nth_error (ths s) i = Some t ->
  (forall j u, nth_error (ths s) j = Some u -> j <> i -> not_writing u) ->
  abs_sigma s = run_micro (pending_steps t) (sigma s).
Proof.
  intros Hi Hq. unfold abs_sigma. f_equal.
  apply (concat_single _ i); [rewrite nth_error_map, Hi; reflexivity|].
  intros j u Hj Hne. rewrite nth_error_map in Hj. destruct (nth_error (ths s) j) as [v|] eqn:Ev; [|discriminate].
  injection Hj as <-. apply not_writing_steps. eapply Hq; eauto.
Qed.

Lemma abs_sigma_upd s i t t' st' : nth_error (ths s) i = Some t ->
  (forall j u, nth_error (ths s) j = Some u -> j <> i -> not_writing u) ->
  abs_sigma (mkF st' (upd (ths s) i t')) = run_micro (pending_steps t') st'.
Proof.
  intros Hi Hq. apply (abs_sigma_at (mkF st' (upd (ths s) i t')) i t').
  - cbn [ths]. apply upd_same. eapply nth_error_lt; eauto.
  - cbn [ths]. intros j u Hj Hne. rewrite upd_other in Hj by exact Hne. eapply Hq; eauto.
Qed.

(* from the invariant: who else can be writing *)
Lemma others_quiet_writer s i t : inv s -> nth_error (ths s) i = Some t -> ~ not_writing t ->
  forall j u, nth_error (ths s) j = Some u -> j <> i -> not_writing u.
Proof. intros Hinv Hi Hw j u Hj Hne. apply idle_not_writing. exact (Hinv i t Hi Hw j u Hj Hne). Qed.

Lemma others_quiet_reader s i t o y : inv s -> nth_error (ths s) i = Some t -> ph t = RHold o y ->
  forall j u, nth_error (ths s) j = Some u -> j <> i -> not_writing u.
Proof.
  intros Hinv Hi Hp j u Hj Hne.
  destruct (ph u) as [|o' y' rest|o' y'] eqn:Eu; unfold not_writing; rewrite Eu; try exact I.
  assert (Hw : ~ not_writing u) by (unfold not_writing; rewrite Eu; auto).
  pose proof (Hinv j u Hj Hw i t Hi ltac:(congruence)) as Hn. unfold holds_nothing in Hn. congruence.
Qed.


(* ---- the invariant ---- *)
Lemma inv_no_writer st l : (forall j u, nth_error l j = Some u -> not_writing u) -> inv (mkF st l).
Proof. intros H i t Hi Hw. exfalso. apply Hw. eapply H; eauto. Qed.

Lemma inv_one_writer st l i t' : i < length l ->
  (forall j u, nth_error l j = Some u -> j <> i -> holds_nothing u) -> inv (mkF st (upd l i t')).
Proof.
  intros Hlt Hq k tk Hk Hw j u Hj Hne. cbn [ths] in *.
  destruct (Nat.eq_dec k i) as [->|Hki].
  - rewrite upd_other in Hj by exact Hne. eapply Hq; eauto.
  - rewrite upd_other in Hk by exact Hki. exfalso. apply Hw. apply idle_not_writing. eapply Hq; eauto.
Qed.

Lemma upd_all {A} (P : A -> Prop) (l : list A) i x : P x -> (forall j u, nth_error l j = Some u -> j <> i -> P u) ->
  forall j u, nth_error (upd l i x) j = Some u -> P u.
Proof.
  intros Hx Hq j u Hj. destruct (Nat.eq_dec j i) as [->|Hne].
  - destruct (le_lt_dec (length l) i) as [Hge|Hlt].
    + assert (nth_error (upd l i x) i = None) by (apply nth_error_None; rewrite upd_length; exact Hge). congruence.
    + rewrite upd_same in Hj by exact Hlt. injection Hj as <-. exact Hx.
  - rewrite upd_other in Hj by exact Hne. eapply Hq; eauto.
Qed.

Lemma forall_nth {A} (P : A -> Prop) (l : list A) : Forall P l -> forall j u, nth_error l j = Some u -> P u.
Proof. intros H j u Hj. rewrite Forall_forall in H. apply H. eapply nth_error_In; eauto. Qed.

Lemma inv_step s s1 : inv s -> fstep s s1 -> inv s1.
Proof.
  intros Hinv Hs. destruct Hs as [s i o r h Hi Hw Hall | s i o y f rest r h Hi | s i o y r h Hi | s i o r h Hi Hw Hall | s i o r h Hi | s i o y r h Hi].
  - apply inv_one_writer; [eapply nth_error_lt; eauto|]. intros j u Hj _. eapply forall_nth; eauto.
  - apply inv_one_writer; [eapply nth_error_lt; eauto|]. intros j u Hj Hne.
    eapply Hinv; [exact Hi | cbn; auto | exact Hj | exact Hne].
  - apply inv_no_writer. apply upd_all; [exact I|]. intros j u Hj Hne. apply idle_not_writing.
    eapply Hinv; [exact Hi | cbn; auto | exact Hj | exact Hne].
  - apply inv_no_writer. apply upd_all; [exact I|]. intros j u Hj _. eapply forall_nth; eauto.
  - apply inv_no_writer. apply upd_all; [exact I|]. eapply others_quiet_reader; eauto. reflexivity.
  - apply inv_no_writer. apply upd_all; [exact I|]. eapply others_quiet_reader; eauto. reflexivity.
Qed.


(* readers hold the lock for read operations only *)
Definition inv_r (s : fstate) : Prop :=
  forall i t o y, nth_error (ths s) i = Some t -> ph t = RHold o y -> is_write o = false.

Lemma inv_r_step s s1 : inv_r s -> fstep s s1 -> inv_r s1.
Proof.
  intros Hinv Hs k tk o0 y0 Hk Hp.
  assert (Old : forall i t', ths s1 = upd (ths s) i t' -> (forall o y, ph t' = RHold o y -> is_write o = false) -> is_write o0 = false).
  { intros i t' E Hnew. rewrite E in Hk. destruct (Nat.eq_dec k i) as [->|Hne].
    - destruct (le_lt_dec (length (ths s)) i) as [Hge|Hlt].
      + assert (nth_error (upd (ths s) i t') i = None) by (apply nth_error_None; rewrite upd_length; exact Hge). congruence.
      + rewrite upd_same in Hk by exact Hlt. injection Hk as <-. eapply Hnew; eauto.
    - rewrite upd_other in Hk by exact Hne. eapply Hinv; eauto. }
  destruct Hs as [s i o r h Hi Hw Hall | s i o y f rest r h Hi | s i o y r h Hi | s i o r h Hi Hw Hall | s i o r h Hi | s i o y r h Hi];
    (eapply Old; [reflexivity|]); cbn [ph]; intros o1 y1 E; try discriminate.
  - injection E as -> _. exact Hw.
  - injection E as -> _. eapply Hinv; [exact Hi | reflexivity].
Qed.

Lemma upd_id {A} (l : list A) i x : nth_error l i = Some x -> upd l i x = l.
Proof. revert i. induction l as [|y r IH]; intros [|i] H; cbn in *; try discriminate; [injection H as ->; reflexivity | f_equal; apply IH; exact H]. Qed.

Lemma nth_upd_same {A} (l : list A) i x d : i < length l -> nth i (upd l i x) d = x.
Proof. revert i. induction l as [|y r IH]; intros [|i] H; cbn in *; try lia; auto; apply IH; lia. Qed.

Lemma nth_upd_other {A} (l : list A) i j x d : j <> i -> nth j (upd l i x) d = nth j l d.
Proof. revert i j. induction l as [|y r IH]; intros [|i] [|j] H; cbn; auto; try lia; apply IH; lia. Qed.

Lemma fstep_length s s1 : fstep s s1 -> length (ths s1) = length (ths s).
Proof. intros [ ]; cbn [ths]; apply upd_length. Qed.

Lemma abs_sigma_no_writer s : (forall j u, nth_error (ths s) j = Some u -> not_writing u) -> abs_sigma s = sigma s.
Proof.
  intro H. unfold abs_sigma. rewrite concat_all_nil; [reflexivity|].
  intros j u Hj. rewrite nth_error_map in Hj. destruct (nth_error (ths s) j) as [v|] eqn:Ev; [|discriminate].
  injection Hj as <-. apply not_writing_steps. eapply H; eauto.
Qed.

Lemma run_micro_cons f rest st : run_micro (f :: rest) st = run_micro rest (f st).
Proof. reflexivity. Qed.

(* ---- every fine-grained run is an execution in which operations take effect one at a time ---- *)
Theorem fine_runs_are_atomic_executions s s' : inv s -> inv_r s -> frun s s' -> finished s' ->
  exists obs, Exec step (abs_sigma s) (map abs_todo (ths s)) (sigma s') obs
    /\ length obs = length (ths s) /\ length (ths s') = length (ths s)
    /\ forall i t t', nth_error (ths s) i = Some t -> nth_error (ths s') i = Some t' ->
         hist t' = hist t ++ pending t ++ nth i obs [].
Proof.
  intros Hinv Hinvr Hrun Hfin. induction Hrun as [s | s s1 s2 Hs Hrun IH].
  - (* finished already *)
    assert (Hq : forall j u, nth_error (ths s) j = Some u -> todo u = [] /\ ph u = Idle).
    { intros j u Hj. unfold finished in Hfin. rewrite Forall_forall in Hfin. apply Hfin. eapply nth_error_In; eauto. }
    exists (map (fun _ => []) (map abs_todo (ths s))).
    split; [|split; [now rewrite !map_length | split; [reflexivity|]]].
    + rewrite abs_sigma_no_writer.
      * apply ex_done. unfold all_empty. apply forallb_forall. intros l Hl. apply in_map_iff in Hl as (u & <- & Hu).
        apply In_nth_error in Hu as [j Hj]. destruct (Hq j u Hj) as [H1 H2]. unfold abs_todo. rewrite H2, H1. reflexivity.
      * intros j u Hj. destruct (Hq j u Hj) as [_ H2]. unfold not_writing. rewrite H2. exact I.
    + intros i t t' Hi Hi'. rewrite Hi in Hi'. injection Hi' as <-.
      destruct (Hq i t Hi) as [_ H2]. unfold pending. rewrite H2. cbn [app].
      assert (E : nth i (map (fun _ : list Op => @nil (Op * Out)) (map abs_todo (ths s))) [] = []).
      { clear. generalize (map abs_todo (ths s)). intro l. revert i. induction l as [|u r IHl]; intros [|i]; cbn; auto. }
      rewrite E, app_nil_r. reflexivity.
  - pose proof (inv_step _ _ Hinv Hs) as Hinv1. pose proof (inv_r_step _ _ Hinvr Hs) as Hinvr1.
    destruct (IH Hinv1 Hinvr1 Hfin) as (obs1 & Hex & Hlen & Hlen' & Hh). clear IH.
    pose proof (fstep_length _ _ Hs) as Hl1.
    destruct Hs as [s i o r h Hi Hw Hall | s i o y f rest r h Hi | s i o y r h Hi | s i o r h Hi Hw Hall | s i o r h Hi | s i o y r h Hi];
      cbn [ths sigma] in *; pose proof (nth_error_lt _ _ _ Hi) as Hlt.
    + (* the write takes effect when the lock is taken *)
      assert (Hq : forall j u, nth_error (ths s) j = Some u -> not_writing u).
      { intros j u Hj. apply idle_not_writing. eapply forall_nth; eauto. }
      rewrite (abs_sigma_upd s i _ _ _ Hi (fun j u Hj _ => Hq j u Hj)) in Hex. cbn [pending_steps ph] in Hex.
      rewrite micro_ok in Hex by exact Hw.
      rewrite upd_map in Hex. cbn [abs_todo ph todo] in Hex.
      assert (Hn : nth_error (map abs_todo (ths s)) i = Some (o :: r)) by (rewrite nth_error_map, Hi; reflexivity).
      rewrite <- (drop_head_upd _ _ _ _ Hn) in Hex.
      exists (push_head obs1 i (o, snd (step (sigma s) o))).
      assert (Hlo : i < length obs1) by (rewrite Hlen, upd_length; exact Hlt).
      destruct (nth_error obs1 i) as [oi|] eqn:Eo; [|apply nth_error_None in Eo; lia].
      split; [|split; [rewrite (push_head_upd _ _ _ _ Eo), upd_length, Hlen, upd_length; reflexivity | split; [rewrite Hlen', upd_length; reflexivity|]]].
      * rewrite abs_sigma_no_writer by exact Hq.
        eapply ex_step; [exact Hn | apply surjective_pairing | exact Hex].
      * intros j t t' Hj Hj'. rewrite (push_head_upd _ _ _ _ Eo).
        destruct (Nat.eq_dec j i) as [->|Hne].
        -- rewrite Hi in Hj. injection Hj as <-. rewrite nth_upd_same by exact Hlo.
           rewrite (Hh i _ t' (upd_same _ _ _ Hlt) Hj'). cbn [hist pending ph app].
           rewrite (nth_error_nth _ _ [] Eo). reflexivity.
        -- rewrite nth_upd_other by exact Hne. apply Hh; [rewrite upd_other by exact Hne; exact Hj | exact Hj'].
    + (* a step of the writer: the abstract state has it already *)
      assert (Hq : forall j u, nth_error (ths s) j = Some u -> j <> i -> not_writing u).
      { eapply others_quiet_writer; [exact Hinv | exact Hi | cbn; auto]. }
      rewrite (abs_sigma_upd s i _ _ _ Hi Hq) in Hex. cbn [pending_steps ph] in Hex.
      rewrite upd_map in Hex. cbn [abs_todo ph todo] in Hex.
      rewrite (upd_id (map abs_todo (ths s)) i r) in Hex by (rewrite nth_error_map, Hi; reflexivity).
      exists obs1. split; [|split; [rewrite Hlen, upd_length; reflexivity | split; [rewrite Hlen', upd_length; reflexivity|]]].
      * rewrite (abs_sigma_at s i _ Hi Hq). cbn [pending_steps ph]. rewrite run_micro_cons. exact Hex.
      * intros j t t' Hj Hj'. destruct (Nat.eq_dec j i) as [->|Hne].
        -- rewrite Hi in Hj. injection Hj as <-. rewrite (Hh i _ t' (upd_same _ _ _ Hlt) Hj'). reflexivity.
        -- apply Hh; [rewrite upd_other by exact Hne; exact Hj | exact Hj'].
    + (* the writer releases *)
      assert (Hq : forall j u, nth_error (ths s) j = Some u -> j <> i -> not_writing u).
      { eapply others_quiet_writer; [exact Hinv | exact Hi | cbn; auto]. }
      rewrite (abs_sigma_upd s i _ _ _ Hi Hq) in Hex. cbn [pending_steps ph] in Hex.
      rewrite upd_map in Hex. cbn [abs_todo ph todo] in Hex.
      rewrite (upd_id (map abs_todo (ths s)) i r) in Hex by (rewrite nth_error_map, Hi; reflexivity).
      exists obs1. split; [|split; [rewrite Hlen, upd_length; reflexivity | split; [rewrite Hlen', upd_length; reflexivity|]]].
      * rewrite (abs_sigma_at s i _ Hi Hq). exact Hex.
      * intros j t t' Hj Hj'. destruct (Nat.eq_dec j i) as [->|Hne].
        -- rewrite Hi in Hj. injection Hj as <-. rewrite (Hh i _ t' (upd_same _ _ _ Hlt) Hj'). cbn [hist pending ph app].
           rewrite <- app_assoc. reflexivity.
        -- apply Hh; [rewrite upd_other by exact Hne; exact Hj | exact Hj'].
    + (* a reader takes the lock: nothing has happened yet *)
      assert (Hq : forall j u, nth_error (ths s) j = Some u -> not_writing u) by (intros j u Hj; eapply forall_nth; eauto).
      rewrite (abs_sigma_upd s i _ _ _ Hi (fun j u Hj _ => Hq j u Hj)) in Hex. cbn [pending_steps ph] in Hex.
      rewrite upd_map in Hex. cbn [abs_todo ph todo] in Hex.
      rewrite (upd_id (map abs_todo (ths s)) i (o :: r)) in Hex by (rewrite nth_error_map, Hi; reflexivity).
      exists obs1. split; [|split; [rewrite Hlen, upd_length; reflexivity | split; [rewrite Hlen', upd_length; reflexivity|]]].
      * rewrite abs_sigma_no_writer by exact Hq. exact Hex.
      * intros j t t' Hj Hj'. destruct (Nat.eq_dec j i) as [->|Hne].
        -- rewrite Hi in Hj. injection Hj as <-. rewrite (Hh i _ t' (upd_same _ _ _ Hlt) Hj'). reflexivity.
        -- apply Hh; [rewrite upd_other by exact Hne; exact Hj | exact Hj'].
    + (* the read takes effect when it happens *)
      assert (Hq : forall j u, nth_error (ths s) j = Some u -> j <> i -> not_writing u).
      { eapply others_quiet_reader; [exact Hinv | exact Hi | reflexivity]. }
      assert (Hro : is_write o = false) by (eapply Hinvr; [exact Hi | reflexivity]).
      rewrite (abs_sigma_upd s i _ _ _ Hi Hq) in Hex. cbn [pending_steps ph] in Hex.
      rewrite upd_map in Hex. cbn [abs_todo ph todo] in Hex.
      assert (Hn : nth_error (map abs_todo (ths s)) i = Some (o :: r)) by (rewrite nth_error_map, Hi; reflexivity).
      rewrite <- (drop_head_upd _ _ _ _ Hn) in Hex.
      exists (push_head obs1 i (o, snd (step (sigma s) o))).
      assert (Hlo : i < length obs1) by (rewrite Hlen, upd_length; exact Hlt).
      destruct (nth_error obs1 i) as [oi|] eqn:Eo; [|apply nth_error_None in Eo; lia].
      split; [|split; [rewrite (push_head_upd _ _ _ _ Eo), upd_length, Hlen, upd_length; reflexivity | split; [rewrite Hlen', upd_length; reflexivity|]]].
      * rewrite (abs_sigma_at s i _ Hi Hq). cbn [pending_steps ph]. change (run_micro [] (sigma s)) with (sigma s).
        eapply ex_step; [exact Hn | apply surjective_pairing |].
        rewrite (read_pure _ _ Hro). exact Hex.
      * intros j t t' Hj Hj'. rewrite (push_head_upd _ _ _ _ Eo).
        destruct (Nat.eq_dec j i) as [->|Hne].
        -- rewrite Hi in Hj. injection Hj as <-. rewrite nth_upd_same by exact Hlo.
           rewrite (Hh i _ t' (upd_same _ _ _ Hlt) Hj'). cbn [hist pending ph app].
           rewrite (nth_error_nth _ _ [] Eo). reflexivity.
        -- rewrite nth_upd_other by exact Hne. apply Hh; [rewrite upd_other by exact Hne; exact Hj | exact Hj'].
    + (* the reader releases *)
      assert (Hq : forall j u, nth_error (ths s) j = Some u -> j <> i -> not_writing u).
      { eapply others_quiet_reader; [exact Hinv | exact Hi | reflexivity]. }
      rewrite (abs_sigma_upd s i _ _ _ Hi Hq) in Hex. cbn [pending_steps ph] in Hex.
      rewrite upd_map in Hex. cbn [abs_todo ph todo] in Hex.
      rewrite (upd_id (map abs_todo (ths s)) i r) in Hex by (rewrite nth_error_map, Hi; reflexivity).
      exists obs1. split; [|split; [rewrite Hlen, upd_length; reflexivity | split; [rewrite Hlen', upd_length; reflexivity|]]].
      * rewrite (abs_sigma_at s i _ Hi Hq). exact Hex.
      * intros j t t' Hj Hj'. destruct (Nat.eq_dec j i) as [->|Hne].
        -- rewrite Hi in Hj. injection Hj as <-. rewrite (Hh i _ t' (upd_same _ _ _ Hlt) Hj'). cbn [hist pending ph app].
           rewrite <- app_assoc. reflexivity.
        -- apply Hh; [rewrite upd_other by exact Hne; exact Hj | exact Hj'].
Qed.


(* ---- from a state where nobody holds the lock: the recorded histories are linearizable ---- *)
Definition start (st : St) (ts : list (list Op)) : fstate := mkF st (map (fun l => mkTh l Idle []) ts).

Lemma list_ext {A} (l1 l2 : list A) : length l1 = length l2 ->
  (forall i x y, nth_error l1 i = Some x -> nth_error l2 i = Some y -> x = y) -> l1 = l2.
Proof.
  revert l2. induction l1 as [|a r IH]; intros [|b2 r2] Hl H; cbn in Hl; try lia; [reflexivity|].
  f_equal; [apply (H 0 a b2); reflexivity|]. apply IH; [lia|]. intros i x y Hx Hy. apply (H (S i) x y); assumption.
Qed.

Variable out_eqb : Out -> Out -> bool.

(* the comparison of results need only be reflexive on what the threads observed *)
Theorem every_schedule_is_linearizable st ts s' (final : St -> bool) :
  frun (start st ts) s' -> finished s' -> final (sigma s') = true ->
  clean_obs out_eqb (map hist (ths s')) ->
  Lin step out_eqb final st (map hist (ths s')).
Proof.
  intros Hrun Hfin Hf Hclean.
  assert (Hstart : forall j u, nth_error (ths (start st ts)) j = Some u -> ph u = Idle /\ hist u = []).
  { intros j u Hj. unfold start in Hj. cbn [ths] in Hj. rewrite nth_error_map in Hj.
    destruct (nth_error ts j); [|discriminate]. injection Hj as <-. split; reflexivity. }
  assert (Hi1 : inv (start st ts)).
  { apply inv_no_writer. intros j u Hj. destruct (Hstart j u Hj) as [H _]. unfold not_writing. rewrite H. exact I. }
  assert (Hi2 : inv_r (start st ts)).
  { intros i t o y Hi Hp. destruct (Hstart i t Hi) as [H _]. congruence. }
  destruct (fine_runs_are_atomic_executions _ _ Hi1 Hi2 Hrun Hfin) as (obs & Hex & Hlen & Hlen' & Hh).
  assert (E1 : abs_sigma (start st ts) = st).
  { rewrite abs_sigma_no_writer; [reflexivity|]. intros j u Hj. destruct (Hstart j u Hj) as [H _]. unfold not_writing. rewrite H. exact I. }
  assert (E2 : map abs_todo (ths (start st ts)) = ts).
  { unfold start. cbn [ths]. rewrite map_map. cbn. apply map_id. }
  rewrite E1, E2 in Hex.
  assert (E3 : map hist (ths s') = obs).
  { apply list_ext; [rewrite map_length; congruence|].
    intros i x y Hx Hy. rewrite nth_error_map in Hx. destruct (nth_error (ths s') i) as [t'|] eqn:Et'; [|discriminate].
    injection Hx as <-.
    destruct (nth_error (ths (start st ts)) i) as [t|] eqn:Et.
    - rewrite (Hh i t t' Et Et'). destruct (Hstart i t Et) as [Hp Hhist]. unfold pending. rewrite Hp, Hhist. cbn [app].
      apply (nth_error_nth _ _ []). exact Hy.
    - apply nth_error_None in Et. apply nth_error_lt in Et'. lia. }
  rewrite E3 in *. eapply atomic_executions_with_clean_results_are_linearizable; eauto.
Qed.

End Red.
