(* The environment model as the sequential specification of the concurrent histories recorded by
   harness/c13 (controlled scheduler over the real env package), and the entry point of the
   extracted checker.  Input:
     ((init-op ...) ((thread (op out) ...) ...) ((scope values types) ...))
   - operations that build the scopes, the per-thread histories with observed results, and the
   content of the scopes at the end. *)
From Coq Require Import String List Bool Arith.
From Anko Require Import Base.Assoc Base.Sexp Env.EnvModel Env.EnvCases Env.EnvDriver Conc.Lin.
Import ListNotations.
Open Scope string_scope.

Inductive kop := KOp (o : cop) | KSnap (e : nat).     (* KSnap: Copy, observed through its content *)
Inductive kout := KOut (x : cout) | KDump (d : dump) | KBad.

Definition kstep (h : list cscope) (o : kop) : list cscope * kout :=
  match o with
  | KOp o => let '(h', x) := cstep h o in (h', KOut x)
  | KSnap e =>
    match cstep h (OCopy e) with
    | (h', REnv c) => match nth_error h' c with
                      | Some sc => (h, KDump (dump_of sc))     (* the copy itself is private to the caller *)
                      | None => (h, KBad)
                      end
    | _ => (h, KBad)
    end
  end.

Definition kout_eqb (a b : kout) : bool :=
  match a, b with
  | KOut x, KOut y => out_eqb x y
  | KDump d, KDump e => dump_eqb d e
  | _, _ => false
  end.

Definition final_ok (fin : list (nat * dump)) (h : list cscope) : bool :=
  forallb (fun '(i, d) => match nth_error h i with Some sc => dump_eqb (dump_of sc) d | None => false end) fin.

Definition linearizable (h0 : list cscope) (ts : list (list (kop * kout))) (fin : list (nat * dump)) : bool :=
  search kstep kout_eqb (final_ok fin) (S (total ts)) h0 ts.

Theorem linearizable_iff h0 ts fin :
  linearizable h0 ts fin = true <->
  exists l h', Interleave ts l /\ run_matches kstep kout_eqb h0 l = Some h' /\ final_ok fin h' = true.
Proof.
  unfold linearizable. rewrite search_correct. apply lin_is_sequential_order.
Qed.

(* ---- decoding ---- *)
Definition dec_kop (s : sexp) : option kop :=
  match s with
  | SL [SA "Snap"; e] => option_map KSnap (as_nat e)
  | _ => option_map KOp (dec_op s)
  end.
Definition dec_dump (vs ts : sexp) : option dump :=
  match as_list (dec_kv dec_val) vs, as_list (dec_kv as_nat) ts with
  | Some vs, Some ts => Some (vs, ts)
  | _, _ => None
  end.
Definition dec_kout (s : sexp) : option kout :=
  match s with
  | SL [SA "snap"; vs; ts] => option_map KDump (dec_dump vs ts)
  | _ => option_map KOut (dec_out s)
  end.
Definition dec_ev (s : sexp) : option (kop * kout) :=
  match s with
  | SL [o; x] => match dec_kop o, dec_kout x with Some o, Some x => Some (o, x) | _, _ => None end
  | _ => None
  end.

Definition c13_check (s : sexp) : sexp :=
  match s with
  | SL [init; threads; fin] =>
    match as_list dec_op init, as_list (as_list dec_ev) threads, as_list dec_delta fin with
    | Some init, Some ts, Some fin =>
      let h0 := fold_left (fun h o => fst (cstep h o)) init [] in
      if linearizable h0 ts fin then SL [SA "ok"] else SL [SA "not-linearizable"]
    | _, _, _ => SL [SA "undecodable"]
    end
  | _ => SL [SA "undecodable"]
  end.
