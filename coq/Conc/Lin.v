(* Linearizability of histories over a sequential specification [step], as a decidable search with
   its specification, and the basic fact that executions whose operations are atomic are
   linearizable.  Generic in the state machine; instantiated with the environment model in
   Conc/EnvConc.v. *)
From Coq Require Import List Bool Arith Lia.
Import ListNotations.

Section Lin.
Context {St Op Out : Type}.
Variable step : St -> Op -> St * Out.
Variable out_eqb : Out -> Out -> bool.

Definition all_empty {A} (ts : list (list A)) : bool :=
  forallb (fun t => match t with [] => true | _ => false end) ts.

(* thread i has run its first operation *)
Fixpoint drop_head {A} (ts : list (list A)) (i : nat) : list (list A) :=
  match ts, i with
  | [], _ => []
  | t :: r, 0 => tl t :: r
  | t :: r, S j => t :: drop_head r j
  end.

Fixpoint total {A} (ts : list (list A)) : nat :=
  match ts with [] => 0 | t :: r => length t + total r end.

(* [Lin final st ts]: the recorded per-thread histories ts (operation, observed result) can be
   produced, from state st, by running the operations one at a time in some order that keeps each
   thread's own order, ending in a state accepted by [final]. *)
Inductive Lin (final : St -> bool) : St -> list (list (Op * Out)) -> Prop :=
| lin_done st ts : all_empty ts = true -> final st = true -> Lin final st ts
| lin_step st ts i o x t st' y :
    nth_error ts i = Some ((o, x) :: t) -> step st o = (st', y) -> out_eqb y x = true ->
    Lin final st' (drop_head ts i) -> Lin final st ts.

Fixpoint search (final : St -> bool) (fuel : nat) (st : St) (ts : list (list (Op * Out))) : bool :=
  match fuel with
  | 0 => false
  | S f =>
    if all_empty ts then final st
    else existsb (fun i =>
           match nth_error ts i with
           | Some ((o, x) :: _) => let '(st', y) := step st o in out_eqb y x && search final f st' (drop_head ts i)
           | _ => false
           end) (seq 0 (length ts))
  end.

Lemma search_sound final fuel : forall st ts, search final fuel st ts = true -> Lin final st ts.
Proof.
  induction fuel as [|f IH]; intros st ts H; [discriminate|].
  cbn [search] in H. destruct (all_empty ts) eqn:E.
  - now apply lin_done.
  - apply existsb_exists in H as (i & _ & Hi).
    destruct (nth_error ts i) as [[|[o x] t]|] eqn:Hn; try discriminate.
    destruct (step st o) as [st' y] eqn:Hs.
    apply andb_prop in Hi as [Ho Hr].
    eapply lin_step; eauto.
Qed.

Lemma total_drop_head {A} (ts : list (list A)) i x t :
  nth_error ts i = Some (x :: t) -> total ts = S (total (drop_head ts i)).
Proof.
  revert i; induction ts as [|u r IH]; intros i H; [destruct i; discriminate|].
  destruct i as [|j]; cbn in *.
  - injection H as ->. cbn. lia.
  - rewrite (IH _ H). lia.
Qed.

Lemma all_empty_total {A} (ts : list (list A)) : all_empty ts = true -> total ts = 0.
Proof.
  induction ts as [|t r IH]; [reflexivity|]. cbn. destruct t; [|discriminate]. exact IH.
Qed.

Lemma nonempty_not_all_empty {A} (ts : list (list A)) i x t :
  nth_error ts i = Some (x :: t) -> all_empty ts = false.
Proof.
  revert i; induction ts as [|u r IH]; intros i H; [destruct i; discriminate|].
  destruct i as [|j]; cbn in *.
  - injection H as ->. reflexivity.
  - destruct u; [eapply IH; eauto | reflexivity].
Qed.

Lemma search_complete final : forall st ts, Lin final st ts ->
  forall fuel, total ts < fuel -> search final fuel st ts = true.
Proof.
  intros st ts H. induction H as [st ts He Hf | st ts i o x t st' y Hn Hs Ho _ IH]; intros fuel Hlt.
  - destruct fuel; [lia|]. cbn [search]. now rewrite He.
  - destruct fuel as [|f]; [lia|]. cbn [search].
    rewrite (nonempty_not_all_empty _ _ _ _ Hn).
    apply existsb_exists. exists i. split.
    + apply in_seq. split; [lia|]. cbn. apply nth_error_Some. congruence.
    + rewrite Hn, Hs, Ho. cbn. apply IH. rewrite (total_drop_head _ _ _ _ Hn) in Hlt. lia.
Qed.

Theorem search_correct final st ts :
  search final (S (total ts)) st ts = true <-> Lin final st ts.
Proof.
  split; [apply search_sound | intro H; apply search_complete; [exact H | lia]].
Qed.

(* ---- a linearization is an explicit interleaving run sequentially ---- *)
Inductive Interleave {A} : list (list A) -> list A -> Prop :=
| il_nil ts : all_empty ts = true -> Interleave ts []
| il_cons ts i x t l : nth_error ts i = Some (x :: t) -> Interleave (drop_head ts i) l -> Interleave ts (x :: l).

Fixpoint run_matches (st : St) (l : list (Op * Out)) : option St :=
  match l with
  | [] => Some st
  | (o, x) :: r => let '(st', y) := step st o in if out_eqb y x then run_matches st' r else None
  end.

Theorem lin_is_sequential_order final st ts :
  Lin final st ts <-> exists l st', Interleave ts l /\ run_matches st l = Some st' /\ final st' = true.
Proof.
  split.
  - intro H. induction H as [st ts He Hf | st ts i o x t st' y Hn Hs Ho _ (l & s2 & Hi & Hr & Hf)].
    + exists [], st. repeat split; [now constructor | assumption].
    + exists ((o, x) :: l), s2. repeat split; [econstructor; eauto | | assumption].
      cbn. now rewrite Hs, Ho.
  - intros (l & s2 & Hi & Hr & Hf). revert st Hr.
    induction Hi as [ts He | ts i [o x] t l Hn _ IH]; intros st Hr.
    + cbn in Hr. injection Hr as ->. now apply lin_done.
    + cbn in Hr. destruct (step st o) as [st' y] eqn:Hs. destruct (out_eqb y x) eqn:Ho; [|discriminate].
      eapply lin_step; eauto.
Qed.

(* ---- executions with atomic operations ---- *)
Fixpoint push_head {A} (ts : list (list A)) (i : nat) (x : A) : list (list A) :=
  match ts, i with
  | [], _ => []
  | t :: r, 0 => (x :: t) :: r
  | t :: r, S j => t :: push_head r j x
  end.

(* [Exec st ts st' obs]: under some schedule that runs one whole operation at a time, the threads ts
   take st to st' and observe obs *)
Inductive Exec : St -> list (list Op) -> St -> list (list (Op * Out)) -> Prop :=
| ex_done st ts : all_empty ts = true -> Exec st ts st (map (fun _ => []) ts)
| ex_step st ts i o t st1 y st' obs :
    nth_error ts i = Some (o :: t) -> step st o = (st1, y) ->
    Exec st1 (drop_head ts i) st' obs -> Exec st ts st' (push_head obs i (o, y)).

Lemma exec_length st ts st' obs : Exec st ts st' obs -> length obs = length ts.
Proof.
  induction 1 as [st ts He | st ts i o t st1 y st' obs Hn Hs _ IH].
  - now rewrite map_length.
  - assert (forall A (l : list (list A)) j, length (drop_head l j) = length l) as Hd.
    { intros A l; induction l as [|u r IHl]; intros [|j]; cbn; auto. }
    assert (forall A (l : list (list A)) j z, length (push_head l j z) = length l) as Hp.
    { intros A l; induction l as [|u r IHl]; intros [|j] z; cbn; auto. }
    rewrite Hp, IH, Hd. reflexivity.
Qed.

Lemma push_drop {A} (l : list (list A)) i x : i < length l ->
  drop_head (push_head l i x) i = l /\ exists t, nth_error (push_head l i x) i = Some (x :: t).
Proof.
  revert i; induction l as [|u r IH]; intros i Hi; [cbn in Hi; lia|].
  destruct i as [|j]; cbn.
  - split; [reflexivity | now exists u].
  - destruct (IH j) as [H1 H2]; [cbn in Hi; lia|]. rewrite H1. split; [reflexivity | exact H2].
Qed.

Variable out_eqb_refl : forall y, out_eqb y y = true.

Lemma all_empty_map_nil {A B} (ts : list (list A)) : all_empty (map (fun _ => @nil B) ts) = true.
Proof. induction ts; cbn; auto. Qed.

(* the comparison of results need only be reflexive on the results that were actually observed *)
Definition clean_obs (obs : list (list (Op * Out))) : Prop :=
  forall i l, nth_error obs i = Some l -> forall p, In p l -> out_eqb (snd p) (snd p) = true.

Lemma clean_obs_push obs i x : i < length obs -> clean_obs (push_head obs i x) ->
  out_eqb (snd x) (snd x) = true /\ clean_obs obs.
Proof.
  intros Hi H. destruct (push_drop obs i x Hi) as [Hd [t Hn]]. split.
  - apply (H i _ Hn). left. reflexivity.
  - intros j l Hj p Hp. destruct (Nat.eq_dec j i) as [->|Hne].
    + apply (H i _ Hn). right.
      assert (E : t = l).
      { clear -Hn Hj. revert i Hn Hj. induction obs as [|u r IH]; intros [|i] Hn Hj; cbn in *; try discriminate.
        - injection Hn as <-. injection Hj as <-. reflexivity.
        - eapply IH; eauto. }
      subst t. exact Hp.
    + apply (H j l); [|exact Hp].
      clear -Hj Hne. revert i j Hj Hne. induction obs as [|u r IH]; intros [|i] [|j] Hj Hne; cbn in *; try discriminate; try lia; auto.
Qed.

Theorem atomic_executions_with_clean_results_are_linearizable st ts st' obs (final : St -> bool) :
  Exec st ts st' obs -> clean_obs obs -> final st' = true -> Lin final st obs.
Proof.
  intros H Hc Hf. induction H as [st ts He | st ts i o t st1 y st' obs Hn Hs Hex IH].
  - apply lin_done; [apply all_empty_map_nil | exact Hf].
  - assert (Hi : i < length obs).
    { rewrite (exec_length _ _ _ _ Hex).
      assert (forall A (l : list (list A)) j, length (drop_head l j) = length l) as Hd.
      { intros A l; induction l as [|u r IHl]; intros [|j]; cbn; auto. }
      rewrite Hd. apply nth_error_Some. congruence. }
    destruct (clean_obs_push obs i (o, y) Hi Hc) as [Hy Hc'].
    destruct (push_drop obs i (o, y) Hi) as [Hd [t' Hn']].
    eapply lin_step; [exact Hn' | exact Hs | exact Hy |].
    rewrite Hd. apply IH; assumption.
Qed.

Theorem atomic_executions_are_linearizable st ts st' obs (final : St -> bool) :
  Exec st ts st' obs -> final st' = true -> Lin final st obs.
Proof.
  intros H Hf. eapply atomic_executions_with_clean_results_are_linearizable; eauto.
  intros i l _ p _. apply out_eqb_refl.
Qed.

End Lin.
