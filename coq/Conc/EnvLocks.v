(* The lock reduction instantiated with the environment model: the operations that package env runs
   under the read lock (lookups, listings, the snapshot of Copy) leave the model's state as it is, so
   with one critical section per operation every fine-grained schedule of environment operations is
   linearizable against the sequential model. *)
From Coq Require Import String List Bool Arith.
From Anko Require Import Base.Assoc Env.EnvModel Env.EnvCases Conc.Lin Conc.EnvConc Conc.LockReduction.
Import ListNotations.

Definition k_is_write (o : kop) : bool :=
  match o with
  | KSnap _ => false
  | KOp (OGet _ _) | KOp (OAddr _ _) | KOp (OSymbols _) | KOp (OType _ _) | KOp (OTypeSymbols _)
  | KOp (OPath _ _) | KOp (OHasParent _) => false
  | KOp _ => true
  end.

Lemma env_reads_are_pure h o : k_is_write o = false -> fst (kstep h o) = h.
Proof.
  destruct o as [o|e]; cbn [k_is_write kstep].
  - destruct o; try discriminate; intros _; unfold cstep, step; cbn [target];
      destruct (valid h e); try reflexivity;
      repeat match goal with
             | |- context [lift_h ?a ?r ?k] => unfold lift_h; destruct r; try reflexivity
             | |- context [nth_error ?l ?i] => destruct (nth_error l i); try reflexivity
             end.
  - intros _. destruct (cstep h (OCopy e)) as [h' x]. destruct x; try reflexivity.
    destruct (nth_error h' i); reflexivity.
Qed.

(* a write is one step of the model (the lock table says: all under one write-lock section) *)
Definition k_micro (o : kop) : list (list cscope -> list cscope) := [fun h => fst (kstep h o)].

(* every fine-grained schedule of environment operations, each one critical section, yields histories
   the sequential model explains - provided the model answered every observed operation (no KBad) *)
Theorem environment_schedules_are_linearizable :
  forall h0 ts s' (final : list cscope -> bool),
  frun kstep k_is_write k_micro (start h0 ts) s' -> finished s' -> final (sigma s') = true ->
  clean_obs kout_eqb (map hist (ths s')) ->
  Lin kstep kout_eqb final h0 (map hist (ths s')).
Proof.
  intros h0 ts s' final.
  apply (every_schedule_is_linearizable kstep k_is_write k_micro env_reads_are_pure (fun st o _ => eq_refl) kout_eqb).
Qed.
