(* Round trip: a tree that carries the parentheses the table requires is read back, from its own
   tokens, as itself - for every tree, every nesting depth, any well-formed table. *)
From Coq Require Import List Arith Lia Bool.
From Anko Require Import Parse.ExprParser Parse.ExprFacts.
Import ListNotations.

Section RT.
Variable T : list (assoc * list nat).
Variable unops : list nat.
Variable qop : nat.
Hypothesis T_disj : forall k a ops o, nth_error T k = Some (a, ops) -> mem o ops = true -> lvl T o = Some k.
Hypothesis T_q : forall k a ops, nth_error T k = Some (a, ops) -> mem qop ops = true -> a = R.

Notation pexpr := (pexpr T unops qop).
Notation ploop := (ploop T unops qop).
Notation pprim := (pprim T unops qop).
Notation ppost := (ppost T unops qop).
Notation print := (print qop).
Notation wf := (wf T unops qop).
Notation parses := (parses T unops qop).
Notation loops := (loops T unops qop).
Notation prims := (prims T unops qop).
Notation posts := (posts T unops qop).

Fixpoint size t :=
  match t with
  | Atom _ => 1
  | Paren t | Un _ t | Call0 t | Member t _ => S (size t)
  | Bin _ l r | Call1 l r | Index l r => S (size l + size r)
  | Tern a b c | Call2 a b c => S (size a + size b + size c)
  end.

Definition stop k (rest : list tok) :=
  match rest with
  | TOp o :: _ => match lvl T o with Some j => j < k | None => True end
  | TLP :: _ | TLB :: _ | TDot :: _ => False
  | _ => True
  end.
Definition follow k (rest : list tok) :=
  match rest with
  | TOp o :: _ => match lvl T o with Some j => j <= k | None => True end
  | TLP :: _ | TLB :: _ | TDot :: _ => False
  | _ => True
  end.

Lemma lvl_in_bound lvs o k j : lvl_in lvs o k = Some j -> k <= j < k + length lvs.
Proof.
  revert k; induction lvs as [|[a ops] tl IH]; cbn; intros k H; try discriminate.
  destruct (mem o ops). injection H; lia. apply IH in H. lia.
Qed.
Lemma lvl_bound o j : lvl T o = Some j -> j < length T.
Proof. intros H; apply lvl_in_bound in H; lia. Qed.

Lemma skipn_cons k a ops : nth_error T k = Some (a, ops) -> skipn k T = (a, ops) :: skipn (S k) T.
Proof.
  revert k. generalize T as l0. induction l0 as [|x l0 IH]; destruct k; cbn; intros; try discriminate.
  congruence. apply IH; auto.
Qed.

Lemma mem_of_lvl o k a ops : lvl T o = Some k -> nth_error T k = Some (a, ops) -> mem o ops = true.
Proof.
  intros Hj Hk. unfold lvl in Hj.
  assert (G: forall lvs b j, lvl_in lvs o b = Some j ->
     exists a' ops', nth_error lvs (j-b) = Some (a',ops') /\ mem o ops' = true /\ b <= j).
  { induction lvs as [|[a' ops'] tl IH]; cbn; intros b j H; try discriminate.
    destruct (mem o ops') eqn:E. injection H as <-. rewrite Nat.sub_diag. cbn. eauto.
    destruct (IH _ _ H) as (a''&ops''&H1&H2&H3). exists a'', ops''. split; [|split]; auto; try lia.
    replace (j-b) with (S (j - S b)) by lia. exact H1. }
  destruct (G _ _ _ Hj) as (a'&ops'&H1&H2&_). rewrite Nat.sub_0_r in H1. congruence.
Qed.

(* ---- consequences of wf ---- *)
Lemma wf_prim_any t p q : is_prim t = true -> wf p t = wf q t.
Proof. destruct t; cbn; try discriminate; reflexivity. Qed.

Lemma wf_bin k o l r : wf k (Bin o l r) = true ->
  o <> qop /\ exists j, lvl T o = Some j /\ k <= j /\
   match assoc_at T j with L => wf j l = true /\ wf (S j) r = true | R => wf (S j) l = true /\ wf j r = true end.
Proof.
  cbn. intro H. apply andb_prop in H as [H0 H].
  split. { intro E. subst. rewrite Nat.eqb_refl in H0. discriminate. }
  destruct (lvl T o) as [j|]; [|discriminate]. exists j. split; [reflexivity|].
  apply andb_prop in H as [H1 H2]. apply Nat.leb_le in H1. split; [exact H1|].
  destruct (assoc_at T j); apply andb_prop in H2; exact H2.
Qed.

Lemma wf_tern k c a b : wf k (Tern c a b) = true ->
  exists j, lvl T qop = Some j /\ k <= j /\ wf (S j) c = true /\ wf 0 a = true /\ wf j b = true.
Proof.
  cbn. destruct (lvl T qop) as [j|]; [|discriminate]. intro H.
  apply andb_prop in H as [H Hb]. apply andb_prop in H as [H Ha]. apply andb_prop in H as [H Hc].
  apply Nat.leb_le in H. exists j. auto.
Qed.

Lemma wf_raise k t : wf k t = true ->
  match t with
  | Bin o _ _ => match lvl T o with Some j => k < j | None => False end
  | Tern _ _ _ => match lvl T qop with Some j => k < j | None => False end
  | _ => True end -> wf (S k) t = true.
Proof.
  destruct t; cbn -[Nat.leb]; auto.
  - destruct (Nat.eqb o qop); cbn -[Nat.leb]; [discriminate|]. destruct (lvl T o) as [j|]; [|discriminate].
    intros H Hlt. apply andb_prop in H as [_ H]. rewrite H. apply Nat.leb_le in Hlt. rewrite Hlt. reflexivity.
  - destruct (lvl T qop) as [j|]; [|discriminate]. intros H Hlt.
    apply andb_prop in H as [H Hb]. apply andb_prop in H as [H Ha]. apply andb_prop in H as [_ Hc].
    apply Nat.leb_le in Hlt. rewrite Hlt, Hc, Ha, Hb. reflexivity.
Qed.

Lemma stop_follow k rest : follow k rest -> stop (S k) rest.
Proof. unfold follow, stop. destruct rest as [|[]]; auto. destruct (lvl T o); auto. lia. Qed.
Lemma stop_le k rest : stop k rest -> follow k rest.
Proof. unfold follow, stop. destruct rest as [|[]]; auto. destruct (lvl T o); auto. lia. Qed.

Definition head_ok (h : tok) := match h with TAtom _ | TOp _ | TLP => True | _ => False end.
Lemma print_cons t x : exists h tl, print t ++ x = h :: tl /\ head_ok h.
Proof.
  revert x.
  induction t as [n|o l IHl r _|c IHc a _ b _|u t _|t _|f IHf|f IHf a _|f IHf a _ b _|f IHf i _|f IHf n]; intro x; cbn [ExprParser.print].
  - exists (TAtom n), x. split; [reflexivity | exact I].
  - rewrite <- app_assoc. apply IHl.
  - rewrite <- app_assoc. apply IHc.
  - eexists _, _. split; [reflexivity | exact I].
  - eexists _, _. split; [reflexivity | exact I].
  - rewrite <- app_assoc. apply IHf.
  - rewrite <- app_assoc. apply IHf.
  - rewrite <- app_assoc. apply IHf.
  - rewrite <- app_assoc. apply IHf.
  - rewrite <- app_assoc. apply IHf.
Qed.

Definition Main s d := forall t k rest, size t <= s -> length T - k = d -> k <= length T ->
   wf k t = true -> stop k rest -> parses (skipn k T) (print t ++ rest) (t, rest).

(* what the induction hypothesis gives for an expression between brackets *)
Lemma inner s : (forall s', s' < s -> forall d', Main s' d') ->
  forall t rest, size t < s -> wf 0 t = true -> stop 0 rest -> parses T (print t ++ rest) (t, rest).
Proof.
  intros IHs t rest Hs Hw Hst.
  exact (IHs (size t) Hs (length T) t 0 rest (le_n _) (Nat.sub_0_r _) (Nat.le_0_l _) Hw Hst).
Qed.

Lemma stop0 rest : match rest with TOp _ :: _ | TLP :: _ | TLB :: _ | TDot :: _ => False | _ => True end -> stop 0 rest.
Proof. destruct rest as [|[]]; cbn; intro H; try contradiction; auto. Qed.

(* postfix loop lemma *)
Lemma post_loop s : (forall s', s' < s -> forall d', Main s' d') ->
  forall t, size t <= s -> is_post t = true -> wf 0 t = true ->
  forall rest res, posts t rest res -> prims (print t ++ rest) res.
Proof.
  intros IHs.
  induction t as [n|o l _ r _|c _ a _ b _|u t _|t _|f IHf|f IHf a _|f IHf a _ b _|f IHf i _|f IHf n];
    intros Hs Hp Hw rest res [n2 Hq]; try discriminate Hp; cbn [ExprParser.print size] in *.
  - exists (S n2). rewrite pprim_S. exact Hq.
  - (* Paren *)
    destruct (inner s IHs t (TRP :: rest) ltac:(lia) Hw I) as [n1 H1].
    exists (S (max n1 n2)). rewrite pprim_S. cbn [app]. rewrite <- app_assoc. cbn [app].
    rewrite (mono_e T unops qop n1 (max n1 n2) _ _ _ ltac:(lia) H1).
    eapply mono_q; [|exact Hq]. lia.
  - (* Call0 *)
    cbn in Hw. apply andb_prop in Hw as [Hpf Hwf].
    rewrite <- app_assoc. apply IHf; [lia|exact Hpf|exact Hwf|].
    exists (S n2). rewrite ppost_S. cbn [app]. exact Hq.
  - (* Call1 *)
    cbn in Hw. apply andb_prop in Hw as [Hw Hwa]. apply andb_prop in Hw as [Hpf Hwf].
    rewrite <- app_assoc. apply IHf; [lia|exact Hpf|exact Hwf|].
    destruct (inner s IHs a (TRP :: rest) ltac:(lia) Hwa I) as [n1 H1].
    exists (S (max n1 n2)). rewrite ppost_S. cbn [app]. rewrite <- app_assoc. cbn [app].
    destruct (print_cons a (TRP :: rest)) as (h & tl & E & Hh). rewrite E in *.
    destruct h; try contradiction;
      rewrite (mono_e T unops qop n1 (max n1 n2) _ _ _ ltac:(lia) H1);
      (eapply mono_q; [|exact Hq]; lia).
  - (* Call2 *)
    cbn in Hw. apply andb_prop in Hw as [Hw Hwb]. apply andb_prop in Hw as [Hw Hwa]. apply andb_prop in Hw as [Hpf Hwf].
    rewrite <- app_assoc. apply IHf; [lia|exact Hpf|exact Hwf|].
    destruct (inner s IHs a (TComma :: print b ++ TRP :: rest) ltac:(lia) Hwa I) as [n1 H1].
    destruct (inner s IHs b (TRP :: rest) ltac:(lia) Hwb I) as [n3 H3].
    exists (S (max n1 (max n2 n3))). rewrite ppost_S. cbn [app]. rewrite <- !app_assoc. cbn [app]. rewrite <- !app_assoc. cbn [app].
    destruct (print_cons a (TComma :: print b ++ TRP :: rest)) as (h & tl & E & Hh). rewrite E in *.
    destruct h; try contradiction;
      rewrite (mono_e T unops qop n1 (max n1 (max n2 n3)) _ _ _ ltac:(lia) H1);
      rewrite (mono_e T unops qop n3 (max n1 (max n2 n3)) _ _ _ ltac:(lia) H3);
      (eapply mono_q; [|exact Hq]; lia).
  - (* Index *)
    cbn in Hw. apply andb_prop in Hw as [Hw Hwi]. apply andb_prop in Hw as [Hpf Hwf].
    rewrite <- app_assoc. apply IHf; [lia|exact Hpf|exact Hwf|].
    destruct (inner s IHs i (TRB :: rest) ltac:(lia) Hwi I) as [n1 H1].
    exists (S (max n1 n2)). rewrite ppost_S. cbn [app]. rewrite <- app_assoc. cbn [app].
    rewrite (mono_e T unops qop n1 (max n1 n2) _ _ _ ltac:(lia) H1).
    eapply mono_q; [|exact Hq]. lia.
  - (* Member *)
    cbn in Hw. apply andb_prop in Hw as [Hpf Hwf].
    rewrite <- app_assoc. apply IHf; [lia|exact Hpf|exact Hwf|].
    exists (S n2). rewrite ppost_S. cbn [app]. exact Hq.
Qed.

(* trees of primary shape, at the end of the table *)
Lemma prim_case s : (forall s', s' < s -> forall d', Main s' d') ->
  forall t rest, size t <= s -> is_prim t = true -> wf 0 t = true -> stop (length T) rest ->
  prims (print t ++ rest) (t, rest).
Proof.
  intros IHs t rest Hs Hp Hw Hst.
  destruct (is_post t) eqn:Hpost.
  - apply (post_loop s IHs t Hs Hpost Hw). exists 1. rewrite ppost_S.
    destruct rest as [|[] r0]; try reflexivity; cbn in Hst; try contradiction.
  - destruct t; try discriminate. cbn [ExprParser.print size] in *.
    cbn in Hw. apply andb_prop in Hw as [Hw Hwt]. apply andb_prop in Hw as [Hu Hpt].
    assert (Hwt' : wf (length T) t = true) by (rewrite (wf_prim_any t _ 0 Hpt); exact Hwt).
    destruct (IHs (size t) ltac:(lia) 0 t (length T) rest (le_n _) (Nat.sub_diag _) (le_n _) Hwt' Hst) as [n H].
    rewrite skipn_all in H. destruct n as [|n]; [discriminate|]. rewrite pexpr_S in H.
    exists (S n). rewrite pprim_S. cbn [app]. rewrite Hu, H. reflexivity.
Qed.

(* loop lemma for a left-assoc level k *)
Lemma loopL s d k ops :
  (forall s', s' < s -> forall d', Main s' d') -> (forall d', d' < d -> Main s d') ->
  length T - k = d -> nth_error T k = Some (L, ops) ->
  forall t, size t <= s -> wf k t = true -> forall rest res, follow k rest ->
    loops ops (skipn (S k) T) t rest res ->
    parses ((L, ops) :: skipn (S k) T) (print t ++ rest) res.
Proof.
  intros IHs IHd Hd Hk.
  assert (Hlen : k < length T) by (apply nth_error_Some; congruence).
  assert (Tight : forall t rest res, size t <= s -> wf (S k) t = true -> follow k rest ->
     loops ops (skipn (S k) T) t rest res ->
     parses ((L, ops) :: skipn (S k) T) (print t ++ rest) res).
  { intros t rest res Hs Hw Hf [n2 Hl].
    destruct (IHd (d-1) ltac:(lia) t (S k) rest Hs ltac:(lia) ltac:(lia) Hw (stop_follow _ _ Hf)) as [n1 H1].
    exists (S (max n1 n2)). rewrite pexpr_S.
    rewrite (mono_e T unops qop n1 (max n1 n2) _ _ _ ltac:(lia) H1).
    eapply mono_l; [|exact Hl]. lia. }
  assert (Prim : forall t, is_prim t = true -> size t <= s -> wf k t = true -> forall rest res, follow k rest ->
     loops ops (skipn (S k) T) t rest res -> parses ((L, ops) :: skipn (S k) T) (print t ++ rest) res).
  { intros t Hp Hs Hw rest res Hf Hl. apply Tight; auto. rewrite (wf_prim_any t _ k Hp). exact Hw. }
  induction t as [n|o l IHl r IHr|c _ a _ b _|u t _|t _|f _|f _ a _|f _ a _ b _|f _ i _|f _ n];
    intros Hs Hw rest res Hf Hl; try (apply Prim; auto; reflexivity).
  - (* Bin *)
    destruct (wf_bin _ _ _ _ Hw) as (Hoq & j & Hj & Hkj & Hsub).
    destruct (Nat.eq_dec j k) as [->|Hne].
    + assert (Ha : assoc_at T k = L) by (unfold assoc_at; rewrite Hk; auto).
      rewrite Ha in Hsub. destruct Hsub as [Hwl Hwr].
      cbn [ExprParser.print]. rewrite <- app_assoc. cbn [app].
      cbn [size] in Hs.
      apply IHl; [lia|auto| |].
      * cbn. rewrite Hj. lia.
      * destruct Hl as [n2 Hl].
        destruct (IHs (size r) ltac:(lia) (d-1) r (S k) rest ltac:(lia) ltac:(lia) ltac:(lia) Hwr (stop_follow _ _ Hf)) as [n1 H1].
        exists (S (max n1 n2)). rewrite ploop_S.
        rewrite (mem_of_lvl _ _ _ _ Hj Hk).
        rewrite (mono_e T unops qop n1 (max n1 n2) _ _ _ ltac:(lia) H1).
        eapply mono_l; [|exact Hl]. lia.
    + apply Tight; auto. apply wf_raise; auto. rewrite Hj. lia.
  - (* Tern: its level is right-associative, so it is tighter than k *)
    destruct (wf_tern _ _ _ _ Hw) as (j & Hj & Hkj & _).
    destruct (Nat.eq_dec j k) as [->|Hne].
    + exfalso. pose proof (T_q _ _ _ Hk (mem_of_lvl _ _ _ _ Hj Hk)). discriminate.
    + apply Tight; auto. apply wf_raise; auto. rewrite Hj. lia.
Qed.

Lemma main_all : forall s d, Main s d.
Proof.
  induction s as [s IHs] using lt_wf_ind. induction d as [d IHd] using lt_wf_ind.
  intros t k rest Hs Hd Hk Hw Hst.
  destruct (nth_error T k) as [[a ops]|] eqn:Hn.
  2:{ (* past the last binary level *)
      apply nth_error_None in Hn. assert (k = length T) by lia. subst k.
      rewrite skipn_all.
      assert (Hp : is_prim t = true).
      { destruct t; try reflexivity.
        - destruct (wf_bin _ _ _ _ Hw) as (_ & j & Hj & Hkj & _). apply lvl_bound in Hj. lia.
        - destruct (wf_tern _ _ _ _ Hw) as (j & Hj & Hkj & _). apply lvl_bound in Hj. lia. }
      rewrite (wf_prim_any t _ 0 Hp) in Hw.
      destruct (prim_case s IHs t rest Hs Hp Hw Hst) as [n H].
      exists (S n). rewrite pexpr_S. exact H. }
  assert (Hlen : k < length T) by (apply nth_error_Some; congruence).
  rewrite (skipn_cons _ _ _ Hn). destruct a.
  - (* left-assoc level *)
    eapply loopL with (s:=s) (d:=d); eauto.
    + apply stop_le; auto.
    + exists 1. rewrite ploop_S. destruct rest as [|[n0|o| | | | | | | ] r0]; auto.
      destruct (mem o ops) eqn:Hm; auto. exfalso.
      apply (T_disj _ _ _ _ Hn) in Hm. unfold stop in Hst. rewrite Hm in Hst. lia.
  - (* right-assoc level *)
    assert (Tight : forall t rest, size t <= s -> wf (S k) t = true -> stop k rest ->
       parses ((R, ops) :: skipn (S k) T) (print t ++ rest) (t, rest)).
    { intros t0 rest0 Hs0 Hw0 Hst0.
      destruct (IHd (d-1) ltac:(lia) t0 (S k) rest0 Hs0 ltac:(lia) ltac:(lia) Hw0 (stop_follow _ _ (stop_le _ _ Hst0))) as [n1 H1].
      exists (S n1). rewrite pexpr_S. rewrite H1.
      destruct rest0 as [|[n0|o| | | | | | | ] r0]; auto.
      destruct (mem o ops) eqn:Hm; auto. exfalso.
      apply (T_disj _ _ _ _ Hn) in Hm. unfold stop in Hst0. rewrite Hm in Hst0. lia. }
    assert (Prim : forall t, is_prim t = true -> size t <= s -> wf k t = true ->
       parses ((R, ops) :: skipn (S k) T) (print t ++ rest) (t, rest)).
    { intros t0 Hp Hs0 Hw0. apply Tight; auto. rewrite (wf_prim_any t0 _ k Hp). exact Hw0. }
    destruct t as [n|o l r|c a b|u t|t|f|f a|f a b|f i|f n]; try (apply Prim; auto; reflexivity).
    + (* Bin *)
      destruct (wf_bin _ _ _ _ Hw) as (Hoq & j & Hj & Hkj & Hsub).
      destruct (Nat.eq_dec j k) as [->|Hne].
      * assert (Ha : assoc_at T k = R) by (unfold assoc_at; rewrite Hn; auto).
        rewrite Ha in Hsub. destruct Hsub as [Hwl Hwr]. cbn [size] in Hs.
        cbn [ExprParser.print]. rewrite <- app_assoc. cbn [app].
        assert (Hso : stop (S k) (TOp o :: print r ++ rest)) by (cbn; rewrite Hj; lia).
        destruct (IHs (size l) ltac:(lia) (d-1) l (S k) _ ltac:(lia) ltac:(lia) ltac:(lia) Hwl Hso) as [n1 H1].
        destruct (IHs (size r) ltac:(lia) d r k rest ltac:(lia) Hd Hk Hwr Hst) as [n2 H2].
        rewrite (skipn_cons _ _ _ Hn) in H2.
        exists (S (max n1 n2)). rewrite pexpr_S.
        rewrite (mono_e T unops qop n1 (max n1 n2) _ _ _ ltac:(lia) H1).
        rewrite (mem_of_lvl _ _ _ _ Hj Hn).
        apply Nat.eqb_neq in Hoq. rewrite Hoq.
        rewrite (mono_e T unops qop n2 (max n1 n2) _ _ _ ltac:(lia) H2). reflexivity.
      * apply Tight; auto. apply wf_raise; auto. rewrite Hj. lia.
    + (* Tern *)
      destruct (wf_tern _ _ _ _ Hw) as (j & Hj & Hkj & Hwc & Hwa & Hwb).
      destruct (Nat.eq_dec j k) as [->|Hne].
      * cbn [size] in Hs. cbn [ExprParser.print]. rewrite <- app_assoc. cbn [app]. rewrite <- app_assoc. cbn [app].
        assert (Hso : stop (S k) (TOp qop :: print a ++ TColon :: print b ++ rest)) by (cbn; rewrite Hj; lia).
        destruct (IHs (size c) ltac:(lia) (d-1) c (S k) _ ltac:(lia) ltac:(lia) ltac:(lia) Hwc Hso) as [n1 H1].
        destruct (inner s IHs a (TColon :: print b ++ rest) ltac:(lia) Hwa I) as [n2 H2].
        destruct (IHs (size b) ltac:(lia) d b k rest ltac:(lia) Hd Hk Hwb Hst) as [n3 H3].
        rewrite (skipn_cons _ _ _ Hn) in H3.
        exists (S (max n1 (max n2 n3))). rewrite pexpr_S.
        rewrite (mono_e T unops qop n1 (max n1 (max n2 n3)) _ _ _ ltac:(lia) H1).
        rewrite (mem_of_lvl _ _ _ _ Hj Hn). rewrite Nat.eqb_refl.
        rewrite (mono_e T unops qop n2 (max n1 (max n2 n3)) _ _ _ ltac:(lia) H2).
        rewrite (mono_e T unops qop n3 (max n1 (max n2 n3)) _ _ _ ltac:(lia) H3). reflexivity.
      * apply Tight; auto. apply wf_raise; auto. rewrite Hj. lia.
Qed.

Theorem roundtrip t rest : wf 0 t = true -> stop 0 rest -> parses T (print t ++ rest) (t, rest).
Proof. intros. eapply (main_all (size t) (length T) t 0 rest); auto; lia. Qed.

End RT.
