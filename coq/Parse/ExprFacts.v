(* Unfolding equations and fuel monotonicity of the mutual parser functions. *)
From Coq Require Import List Arith Lia Bool.
From Anko Require Import Parse.ExprParser.
Import ListNotations.

Section Q.
Variable T : list (assoc * list nat).
Variable unops : list nat.
Variable qop : nat.

Notation pexpr := (pexpr T unops qop).
Notation ploop := (ploop T unops qop).
Notation pprim := (pprim T unops qop).
Notation ppost := (ppost T unops qop).

Lemma pexpr_S f lvs ts : pexpr (S f) lvs ts =
  match lvs with
  | [] => pprim f ts
  | (L, ops) :: tighter =>
     match pexpr f tighter ts with
     | Some (x, r) => ploop f ops tighter x r
     | None => None end
  | (R, ops) :: tighter =>
     match pexpr f tighter ts with
     | Some (x, TOp o :: r) =>
         if mem o ops then
           if Nat.eqb o qop then
             match pexpr f T r with
             | Some (m, TColon :: r1) =>
                 match pexpr f lvs r1 with
                 | Some (y, r2) => Some (Tern x m y, r2)
                 | None => None end
             | _ => None end
           else
             match pexpr f lvs r with
             | Some (y, r') => Some (Bin o x y, r')
             | None => None end
         else Some (x, TOp o :: r)
     | other => other end
  end.
Proof. reflexivity. Qed.

Lemma ploop_S f ops tighter x ts : ploop (S f) ops tighter x ts =
  match ts with
  | TOp o :: r =>
     if mem o ops then
       match pexpr f tighter r with
       | Some (y, r') => ploop f ops tighter (Bin o x y) r'
       | None => None end
     else Some (x, ts)
  | _ => Some (x, ts)
  end.
Proof. reflexivity. Qed.

Lemma pprim_S f ts : pprim (S f) ts =
  match ts with
  | TOp u :: r =>
      if mem u unops then
        match pprim f r with
        | Some (t, r') => Some (Un u t, r')
        | None => None end
      else None
  | TAtom n :: r => ppost f (Atom n) r
  | TLP :: r =>
      match pexpr f T r with
      | Some (t, TRP :: r') => ppost f (Paren t) r'
      | _ => None end
  | _ => None
  end.
Proof. reflexivity. Qed.

Lemma ppost_S f x ts : ppost (S f) x ts =
  match ts with
  | TLP :: TRP :: r => ppost f (Call0 x) r
  | TLP :: r =>
      match pexpr f T r with
      | Some (a, TRP :: r1) => ppost f (Call1 x a) r1
      | Some (a, TComma :: r1) =>
          match pexpr f T r1 with
          | Some (b, TRP :: r2) => ppost f (Call2 x a b) r2
          | _ => None end
      | _ => None end
  | TLB :: r =>
      match pexpr f T r with
      | Some (i, TRB :: r1) => ppost f (Index x i) r1
      | _ => None end
  | TDot :: TAtom n :: r => ppost f (Member x n) r
  | _ => Some (x, ts)
  end.
Proof. reflexivity. Qed.

Ltac dtok l tl := destruct l as [|[?n|?o| | | | | | | ] tl].

Lemma mono : forall n,
  (forall lvs ts r, pexpr n lvs ts = Some r -> pexpr (S n) lvs ts = Some r) /\
  (forall ops tg x ts r, ploop n ops tg x ts = Some r -> ploop (S n) ops tg x ts = Some r) /\
  (forall ts r, pprim n ts = Some r -> pprim (S n) ts = Some r) /\
  (forall x ts r, ppost n x ts = Some r -> ppost (S n) x ts = Some r).
Proof.
  induction n as [|n (IHe & IHl & IHp & IHq)]; (split; [|split; [|split]]); try (intros; discriminate).
  - intros lvs ts res H. rewrite pexpr_S in H. rewrite pexpr_S.
    destruct lvs as [|[[|] ops] tg].
    + apply IHp. exact H.
    + destruct (pexpr n tg ts) as [[x r0]|] eqn:E; try discriminate.
      rewrite (IHe _ _ _ E). apply IHl. exact H.
    + destruct (pexpr n tg ts) as [[x r0]|] eqn:E; try discriminate.
      rewrite (IHe _ _ _ E).
      dtok r0 r1; try exact H.
      destruct (mem o ops); try exact H.
      destruct (Nat.eqb o qop).
      * destruct (pexpr n T r1) as [[m r2]|] eqn:E1; try discriminate.
        rewrite (IHe _ _ _ E1). dtok r2 r3; try discriminate.
        destruct (pexpr n ((R, ops) :: tg) r3) as [[y r4]|] eqn:E2; try discriminate.
        rewrite (IHe _ _ _ E2). exact H.
      * destruct (pexpr n ((R, ops) :: tg) r1) as [[y r2]|] eqn:E2; try discriminate.
        rewrite (IHe _ _ _ E2). exact H.
  - intros ops tg x ts res H. rewrite ploop_S in H. rewrite ploop_S.
    dtok ts r0; try exact H.
    destruct (mem o ops); try exact H.
    destruct (pexpr n tg r0) as [[y r1]|] eqn:E; try discriminate.
    rewrite (IHe _ _ _ E). apply IHl. exact H.
  - intros ts res H. rewrite pprim_S in H. rewrite pprim_S.
    dtok ts r0; try discriminate.
    + apply IHq. exact H.
    + destruct (mem o unops); try discriminate.
      destruct (pprim n r0) as [[t r1]|] eqn:E; try discriminate.
      rewrite (IHp _ _ E). exact H.
    + destruct (pexpr n T r0) as [[t r1]|] eqn:E; try discriminate.
      rewrite (IHe _ _ _ E). dtok r1 r2; try discriminate. apply IHq. exact H.
  - intros x ts res H. rewrite ppost_S in H. rewrite ppost_S.
    dtok ts r0; try exact H.
    + (* TLP *)
      assert (G : forall l, match pexpr n T l with
              | Some (a, TRP :: r1) => ppost n (Call1 x a) r1
              | Some (a, TComma :: r1) =>
                  match pexpr n T r1 with
                  | Some (b, TRP :: r2) => ppost n (Call2 x a b) r2
                  | _ => None end
              | _ => None end = Some res ->
            match pexpr (S n) T l with
              | Some (a, TRP :: r1) => ppost (S n) (Call1 x a) r1
              | Some (a, TComma :: r1) =>
                  match pexpr (S n) T r1 with
                  | Some (b, TRP :: r2) => ppost (S n) (Call2 x a b) r2
                  | _ => None end
              | _ => None end = Some res).
      { intros l G. destruct (pexpr n T l) as [[a r1]|] eqn:E; try discriminate.
        rewrite (IHe _ _ _ E). dtok r1 r2; try discriminate.
        - apply IHq. exact G.
        - destruct (pexpr n T r2) as [[b r3]|] eqn:E2; try discriminate.
          rewrite (IHe _ _ _ E2). dtok r3 r4; try discriminate. apply IHq. exact G. }
      dtok r0 r1; try (apply G; exact H).
      apply IHq. exact H.
    + (* TLB *)
      destruct (pexpr n T r0) as [[i r1]|] eqn:E; try discriminate.
      rewrite (IHe _ _ _ E). dtok r1 r2; try discriminate. apply IHq. exact H.
    + (* TDot *)
      dtok r0 r1; try exact H. apply IHq. exact H.
Qed.

Lemma mono_e n m lvs ts r : n <= m -> pexpr n lvs ts = Some r -> pexpr m lvs ts = Some r.
Proof. induction 1; auto. intros. apply mono. auto. Qed.
Lemma mono_l n m ops tg x ts r : n <= m -> ploop n ops tg x ts = Some r -> ploop m ops tg x ts = Some r.
Proof. induction 1; auto. intros. apply mono. auto. Qed.
Lemma mono_p n m ts r : n <= m -> pprim n ts = Some r -> pprim m ts = Some r.
Proof. induction 1; auto. intros. apply mono. auto. Qed.
Lemma mono_q n m x ts r : n <= m -> ppost n x ts = Some r -> ppost m x ts = Some r.
Proof. induction 1; auto. intros. apply mono. auto. Qed.

Definition parses lvs ts r := exists n, pexpr n lvs ts = Some r.
Definition loops ops tg x ts r := exists n, ploop n ops tg x ts = Some r.
Definition prims ts r := exists n, pprim n ts = Some r.
Definition posts x ts r := exists n, ppost n x ts = Some r.
End Q.
