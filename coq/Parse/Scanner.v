(* Model of parser/lexer.go: Scanner.Scan over a list of runes (code points), with the line / column
   bookkeeping of next() and pos().  A scanner state is the remaining input together with the line
   and the column (offset - lineHead) of its first rune.  back() directly after next() over a rune
   that is not a newline restores the state exactly, so the two-character cases are modelled by
   looking at the following rune without consuming.  unicode.IsLetter is a parameter. *)
From Coq Require Import List ZArith String Ascii Bool Lia.
Import ListNotations.
Open Scope Z_scope.

Notation rune := Z (only parsing).

Record st := mkSt { rest : list rune; line : nat; col : nat }.

Inductive tkind := KEOF | KChar (c : rune) | KName (n : string).

Record token := mkTok { t_kind : tkind; t_lit : list rune; t_line : nat; t_col : nat; t_err : bool }.

Definition zs (s : string) : list rune := map (fun a => Z.of_nat (nat_of_ascii a)) (list_ascii_of_string s).
Definition ch (a : ascii) : rune := Z.of_nat (nat_of_ascii a).

Definition NL : rune := 10.
Definition is_digit (c : rune) : bool := (48 <=? c) && (c <=? 57).
Definition is_hex (c : rune) : bool := is_digit c || ((97 <=? c) && (c <=? 102)) || ((65 <=? c) && (c <=? 70)).
Definition is_binary (c : rune) : bool := (c =? 48) || (c =? 49).
Definition is_blank (c : rune) : bool := (c =? 32) || (c =? 9) || (c =? 13).

Section Scan.
Variable unicode_is_letter : rune -> bool.
Definition is_letter (c : rune) : bool := unicode_is_letter c || (c =? 95).

(* next() *)
Definition advance (s : st) : st :=
  match rest s with
  | [] => s
  | c :: r => if c =? NL then mkSt r (S (line s)) 0 else mkSt r (line s) (S (col s))
  end.

(* skipBlank *)
Fixpoint skip_blank (l : list rune) (ln cl : nat) : st :=
  match l with
  | c :: r => if is_blank c then skip_blank r ln (S cl) else mkSt l ln cl
  | [] => mkSt l ln cl
  end.

(* for !isEOL(peek) { next } *)
Fixpoint to_eol (l : list rune) (ln cl : nat) : st :=
  match l with
  | c :: r => if c =? NL then mkSt l ln cl else to_eol r ln (S cl)
  | [] => mkSt l ln cl
  end.

(* scanIdentifier *)
Fixpoint take_ident (l : list rune) (ln cl : nat) (acc : list rune) : list rune * st :=
  match l with
  | c :: r => if is_letter c || is_digit c then take_ident r ln (S cl) (acc ++ [c]) else (acc, mkSt l ln cl)
  | [] => (acc, mkSt l ln cl)
  end.

Definition keywords : list (string * string) :=
  [("func","FUNC"); ("return","RETURN"); ("var","VAR"); ("throw","THROW"); ("if","IF"); ("for","FOR");
   ("break","BREAK"); ("continue","CONTINUE"); ("in","IN"); ("else","ELSE"); ("new","NEW"); ("true","TRUE");
   ("false","FALSE"); ("nil","NIL"); ("module","MODULE"); ("try","TRY"); ("catch","CATCH"); ("finally","FINALLY");
   ("switch","SWITCH"); ("case","CASE"); ("default","DEFAULT"); ("go","GO"); ("defer","DEFER"); ("chan","CHAN");
   ("struct","STRUCT"); ("make","MAKE"); ("type","TYPE"); ("len","LEN"); ("delete","DELETE"); ("close","CLOSE");
   ("map","MAP"); ("import","IMPORT")]%string.

Fixpoint zs_eqb (a b : list rune) : bool :=
  match a, b with
  | [], [] => true
  | x :: a', y :: b' => (x =? y) && zs_eqb a' b'
  | _, _ => false
  end.

Definition ident_kind (lit : list rune) : tkind :=
  match find (fun kw => zs_eqb (zs (fst kw)) lit) keywords with
  | Some kw => KName (snd kw)
  | None => KName "IDENT"%string
  end.

(* scanNumber, after the first digit d has been consumed *)
Fixpoint take_while (p : rune -> bool) (l : list rune) (ln cl : nat) (acc : list rune) : list rune * st :=
  match l with
  | c :: r => if p c then take_while p r ln (S cl) (acc ++ [c]) else (acc, mkSt l ln cl)
  | [] => (acc, mkSt l ln cl)
  end.

(* the non-hex loop: digits, dots, one exponent marker with optional sign; None = "unexpected e" *)
Fixpoint number_tail (l : list rune) (ln cl : nat) (acc : list rune) (found : bool) : option (list rune) * st :=
  match l with
  | c :: r =>
    if is_digit c then number_tail r ln (S cl) (acc ++ [c]) found
    else if c =? 46 then number_tail r ln (S cl) (acc ++ [46]) found
    else if (c =? 101) || (c =? 69) then
      if found then (None, mkSt l ln cl)
      else match r with
           | sgn :: r' => if (sgn =? 43) || (sgn =? 45)
                          then number_tail r' ln (S (S cl)) (acc ++ [101; sgn]) true
                          else number_tail r ln (S cl) (acc ++ [101]) true
           | [] => number_tail r ln (S cl) (acc ++ [101]) true
           end
    else (Some acc, mkSt l ln cl)
  | [] => (Some acc, mkSt l ln cl)
  end.

Definition peek (s : st) : option rune := match rest s with c :: _ => Some c | [] => None end.

Definition scan_number (d : rune) (r : list rune) (ln cl : nat) : option (list rune) * st :=
  (* r, (ln, cl) : input and position after the first digit *)
  let after :=
    match r with
    | x :: r' =>
      if (d =? 48) && ((x =? 120) || (x =? 88)) then
        let '(lit, s) := take_while is_hex r' ln (S cl) [d; 120] in (Some lit, s)
      else if (d =? 48) && ((x =? 98) || (x =? 66)) then
        let '(lit, s) := take_while is_binary r' ln (S cl) [d; 98] in (Some lit, s)
      else number_tail r ln cl [d] false
    | [] => number_tail r ln cl [d] false
    end in
  match after with
  | (Some lit, s) => match peek s with
                     | Some c => if is_letter c then (None, s) else (Some lit, s)
                     | None => (Some lit, s)
                     end
  | (None, s) => (None, s)
  end.

(* scanString: the loop starts with next(), which steps over the opening quote (or whatever the
   cursor stands on).  Result None = unexpected EOL / EOF. *)
Fixpoint string_body (q : rune) (l : list rune) (ln cl : nat) (acc : list rune) : option (list rune) * st :=
  (* l, (ln, cl): input after the next() at the head of the loop *)
  match l with
  | [] => (None, mkSt [] ln cl)
  | c :: r =>
    if c =? NL then (None, mkSt l ln cl)
    else if c =? q then (Some acc, mkSt r ln (S cl))
    else if c =? 92 then
      match r with
      | [] => (* backslash, then EOF: the EOF rune -1 is appended and the loop meets EOF *)
              (None, mkSt [] ln (S cl))
      | e :: r' =>
        let v := if e =? 98 then 8 else if e =? 102 then 12 else if e =? 114 then 13
                 else if e =? 110 then 10 else if e =? 116 then 9 else e in
        if e =? NL then string_body q r' (S ln) 0 (acc ++ [v])
        else string_body q r' ln (S (S cl)) (acc ++ [v])
      end
    else string_body q r ln (S cl) (acc ++ [c])
  end.

(* scanRawString: next(); until the delimiter; newlines allowed *)
Fixpoint raw_body (q : rune) (l : list rune) (ln cl : nat) (acc : list rune) : option (list rune) * st :=
  match l with
  | [] => (None, mkSt [] ln cl)
  | c :: r =>
    if c =? q then (Some acc, advance (mkSt l ln cl))
    else raw_body q r (line (advance (mkSt l ln cl))) (col (advance (mkSt l ln cl))) (acc ++ [c])
  end.

(* the body of a block comment: repeated scanRawString('*') until the rune after the star is '/'.
   l is the input after the first next() (which stepped over the '*' of the opener).
   (true, s) = state after the closing '/', (false, s) = unexpected EOF *)
Fixpoint block_comment (l : list rune) (ln cl : nat) : bool * st :=
  match l with
  | [] => (false, mkSt [] ln cl)
  | c :: r =>
    let s' := advance (mkSt l ln cl) in
    if c =? 42 then
      match r with
      | 47 :: r' => (true, mkSt r' (line s') (S (col s')))
      | _ => block_comment r (line s') (col s')
      end
    else block_comment r (line s') (col s')
  end.

Inductive step :=
| Tok (t : token) (s : st)      (* a token (possibly with an error) and the state after it *)
| Retry (s : st).               (* a comment was skipped: scan again *)

Definition tok1 (k : tkind) (lit : list rune) (ln cl : nat) (s : st) : step := Tok (mkTok k lit ln cl false) s.
Definition err1 (k : tkind) (lit : list rune) (ln cl : nat) (s : st) : step := Tok (mkTok k lit ln cl true) s.

(* two-character operators: first rune -> [(second rune, token name, literal)] *)
Definition two_char (c : rune) : list (rune * string * string) :=
  if c =? 33 then [(61, "NEQ", "!=")]%string
  else if c =? 63 then [(63, "NILCOALESCE", "??")]%string
  else if c =? 43 then [(43, "PLUSPLUS", "++"); (61, "PLUSEQ", "+=")]%string
  else if c =? 45 then [(45, "MINUSMINUS", "--"); (61, "MINUSEQ", "-=")]%string
  else if c =? 42 then [(61, "MULEQ", "*=")]%string
  else if c =? 62 then [(61, "GE", ">="); (62, "SHIFTRIGHT", ">>")]%string
  else if c =? 60 then [(45, "OPCHAN", "<-"); (61, "LE", "<="); (60, "SHIFTLEFT", "<<")]%string
  else if c =? 124 then [(124, "OROR", "||"); (61, "OREQ", "|=")]%string
  else if c =? 38 then [(38, "ANDAND", "&&"); (61, "ANDEQ", "&=")]%string
  else []%list.

Definition is_two_char_head (c : rune) : bool :=
  existsb (Z.eqb c) [33; 63; 43; 45; 42; 62; 60; 124; 38].

Definition single_chars : list rune := [10; 40; 41; 58; 59; 37; 123; 125; 91; 93; 44; 94].

(* one pass of Scan up to `goto retry` or return; s is the state at the call *)
Definition scan_step (s0 : st) : step :=
  let s := skip_blank (rest s0) (line s0) (col s0) in
  let ln := S (line s) in let cl := S (col s) in       (* pos() *)
  match rest s with
  | [] => tok1 KEOF [] ln cl s
  | c :: r =>
    let s1 := advance s in            (* state after this rune *)
    if is_letter c then
      let '(lit, s') := take_ident (rest s) (line s) (col s) [] in
      tok1 (ident_kind lit) lit ln cl s'
    else if is_digit c then
      match scan_number c r (line s) (S (col s)) with
      | (Some lit, s') => tok1 (KName "NUMBER"%string) lit ln cl s'
      | (None, s') => err1 (KName "NUMBER"%string) [] ln cl s'
      end
    else if (c =? 34) || (c =? 39) then
      match string_body c r (line s1) (col s1) [] with
      | (Some lit, s') => tok1 (KName "STRING"%string) lit ln cl s'
      | (None, s') => err1 (KName "STRING"%string) [] ln cl s'
      end
    else if c =? 96 then
      match raw_body c r (line s1) (col s1) [] with
      | (Some lit, s') => tok1 (KName "STRING"%string) lit ln cl s'
      | (None, s') => err1 (KName "STRING"%string) [] ln cl s'
      end
    else if c =? 35 then Retry (to_eol (rest s) (line s) (col s))
    else if c =? 61 then                                      (* '=' *)
      match r with
      | 61 :: r' => tok1 (KName "EQEQ"%string) (zs "=="%string) ln cl (mkSt r' (line s) (S (S (col s))))
      | 32 :: 60 :: 45 :: r' => tok1 (KName "EQOPCHAN"%string) (zs "= <-"%string) ln cl (mkSt r' (line s) (S (S (S (S (col s))))))
      | _ => tok1 (KChar c) [c] ln cl s1
      end
    else if c =? 47 then                                      (* '/' *)
      match r with
      | 61 :: r' => tok1 (KName "DIVEQ"%string) (zs "/="%string) ln cl (mkSt r' (line s) (S (S (col s))))
      | 47 :: _ => Retry (to_eol r (line s) (S (col s)))
      | 42 :: r' =>
          match block_comment r' (line s) (S (S (col s))) with
          | (true, s') => Retry s'
          | (false, s') => err1 (KChar 0) [] ln cl s'          (* unexpected EOF: tok stays 0 *)
          end
      | _ => tok1 (KChar c) [c] ln cl s1
      end
    else if c =? 46 then                                      (* '.' *)
      match r with
      | 46 :: 46 :: r' => tok1 (KName "VARARG"%string) [] ln cl (mkSt r' (line s) (S (S (S (col s)))))
      | 46 :: r' => err1 (KChar 0) [] ln cl (mkSt r' (line s) (S (S (col s))))
      | _ => tok1 (KChar c) [c] ln cl s1
      end
    else if is_two_char_head c then
      match r with
      | d :: r' =>
        match find (fun e => fst (fst e) =? d) (two_char c) with
        | Some e => tok1 (KName (snd (fst e))) (zs (snd e)) ln cl (mkSt r' (line s) (S (S (col s))))
        | None => tok1 (KChar c) [c] ln cl s1
        end
      | [] => tok1 (KChar c) [c] ln cl s1
      end
    else if existsb (Z.eqb c) single_chars then tok1 (KChar c) [c] ln cl s1
    else err1 (KChar c) [c] ln cl s1
  end.

(* Scan: repeat the pass while comments are skipped *)
Fixpoint scan (fuel : nat) (s : st) : option (token * st) :=
  match fuel with
  | O => None
  | S f => match scan_step s with
           | Tok t s' => Some (t, s')
           | Retry s' => scan f s'
           end
  end.

(* the token stream a caller sees when it keeps calling Scan until EOF *)
Fixpoint scan_all (fuel : nat) (s : st) : option (list token) :=
  match fuel with
  | O => None
  | S f =>
    match scan (S (List.length (rest s))) s with
    | None => None
    | Some (t, s') =>
      match t_kind t with
      | KEOF => Some [t]
      | _ => match scan_all f s' with Some l => Some (t :: l) | None => None end
      end
    end
  end.

Definition tokens (src : list rune) : option (list token) :=
  scan_all (S (S (List.length src))) (mkSt src 0 0).

End Scan.
