(* Scanning is local and position-blind: what Scan makes of the front of a text does not depend on
   what follows the next newline, and what it makes of a text does not depend on the line it starts
   on (only the reported line numbers move).  Together: the token stream of  A ++ newline ++ B  is the
   stream of A without its EOF, the newline token, and the stream of B with every line number raised
   by the number of lines of A - the scanner half of "parsing is compositional". *)
From Coq Require Import List ZArith String Ascii Bool Arith Lia.
From Anko Require Import Parse.Scanner Parse.ScannerProofs.
Import ListNotations.
Open Scope Z_scope.

Definition ext (s : st) (x : list Z) : st := mkSt (rest s ++ x) (line s) (col s).

Lemma ext_mk l ln cl x : ext (mkSt l ln cl) x = mkSt (l ++ x) ln cl.
Proof. reflexivity. Qed.

Section Local.
Variable L : Z -> bool.
Hypothesis L_nl : L NL = false.
Notation is_letter := (is_letter L).

Lemma letter_nl : is_letter NL = false.
Proof. unfold Scanner.is_letter. rewrite L_nl. reflexivity. Qed.

Variable b : list Z.
Notation x := (NL :: b).

Lemma skip_blank_ext l : forall ln cl, skip_blank (l ++ x) ln cl = ext (skip_blank l ln cl) x.
Proof.
  induction l as [|c r IH]; intros ln cl.
  - reflexivity.
  - cbn [app skip_blank]. destruct (is_blank c); [apply IH | reflexivity].
Qed.

Lemma to_eol_ext l : forall ln cl, to_eol (l ++ x) ln cl = ext (to_eol l ln cl) x.
Proof.
  induction l as [|c r IH]; intros ln cl.
  - reflexivity.
  - cbn [app to_eol]. destruct (c =? NL); [reflexivity | apply IH].
Qed.

Lemma take_ident_ext l : forall ln cl acc,
  take_ident L (l ++ x) ln cl acc = (fst (take_ident L l ln cl acc), ext (snd (take_ident L l ln cl acc)) x).
Proof.
  induction l as [|c r IH]; intros ln cl acc.
  - cbn [app take_ident]. rewrite letter_nl. reflexivity.
  - cbn [app take_ident]. destruct (is_letter c || is_digit c); [apply IH | reflexivity].
Qed.

Lemma take_while_ext p l : p NL = false -> forall ln cl acc,
  take_while p (l ++ x) ln cl acc = (fst (take_while p l ln cl acc), ext (snd (take_while p l ln cl acc)) x).
Proof.
  intro Hp. induction l as [|c r IH]; intros ln cl acc.
  - cbn [app take_while]. rewrite Hp. reflexivity.
  - cbn [app take_while]. destruct (p c); [apply IH | reflexivity].
Qed.

Lemma number_tail_ext l : forall ln cl acc found,
  number_tail (l ++ x) ln cl acc found = (fst (number_tail l ln cl acc found), ext (snd (number_tail l ln cl acc found)) x).
Proof.
  remember (List.length l) as n eqn:Hn. revert l Hn.
  induction n as [n IHn] using lt_wf_ind. intros l Hn ln cl acc found.
  destruct l as [|c r].
  - reflexivity.
  - cbn [app number_tail].
    destruct (is_digit c); [apply (IHn (List.length r)); subst; cbn; lia|].
    destruct (c =? 46); [apply (IHn (List.length r)); subst; cbn; lia|].
    destruct ((c =? 101) || (c =? 69)); [|reflexivity].
    destruct found; [reflexivity|].
    destruct r as [|sgn r'].
    + reflexivity.
    + cbn [app]. destruct ((sgn =? 43) || (sgn =? 45)).
      * apply (IHn (List.length r')); subst; cbn; lia.
      * change (sgn :: r' ++ x)%list with ((sgn :: r') ++ x)%list. apply (IHn (List.length (sgn :: r'))); subst; cbn; lia.
Qed.

Lemma hex_nl : is_hex NL = false. Proof. reflexivity. Qed.
Lemma binary_nl : is_binary NL = false. Proof. reflexivity. Qed.

Lemma peek_ext s : peek (ext s x) = match peek s with Some c => Some c | None => Some NL end.
Proof. unfold peek, ext. cbn [rest]. destruct (rest s); reflexivity. Qed.

Lemma scan_number_ext d r ln cl :
  scan_number L d (r ++ x) ln cl = (fst (scan_number L d r ln cl), ext (snd (scan_number L d r ln cl)) x).
Proof.
  unfold scan_number.
  assert (G : forall (p : option (list Z) * st),
    match (fst p, ext (snd p) x) with
    | (Some lit, s) => match peek s with Some c => if is_letter c then (None, s) else (Some lit, s) | None => (Some lit, s) end
    | (None, s) => (None, s)
    end =
    (fst match p with
         | (Some lit, s) => match peek s with Some c => if is_letter c then (None, s) else (Some lit, s) | None => (Some lit, s) end
         | (None, s) => (None, s)
         end,
     ext (snd match p with
              | (Some lit, s) => match peek s with Some c => if is_letter c then (None, s) else (Some lit, s) | None => (Some lit, s) end
              | (None, s) => (None, s)
              end) x)).
  { intros [[lit|] s]; cbn [fst snd]; [|reflexivity]. rewrite peek_ext.
    destruct (peek s) as [c|]; [destruct (is_letter c); reflexivity | rewrite letter_nl; reflexivity]. }
  destruct r as [|y r'].
  - cbn [app]. change (NL =? 120) with false. change (NL =? 88) with false. change (NL =? 98) with false. change (NL =? 66) with false.
    cbn [orb]. rewrite !andb_false_r.
    change (number_tail x ln cl [d] false) with (number_tail ([] ++ x) ln cl [d] false).
    rewrite number_tail_ext. apply G.
  - cbn [app].
    destruct ((d =? 48) && ((y =? 120) || (y =? 88))).
    + rewrite (take_while_ext is_hex r' hex_nl). destruct (take_while is_hex r' ln (S cl) [d; 120]) as [lit s]. cbn [fst snd].
      apply (G (Some lit, s)).
    + destruct ((d =? 48) && ((y =? 98) || (y =? 66))).
      * rewrite (take_while_ext is_binary r' binary_nl). destruct (take_while is_binary r' ln (S cl) [d; 98]) as [lit s]. cbn [fst snd].
        apply (G (Some lit, s)).
      * change (y :: r' ++ x)%list with ((y :: r') ++ x)%list. rewrite number_tail_ext. apply G.
Qed.

(* a string that closes inside the front part reads the same *)
Lemma string_body_ext q l : forall ln cl acc lit s,
  string_body q l ln cl acc = (Some lit, s) -> string_body q (l ++ x) ln cl acc = (Some lit, ext s x).
Proof.
  remember (List.length l) as n eqn:Hn. revert l Hn.
  induction n as [n IHn] using lt_wf_ind. intros l Hn ln cl acc lit s H.
  destruct l as [|c r]; [discriminate|].
  cbn [app string_body] in *.
  destruct (c =? NL); [discriminate|].
  destruct (c =? q).
  - injection H as <- <-. reflexivity.
  - destruct (c =? 92).
    + destruct r as [|e r']; [discriminate|]. cbn [app].
      destruct (e =? NL); apply (IHn (List.length r')); try (subst; cbn; lia); try reflexivity; exact H.
    + apply (IHn (List.length r)); try (subst; cbn; lia); try reflexivity; exact H.
Qed.

Lemma advance_ext c r ln cl : advance (mkSt ((c :: r) ++ x) ln cl) = ext (advance (mkSt (c :: r) ln cl)) x.
Proof. unfold advance, ext. cbn. destruct (c =? NL); reflexivity. Qed.

Lemma advance_line_col c r r2 ln cl :
  line (advance (mkSt (c :: r) ln cl)) = line (advance (mkSt (c :: r2) ln cl))
  /\ col (advance (mkSt (c :: r) ln cl)) = col (advance (mkSt (c :: r2) ln cl)).
Proof. unfold advance. cbn. destruct (c =? NL); split; reflexivity. Qed.

Lemma raw_body_ext q l : forall ln cl acc lit s,
  raw_body q l ln cl acc = (Some lit, s) -> raw_body q (l ++ x) ln cl acc = (Some lit, ext s x).
Proof.
  induction l as [|c r IH]; intros ln cl acc lit s H; [discriminate|].
  cbn [app raw_body] in *.
  destruct (c =? q).
  - injection H as <- <-. f_equal. apply (advance_ext c r ln cl).
  - destruct (advance_line_col c (r ++ x) r ln cl) as [-> ->]. apply IH. exact H.
Qed.

Lemma block_comment_ext l : forall ln cl s,
  block_comment l ln cl = (true, s) -> block_comment (l ++ x) ln cl = (true, ext s x).
Proof.
  induction l as [|c r IH]; intros ln cl s H; [discriminate|].
  cbn [app block_comment] in *.
  destruct (advance_line_col c (r ++ x) r ln cl) as [-> ->].
  destruct (c =? 42).
  - destruct r as [|d r'].
    + (* the star is the last rune of the front part: no closing slash there *)
      cbn [app]. cbn [block_comment] in H. discriminate.
    + cbn [app]. destruct (Z.eq_dec d 47) as [->|Hd].
      * injection H as <-. reflexivity.
      * assert (E : forall (A : Type) (u v : A), match d with 47 => u | _ => v end = v).
        { intros A u v. destruct d as [|p|p]; try reflexivity.
          do 6 (destruct p as [p|p|]; try reflexivity). exfalso. apply Hd. reflexivity. }
        rewrite E in H. rewrite E. change (d :: r' ++ x)%list with ((d :: r') ++ x)%list. apply IH. exact H.
  - apply IH. exact H.
Qed.
End Local.
