(* Scanning is local and position-blind: what Scan makes of the front of a text does not depend on
   what follows the next newline, and what it makes of a text does not depend on the line it starts
   on (only the reported line numbers move).  Together: the token stream of  A ++ newline ++ B  is the
   stream of A without its EOF, the newline token, and the stream of B with every line number raised
   by the number of lines of A - the scanner half of "parsing is compositional". *)
From Coq Require Import List ZArith String Ascii Bool Arith Lia.
From Anko Require Import Parse.Scanner Parse.ScannerProofs.
Import ListNotations.
Open Scope Z_scope.

Definition ext (s : st) (x : list Z) : st := mkSt (rest s ++ x) (line s) (col s).

Lemma ext_mk l ln cl x : ext (mkSt l ln cl) x = mkSt (l ++ x) ln cl.
Proof. reflexivity. Qed.

Section Local.
Variable L : Z -> bool.
Hypothesis L_nl : L NL = false.
Notation is_letter := (is_letter L).

Lemma letter_nl : is_letter NL = false.
Proof. unfold Scanner.is_letter. rewrite L_nl. reflexivity. Qed.

Variable b : list Z.
Notation x := (NL :: b).

Lemma skip_blank_ext l : forall ln cl, skip_blank (l ++ x) ln cl = ext (skip_blank l ln cl) x.
Proof.
  induction l as [|c r IH]; intros ln cl.
  - reflexivity.
  - cbn [app skip_blank]. destruct (is_blank c); [apply IH | reflexivity].
Qed.

Lemma to_eol_ext l : forall ln cl, to_eol (l ++ x) ln cl = ext (to_eol l ln cl) x.
Proof.
  induction l as [|c r IH]; intros ln cl.
  - reflexivity.
  - cbn [app to_eol]. destruct (c =? NL); [reflexivity | apply IH].
Qed.

Lemma take_ident_ext l : forall ln cl acc,
  take_ident L (l ++ x) ln cl acc = (fst (take_ident L l ln cl acc), ext (snd (take_ident L l ln cl acc)) x).
Proof.
  induction l as [|c r IH]; intros ln cl acc.
  - cbn [app take_ident]. rewrite letter_nl. reflexivity.
  - cbn [app take_ident]. destruct (is_letter c || is_digit c); [apply IH | reflexivity].
Qed.

Lemma take_while_ext p l : p NL = false -> forall ln cl acc,
  take_while p (l ++ x) ln cl acc = (fst (take_while p l ln cl acc), ext (snd (take_while p l ln cl acc)) x).
Proof.
  intro Hp. induction l as [|c r IH]; intros ln cl acc.
  - cbn [app take_while]. rewrite Hp. reflexivity.
  - cbn [app take_while]. destruct (p c); [apply IH | reflexivity].
Qed.

Lemma number_tail_ext l : forall ln cl acc found,
  number_tail (l ++ x) ln cl acc found = (fst (number_tail l ln cl acc found), ext (snd (number_tail l ln cl acc found)) x).
Proof.
  remember (List.length l) as n eqn:Hn. revert l Hn.
  induction n as [n IHn] using lt_wf_ind. intros l Hn ln cl acc found.
  destruct l as [|c r].
  - reflexivity.
  - cbn [app number_tail].
    destruct (is_digit c); [apply (IHn (List.length r)); subst; cbn; lia|].
    destruct (c =? 46); [apply (IHn (List.length r)); subst; cbn; lia|].
    destruct ((c =? 101) || (c =? 69)); [|reflexivity].
    destruct found; [reflexivity|].
    destruct r as [|sgn r'].
    + reflexivity.
    + cbn [app]. destruct ((sgn =? 43) || (sgn =? 45)).
      * apply (IHn (List.length r')); subst; cbn; lia.
      * change (sgn :: r' ++ x)%list with ((sgn :: r') ++ x)%list. apply (IHn (List.length (sgn :: r'))); subst; cbn; lia.
Qed.

Lemma hex_nl : is_hex NL = false. Proof. reflexivity. Qed.
Lemma binary_nl : is_binary NL = false. Proof. reflexivity. Qed.

Lemma peek_ext s : peek (ext s x) = match peek s with Some c => Some c | None => Some NL end.
Proof. unfold peek, ext. cbn [rest]. destruct (rest s); reflexivity. Qed.

Lemma scan_number_ext d r ln cl :
  scan_number L d (r ++ x) ln cl = (fst (scan_number L d r ln cl), ext (snd (scan_number L d r ln cl)) x).
Proof.
  unfold scan_number.
  assert (G : forall (p : option (list Z) * st),
    match (fst p, ext (snd p) x) with
    | (Some lit, s) => match peek s with Some c => if is_letter c then (None, s) else (Some lit, s) | None => (Some lit, s) end
    | (None, s) => (None, s)
    end =
    (fst match p with
         | (Some lit, s) => match peek s with Some c => if is_letter c then (None, s) else (Some lit, s) | None => (Some lit, s) end
         | (None, s) => (None, s)
         end,
     ext (snd match p with
              | (Some lit, s) => match peek s with Some c => if is_letter c then (None, s) else (Some lit, s) | None => (Some lit, s) end
              | (None, s) => (None, s)
              end) x)).
  { intros [[lit|] s]; cbn [fst snd]; [|reflexivity]. rewrite peek_ext.
    destruct (peek s) as [c|]; [destruct (is_letter c); reflexivity | rewrite letter_nl; reflexivity]. }
  destruct r as [|y r'].
  - cbn [app]. change (NL =? 120) with false. change (NL =? 88) with false. change (NL =? 98) with false. change (NL =? 66) with false.
    cbn [orb]. rewrite !andb_false_r.
    change (number_tail x ln cl [d] false) with (number_tail ([] ++ x) ln cl [d] false).
    rewrite number_tail_ext. apply G.
  - cbn [app].
    destruct ((d =? 48) && ((y =? 120) || (y =? 88))).
    + rewrite (take_while_ext is_hex r' hex_nl). destruct (take_while is_hex r' ln (S cl) [d; 120]) as [lit s]. cbn [fst snd].
      apply (G (Some lit, s)).
    + destruct ((d =? 48) && ((y =? 98) || (y =? 66))).
      * rewrite (take_while_ext is_binary r' binary_nl). destruct (take_while is_binary r' ln (S cl) [d; 98]) as [lit s]. cbn [fst snd].
        apply (G (Some lit, s)).
      * change (y :: r' ++ x)%list with ((y :: r') ++ x)%list. rewrite number_tail_ext. apply G.
Qed.

(* a string that closes inside the front part reads the same *)
Lemma string_body_ext q l : forall ln cl acc lit s,
  string_body q l ln cl acc = (Some lit, s) -> string_body q (l ++ x) ln cl acc = (Some lit, ext s x).
Proof.
  remember (List.length l) as n eqn:Hn. revert l Hn.
  induction n as [n IHn] using lt_wf_ind. intros l Hn ln cl acc lit s H.
  destruct l as [|c r]; [discriminate|].
  cbn [app string_body] in *.
  destruct (c =? NL); [discriminate|].
  destruct (c =? q).
  - injection H as <- <-. reflexivity.
  - destruct (c =? 92).
    + destruct r as [|e r']; [discriminate|]. cbn [app].
      destruct (e =? NL); apply (IHn (List.length r')); try (subst; cbn; lia); try reflexivity; exact H.
    + apply (IHn (List.length r)); try (subst; cbn; lia); try reflexivity; exact H.
Qed.

Lemma advance_ext c r ln cl : advance (mkSt ((c :: r) ++ x) ln cl) = ext (advance (mkSt (c :: r) ln cl)) x.
Proof. unfold advance, ext. cbn. destruct (c =? NL); reflexivity. Qed.

Lemma advance_line_col c r r2 ln cl :
  line (advance (mkSt (c :: r) ln cl)) = line (advance (mkSt (c :: r2) ln cl))
  /\ col (advance (mkSt (c :: r) ln cl)) = col (advance (mkSt (c :: r2) ln cl)).
Proof. unfold advance. cbn. destruct (c =? NL); split; reflexivity. Qed.

Lemma raw_body_ext q l : forall ln cl acc lit s,
  raw_body q l ln cl acc = (Some lit, s) -> raw_body q (l ++ x) ln cl acc = (Some lit, ext s x).
Proof.
  induction l as [|c r IH]; intros ln cl acc lit s H; [discriminate|].
  cbn [app raw_body] in *.
  destruct (c =? q).
  - injection H as <- <-. f_equal. apply (advance_ext c r ln cl).
  - destruct (advance_line_col c (r ++ x) r ln cl) as [-> ->]. apply IH. exact H.
Qed.

Lemma block_comment_ext l : forall ln cl s,
  block_comment l ln cl = (true, s) -> block_comment (l ++ x) ln cl = (true, ext s x).
Proof.
  induction l as [|c r IH]; intros ln cl s H; [discriminate|].
  cbn [app block_comment] in *.
  destruct (advance_line_col c (r ++ x) r ln cl) as [-> ->].
  destruct (c =? 42).
  - destruct r as [|d r'].
    + (* the star is the last rune of the front part: no closing slash there *)
      cbn [app]. cbn [block_comment] in H. discriminate.
    + cbn [app]. destruct (Z.eq_dec d 47) as [->|Hd].
      * injection H as <-. reflexivity.
      * assert (E : forall (A : Type) (u v : A), match d with 47 => u | _ => v end = v).
        { intros A u v. destruct d as [|p|p]; try reflexivity.
          do 6 (destruct p as [p|p|]; try reflexivity). exfalso. apply Hd. reflexivity. }
        rewrite E in H. rewrite E. change (d :: r' ++ x)%list with ((d :: r') ++ x)%list. apply IH. exact H.
  - apply IH. exact H.
Qed.

Definition ext_step (r : step) : step :=
  match r with Tok t s => Tok t (ext s x) | Retry s => Retry (ext s x) end.

Definition clean_step (r : step) : Prop :=
  match r with Tok t _ => t_err t = false /\ t_kind t <> KEOF | Retry _ => True end.

Lemma find_two_char_nl c : find (fun e : Z * string * string => fst (fst e) =? NL) (two_char c) = None.
Proof.
  destruct (find (fun e : Z * string * string => fst (fst e) =? NL) (two_char c)) as [e|] eqn:E; [|reflexivity].
  apply find_some in E as [Hin Hd]. apply Z.eqb_eq in Hd. exfalso. exact (two_char_not_nl c e Hin Hd).
Qed.

Lemma scan_step_ext s0 : clean_step (scan_step L s0) -> scan_step L (ext s0 x) = ext_step (scan_step L s0).
Proof.
  unfold scan_step. cbv zeta. cbn [rest line col ext]. rewrite skip_blank_ext.
  destruct (skip_blank (rest s0) (line s0) (col s0)) as [l ln cl]. cbn [rest line col ext].
  destruct l as [|c r].
  { cbn. intros [_ H]. exfalso. apply H. reflexivity. }
  cbn [app]. change (ext {| rest := c :: r; line := ln; col := cl |} x) with (mkSt (c :: r ++ x) ln cl).
  assert (Hadv : advance (mkSt (c :: r ++ x) ln cl) = ext (advance (mkSt (c :: r) ln cl)) x) by apply (advance_ext c r ln cl).
  destruct (is_letter c) eqn:El.
  { intros _. change (c :: r ++ x)%list with ((c :: r) ++ x)%list. rewrite take_ident_ext.
    destruct (take_ident L (c :: r) ln cl []) as [lit s']. reflexivity. }
  destruct (is_digit c) eqn:Ed.
  { intros _. rewrite scan_number_ext. destruct (scan_number L c r ln (S cl)) as [[lit|] s']; reflexivity. }
  destruct (advance_line_col c (r ++ x) r ln cl) as [Hl Hc]. rewrite Hl, Hc.
  destruct ((c =? 34) || (c =? 39)).
  { destruct (string_body c r (line (advance (mkSt (c :: r) ln cl))) (col (advance (mkSt (c :: r) ln cl))) []) as [[lit|] s'] eqn:E.
    - intros _. rewrite (string_body_ext c r _ _ _ _ _ E). reflexivity.
    - cbn. intros [H _]. discriminate. }
  destruct (c =? 96).
  { destruct (raw_body c r (line (advance (mkSt (c :: r) ln cl))) (col (advance (mkSt (c :: r) ln cl))) []) as [[lit|] s'] eqn:E.
    - intros _. rewrite (raw_body_ext c r _ _ _ _ _ E). reflexivity.
    - cbn. intros [H _]. discriminate. }
  destruct (c =? 35).
  { intros _. change (c :: r ++ x)%list with ((c :: r) ++ x)%list. rewrite to_eol_ext. reflexivity. }
  destruct (c =? 61) eqn:E61.
  { apply Z.eqb_eq in E61. subst c. intros _.
    destruct r as [|d r']; [cbn [app] in *; unfold tok1; cbn [ext_step]; rewrite Hadv; reflexivity|].
    cbn [app] in *.
    destruct (Z.eq_dec d 61) as [->|Hd61]; [reflexivity|].
    destruct (Z.eq_dec d 32) as [->|Hd32].
    - destruct r' as [|d2 r2]; [cbn [app] in *; unfold tok1; cbn [ext_step]; rewrite Hadv; reflexivity|].
      cbn [app] in *. destruct (Z.eq_dec d2 60) as [->|H60].
      + destruct r2 as [|d3 r3]; [cbn [app] in *; unfold tok1; cbn [ext_step]; rewrite Hadv; reflexivity|].
        cbn [app] in *. destruct (Z.eq_dec d3 45) as [->|H45]; [reflexivity|].
        assert (E : forall (A : Type) (u v : A), match d3 with 45 => u | _ => v end = v).
        { intros A u v. destruct d3 as [|p|p]; try reflexivity. do 6 (destruct p as [p|p|]; try reflexivity). contradiction H45; reflexivity. }
        rewrite !E. unfold tok1. cbn [ext_step]. rewrite Hadv. reflexivity.
      + assert (E : forall (A : Type) (u v : A), match d2 with 60 => u | _ => v end = v).
        { intros A u v. destruct d2 as [|p|p]; try reflexivity. do 6 (destruct p as [p|p|]; try reflexivity). contradiction H60; reflexivity. }
        rewrite !E. unfold tok1. cbn [ext_step]. rewrite Hadv. reflexivity.
    - assert (E : forall (A : Type) (u v w : A), match d with 32 => u | 61 => v | _ => w end = w).
      { intros A u v w. destruct d as [|p|p]; try reflexivity.
        do 6 (destruct p as [p|p|]; try reflexivity); try (contradiction Hd61; reflexivity); contradiction Hd32; reflexivity. }
      rewrite !E. unfold tok1. cbn [ext_step]. rewrite Hadv. reflexivity. }
  destruct (c =? 47) eqn:E47.
  { apply Z.eqb_eq in E47. subst c.
    destruct r as [|d r']; [intros _; cbn [app] in *; unfold tok1; cbn [ext_step]; rewrite Hadv; reflexivity|].
    cbn [app] in *.
    destruct (Z.eq_dec d 61) as [->|Hd61]; [intros _; reflexivity|].
    destruct (Z.eq_dec d 47) as [->|Hd47].
    { intros _. change (47 :: r' ++ x)%list with ((47 :: r') ++ x)%list. rewrite to_eol_ext. reflexivity. }
    destruct (Z.eq_dec d 42) as [->|Hd42].
    { destruct (block_comment r' ln (S (S cl))) as [[|] s'] eqn:E.
      - intros _. rewrite (block_comment_ext r' _ _ _ E). reflexivity.
      - cbn. intros [H _]. discriminate. }
    assert (E : forall (A : Type) (u v w z : A), match d with 42 => u | 47 => v | 61 => w | _ => z end = z).
    { intros A u v w z. destruct d as [|p|p]; try reflexivity.
      do 6 (destruct p as [p|p|]; try reflexivity); try (contradiction Hd61; reflexivity); try (contradiction Hd47; reflexivity); contradiction Hd42; reflexivity. }
    intros _. rewrite !E. unfold tok1. cbn [ext_step]. rewrite Hadv. reflexivity. }
  destruct (c =? 46) eqn:E46.
  { apply Z.eqb_eq in E46. subst c.
    destruct r as [|d r']; [intros _; cbn [app] in *; unfold tok1; cbn [ext_step]; rewrite Hadv; reflexivity|].
    cbn [app] in *.
    destruct (Z.eq_dec d 46) as [->|Hd].
    - destruct r' as [|d2 r2].
      + cbn. intros [H _]. discriminate.
      + cbn [app] in *. destruct (Z.eq_dec d2 46) as [->|Hd2]; [intros _; reflexivity|].
        assert (E : forall (A : Type) (u v : A), match d2 with 46 => u | _ => v end = v).
        { intros A u v. destruct d2 as [|p|p]; try reflexivity. do 6 (destruct p as [p|p|]; try reflexivity). contradiction Hd2; reflexivity. }
        rewrite !E. cbn. intros [H _]. discriminate.
    - assert (E : forall (A : Type) (u v : A), match d with 46 => u | _ => v end = v).
      { intros A u v. destruct d as [|p|p]; try reflexivity. do 6 (destruct p as [p|p|]; try reflexivity). contradiction Hd; reflexivity. }
      intros _. rewrite !E. unfold tok1. cbn [ext_step]. rewrite Hadv. reflexivity. }
  destruct (is_two_char_head c).
  { intros _. destruct r as [|d r'].
    - cbn [app] in *. rewrite find_two_char_nl. unfold tok1. cbn [ext_step]. rewrite Hadv. reflexivity.
    - cbn [app] in *. destruct (find (fun e : Z * string * string => fst (fst e) =? d) (two_char c)) as [e|]; [reflexivity|].
      unfold tok1. cbn [ext_step]. rewrite Hadv. reflexivity. }
  intros _. destruct (existsb (Z.eqb c) single_chars); unfold tok1, err1; cbn [ext_step]; rewrite Hadv; reflexivity.
Qed.
End Local.

(* ---- position-blind: starting k lines further down only raises the reported line numbers ---- *)
Definition shift (k : nat) (s : st) : st := mkSt (rest s) (line s + k)%nat (col s).
Definition shift_tok (k : nat) (t : token) : token := mkTok (t_kind t) (t_lit t) (t_line t + k)%nat (t_col t) (t_err t).
Definition shift_step (k : nat) (r : step) : step :=
  match r with Tok t s => Tok (shift_tok k t) (shift k s) | Retry s => Retry (shift k s) end.

Section Shift.
Variable L : Z -> bool.
Variable k : nat.

Lemma skip_blank_shift l : forall ln cl, skip_blank l (ln + k)%nat cl = shift k (skip_blank l ln cl).
Proof. induction l as [|c r IH]; intros ln cl; cbn [skip_blank]; [reflexivity|]. destruct (is_blank c); [apply IH | reflexivity]. Qed.

Lemma to_eol_shift l : forall ln cl, to_eol l (ln + k)%nat cl = shift k (to_eol l ln cl).
Proof. induction l as [|c r IH]; intros ln cl; cbn [to_eol]; [reflexivity|]. destruct (c =? NL); [reflexivity | apply IH]. Qed.

Lemma take_ident_shift l : forall ln cl acc,
  take_ident L l (ln + k)%nat cl acc = (fst (take_ident L l ln cl acc), shift k (snd (take_ident L l ln cl acc))).
Proof.
  induction l as [|c r IH]; intros ln cl acc; cbn [take_ident]; [reflexivity|].
  destruct (is_letter L c || is_digit c); [apply IH | reflexivity].
Qed.

Lemma take_while_shift p l : forall ln cl acc,
  take_while p l (ln + k)%nat cl acc = (fst (take_while p l ln cl acc), shift k (snd (take_while p l ln cl acc))).
Proof.
  induction l as [|c r IH]; intros ln cl acc; cbn [take_while]; [reflexivity|].
  destruct (p c); [apply IH | reflexivity].
Qed.

Lemma number_tail_shift l : forall ln cl acc found,
  number_tail l (ln + k)%nat cl acc found = (fst (number_tail l ln cl acc found), shift k (snd (number_tail l ln cl acc found))).
Proof.
  remember (List.length l) as n eqn:Hn. revert l Hn.
  induction n as [n IHn] using lt_wf_ind. intros l Hn ln cl acc found.
  destruct l as [|c r]; [reflexivity|].
  cbn [number_tail].
  destruct (is_digit c); [apply (IHn (List.length r)); subst; cbn; lia|].
  destruct (c =? 46); [apply (IHn (List.length r)); subst; cbn; lia|].
  destruct ((c =? 101) || (c =? 69)); [|reflexivity].
  destruct found; [reflexivity|].
  destruct r as [|sgn r']; [reflexivity|].
  destruct ((sgn =? 43) || (sgn =? 45)).
  - apply (IHn (List.length r')); subst; cbn; lia.
  - apply (IHn (List.length (sgn :: r'))); subst; cbn; lia.
Qed.

Lemma peek_shift s : peek (shift k s) = peek s.
Proof. reflexivity. Qed.

Lemma scan_number_shift d r ln cl :
  scan_number L d r (ln + k)%nat cl = (fst (scan_number L d r ln cl), shift k (snd (scan_number L d r ln cl))).
Proof.
  unfold scan_number.
  assert (G : forall (p : option (list Z) * st),
    match (fst p, shift k (snd p)) with
    | (Some lit, s) => match peek s with Some c => if is_letter L c then (None, s) else (Some lit, s) | None => (Some lit, s) end
    | (None, s) => (None, s)
    end =
    (fst match p with
         | (Some lit, s) => match peek s with Some c => if is_letter L c then (None, s) else (Some lit, s) | None => (Some lit, s) end
         | (None, s) => (None, s)
         end,
     shift k (snd match p with
              | (Some lit, s) => match peek s with Some c => if is_letter L c then (None, s) else (Some lit, s) | None => (Some lit, s) end
              | (None, s) => (None, s)
              end))).
  { intros [[lit|] s]; cbn [fst snd]; [|reflexivity]. rewrite peek_shift.
    destruct (peek s) as [c|]; [destruct (is_letter L c); reflexivity | reflexivity]. }
  destruct r as [|y r'].
  - rewrite number_tail_shift. apply G.
  - destruct ((d =? 48) && ((y =? 120) || (y =? 88))).
    + rewrite take_while_shift. destruct (take_while is_hex r' ln (S cl) [d; 120]) as [lit s]. cbn [fst snd]. apply (G (Some lit, s)).
    + destruct ((d =? 48) && ((y =? 98) || (y =? 66))).
      * rewrite take_while_shift. destruct (take_while is_binary r' ln (S cl) [d; 98]) as [lit s]. cbn [fst snd]. apply (G (Some lit, s)).
      * rewrite number_tail_shift. apply G.
Qed.

Lemma string_body_shift q l : forall ln cl acc,
  string_body q l (ln + k)%nat cl acc = (fst (string_body q l ln cl acc), shift k (snd (string_body q l ln cl acc))).
Proof.
  remember (List.length l) as n eqn:Hn. revert l Hn.
  induction n as [n IHn] using lt_wf_ind. intros l Hn ln cl acc.
  destruct l as [|c r]; [reflexivity|].
  cbn [string_body].
  destruct (c =? NL); [reflexivity|].
  destruct (c =? q); [reflexivity|].
  destruct (c =? 92).
  - destruct r as [|e r']; [reflexivity|].
    destruct (e =? NL).
    + change (S (ln + k))%nat with (S ln + k)%nat. apply (IHn (List.length r')); subst; cbn; lia.
    + apply (IHn (List.length r')); subst; cbn; lia.
  - apply (IHn (List.length r)); subst; cbn; lia.
Qed.

Lemma advance_shift s : advance (shift k s) = shift k (advance s).
Proof. destruct s as [l ln cl]. unfold advance, shift. cbn [rest line col]. destruct l as [|c r]; [reflexivity|]. destruct (c =? NL); reflexivity. Qed.

Lemma raw_body_shift q l : forall ln cl acc,
  raw_body q l (ln + k)%nat cl acc = (fst (raw_body q l ln cl acc), shift k (snd (raw_body q l ln cl acc))).
Proof.
  induction l as [|c r IH]; intros ln cl acc; [reflexivity|].
  cbn [raw_body].
  change (mkSt (c :: r) (ln + k)%nat cl) with (shift k (mkSt (c :: r) ln cl)). rewrite advance_shift.
  destruct (c =? q); [reflexivity|].
  cbn [shift line col]. apply IH.
Qed.

Lemma block_comment_shift l : forall ln cl,
  block_comment l (ln + k)%nat cl = (fst (block_comment l ln cl), shift k (snd (block_comment l ln cl))).
Proof.
  induction l as [|c r IH]; intros ln cl; [reflexivity|].
  cbn [block_comment].
  change (mkSt (c :: r) (ln + k)%nat cl) with (shift k (mkSt (c :: r) ln cl)). rewrite advance_shift.
  cbn [shift line col].
  destruct (c =? 42); [|apply IH].
  destruct r as [|d r']; [apply IH|].
  destruct (Z.eq_dec d 47) as [->|Hd]; [reflexivity|].
  assert (E : forall (A : Type) (u v : A), match d with 47 => u | _ => v end = v).
  { intros A u v. destruct d as [|p|p]; try reflexivity. do 6 (destruct p as [p|p|]; try reflexivity). exfalso. apply Hd. reflexivity. }
  rewrite !E. apply IH.
Qed.

Lemma scan_step_shift s0 : scan_step L (shift k s0) = shift_step k (scan_step L s0).
Proof.
  unfold scan_step. cbv zeta. cbn [rest line col shift]. rewrite skip_blank_shift.
  destruct (skip_blank (rest s0) (line s0) (col s0)) as [l ln cl]. cbn [rest line col shift].
  destruct l as [|c r]; [reflexivity|].
  change (mkSt (c :: r) (ln + k)%nat cl) with (shift k (mkSt (c :: r) ln cl)). rewrite advance_shift.
  destruct (is_letter L c).
  { cbn [shift rest line col]. rewrite take_ident_shift. destruct (take_ident L (c :: r) ln cl []) as [lit s']. reflexivity. }
  destruct (is_digit c).
  { rewrite scan_number_shift. destruct (scan_number L c r ln (S cl)) as [[lit|] s']; reflexivity. }
  destruct ((c =? 34) || (c =? 39)).
  { cbn [shift line col]. rewrite string_body_shift.
    destruct (string_body c r (line (advance (mkSt (c :: r) ln cl))) (col (advance (mkSt (c :: r) ln cl))) []) as [[lit|] s']; reflexivity. }
  destruct (c =? 96).
  { cbn [shift line col]. rewrite raw_body_shift.
    destruct (raw_body c r (line (advance (mkSt (c :: r) ln cl))) (col (advance (mkSt (c :: r) ln cl))) []) as [[lit|] s']; reflexivity. }
  destruct (c =? 35).
  { cbn [shift rest line col]. rewrite to_eol_shift. reflexivity. }
  destruct (c =? 61).
  { destruct r as [|d r']; [reflexivity|].
    destruct (Z.eq_dec d 61) as [->|Hd61]; [reflexivity|].
    destruct (Z.eq_dec d 32) as [->|Hd32].
    - destruct r' as [|d2 r2]; [reflexivity|].
      destruct (Z.eq_dec d2 60) as [->|H60].
      + destruct r2 as [|d3 r3]; [reflexivity|].
        destruct (Z.eq_dec d3 45) as [->|H45]; [reflexivity|].
        assert (E : forall (A : Type) (u v : A), match d3 with 45 => u | _ => v end = v).
        { intros A u v. destruct d3 as [|p|p]; try reflexivity. do 6 (destruct p as [p|p|]; try reflexivity). contradiction H45; reflexivity. }
        rewrite !E. reflexivity.
      + assert (E : forall (A : Type) (u v : A), match d2 with 60 => u | _ => v end = v).
        { intros A u v. destruct d2 as [|p|p]; try reflexivity. do 6 (destruct p as [p|p|]; try reflexivity). contradiction H60; reflexivity. }
        rewrite !E. reflexivity.
    - assert (E : forall (A : Type) (u v w : A), match d with 32 => u | 61 => v | _ => w end = w).
      { intros A u v w. destruct d as [|p|p]; try reflexivity.
        do 6 (destruct p as [p|p|]; try reflexivity); try (contradiction Hd61; reflexivity); contradiction Hd32; reflexivity. }
      rewrite !E. reflexivity. }
  destruct (c =? 47).
  { destruct r as [|d r']; [reflexivity|].
    destruct (Z.eq_dec d 61) as [->|Hd61]; [reflexivity|].
    destruct (Z.eq_dec d 47) as [->|Hd47].
    { cbn [shift rest line col]. rewrite to_eol_shift. reflexivity. }
    destruct (Z.eq_dec d 42) as [->|Hd42].
    { cbn [shift rest line col]. rewrite block_comment_shift. destruct (block_comment r' ln (S (S cl))) as [[|] s']; reflexivity. }
    assert (E : forall (A : Type) (u v w z : A), match d with 42 => u | 47 => v | 61 => w | _ => z end = z).
    { intros A u v w z. destruct d as [|p|p]; try reflexivity.
      do 6 (destruct p as [p|p|]; try reflexivity); try (contradiction Hd61; reflexivity); try (contradiction Hd47; reflexivity); contradiction Hd42; reflexivity. }
    rewrite !E. reflexivity. }
  destruct (c =? 46).
  { destruct r as [|d r']; [reflexivity|].
    destruct (Z.eq_dec d 46) as [->|Hd].
    - destruct r' as [|d2 r2]; [reflexivity|].
      destruct (Z.eq_dec d2 46) as [->|Hd2]; [reflexivity|].
      assert (E : forall (A : Type) (u v : A), match d2 with 46 => u | _ => v end = v).
      { intros A u v. destruct d2 as [|p|p]; try reflexivity. do 6 (destruct p as [p|p|]; try reflexivity). contradiction Hd2; reflexivity. }
      rewrite !E. reflexivity.
    - assert (E : forall (A : Type) (u v : A), match d with 46 => u | _ => v end = v).
      { intros A u v. destruct d as [|p|p]; try reflexivity. do 6 (destruct p as [p|p|]; try reflexivity). contradiction Hd; reflexivity. }
      rewrite !E. reflexivity. }
  destruct (is_two_char_head c).
  { destruct r as [|d r']; [reflexivity|].
    destruct (find (fun e : Z * string * string => fst (fst e) =? d) (two_char c)) as [e|]; reflexivity. }
  destruct (existsb (Z.eqb c) single_chars); reflexivity.
Qed.
End Shift.

(* ---- Scan and the token stream ---- *)
Section Stream.
Variable L : Z -> bool.
Hypothesis L_nl : L NL = false.

Lemma scan_mono f : forall f' s r, scan L f s = Some r -> (f <= f')%nat -> scan L f' s = Some r.
Proof.
  induction f as [|f IH]; intros f' s r H Hle; [discriminate|].
  destruct f' as [|f']; [lia|]. cbn [scan] in *.
  destruct (scan_step L s) as [t s'|s']; [exact H|]. apply IH; [exact H | lia].
Qed.

Lemma scan_all_mono f : forall f' s l, scan_all L f s = Some l -> (f <= f')%nat -> scan_all L f' s = Some l.
Proof.
  induction f as [|f IH]; intros f' s l H Hle; [discriminate|].
  destruct f' as [|f']; [lia|]. cbn [scan_all] in *.
  destruct (scan L (S (List.length (rest s))) s) as [[t s']|]; [|discriminate].
  destruct (t_kind t); [exact H| |].
  - destruct (scan_all L f s') as [l0|] eqn:E; [|discriminate]. rewrite (IH f' s' l0 E) by lia. exact H.
  - destruct (scan_all L f s') as [l0|] eqn:E; [|discriminate]. rewrite (IH f' s' l0 E) by lia. exact H.
Qed.

Lemma scan_shift k f : forall s,
  scan L f (shift k s) = match scan L f s with Some (t, s') => Some (shift_tok k t, shift k s') | None => None end.
Proof.
  induction f as [|f IH]; intro s; [reflexivity|].
  cbn [scan]. rewrite scan_step_shift. destruct (scan_step L s) as [t s'|s']; cbn [shift_step]; [reflexivity | apply IH].
Qed.

Lemma scan_all_shift k f : forall s,
  scan_all L f (shift k s) = match scan_all L f s with Some l => Some (map (shift_tok k) l) | None => None end.
Proof.
  induction f as [|f IH]; intro s; [reflexivity|].
  cbn [scan_all]. change (rest (shift k s)) with (rest s). rewrite scan_shift.
  destruct (scan L (S (List.length (rest s))) s) as [[t s']|]; [|reflexivity].
  change (t_kind (shift_tok k t)) with (t_kind t).
  destruct (t_kind t); [reflexivity| |]; rewrite IH; destruct (scan_all L f s'); reflexivity.
Qed.

Variable b : list Z.
Notation x := (NL :: b).

(* a clean token of the front part comes out the same with the back part appended *)
Lemma scan_ext f : forall s t s', scan L f s = Some (t, s') -> t_err t = false -> t_kind t <> KEOF ->
  scan L f (ext s x) = Some (t, ext s' x).
Proof.
  induction f as [|f IH]; intros s t s' H He Hk; [discriminate|].
  cbn [scan] in *.
  destruct (scan_step L s) as [t0 s0|s0] eqn:Es.
  - injection H as -> ->. rewrite (scan_step_ext L L_nl b s) by (rewrite Es; split; assumption). rewrite Es. reflexivity.
  - rewrite (scan_step_ext L L_nl b s) by (rewrite Es; exact I). rewrite Es. cbn [ext_step]. apply IH; assumption.
Qed.

(* where the front part ends, the combined text shows the newline: same position as the front's EOF token *)
Lemma scan_step_eof s t s' : scan_step L s = Tok t s' -> t_kind t = KEOF ->
  exists ln cl, skip_blank (rest s) (line s) (col s) = mkSt [] ln cl /\ t = mkTok KEOF [] (S ln) (S cl) false.
Proof.
  unfold scan_step. cbv zeta.
  destruct (skip_blank (rest s) (line s) (col s)) as [l ln cl]. cbn [rest line col].
  destruct l as [|c r].
  { intros H _. injection H as <- _. exists ln, cl. split; reflexivity. }
  intros H Hk. exfalso. revert H Hk.
  destruct (is_letter L c).
  { destruct (take_ident L (c :: r) ln cl []) as [lit s0]. unfold tok1, ident_kind.
    destruct (find (fun kw : string * string => zs_eqb (zs (fst kw)) lit) keywords); intro H; injection H as <- _; intro Hk; cbn in Hk; discriminate Hk. }
  destruct (is_digit c).
  { destruct (scan_number L c r ln (S cl)) as [[lit|] s0]; intro H; injection H as <- _; intro Hk; cbn in Hk; discriminate Hk. }
  destruct ((c =? 34) || (c =? 39)).
  { destruct (string_body c r _ _ []) as [[lit|] s0]; intro H; injection H as <- _; intro Hk; cbn in Hk; discriminate Hk. }
  destruct (c =? 96).
  { destruct (raw_body c r _ _ []) as [[lit|] s0]; intro H; injection H as <- _; intro Hk; cbn in Hk; discriminate Hk. }
  destruct (c =? 35); [intro H; discriminate H|].
  destruct (c =? 61).
  { destruct r as [|d r']; [intro H; injection H as <- _; intro Hk; cbn in Hk; discriminate Hk|].
    destruct d as [|p|p]; try (intro H; injection H as <- _; intro Hk; cbn in Hk; discriminate Hk).
    do 6 (destruct p as [p|p|]; try (intro H; injection H as <- _; intro Hk; cbn in Hk; discriminate Hk)).
    destruct r' as [|d2 r2]; try (intro H; injection H as <- _; intro Hk; cbn in Hk; discriminate Hk).
    destruct d2 as [|p|p]; try (intro H; injection H as <- _; intro Hk; cbn in Hk; discriminate Hk).
    do 6 (destruct p as [p|p|]; try (intro H; injection H as <- _; intro Hk; cbn in Hk; discriminate Hk)).
    destruct r2 as [|d3 r3]; try (intro H; injection H as <- _; intro Hk; cbn in Hk; discriminate Hk).
    destruct d3 as [|p|p]; try (intro H; injection H as <- _; intro Hk; cbn in Hk; discriminate Hk).
    do 6 (destruct p as [p|p|]; try (intro H; injection H as <- _; intro Hk; cbn in Hk; discriminate Hk)). }
  destruct (c =? 47).
  { destruct r as [|d r']; [intro H; injection H as <- _; intro Hk; cbn in Hk; discriminate Hk|].
    destruct d as [|p|p]; try (intro H; injection H as <- _; intro Hk; cbn in Hk; discriminate Hk).
    do 6 (destruct p as [p|p|]; try (intro H; injection H as <- _; intro Hk; cbn in Hk; discriminate Hk)); try (intro H; discriminate H).
    destruct (block_comment r' ln (S (S cl))) as [[|] s0]; [intro H; discriminate H | intro H; injection H as <- _; intro Hk; cbn in Hk; discriminate Hk]. }
  destruct (c =? 46).
  { destruct r as [|d r']; [intro H; injection H as <- _; intro Hk; cbn in Hk; discriminate Hk|].
    destruct d as [|p|p]; try (intro H; injection H as <- _; intro Hk; cbn in Hk; discriminate Hk).
    do 6 (destruct p as [p|p|]; try (intro H; injection H as <- _; intro Hk; cbn in Hk; discriminate Hk)).
    destruct r' as [|d2 r2]; try (intro H; injection H as <- _; intro Hk; cbn in Hk; discriminate Hk).
    destruct d2 as [|p|p]; try (intro H; injection H as <- _; intro Hk; cbn in Hk; discriminate Hk).
    do 6 (destruct p as [p|p|]; try (intro H; injection H as <- _; intro Hk; cbn in Hk; discriminate Hk)). }
  destruct (is_two_char_head c).
  { destruct r as [|d r']; [intro H; injection H as <- _; intro Hk; cbn in Hk; discriminate Hk|].
    destruct (find (fun e : Z * string * string => fst (fst e) =? d) (two_char c)); intro H; injection H as <- _; intro Hk; cbn in Hk; discriminate Hk. }
  destruct (existsb (Z.eqb c) single_chars); intro H; injection H as <- _; intro Hk; cbn in Hk; discriminate Hk.
Qed.

Definition nl_tok (eof : token) : token := mkTok (KChar NL) [NL] (t_line eof) (t_col eof) false.

Lemma scan_eof_ext f : forall s t s', scan L f s = Some (t, s') -> t_kind t = KEOF ->
  scan L f (ext s x) = Some (nl_tok t, mkSt b (t_line t) 0).
Proof.
  induction f as [|f IH]; intros s t s' H Hk; [discriminate|].
  cbn [scan] in *.
  destruct (scan_step L s) as [t0 s0|s0] eqn:Es.
  - injection H as -> ->.
    pose proof (scan_step_eof _ _ _ Es Hk) as (ln & cl & Hs & Et). subst t.
    unfold scan_step. cbv zeta. cbn [rest line col ext]. rewrite skip_blank_ext, Hs. cbn [ext rest line col app].
    rewrite (letter_nl L L_nl). reflexivity.
  - rewrite (scan_step_ext L L_nl b s) by (rewrite Es; exact I). rewrite Es. cbn [ext_step]. eapply IH; eassumption.
Qed.

Lemma scan_all_concat f : forall s l, scan_all L f s = Some l -> Forall (fun t => t_err t = false) l ->
  exists ts eof, l = (ts ++ [eof])%list /\ t_kind eof = KEOF /\
    forall lb fb, scan_all L fb (mkSt b (t_line eof) 0) = Some lb ->
      exists f', scan_all L f' (ext s x) = Some (ts ++ nl_tok eof :: lb)%list.
Proof.
  induction f as [|f IH]; intros s l H Hall; [discriminate|].
  cbn [scan_all] in H.
  destruct (scan L (S (List.length (rest s))) s) as [[t s']|] eqn:Es; [|discriminate].
  assert (Hfuel : (S (List.length (rest s)) <= S (List.length (rest (ext s x))))%nat).
  { cbn [ext rest]. rewrite app_length. lia. }
  assert (Cont : forall l0, scan_all L f s' = Some l0 -> l = t :: l0 -> t_kind t <> KEOF ->
    exists ts eof, l = (ts ++ [eof])%list /\ t_kind eof = KEOF /\
      forall lb fb, scan_all L fb (mkSt b (t_line eof) 0) = Some lb ->
        exists f', scan_all L f' (ext s x) = Some (ts ++ nl_tok eof :: lb)%list).
  { intros l0 E0 -> Hk. inversion Hall as [|? ? He Hall0]; subst.
    destruct (IH s' l0 E0 Hall0) as (ts0 & eof & -> & Hke & Hrest).
    exists (t :: ts0), eof. split; [reflexivity|]. split; [exact Hke|].
    intros lb fb Hb. destruct (Hrest lb fb Hb) as [f0 Hf0].
    exists (S f0). cbn [scan_all].
    rewrite (scan_mono _ _ _ _ (scan_ext _ _ _ _ Es He Hk) Hfuel).
    destruct (t_kind t); [exfalso; apply Hk; reflexivity| |]; rewrite Hf0; reflexivity. }
  destruct (t_kind t) eqn:Ek.
  - injection H as <-. exists [], t. split; [reflexivity|]. split; [exact Ek|].
    intros lb fb Hb. exists (S fb). cbn [scan_all].
    rewrite (scan_mono _ _ _ _ (scan_eof_ext _ _ _ _ Es Ek) Hfuel). cbn [t_kind nl_tok]. rewrite Hb. reflexivity.
  - destruct (scan_all L f s') as [l0|] eqn:E0; [|discriminate]. injection H as <-.
    apply (Cont l0 eq_refl eq_refl). discriminate.
  - destruct (scan_all L f s') as [l0|] eqn:E0; [|discriminate]. injection H as <-.
    apply (Cont l0 eq_refl eq_refl). discriminate.
Qed.
End Stream.

(* The scanner half of "parsing is compositional": if A scans without an error token, the token
   stream of  A, newline, B  is A's stream with its EOF replaced by the newline token (reported where
   A's EOF was), followed by B's stream with every line number raised by the line A ends on. *)
Theorem tokens_of_concatenation (L : Z -> bool) : L NL = false -> forall A B la lb,
  tokens L A = Some la -> Forall (fun t => t_err t = false) la -> tokens L B = Some lb ->
  exists ts eof, la = (ts ++ [eof])%list /\ t_kind eof = KEOF /\
    tokens L (A ++ NL :: B) = Some (ts ++ nl_tok eof :: map (shift_tok (t_line eof)) lb)%list.
Proof.
  intros L_nl A B la lb Ha Hclean Hb. unfold tokens in Ha, Hb.
  destruct (scan_all_concat L L_nl B _ _ _ Ha Hclean) as (ts & eof & -> & Hk & Hrest).
  exists ts, eof. split; [reflexivity|]. split; [exact Hk|].
  assert (HB : scan_all L (S (S (List.length B))) (mkSt B (t_line eof) 0) = Some (map (shift_tok (t_line eof)) lb)).
  { change (mkSt B (t_line eof) 0) with (shift (t_line eof) (mkSt B 0 0)). rewrite scan_all_shift, Hb. reflexivity. }
  destruct (Hrest _ _ HB) as [f' Hf'].
  change (ext (mkSt A 0 0) (NL :: B)) with (mkSt (A ++ NL :: B) 0 0) in Hf'.
  destruct (tokens_total L L_nl (A ++ NL :: B)) as (l & Hl & _).
  rewrite Hl. unfold tokens in Hl.
  pose proof (scan_all_mono L _ (Nat.max f' (S (S (List.length (A ++ NL :: B))))) _ _ Hf' (Nat.le_max_l _ _)) as H1.
  pose proof (scan_all_mono L _ (Nat.max f' (S (S (List.length (A ++ NL :: B))))) _ _ Hl (Nat.le_max_r _ _)) as H2.
  rewrite H1 in H2. exact (eq_sym H2).
Qed.

(* it is not vacuous: "a = 1" then "b" *)
Example concat_somewhere :
  let L := fun c : Z => ((97 <=? c) && (c <=? 122))%Z in
  match tokens L (zs "a = 1"%string), tokens L (zs "b"%string), tokens L (zs "a = 1"%string ++ NL :: zs "b"%string) with
  | Some la, Some lb, Some lab => List.length la = 4%nat /\ List.length lb = 2%nat /\ List.length lab = 6%nat
      /\ Forall (fun t => t_err t = false) la /\ map t_line lab = [1; 1; 1; 1; 2; 2]%nat
  | _, _, _ => False
  end.
Proof. vm_compute. repeat split; repeat constructor. Qed.
