(* Facts about the scanner model: every call of Scan consumes input or reports EOF (so scanning any
   input ends, with the fuel the model supplies), and every position the scanner reports is the
   line/column of an offset of the input. *)
From Coq Require Import List ZArith String Bool Lia Arith.
From Anko Require Import Parse.Scanner.
Import ListNotations.
Open Scope Z_scope.

Definition adv (p : nat * nat) (c : Z) : nat * nat := if c =? NL then (S (fst p), 0%nat) else (fst p, S (snd p)).
Definition advs (mid : list Z) (p : nat * nat) : nat * nat := fold_left adv mid p.

(* s' is s after consuming mid *)
Definition consumed (mid : list Z) (s s' : st) : Prop :=
  rest s = (mid ++ rest s')%list /\ (line s', col s') = advs mid (line s, col s).

Lemma consumed_nil s : consumed [] s s.
Proof. split; reflexivity. Qed.

Lemma consumed_trans m1 m2 s1 s2 s3 : consumed m1 s1 s2 -> consumed m2 s2 s3 -> consumed (m1 ++ m2) s1 s3.
Proof.
  intros [H1 P1] [H2 P2]. split.
  - rewrite H1, H2, app_assoc. reflexivity.
  - unfold advs in *. rewrite fold_left_app, <- P1. exact P2.
Qed.

Lemma advs_app a b p : advs (a ++ b) p = advs b (advs a p).
Proof. apply fold_left_app. Qed.

Lemma consumed_st m l ln cl r ln' cl' :
  l = (m ++ r)%list -> (ln', cl') = advs m (ln, cl) -> consumed m (mkSt l ln cl) (mkSt r ln' cl').
Proof. intros; split; assumption. Qed.

Lemma consumed_advance c r ln cl : consumed [c] (mkSt (c :: r) ln cl) (advance (mkSt (c :: r) ln cl)).
Proof. unfold advance, consumed, advs, adv. cbn. destruct (c =? NL); cbn; auto. Qed.

Lemma adv_plain c ln cl : (c =? NL) = false -> adv (ln, cl) c = (ln, S cl).
Proof. unfold adv. intros ->. reflexivity. Qed.

Section Facts.
Variable unicode_is_letter : Z -> bool.
Hypothesis newline_is_no_letter : unicode_is_letter NL = false.

Notation is_letter := (is_letter unicode_is_letter).

Lemma letter_not_nl c : is_letter c = true -> (c =? NL) = false.
Proof.
  unfold Scanner.is_letter. intro H. destruct (c =? NL) eqn:E; [|reflexivity].
  apply Z.eqb_eq in E. subst. rewrite newline_is_no_letter in H. discriminate.
Qed.
Lemma digit_not_nl c : is_digit c = true -> (c =? NL) = false.
Proof. unfold is_digit, NL. intro H. apply andb_prop in H as [H1 H2]. apply Z.leb_le in H1. apply Z.eqb_neq. lia. Qed.
Lemma blank_not_nl c : is_blank c = true -> (c =? NL) = false.
Proof. unfold is_blank, NL. intro H. apply Z.eqb_neq. repeat (apply orb_prop in H as [H|H]); apply Z.eqb_eq in H; lia. Qed.
Lemma hex_not_nl c : is_hex c = true -> (c =? NL) = false.
Proof.
  unfold is_hex, NL. intro H. apply Z.eqb_neq.
  repeat (apply orb_prop in H as [H|H]); [apply digit_not_nl in H; apply Z.eqb_neq in H; exact H | |];
    apply andb_prop in H as [H1 H2]; apply Z.leb_le in H1; lia.
Qed.
Lemma binary_not_nl c : is_binary c = true -> (c =? NL) = false.
Proof. unfold is_binary, NL. intro H. apply Z.eqb_neq. apply orb_prop in H as [H|H]; apply Z.eqb_eq in H; lia. Qed.

(* ---- the helpers consume what they step over ---- *)
Lemma skip_blank_spec l : forall ln cl, exists m, consumed m (mkSt l ln cl) (skip_blank l ln cl).
Proof.
  induction l as [|c r IH]; intros ln cl; cbn [skip_blank].
  - exists []. apply consumed_nil.
  - destruct (is_blank c) eqn:E.
    + destruct (IH ln (S cl)) as [m Hm]. exists (c :: m).
      change (c :: m) with ([c] ++ m)%list. eapply consumed_trans; [|exact Hm].
      apply consumed_st; [reflexivity|]. cbn. rewrite adv_plain by (apply blank_not_nl; exact E). reflexivity.
    + exists []. apply consumed_nil.
Qed.

Lemma to_eol_spec l : forall ln cl, exists m, consumed m (mkSt l ln cl) (to_eol l ln cl).
Proof.
  induction l as [|c r IH]; intros ln cl; cbn [to_eol].
  - exists []. apply consumed_nil.
  - destruct (c =? NL) eqn:E.
    + exists []. apply consumed_nil.
    + destruct (IH ln (S cl)) as [m Hm]. exists ([c] ++ m)%list. eapply consumed_trans; [|exact Hm].
      apply consumed_st; [reflexivity|]. cbn. rewrite adv_plain by exact E. reflexivity.
Qed.

Lemma take_while_spec p : (forall c, p c = true -> (c =? NL) = false) ->
  forall l ln cl acc, exists m, consumed m (mkSt l ln cl) (snd (take_while p l ln cl acc)).
Proof.
  intros Hp. induction l as [|c r IH]; intros ln cl acc; cbn [take_while].
  - exists []. apply consumed_nil.
  - destruct (p c) eqn:E.
    + destruct (IH ln (S cl) (acc ++ [c])%list) as [m Hm]. exists ([c] ++ m)%list. eapply consumed_trans; [|exact Hm].
      apply consumed_st; [reflexivity|]. cbn. rewrite adv_plain by (apply Hp; exact E). reflexivity.
    + exists []. apply consumed_nil.
Qed.

Lemma take_ident_spec l : forall ln cl acc, exists m, consumed m (mkSt l ln cl) (snd (take_ident unicode_is_letter l ln cl acc)).
Proof.
  induction l as [|c r IH]; intros ln cl acc; cbn [take_ident].
  - exists []. apply consumed_nil.
  - destruct (is_letter c || is_digit c) eqn:E.
    + destruct (IH ln (S cl) (acc ++ [c])%list) as [m Hm]. exists ([c] ++ m)%list. eapply consumed_trans; [|exact Hm].
      apply consumed_st; [reflexivity|]. cbn. rewrite adv_plain; [reflexivity|].
      apply orb_prop in E as [E|E]; [apply letter_not_nl | apply digit_not_nl]; exact E.
    + exists []. apply consumed_nil.
Qed.

Lemma number_tail_spec l : forall ln cl acc found, exists m, consumed m (mkSt l ln cl) (snd (number_tail l ln cl acc found)).
Proof.
  remember (List.length l) as n eqn:Hn. revert l Hn.
  induction n as [n IHn] using lt_wf_ind. intros l Hn ln cl acc found.
  destruct l as [|c r]; cbn [number_tail]; [exists []; apply consumed_nil|].
  assert (Step : forall a f, (c =? NL) = false -> exists m, consumed m (mkSt (c :: r) ln cl) (snd (number_tail r ln (S cl) a f))).
  { intros a f Hc. destruct (IHn (List.length r) ltac:(subst; cbn; lia) r eq_refl ln (S cl) a f) as [m Hm].
    exists ([c] ++ m)%list. eapply consumed_trans; [|exact Hm].
    apply consumed_st; [reflexivity|]. cbn. rewrite adv_plain by exact Hc. reflexivity. }
  destruct (is_digit c) eqn:Ed; [apply Step, digit_not_nl, Ed|].
  destruct (c =? 46) eqn:E46; [apply Step; apply Z.eqb_eq in E46; subst; reflexivity|].
  destruct ((c =? 101) || (c =? 69)) eqn:Ee.
  - assert (Hc : (c =? NL) = false).
    { apply Z.eqb_neq. unfold NL. apply orb_prop in Ee as [E|E]; apply Z.eqb_eq in E; lia. }
    destruct found; [exists []; apply consumed_nil|].
    destruct r as [|sgn r']; [apply Step, Hc|].
    destruct ((sgn =? 43) || (sgn =? 45)) eqn:Es; [|apply Step, Hc].
    assert (Hs : (sgn =? NL) = false).
    { apply Z.eqb_neq. unfold NL. apply orb_prop in Es as [E|E]; apply Z.eqb_eq in E; lia. }
    destruct (IHn (List.length r') ltac:(subst; cbn; lia) r' eq_refl ln (S (S cl)) (acc ++ [101; sgn])%list true) as [m Hm].
    exists ([c; sgn] ++ m)%list. eapply consumed_trans; [|exact Hm].
    apply consumed_st; [reflexivity|]. cbn. rewrite adv_plain by exact Hc. rewrite adv_plain by exact Hs. reflexivity.
  - exists []. apply consumed_nil.
Qed.

Lemma string_body_spec q l : forall ln cl acc, exists m, consumed m (mkSt l ln cl) (snd (string_body q l ln cl acc)).
Proof.
  remember (List.length l) as n eqn:Hn. revert l Hn.
  induction n as [n IHn] using lt_wf_ind. intros l Hn ln cl acc.
  destruct l as [|c r]; cbn [string_body]; [exists []; apply consumed_nil|].
  destruct (c =? NL) eqn:Enl; [exists []; apply consumed_nil|].
  destruct (c =? q) eqn:Eq.
  - exists [c]. apply consumed_st; [reflexivity|]. cbn. rewrite adv_plain by exact Enl. reflexivity.
  - destruct (c =? 92) eqn:Eb.
    + destruct r as [|e r'].
      * exists [c]. apply consumed_st; [reflexivity|]. cbn. rewrite adv_plain by exact Enl. reflexivity.
      * set (v := if e =? 98 then 8 else if e =? 102 then 12 else if e =? 114 then 13 else if e =? 110 then 10 else if e =? 116 then 9 else e).
        destruct (e =? NL) eqn:Ee.
        -- destruct (IHn (List.length r') ltac:(subst; cbn; lia) r' eq_refl (S ln) 0%nat (acc ++ [v])%list) as [m Hm].
           exists ([c; e] ++ m)%list. eapply consumed_trans; [|exact Hm].
           apply consumed_st; [reflexivity|]. cbn. rewrite adv_plain by exact Enl. unfold adv. rewrite Ee. reflexivity.
        -- destruct (IHn (List.length r') ltac:(subst; cbn; lia) r' eq_refl ln (S (S cl)) (acc ++ [v])%list) as [m Hm].
           exists ([c; e] ++ m)%list. eapply consumed_trans; [|exact Hm].
           apply consumed_st; [reflexivity|]. cbn. rewrite adv_plain by exact Enl. rewrite adv_plain by exact Ee. reflexivity.
    + destruct (IHn (List.length r) ltac:(subst; cbn; lia) r eq_refl ln (S cl) (acc ++ [c])%list) as [m Hm].
      exists ([c] ++ m)%list. eapply consumed_trans; [|exact Hm].
      apply consumed_st; [reflexivity|]. cbn. rewrite adv_plain by exact Enl. reflexivity.
Qed.

Lemma raw_body_spec q l : forall ln cl acc, exists m, consumed m (mkSt l ln cl) (snd (raw_body q l ln cl acc)).
Proof.
  induction l as [|c r IH]; intros ln cl acc; cbn [raw_body].
  - exists []. apply consumed_nil.
  - destruct (c =? q).
    + exists [c]. apply consumed_advance.
    + pose proof (consumed_advance c r ln cl) as Ha.
      destruct (advance (mkSt (c :: r) ln cl)) as [r0 l0 c0] eqn:Es.
      assert (r0 = r). { unfold advance in Es. cbn in Es. destruct (c =? NL); injection Es; auto. }
      subst r0. cbn [line col].
      destruct (IH l0 c0 (acc ++ [c])%list) as [m Hm]. exists ([c] ++ m)%list. eapply consumed_trans; eauto.
Qed.

Lemma block_comment_spec l : forall ln cl, exists m, consumed m (mkSt l ln cl) (snd (block_comment l ln cl)).
Proof.
  induction l as [|c r IH]; intros ln cl; cbn [block_comment].
  - exists []. apply consumed_nil.
  - pose proof (consumed_advance c r ln cl) as Ha.
    destruct (advance (mkSt (c :: r) ln cl)) as [r0 l0 c0] eqn:Es.
    assert (r0 = r). { unfold advance in Es. cbn in Es. destruct (c =? NL); injection Es; auto. }
    subst r0. cbn [line col].
    assert (Rec : exists m, consumed m (mkSt (c :: r) ln cl) (snd (block_comment r l0 c0))).
    { destruct (IH l0 c0) as [m Hm]. exists ([c] ++ m)%list. eapply consumed_trans; eauto. }
    destruct (c =? 42); [|exact Rec].
    destruct r as [|d r']; [exact Rec|].
    destruct (Z.eq_dec d 47) as [->|Hd].
    + exists ([c] ++ [47])%list. eapply consumed_trans; [exact Ha|].
      apply consumed_st; [reflexivity|]. reflexivity.
    + assert (E : match d with 47 => (true, mkSt r' l0 (S c0)) | _ => block_comment (d :: r') l0 c0 end = block_comment (d :: r') l0 c0).
      { destruct d as [|p|p]; try reflexivity.
        do 6 (destruct p as [p|p|]; try reflexivity). exfalso. apply Hd. reflexivity. }
      rewrite E. exact Rec.
Qed.

End Facts.

Section Step.
Variable unicode_is_letter : Z -> bool.
Hypothesis newline_is_no_letter : unicode_is_letter NL = false.
Notation is_letter := (is_letter unicode_is_letter).

Lemma scan_number_spec d r ln cl : exists m, consumed m (mkSt r ln cl) (snd (scan_number unicode_is_letter d r ln cl)).
Proof.
  unfold scan_number.
  assert (G : forall (p : option (list Z) * st), (exists m, consumed m (mkSt r ln cl) (snd p)) ->
     exists m, consumed m (mkSt r ln cl)
       (snd (match p with
             | (Some lit, s) => match peek s with Some c => if is_letter c then (None, s) else (Some lit, s) | None => (Some lit, s) end
             | (None, s) => (None, s) end))).
  { intros [[lit|] s] H; cbn in *; [|exact H]. destruct (peek s) as [c|]; [destruct (is_letter c)|]; exact H. }
  apply G.
  destruct r as [|x r']; [apply number_tail_spec|].
  destruct ((d =? 48) && ((x =? 120) || (x =? 88))) eqn:Ex.
  - assert (Hx : (x =? NL) = false).
    { apply andb_prop in Ex as [_ Ex]. apply Z.eqb_neq. unfold NL. apply orb_prop in Ex as [E|E]; apply Z.eqb_eq in E; lia. }
    destruct (take_while_spec is_hex hex_not_nl r' ln (S cl) [d; 120]) as [m Hm].
    destruct (take_while is_hex r' ln (S cl) [d; 120]) as [lit s] eqn:Et. cbn [snd] in *.
    exists ([x] ++ m)%list. eapply consumed_trans; [|exact Hm].
    apply consumed_st; [reflexivity|]. cbn. rewrite adv_plain by exact Hx. reflexivity.
  - destruct ((d =? 48) && ((x =? 98) || (x =? 66))) eqn:Eb; [|apply number_tail_spec].
    assert (Hx : (x =? NL) = false).
    { apply andb_prop in Eb as [_ Eb]. apply Z.eqb_neq. unfold NL. apply orb_prop in Eb as [E|E]; apply Z.eqb_eq in E; lia. }
    destruct (take_while_spec is_binary binary_not_nl r' ln (S cl) [d; 98]) as [m Hm].
    destruct (take_while is_binary r' ln (S cl) [d; 98]) as [lit s] eqn:Et. cbn [snd] in *.
    exists ([x] ++ m)%list. eapply consumed_trans; [|exact Hm].
    apply consumed_st; [reflexivity|]. cbn. rewrite adv_plain by exact Hx. reflexivity.
Qed.

Lemma two_char_not_nl c e : In e (two_char c) -> fst (fst e) <> NL.
Proof.
  unfold two_char, NL.
  repeat match goal with |- context [if ?b then _ else _] => destruct b end;
    cbn [In]; intros H; repeat (destruct H as [H|H]; [subst e; cbn; lia|]); contradiction.
Qed.

Lemma in_list_not_nl c l : existsb (Z.eqb c) l = true -> ~ In NL l -> (c =? NL) = false.
Proof.
  intros H Hn. apply existsb_exists in H as (x & Hx & E). apply Z.eqb_eq in E. subst x.
  apply Z.eqb_neq. intro; subst. contradiction.
Qed.

(* what one pass of Scan does to the state *)
Definition step_ok (s0 : st) (r : step) : Prop :=
  match r with
  | Tok t s' =>
      (exists m, consumed m s0 s' /\ (t_kind t <> KEOF -> m <> []))
      /\ (exists m0 sb, consumed m0 s0 sb /\ t_line t = S (line sb) /\ t_col t = S (col sb))
  | Retry s' => exists m, consumed m s0 s' /\ m <> []
  end.

Lemma cons_app_ne {A} (a : A) l m : ((a :: l) ++ m)%list <> [].
Proof. discriminate. Qed.

Lemma scan_step_ok s0 : step_ok s0 (scan_step unicode_is_letter s0).
Proof.
  unfold scan_step.
  destruct (skip_blank_spec (rest s0) (line s0) (col s0)) as [mb Hb].
  assert (Hb0 : consumed mb s0 (skip_blank (rest s0) (line s0) (col s0))).
  { destruct s0; exact Hb. }
  clear Hb. destruct (skip_blank (rest s0) (line s0) (col s0)) as [l ln cl] eqn:Es. cbn [rest line col].
  (* every Tok branch reports the position of the state after the blanks *)
  assert (Pos : exists m0 sb, consumed m0 s0 sb /\ S ln = S (line sb) /\ S cl = S (col sb)).
  { exists mb, (mkSt l ln cl). auto. }
  (* closing tactic: the final state consumed m from (l, ln, cl), m non-empty *)
  assert (Fin : forall m s', consumed m (mkSt l ln cl) s' -> m <> [] ->
            forall k lit e, step_ok s0 (Tok (mkTok k lit (S ln) (S cl) e) s')).
  { intros m s' Hm Hne k lit e. split; [|exact Pos].
    exists (mb ++ m)%list. split; [eapply consumed_trans; eauto|].
    intros _ E. apply app_eq_nil in E as [_ E]. contradiction. }
  assert (FinR : forall m s', consumed m (mkSt l ln cl) s' -> m <> [] -> step_ok s0 (Retry s')).
  { intros m s' Hm Hne. exists (mb ++ m)%list. split; [eapply consumed_trans; eauto|].
    intro E. apply app_eq_nil in E as [_ E]. contradiction. }
  destruct l as [|c r].
  { (* EOF *) split; [|exact Pos]. exists mb. split; [exact Hb0|]. intros H; exfalso; apply H; reflexivity. }
  pose proof (consumed_advance c r ln cl) as Hadv.
  assert (One : forall k lit e, step_ok s0 (Tok (mkTok k lit (S ln) (S cl) e) (advance (mkSt (c :: r) ln cl)))).
  { intros. eapply Fin; [exact Hadv | discriminate]. }
  (* consumed c (not a newline) then something *)
  assert (After : forall s1 m, (c =? NL) = false -> consumed m (mkSt r ln (S cl)) s1 -> consumed ([c] ++ m) (mkSt (c :: r) ln cl) s1).
  { intros s1 m Hc Hm. eapply consumed_trans; [|exact Hm].
    apply consumed_st; [reflexivity|]. cbn. rewrite adv_plain by exact Hc. reflexivity. }
  destruct (is_letter c) eqn:El.
  { assert (Hc : (c =? NL) = false) by (apply (letter_not_nl unicode_is_letter newline_is_no_letter); exact El).
    cbn [take_ident]. rewrite El. cbn [orb].
    destruct (take_ident_spec unicode_is_letter newline_is_no_letter r ln (S cl) ([] ++ [c])%list) as [m Hm].
    pose proof (After _ _ Hc Hm) as H.
    destruct (take_ident unicode_is_letter r ln (S cl) ([] ++ [c])%list) as [lit s'] eqn:Et. cbn [snd] in H.
    eapply Fin; eauto. discriminate. }
  destruct (is_digit c) eqn:Ed.
  { destruct (scan_number_spec c r ln (S cl)) as [m Hm].
    pose proof (After _ _ (digit_not_nl _ Ed) Hm) as H.
    destruct (scan_number unicode_is_letter c r ln (S cl)) as [[lit|] s']; cbn [snd] in H; eapply Fin; eauto; discriminate. }
  assert (Hadv1 : advance (mkSt (c :: r) ln cl) = if c =? NL then mkSt r (S ln) 0%nat else mkSt r ln (S cl)) by reflexivity.
  destruct ((c =? 34) || (c =? 39)) eqn:Eq.
  { assert (Hc : (c =? NL) = false).
    { apply Z.eqb_neq. unfold NL. apply orb_prop in Eq as [E|E]; apply Z.eqb_eq in E; lia. }
    rewrite Hadv1, Hc. cbn [line col].
    destruct (string_body_spec c r ln (S cl) []) as [m Hm].
    pose proof (After _ _ Hc Hm) as H.
    destruct (string_body c r ln (S cl) []) as [[lit|] s']; cbn [snd] in H; eapply Fin; eauto; discriminate. }
  destruct (c =? 96) eqn:E96.
  { assert (Hc : (c =? NL) = false) by (apply Z.eqb_eq in E96; subst; reflexivity).
    rewrite Hadv1, Hc. cbn [line col].
    destruct (raw_body_spec c r ln (S cl) []) as [m Hm].
    pose proof (After _ _ Hc Hm) as H.
    destruct (raw_body c r ln (S cl) []) as [[lit|] s']; cbn [snd] in H; eapply Fin; eauto; discriminate. }
  destruct (c =? 35) eqn:E35.
  { apply Z.eqb_eq in E35. subst c.
    destruct (to_eol_spec r ln (S cl)) as [m Hm].
    cbn [to_eol]. change (35 =? NL) with false. cbn iota.
    eapply FinR; [apply After; [reflexivity | exact Hm] | discriminate]. }
  destruct (c =? 61) eqn:E61.
  { apply Z.eqb_eq in E61. subst c.
    assert (Two : forall r' k lit, r = 61 :: r' -> step_ok s0 (Tok (mkTok k lit (S ln) (S cl) false) (mkSt r' ln (S (S cl))))).
    { intros r' k lit ->. eapply Fin with (m := [61; 61]); [apply consumed_st; reflexivity | discriminate]. }
    destruct r as [|d r']; [apply One|].
    destruct (Z.eq_dec d 61) as [->|Hd61]; [eapply Two; reflexivity|].
    destruct (Z.eq_dec d 32) as [->|Hd32].
    - destruct r' as [|d2 r2]; [apply One|].
      destruct (Z.eq_dec d2 60) as [->|H60].
      + destruct r2 as [|d3 r3]; [apply One|].
        destruct (Z.eq_dec d3 45) as [->|H45].
        * eapply Fin with (m := [61; 32; 60; 45]); [apply consumed_st; reflexivity | discriminate].
        * replace (match d3 with 45 => _ | _ => _ end) with (tok1 (KChar 61) [61] (S ln) (S cl) (advance (mkSt (61 :: 32 :: 60 :: d3 :: r3) ln cl))); [apply One|].
          destruct d3 as [|p|p]; try reflexivity. do 6 (destruct p as [p|p|]; try reflexivity). contradiction H45; reflexivity.
      + replace (match d2 with 60 => _ | _ => _ end) with (tok1 (KChar 61) [61] (S ln) (S cl) (advance (mkSt (61 :: 32 :: d2 :: r2) ln cl))); [apply One|].
        destruct d2 as [|p|p]; try reflexivity. do 6 (destruct p as [p|p|]; try reflexivity). contradiction H60; reflexivity.
    - replace (match d with 32 => _ | 61 => _ | _ => _ end) with (tok1 (KChar 61) [61] (S ln) (S cl) (advance (mkSt (61 :: d :: r') ln cl))); [apply One|].
      destruct d as [|p|p]; try reflexivity. do 6 (destruct p as [p|p|]; try reflexivity); try (contradiction Hd61; reflexivity); contradiction Hd32; reflexivity. }
  destruct (c =? 47) eqn:E47.
  { apply Z.eqb_eq in E47. subst c.
    destruct r as [|d r']; [apply One|].
    destruct (Z.eq_dec d 61) as [->|Hd61].
    { eapply Fin with (m := [47; 61]); [apply consumed_st; reflexivity | discriminate]. }
    destruct (Z.eq_dec d 47) as [->|Hd47].
    { destruct (to_eol_spec (47 :: r') ln (S cl)) as [m Hm].
      eapply FinR; [apply After; [reflexivity | exact Hm] | discriminate]. }
    destruct (Z.eq_dec d 42) as [->|Hd42].
    { destruct (block_comment_spec r' ln (S (S cl))) as [m Hm].
      assert (H : consumed ([47; 42] ++ m) (mkSt (47 :: 42 :: r') ln cl) (snd (block_comment r' ln (S (S cl))))).
      { eapply consumed_trans; [|exact Hm]. apply consumed_st; reflexivity. }
      destruct (block_comment r' ln (S (S cl))) as [[|] s']; cbn [snd] in H; [eapply FinR | eapply Fin]; eauto; discriminate. }
    replace (match d with 42 => _ | 47 => _ | 61 => _ | _ => _ end) with (tok1 (KChar 47) [47] (S ln) (S cl) (advance (mkSt (47 :: d :: r') ln cl))); [apply One|].
    destruct d as [|p|p]; try reflexivity.
    do 6 (destruct p as [p|p|]; try reflexivity); try (contradiction Hd61; reflexivity); try (contradiction Hd47; reflexivity); contradiction Hd42; reflexivity. }
  destruct (c =? 46) eqn:E46.
  { apply Z.eqb_eq in E46. subst c.
    destruct r as [|d r']; [apply One|].
    destruct (Z.eq_dec d 46) as [->|Hd].
    - destruct r' as [|d2 r2].
      + eapply Fin with (m := [46; 46]); [apply consumed_st; reflexivity | discriminate].
      + destruct (Z.eq_dec d2 46) as [->|Hd2].
        * eapply Fin with (m := [46; 46; 46]); [apply consumed_st; reflexivity | discriminate].
        * replace (match d2 with 46 => _ | _ => _ end) with (err1 (KChar 0) [] (S ln) (S cl) (mkSt (d2 :: r2) ln (S (S cl)))).
          { eapply Fin with (m := [46; 46]); [apply consumed_st; reflexivity | discriminate]. }
          destruct d2 as [|p|p]; try reflexivity. do 6 (destruct p as [p|p|]; try reflexivity). contradiction Hd2; reflexivity.
    - replace (match d with 46 => _ | _ => _ end) with (tok1 (KChar 46) [46] (S ln) (S cl) (advance (mkSt (46 :: d :: r') ln cl))); [apply One|].
      destruct d as [|p|p]; try reflexivity. do 6 (destruct p as [p|p|]; try reflexivity). contradiction Hd; reflexivity. }
  destruct (is_two_char_head c) eqn:Eh.
  { destruct r as [|d r']; [apply One|].
    destruct (find (fun e : Z * string * string => fst (fst e) =? d) (two_char c)) as [e|] eqn:Ef; [|apply One].
    apply find_some in Ef as [Hin Hd]. apply Z.eqb_eq in Hd.
    assert (Hc : (c =? NL) = false).
    { apply (in_list_not_nl _ _ Eh). unfold NL. cbn. intuition discriminate. }
    assert (Hdn : (d =? NL) = false).
    { apply Z.eqb_neq. rewrite <- Hd. apply (two_char_not_nl c e Hin). }
    eapply Fin with (m := [c; d]); [|discriminate].
    apply consumed_st; [reflexivity|]. cbn. rewrite adv_plain by exact Hc. rewrite adv_plain by exact Hdn. reflexivity. }
  destruct (existsb (Z.eqb c) single_chars); apply One.
Qed.

(* ---- Scan and the whole token stream never run out of the fuel the model gives them ---- *)
Lemma consumed_length m s s' : consumed m s s' -> List.length (rest s) = (List.length m + List.length (rest s'))%nat.
Proof. intros [H _]. rewrite H, app_length. reflexivity. Qed.

Lemma scan_total fuel : forall s, (List.length (rest s) < fuel)%nat ->
  exists t s', scan unicode_is_letter fuel s = Some (t, s')
    /\ (exists m, consumed m s s' /\ (t_kind t <> KEOF -> m <> []))
    /\ (exists m0 sb, consumed m0 s sb /\ t_line t = S (line sb) /\ t_col t = S (col sb)).
Proof.
  induction fuel as [|f IH]; intros s Hlt; [lia|].
  cbn [scan]. pose proof (scan_step_ok s) as Hs.
  destruct (scan_step unicode_is_letter s) as [t s'|s'].
  - exists t, s'. split; [reflexivity|]. exact Hs.
  - destruct Hs as (m & Hm & Hne).
    pose proof (consumed_length _ _ _ Hm) as Hl.
    assert (List.length m <> 0)%nat by (destruct m; [contradiction|discriminate]).
    destruct (IH s' ltac:(lia)) as (t & s2 & E & (m2 & Hm2 & Hne2) & (m0 & sb & Hm0 & P)).
    exists t, s2. split; [exact E|]. split.
    + exists (m ++ m2)%list. split; [eapply consumed_trans; eauto|].
      intros _ E2. apply app_eq_nil in E2 as [E2 _]. contradiction.
    + exists (m ++ m0)%list, sb. split; [eapply consumed_trans; eauto | exact P].
Qed.

End Step.

(* ---- coordinates of offsets lie inside the text ---- *)
Fixpoint split_lines (l : list Z) : list (list Z) :=
  match l with
  | [] => [[]]
  | c :: r => if c =? NL then [] :: split_lines r
              else match split_lines r with h :: t => (c :: h) :: t | [] => [[c]] end
  end.

Lemma split_lines_nonempty l : split_lines l <> [].
Proof. destruct l as [|c r]; cbn; [discriminate|]. destruct (c =? NL); [discriminate|]. destruct (split_lines r); discriminate. Qed.

Lemma advs_shift m : forall a0 b0,
  advs m (a0, b0) = ((a0 + fst (advs m (0%nat, 0%nat)))%nat, if Nat.eqb (fst (advs m (0%nat, 0%nat))) 0 then (b0 + snd (advs m (0%nat, 0%nat)))%nat else snd (advs m (0%nat, 0%nat))).
Proof.
  induction m as [|c m IH]; intros a0 b0.
  - cbn. f_equal; lia.
  - cbn [advs fold_left]. fold (advs m (adv (a0, b0) c)). fold (advs m (adv (0%nat, 0%nat) c)).
    unfold adv. cbn [fst snd]. destruct (c =? NL).
    + rewrite (IH (S a0) 0%nat), (IH 1%nat 0%nat). cbn [fst snd].
      destruct (fst (advs m (0%nat, 0%nat))) as [|k] eqn:E; cbn [Nat.eqb]; f_equal; lia.
    + rewrite (IH a0 (S b0)), (IH 0%nat 1%nat). cbn [fst snd Nat.add].
      destruct (Nat.eqb (fst (advs m (0%nat, 0%nat))) 0) eqn:E; cbn; f_equal; lia.
Qed.

(* the coordinate reached after a prefix m of the text m ++ r is a line of the text and at most
   one past the end of that line *)
Theorem offset_coordinates_in_range m : forall r,
  let p := advs m (0%nat, 0%nat) in
  (fst p < List.length (split_lines (m ++ r)))%nat /\ (snd p <= List.length (nth (fst p) (split_lines (m ++ r)) []))%nat.
Proof.
  induction m as [|c m IH]; intro r.
  - cbn. destruct (split_lines r) eqn:E; [exfalso; eapply split_lines_nonempty; eauto|]. cbn. lia.
  - cbn zeta. cbn [advs fold_left app split_lines]. fold (advs m (adv (0%nat, 0%nat) c)).
    specialize (IH r). cbn zeta in IH. destruct IH as [IH1 IH2].
    unfold adv. cbn [fst snd]. destruct (c =? NL).
    + rewrite (advs_shift m 1%nat 0%nat). cbn [fst snd].
      split; [cbn; lia|].
      replace (1 + fst (advs m (0%nat, 0%nat)))%nat with (S (fst (advs m (0%nat, 0%nat)))) by lia. cbn [nth].
      destruct (Nat.eqb (fst (advs m (0%nat, 0%nat))) 0); lia.
    + rewrite (advs_shift m 0%nat 1%nat). cbn [fst snd Nat.add].
      destruct (split_lines (m ++ r)%list) as [|h t] eqn:E; [exfalso; eapply split_lines_nonempty; eauto|].
      split; [cbn in *; lia|].
      destruct (fst (advs m (0%nat, 0%nat))) as [|k] eqn:Ek; cbn [Nat.eqb nth] in *; cbn; lia.
Qed.

Section All.
Variable unicode_is_letter : Z -> bool.
Hypothesis newline_is_no_letter : unicode_is_letter NL = false.

(* the position of a token is the coordinate of an offset of the source *)
Definition pos_ok (src : list Z) (t : token) : Prop :=
  exists m r, src = (m ++ r)%list /\ t_line t = S (fst (advs m (0%nat, 0%nat))) /\ t_col t = S (snd (advs m (0%nat, 0%nat))).

Lemma scan_all_total src fuel : forall s m0,
  consumed m0 (mkSt src 0 0) s -> (List.length (rest s) < fuel)%nat ->
  exists l, scan_all unicode_is_letter fuel s = Some l /\ Forall (pos_ok src) l
            /\ exists l0 t, l = (l0 ++ [t])%list /\ t_kind t = KEOF.
Proof.
  induction fuel as [|f IH]; intros s m0 Hm0 Hlt; [lia|].
  cbn [scan_all].
  destruct (scan_total unicode_is_letter newline_is_no_letter (S (List.length (rest s))) s (Nat.lt_succ_diag_r _))
    as (t & s' & E & (m & Hm & Hne) & (mp & sb & Hmp & Pl & Pc)).
  rewrite E.
  assert (Hpos : pos_ok src t).
  { pose proof (consumed_trans _ _ _ _ _ Hm0 Hmp) as [H1 H2]. cbn [rest line col] in H1, H2.
    exists (m0 ++ mp)%list, (rest sb). split; [exact H1|]. rewrite <- H2. cbn. auto. }
  destruct (t_kind t) eqn:Ek.
  - exists [t]. split; [reflexivity|]. split; [constructor; [exact Hpos | constructor]|]. exists [], t. auto.
  - assert (Hl : (List.length (rest s') < f)%nat).
    { pose proof (consumed_length _ _ _ Hm). assert (m <> []) by (apply Hne; discriminate).
      destruct m; [contradiction|]. cbn in *. lia. }
    destruct (IH s' (m0 ++ m)%list (consumed_trans _ _ _ _ _ Hm0 Hm) Hl) as (l & El & Hall & l0 & te & -> & Hte).
    rewrite El. exists (t :: l0 ++ [te])%list. split; [reflexivity|]. split; [constructor; assumption|].
    exists (t :: l0), te. auto.
  - assert (Hl : (List.length (rest s') < f)%nat).
    { pose proof (consumed_length _ _ _ Hm). assert (m <> []) by (apply Hne; discriminate).
      destruct m; [contradiction|]. cbn in *. lia. }
    destruct (IH s' (m0 ++ m)%list (consumed_trans _ _ _ _ _ Hm0 Hm) Hl) as (l & El & Hall & l0 & te & -> & Hte).
    rewrite El. exists (t :: l0 ++ [te])%list. split; [reflexivity|]. split; [constructor; assumption|].
    exists (t :: l0), te. auto.
Qed.

Theorem tokens_total src :
  exists l, tokens unicode_is_letter src = Some l /\ Forall (pos_ok src) l
            /\ exists l0 t, l = (l0 ++ [t])%list /\ t_kind t = KEOF.
Proof.
  unfold tokens. apply (scan_all_total src _ (mkSt src 0 0) []); [apply consumed_nil | cbn; lia].
Qed.

End All.
