(* Parenthesisations: every parenthesis explicit ([full]) and only those the table needs ([minp]).
   Both spellings of any tree over known operators are accepted by the parser and read back as the
   same tree up to parentheses. *)
From Coq Require Import List Arith Lia Bool.
From Anko Require Import Parse.ExprParser Parse.ExprFacts Parse.ExprRoundTrip.
Import ListNotations.

Section PA.
Variable T : list (assoc * list nat).
Variable unops : list nat.
Variable qop : nat.

Notation wf := (wf T unops qop).
Notation minp := (minp T unops qop).

(* every operator of the tree is in the table *)
Fixpoint known (t : tree) : bool :=
  match t with
  | Atom _ => true
  | Bin o l r => negb (Nat.eqb o qop) && (match lvl T o with Some _ => true | None => false end) && known l && known r
  | Tern c a b => (match lvl T qop with Some _ => true | None => false end) && known c && known a && known b
  | Un u t => mem u unops && known t
  | Paren t | Call0 t | Member t _ => known t
  | Call1 f a | Index f a => known f && known a
  | Call2 f a b => known f && known a && known b
  end.

Lemma strip_par t : strip (par t) = strip t.
Proof. unfold par. destruct (is_atom t); reflexivity. Qed.
Lemma strip_full t : strip (full t) = strip t.
Proof. induction t; cbn; rewrite ?strip_par; congruence. Qed.

Lemma strip_fit p t : strip (fit T unops qop p t) = strip t.
Proof. unfold fit. destruct (wf p t); reflexivity. Qed.
Lemma strip_fit_post t : strip (fit_post t) = strip t.
Proof. unfold fit_post. destruct (is_post t); reflexivity. Qed.
Lemma strip_fit_prim t : strip (fit_prim t) = strip t.
Proof. unfold fit_prim. destruct (is_prim t); reflexivity. Qed.
Lemma strip_minp t : strip (minp t) = strip t.
Proof.
  induction t; cbn; try congruence.
  - destruct (lvl T o) as [k|]; [destruct (assoc_at T k)|]; cbn; rewrite ?strip_fit; congruence.
  - destruct (lvl T qop) as [k|]; cbn; rewrite ?strip_fit; congruence.
  - rewrite strip_fit_prim. congruence.
  - rewrite strip_fit_post. congruence.
  - rewrite strip_fit_post. congruence.
  - rewrite strip_fit_post. congruence.
  - rewrite strip_fit_post. congruence.
  - rewrite strip_fit_post. congruence.
Qed.

Lemma wf_par p t : wf 0 t = true -> wf p (par t) = true.
Proof. unfold par. destruct t; cbn; auto. Qed.
Lemma par_post t : is_post (par t) = true.
Proof. unfold par. destruct t; reflexivity. Qed.
Lemma par_prim t : is_prim (par t) = true.
Proof. unfold par. destruct t; reflexivity. Qed.

Lemma wf_full t : known t = true -> wf 0 (full t) = true.
Proof.
  induction t as [n|o l IHl r IHr|c IHc a IHa b IHb|u t IH|t IH|f IHf|f IHf a IHa|f IHf a IHa b IHb|f IHf i IHi|f IHf n];
    cbn [known full]; intro H; repeat (apply andb_prop in H as [H ?]); auto.
  - cbn -[Nat.leb]. rewrite H. destruct (lvl T o) as [k|]; [|discriminate]. cbn -[Nat.leb].
    destruct (assoc_at T k); rewrite !wf_par by auto; reflexivity.
  - cbn -[Nat.leb]. destruct (lvl T qop) as [k|]; [|discriminate]. rewrite !wf_par by auto. reflexivity.
  - cbn. rewrite H, par_prim. cbn. apply wf_par. auto.
  - cbn. rewrite par_post. cbn. apply wf_par; auto.
  - cbn. rewrite par_post. cbn. rewrite !wf_par by auto. reflexivity.
  - cbn. rewrite par_post. cbn. rewrite !wf_par by auto. reflexivity.
  - cbn. rewrite par_post. cbn. rewrite !wf_par by auto. reflexivity.
  - cbn. rewrite par_post. cbn. apply wf_par; auto.
Qed.

Lemma wf_fit p t : wf 0 t = true -> wf p (fit T unops qop p t) = true.
Proof. unfold fit. intro H. destruct (wf p t) eqn:E; [exact E | exact H]. Qed.
Lemma wf_fit_post t : wf 0 t = true -> is_post (fit_post t) = true /\ wf 0 (fit_post t) = true.
Proof. unfold fit_post. intro H. destruct (is_post t) eqn:E; auto. Qed.
Lemma wf_fit_prim t : wf 0 t = true -> is_prim (fit_prim t) = true /\ wf 0 (fit_prim t) = true.
Proof. unfold fit_prim. intro H. destruct (is_prim t) eqn:E; auto. Qed.

Lemma wf_minp t : known t = true -> wf 0 (minp t) = true.
Proof.
  induction t as [n|o l IHl r IHr|c IHc a IHa b IHb|u t IH|t IH|f IHf|f IHf a IHa|f IHf a IHa b IHb|f IHf i IHi|f IHf n];
    cbn [known ExprParser.minp]; intro H; repeat (apply andb_prop in H as [H ?]); auto.
  - destruct (lvl T o) as [k|] eqn:Hl; [|discriminate].
    destruct (assoc_at T k) eqn:Ha; cbn -[Nat.leb]; rewrite H, Hl, Ha; cbn -[Nat.leb]; rewrite !wf_fit by auto; reflexivity.
  - destruct (lvl T qop) as [k|] eqn:Hl; [|discriminate]. cbn -[Nat.leb]. rewrite Hl.
    rewrite !wf_fit by auto. rewrite IHa by auto. reflexivity.
  - cbn. rewrite H. destruct (wf_fit_prim (minp t) (IH ltac:(auto))) as [-> ->]. reflexivity.
  - cbn. destruct (wf_fit_post (minp f) (IHf ltac:(auto))) as [-> ->]. reflexivity.
  - cbn. destruct (wf_fit_post (minp f) (IHf ltac:(auto))) as [-> ->]. rewrite IHa by auto. reflexivity.
  - cbn. destruct (wf_fit_post (minp f) (IHf ltac:(auto))) as [-> ->]. rewrite IHa, IHb by auto. reflexivity.
  - cbn. destruct (wf_fit_post (minp f) (IHf ltac:(auto))) as [-> ->]. rewrite IHi by auto. reflexivity.
  - cbn. destruct (wf_fit_post (minp f) (IHf ltac:(auto))) as [-> ->]. reflexivity.
Qed.

(* ---- a boolean check of the table's side conditions ---- *)
Definition table_ok : bool :=
  forallb (fun k => match nth_error T k with
                    | Some (a, ops) => forallb (fun o => match lvl T o with Some j => Nat.eqb j k | None => false end) ops
                                       && (negb (mem qop ops) || match a with R => true | L => false end)
                    | None => true end) (seq 0 (length T)).

Lemma mem_In o ops : mem o ops = true -> In o ops.
Proof. unfold mem. intro H. apply existsb_exists in H as (x & Hx & E). apply Nat.eqb_eq in E. now subst. Qed.

Lemma table_ok_disj : table_ok = true ->
  forall k a ops o, nth_error T k = Some (a, ops) -> mem o ops = true -> lvl T o = Some k.
Proof.
  unfold table_ok. rewrite forallb_forall. intros H k a ops o Hn Hm.
  assert (Hk : In k (seq 0 (length T))). { apply in_seq. split; [lia|]. cbn. apply nth_error_Some. congruence. }
  specialize (H k Hk). rewrite Hn in H. apply andb_prop in H as [H _].
  rewrite forallb_forall in H. specialize (H o (mem_In _ _ Hm)).
  destruct (lvl T o) as [j|]; [|discriminate]. apply Nat.eqb_eq in H. now subst.
Qed.

Lemma table_ok_q : table_ok = true ->
  forall k a ops, nth_error T k = Some (a, ops) -> mem qop ops = true -> a = R.
Proof.
  unfold table_ok. rewrite forallb_forall. intros H k a ops Hn Hm.
  assert (Hk : In k (seq 0 (length T))). { apply in_seq. split; [lia|]. cbn. apply nth_error_Some. congruence. }
  specialize (H k Hk). rewrite Hn in H. apply andb_prop in H as [_ H]. rewrite Hm in H. cbn in H.
  destruct a; [discriminate | reflexivity].
Qed.

(* ---- the statement of C03 on the model ---- *)
Theorem both_spellings_same_tree : table_ok = true -> forall t, known t = true ->
  exists fuel t1 t2,
    (forall m, fuel <= m -> pexpr T unops qop m T (print qop (full t)) = Some (t1, [])) /\
    (forall m, fuel <= m -> pexpr T unops qop m T (print qop (minp t)) = Some (t2, [])) /\
    strip t1 = strip t /\ strip t2 = strip t.
Proof.
  intros Hok t Hk.
  pose proof (table_ok_disj Hok) as Hd. pose proof (table_ok_q Hok) as Hq.
  destruct (roundtrip T unops qop Hd Hq (full t) [] (wf_full t Hk) I) as [n1 H1].
  destruct (roundtrip T unops qop Hd Hq (minp t) [] (wf_minp t Hk) I) as [n2 H2].
  rewrite app_nil_r in H1, H2.
  exists (max n1 n2), (full t), (minp t). repeat split.
  - intros m Hm. eapply mono_e; [|exact H1]. lia.
  - intros m Hm. eapply mono_e; [|exact H2]. lia.
  - apply strip_full.
  - apply strip_minp.
Qed.

End PA.
