(* Entry points of the extracted C03 checker.
   c03_check  (tree)        -> ((minimal-parenthesis tokens) (fully parenthesised tokens))
   c03p_check (token ...)   -> (ok tree) | (none)        the model parser on a token list *)
From Coq Require Import String List Bool Arith.
From Anko Require Import Base.Sexp Parse.ExprParser Parse.Spec.
Import ListNotations.
Open Scope string_scope.

Fixpoint dec_tree (fuel : nat) (s : sexp) : option tree :=
  match fuel with 0 => None | S f =>
  match s with
  | SL [SA "A"; n] => option_map Atom (as_nat n)
  | SL [SA "B"; o; l; r] => match as_nat o, dec_tree f l, dec_tree f r with Some o, Some l, Some r => Some (Bin o l r) | _, _, _ => None end
  | SL [SA "T"; c; a; b] => match dec_tree f c, dec_tree f a, dec_tree f b with Some c, Some a, Some b => Some (Tern c a b) | _, _, _ => None end
  | SL [SA "U"; u; t] => match as_nat u, dec_tree f t with Some u, Some t => Some (Un u t) | _, _ => None end
  | SL [SA "P"; t] => option_map Paren (dec_tree f t)
  | SL [SA "C0"; g] => option_map Call0 (dec_tree f g)
  | SL [SA "C1"; g; a] => match dec_tree f g, dec_tree f a with Some g, Some a => Some (Call1 g a) | _, _ => None end
  | SL [SA "C2"; g; a; b] => match dec_tree f g, dec_tree f a, dec_tree f b with Some g, Some a, Some b => Some (Call2 g a b) | _, _, _ => None end
  | SL [SA "I"; g; i] => match dec_tree f g, dec_tree f i with Some g, Some i => Some (Index g i) | _, _ => None end
  | SL [SA "M"; g; n] => match dec_tree f g, as_nat n with Some g, Some n => Some (Member g n) | _, _ => None end
  | _ => None
  end end.

Fixpoint enc_tree (t : tree) : sexp :=
  match t with
  | Atom n => SL [SA "A"; snat n]
  | Bin o l r => SL [SA "B"; snat o; enc_tree l; enc_tree r]
  | Tern c a b => SL [SA "T"; enc_tree c; enc_tree a; enc_tree b]
  | Un u t => SL [SA "U"; snat u; enc_tree t]
  | Paren t => SL [SA "P"; enc_tree t]
  | Call0 g => SL [SA "C0"; enc_tree g]
  | Call1 g a => SL [SA "C1"; enc_tree g; enc_tree a]
  | Call2 g a b => SL [SA "C2"; enc_tree g; enc_tree a; enc_tree b]
  | Index g i => SL [SA "I"; enc_tree g; enc_tree i]
  | Member g n => SL [SA "M"; enc_tree g; snat n]
  end.

Definition enc_tok (t : tok) : sexp :=
  match t with
  | TAtom n => SL [SA "a"; snat n] | TOp o => SL [SA "o"; snat o]
  | TLP => SA "lp" | TRP => SA "rp" | TLB => SA "lb" | TRB => SA "rb"
  | TDot => SA "dot" | TComma => SA "comma" | TColon => SA "colon"
  end.
Definition dec_tok (s : sexp) : option tok :=
  match s with
  | SL [SA "a"; n] => option_map TAtom (as_nat n)
  | SL [SA "o"; n] => option_map TOp (as_nat n)
  | SA "lp" => Some TLP | SA "rp" => Some TRP | SA "lb" => Some TLB | SA "rb" => Some TRB
  | SA "dot" => Some TDot | SA "comma" => Some TComma | SA "colon" => Some TColon
  | _ => None
  end.

Fixpoint depth (s : sexp) : nat :=
  match s with SA _ => 1 | SL l => S (fold_right (fun x acc => Nat.max (depth x) acc) 0 l) end.

Definition c03_check (s : sexp) : sexp :=
  match dec_tree (S (depth s)) s with
  | Some t => SL [SL (map enc_tok (print qop_spec (minp T_spec unops_spec qop_spec t)));
                  SL (map enc_tok (print qop_spec (full t)))]
  | None => SL [SA "undecodable"]
  end.

Definition c03p_check (s : sexp) : sexp :=
  match as_list dec_tok s with
  | Some ts =>
    match pexpr T_spec unops_spec qop_spec (12 * (length ts + 2)) T_spec ts with
    | Some (t, []) => SL [SA "ok"; enc_tree t]
    | Some (t, _ :: _) => SL [SA "trailing"; enc_tree t]
    | None => SL [SA "none"]
    end
  | None => SL [SA "undecodable"]
  end.
