(* Entry point of the extracted C15 scanner checker: (rune ...) -> ((kind lit line col err) ...).
   unicode.IsLetter is instantiated by ASCII letters plus the few non-ASCII letters the harness uses;
   the harness sends no other rune above 127. *)
From Coq Require Import List ZArith String Bool.
From Anko Require Import Base.Sexp Parse.Scanner.
Import ListNotations.
Open Scope Z_scope.

Definition letter_table (c : Z) : bool :=
  ((65 <=? c) && (c <=? 90)) || ((97 <=? c) && (c <=? 122))
  || existsb (Z.eqb c) [233; 19990; 955; 1078; 12354].      (* é 世 λ ж あ *)

Definition enc_kind (k : tkind) : sexp :=
  match k with
  | KEOF => SA "EOF"
  | KChar c => SL [SA "c"; sZ c]
  | KName n => SA n
  end.

Definition enc_token (t : token) : sexp :=
  SL [enc_kind (t_kind t); SL (map sZ (t_lit t)); snat (t_line t); snat (t_col t); sbool (t_err t)].

Definition c15_check (s : sexp) : sexp :=
  match as_list as_Z s with
  | Some src =>
    match tokens letter_table src with
    | Some l => SL (map enc_token l)
    | None => SL [SA "out-of-fuel"]
    end
  | None => SL [SA "undecodable"]
  end.
