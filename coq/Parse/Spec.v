(* The operator table of the language as the statement of C03 gives it (loosest to tightest), with
   the operator numbering shared with the harness (harness/c03.go) and the precedence lines of
   parser/parser.go.y as expected text (compared with the regenerated AnkoGen/GenPrec.v). *)
From Coq Require Import List String Bool Arith.
From Anko Require Import Parse.ExprParser.
Import ListNotations.

(* 0 ?   1 ??   2 ||   3 &&   4 ==  5 !=  6 <  7 <=  8 >  9 >=   10 +  11 -  12 |
   13 *  14 /  15 %  16 <<  17 >>  18 &   19 in   20 !  21 ^ *)
Definition qop_spec : nat := 0.
Definition T_spec : list (assoc * list nat) :=
  [ (R, [0; 1]); (L, [2]); (L, [3]); (L, [4; 5; 6; 7; 8; 9]); (L, [10; 11; 12]);
    (L, [13; 14; 15; 16; 17; 18]); (R, [19]) ].
Definition unops_spec : list nat := [11; 20; 21; 18; 13].       (* - ! ^ & * *)

Open Scope string_scope.
(* %left / %right lines of parser.go.y, in order (lowest precedence first) *)
Definition prec_lines_spec : list (bool * list string) :=   (* true = %right *)
  [ (false, [","]);
    (true,  ["'='"; "PLUSEQ"; "MINUSEQ"; "MULEQ"; "DIVEQ"; "ANDEQ"; "OREQ"; "EQOPCHAN"]);
    (true,  ["':'"]);
    (true,  ["OPCHAN"]);
    (true,  ["'?'"; "NILCOALESCE"]);
    (false, ["OROR"]);
    (false, ["ANDAND"]);
    (false, ["EQEQ"; "NEQ"; "'<'"; "LE"; "'>'"; "GE"]);
    (false, ["'+'"; "'-'"; "'|'"; "'^'"]);
    (false, ["'*'"; "'/'"; "'%'"; "SHIFTLEFT"; "SHIFTRIGHT"; "'&'"]);
    (true,  ["IN"]);
    (true,  ["PLUSPLUS"; "MINUSMINUS"]);
    (true,  ["UNARY"]) ].

(* token name -> binary operator number *)
Definition op_of_token (s : string) : option nat :=
  let tbl := [("'?'", 0); ("NILCOALESCE", 1); ("OROR", 2); ("ANDAND", 3); ("EQEQ", 4); ("NEQ", 5); ("'<'", 6); ("LE", 7);
              ("'>'", 8); ("GE", 9); ("'+'", 10); ("'-'", 11); ("'|'", 12); ("'*'", 13); ("'/'", 14); ("'%'", 15);
              ("SHIFTLEFT", 16); ("SHIFTRIGHT", 17); ("'&'", 18); ("IN", 19)] in
  match find (fun p : string * nat => String.eqb (fst p) s) tbl with Some p => Some (snd p) | None => None end.

Fixpoint keep_some {A} (l : list (option A)) : list A :=
  match l with [] => [] | Some x :: r => x :: keep_some r | None :: r => keep_some r end.

(* the binary-operator table a list of precedence lines denotes: lines without a binary operator of
   the expression language (',', assignments, ':', '<-', '++', UNARY) drop out *)
Definition table_of_lines (ls : list (bool * list string)) : list (assoc * list nat) :=
  filter (fun l : assoc * list nat => match snd l with [] => false | _ => true end)
         (map (fun l : bool * list string => (if fst l then R else L, keep_some (map op_of_token (snd l)))) ls).

Lemma spec_lines_give_spec_table : table_of_lines prec_lines_spec = T_spec.
Proof. reflexivity. Qed.

(* the five prefix productions of expr_unary, each with %prec UNARY *)
Definition unary_prec_spec : list (string * string) :=
  [("'-'", "UNARY"); ("'!'", "UNARY"); ("'^'", "UNARY"); ("'&'", "UNARY"); ("'*'", "UNARY")].

(* ---- comparison up to what does not matter: the order of the tokens inside one %left / %right line,
        and the lines that hold no binary operator of the expression language ---- *)
Fixpoint insert_nat (x : nat) (l : list nat) : list nat :=
  match l with [] => [x] | y :: r => if Nat.leb x y then x :: l else y :: insert_nat x r end.
Definition sort_nat (l : list nat) : list nat := fold_right insert_nat [] l.
Definition norm_table (t : list (assoc * list nat)) : list (assoc * list nat) := map (fun l => (fst l, sort_nat (snd l))) t.

Definition assoc_eqb (a b : assoc) : bool := match a, b with L, L | R, R => true | _, _ => false end.
Fixpoint natlist_eqb (a b : list nat) : bool :=
  match a, b with [], [] => true | x :: a', y :: b' => Nat.eqb x y && natlist_eqb a' b' | _, _ => false end.
Fixpoint table_eqb (a b : list (assoc * list nat)) : bool :=
  match a, b with
  | [], [] => true
  | (x, l) :: a', (y, m) :: b' => assoc_eqb x y && natlist_eqb l m && table_eqb a' b'
  | _, _ => false
  end.

(* position of the line that holds a token *)
Fixpoint line_of (tok : string) (ls : list (bool * list string)) (i : nat) : option nat :=
  match ls with
  | [] => None
  | l :: r => if existsb (String.eqb tok) (snd l) then Some i else line_of tok r (S i)
  end.

Definition grammar_matches_spec (ls : list (bool * list string)) (unary : list (string * string)) : bool :=
  table_eqb (norm_table (table_of_lines ls)) (norm_table T_spec)
  (* the prefix operators bind tighter than every binary operator: %prec UNARY, declared after IN *)
  && match line_of "UNARY" ls 0, line_of "IN" ls 0 with Some u, Some i => Nat.ltb i u | _, _ => false end
  && forallb (fun p => existsb (fun q => String.eqb (fst p) (fst q) && String.eqb (snd q) "UNARY") unary) unary_prec_spec
  && Nat.eqb (List.length unary) (List.length unary_prec_spec)
  (* the postfix openers carry no precedence of their own *)
  && negb (existsb (fun t => match line_of t ls 0 with Some _ => true | None => false end) ["'('"; "'['"; "'.'"]).

Lemma spec_matches_itself : grammar_matches_spec prec_lines_spec unary_prec_spec = true.
Proof. reflexivity. Qed.
