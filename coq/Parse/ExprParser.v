(* Table-driven stratified-descent parser for the expression language of C03, generic in the
   operator table T (levels loosest first, each left- or right-associative with its binary
   operators), the set of prefix operators and the ternary operator's number.  Above the binary
   levels: prefix operators, then the postfix forms call (0-2 arguments), index and member, then
   atoms and parentheses.  The printer emits the tokens of a tree in order, adding nothing: the
   parentheses are nodes of the tree. *)
From Coq Require Import List Arith Lia Bool.
Import ListNotations.

Inductive assoc := L | R.
Notation op := nat (only parsing).
Notation level := (assoc * list nat)%type (only parsing).

Inductive tok := TAtom (n : nat) | TOp (o : op) | TLP | TRP | TLB | TRB | TDot | TComma | TColon.

Inductive tree :=
| Atom (n : nat)
| Bin (o : op) (l r : tree)
| Tern (c a b : tree)
| Un (u : op) (t : tree)
| Paren (t : tree)
| Call0 (f : tree) | Call1 (f a : tree) | Call2 (f a b : tree)
| Index (f i : tree)
| Member (f : tree) (n : nat).

Definition mem (o : op) (ops : list op) := existsb (Nat.eqb o) ops.

Section P.
Variable T : list level.       (* binary levels, loosest first *)
Variable unops : list op.      (* prefix operators *)
Variable qop : op.             (* the `?` of `c ? a : b`; listed in the operators of its (right-assoc) level *)

Fixpoint pexpr (fuel : nat) (lvs : list level) (ts : list tok) {struct fuel} : option (tree * list tok) :=
  match fuel with 0 => None | S f =>
  match lvs with
  | [] => pprim f ts
  | (L, ops) :: tighter =>
     match pexpr f tighter ts with
     | Some (x, r) => ploop f ops tighter x r
     | None => None end
  | (R, ops) :: tighter =>
     match pexpr f tighter ts with
     | Some (x, TOp o :: r) =>
         if mem o ops then
           if Nat.eqb o qop then
             match pexpr f T r with
             | Some (m, TColon :: r1) =>
                 match pexpr f lvs r1 with
                 | Some (y, r2) => Some (Tern x m y, r2)
                 | None => None end
             | _ => None end
           else
             match pexpr f lvs r with
             | Some (y, r') => Some (Bin o x y, r')
             | None => None end
         else Some (x, TOp o :: r)
     | other => other end
  end end
with ploop (fuel : nat) (ops : list op) (tighter : list level) (x : tree) (ts : list tok) {struct fuel} : option (tree * list tok) :=
  match fuel with 0 => None | S f =>
  match ts with
  | TOp o :: r =>
     if mem o ops then
       match pexpr f tighter r with
       | Some (y, r') => ploop f ops tighter (Bin o x y) r'
       | None => None end
     else Some (x, ts)
  | _ => Some (x, ts)
  end end
with pprim (fuel : nat) (ts : list tok) {struct fuel} : option (tree * list tok) :=
  match fuel with 0 => None | S f =>
  match ts with
  | TOp u :: r =>
      if mem u unops then
        match pprim f r with
        | Some (t, r') => Some (Un u t, r')
        | None => None end
      else None
  | TAtom n :: r => ppost f (Atom n) r
  | TLP :: r =>
      match pexpr f T r with
      | Some (t, TRP :: r') => ppost f (Paren t) r'
      | _ => None end
  | _ => None
  end end
with ppost (fuel : nat) (x : tree) (ts : list tok) {struct fuel} : option (tree * list tok) :=
  match fuel with 0 => None | S f =>
  match ts with
  | TLP :: TRP :: r => ppost f (Call0 x) r
  | TLP :: r =>
      match pexpr f T r with
      | Some (a, TRP :: r1) => ppost f (Call1 x a) r1
      | Some (a, TComma :: r1) =>
          match pexpr f T r1 with
          | Some (b, TRP :: r2) => ppost f (Call2 x a b) r2
          | _ => None end
      | _ => None end
  | TLB :: r =>
      match pexpr f T r with
      | Some (i, TRB :: r1) => ppost f (Index x i) r1
      | _ => None end
  | TDot :: TAtom n :: r => ppost f (Member x n) r
  | _ => Some (x, ts)
  end end.

Fixpoint print (t : tree) : list tok :=
  match t with
  | Atom n => [TAtom n]
  | Bin o l r => print l ++ TOp o :: print r
  | Tern c a b => print c ++ TOp qop :: print a ++ TColon :: print b
  | Un u t => TOp u :: print t
  | Paren t => TLP :: print t ++ [TRP]
  | Call0 f => print f ++ [TLP; TRP]
  | Call1 f a => print f ++ TLP :: print a ++ [TRP]
  | Call2 f a b => print f ++ TLP :: print a ++ TComma :: print b ++ [TRP]
  | Index f i => print f ++ TLB :: print i ++ [TRB]
  | Member f n => print f ++ [TDot; TAtom n]
  end.

(* level of a binary operator, counted from the loosest = 0 *)
Fixpoint lvl_in (lvs : list level) (o : op) (k : nat) : option nat :=
  match lvs with
  | [] => None
  | (_, ops) :: tl => if mem o ops then Some k else lvl_in tl o (S k)
  end.
Definition lvl o := lvl_in T o 0.
Definition assoc_at (k : nat) : assoc := match nth_error T k with Some (a, _) => a | None => L end.

(* shapes: what can stand as the operand of a prefix operator / as the head of a postfix form *)
Definition is_post (t : tree) : bool :=
  match t with Atom _ | Paren _ | Call0 _ | Call1 _ _ | Call2 _ _ _ | Index _ _ | Member _ _ => true | _ => false end.
Definition is_prim (t : tree) : bool := match t with Un _ _ => true | _ => is_post t end.

(* [wf p t]: the parser, started at level p, produces t from its own tokens - every parenthesis the
   table requires is present as a Paren node *)
Fixpoint wf (p : nat) (t : tree) : bool :=
  match t with
  | Atom _ => true
  | Paren t => wf 0 t
  | Bin o l r =>
     negb (Nat.eqb o qop) &&
     match lvl o with
     | None => false
     | Some k => (p <=? k) &&
        match assoc_at k with
        | L => wf k l && wf (S k) r
        | R => wf (S k) l && wf k r end
     end
  | Tern c a b =>
     match lvl qop with
     | None => false
     | Some k => (p <=? k) && wf (S k) c && wf 0 a && wf k b
     end
  | Un u t => mem u unops && is_prim t && wf 0 t
  | Call0 f => is_post f && wf 0 f
  | Call1 f a => is_post f && wf 0 f && wf 0 a
  | Call2 f a b => is_post f && wf 0 f && wf 0 a && wf 0 b
  | Index f i => is_post f && wf 0 f && wf 0 i
  | Member f _ => is_post f && wf 0 f
  end.

Definition parse (ts : list tok) : option (tree * list tok) := pexpr (S (S (length T)) * S (length ts)) T ts.

End P.

(* ---- parentheses: removing them, adding all of them, adding the ones the table needs ---- *)
Fixpoint strip (t : tree) : tree :=
  match t with
  | Atom n => Atom n
  | Bin o l r => Bin o (strip l) (strip r)
  | Tern c a b => Tern (strip c) (strip a) (strip b)
  | Un u t => Un u (strip t)
  | Paren t => strip t
  | Call0 f => Call0 (strip f) | Call1 f a => Call1 (strip f) (strip a) | Call2 f a b => Call2 (strip f) (strip a) (strip b)
  | Index f i => Index (strip f) (strip i)
  | Member f n => Member (strip f) n
  end.

Definition is_atom (t : tree) : bool := match t with Atom _ => true | _ => false end.
Definition par (t : tree) : tree := if is_atom t then t else Paren t.

(* every operand that is not an atom gets its parentheses *)
Fixpoint full (t : tree) : tree :=
  match t with
  | Atom n => Atom n
  | Bin o l r => Bin o (par (full l)) (par (full r))
  | Tern c a b => Tern (par (full c)) (par (full a)) (par (full b))
  | Un u t => Un u (par (full t))
  | Paren t => full t
  | Call0 f => Call0 (par (full f)) | Call1 f a => Call1 (par (full f)) (par (full a))
  | Call2 f a b => Call2 (par (full f)) (par (full a)) (par (full b))
  | Index f i => Index (par (full f)) (par (full i))
  | Member f n => Member (par (full f)) n
  end.

Section Min.
Variable T : list level.
Variable unops : list op.
Variable qop : op.
(* parenthesise an operand exactly when it would not be read back at the level it stands at *)
Definition fit (p : nat) (t : tree) : tree := if wf T unops qop p t then t else Paren t.
Definition fit_post (t : tree) : tree := if is_post t then t else Paren t.
Definition fit_prim (t : tree) : tree := if is_prim t then t else Paren t.

Fixpoint minp (t : tree) : tree :=
  match t with
  | Atom n => Atom n
  | Bin o l r =>
      match lvl T o with
      | Some k => match assoc_at T k with
                  | L => Bin o (fit k (minp l)) (fit (S k) (minp r))
                  | R => Bin o (fit (S k) (minp l)) (fit k (minp r)) end
      | None => Bin o (minp l) (minp r)
      end
  | Tern c a b =>
      match lvl T qop with
      | Some k => Tern (fit (S k) (minp c)) (minp a) (fit k (minp b))
      | None => Tern (minp c) (minp a) (minp b)
      end
  | Un u t => Un u (fit_prim (minp t))
  | Paren t => minp t
  | Call0 f => Call0 (fit_post (minp f)) | Call1 f a => Call1 (fit_post (minp f)) (minp a)
  | Call2 f a b => Call2 (fit_post (minp f)) (minp a) (minp b)
  | Index f i => Index (fit_post (minp f)) (minp i)
  | Member f n => Member (fit_post (minp f)) n
  end.
End Min.
