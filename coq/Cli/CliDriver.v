(* Entry point of the extracted C18 checker.  Input:
     ((argv ...) ((name readable text) ...) (src (arg ...) printed ok msg))
   - the command line, the files that exist (readable: content, otherwise the error text), and what
   the library printed and returned for the one (source, args) pair the harness ran it on.  The
   model's library answers only for that pair; for any other source it returns a marker, so a model
   that picks another source than the harness disagrees visibly. *)
From Coq Require Import String List Bool ZArith.
From Anko Require Import Base.Sexp Cli.CliModel.
Import ListNotations.
Open Scope string_scope.

Definition hexd (n : N) : Ascii.ascii := if (n <? 10)%N then Ascii.ascii_of_N (48 + n) else Ascii.ascii_of_N (87 + n).
Fixpoint hex (s : string) : string :=
  match s with
  | EmptyString => EmptyString
  | String c r => let n := Ascii.N_of_ascii c in String (hexd (n / 16)%N) (String (hexd (n mod 16)%N) (hex r))
  end.

Fixpoint list_eqb (a b : list string) : bool :=
  match a, b with
  | [], [] => true
  | x :: a', y :: b' => String.eqb x y && list_eqb a' b'
  | _, _ => false
  end.

Definition dec_file (s : sexp) : option (string * bool * string) :=
  match s with
  | SL [SA n; r; SA t] => match as_bool r with Some r => Some (n, r, t) | None => None end
  | _ => None
  end.

Definition fs_of (files : list (string * bool * string)) : filesystem :=
  fun name =>
    match find (fun '(n, _, _) => String.eqb n name) files with
    | Some (_, true, t) => inl t
    | Some (_, false, t) => inr t
    | None => inr ("open " ++ name ++ ": no such file or directory")
    end.

Definition c18_check (s : sexp) : sexp :=
  match s with
  | SL [argv; files; SL [SA src; args; SA printed; ok; SA msg]] =>
    match as_list as_atom argv, as_list dec_file files, as_list as_atom args, as_bool ok with
    | Some argv, Some files, Some args, Some ok =>
      let lib : library := fun s a =>
        if String.eqb s src && list_eqb a args then (printed, if ok then VOk else VErr msg)
        else ("<library not run on this source>", VErr "<library not run on this source>") in
      match plan_of argv with
      | Usage => SL [SA "usage"]
      | Interactive => SL [SA "interactive"]
      | p => match run_plan lib (fs_of files) p with
             | Some r => SL [SA "exit"; sZ (exit_code r); SA (hex (stdout r))]
             | None => SL [SA "none"]
             end
      end
    | _, _, _, _ => SL [SA "bad-input"]
    end
  | _ => SL [SA "bad-input"]
  end.
