(* Decision-rule theorems about the command-line model. *)
From Coq Require Import String List Bool Ascii ZArith Lia.
From Anko Require Import Cli.CliModel.
Import ListNotations.
Open Scope string_scope.

Definition source_of (fs : filesystem) (p : plan) : option (string * list string) :=
  match p with
  | Exec s a => Some (s, a)
  | File n a => match fs n with inl s => Some (s, a) | inr _ => None end
  | _ => None
  end.

Definition diagnostic (v : verdict) : string :=
  match v with VOk => "" | VErr m => "Execute error: " ++ m ++ nl end.

Lemma append_nil_r s : s ++ "" = s.
Proof. induction s as [|c s IH]; simpl; [reflexivity | now rewrite IH]. Qed.

(* once a source was obtained, status and output are the library's *)
Lemma run_plan_agrees lib fs p src args r :
  source_of fs p = Some (src, args) -> run_plan lib fs p = Some r ->
  stdout r = fst (lib src args) ++ diagnostic (snd (lib src args))
  /\ (exit_code r = 0%Z <-> snd (lib src args) = VOk)
  /\ (exit_code r = 4%Z <-> exists m, snd (lib src args) = VErr m)
  /\ (exit_code r = 0%Z \/ exit_code r = 4%Z).
Proof.
  intros Hs Hr.
  assert (H : r = finish (lib src args)).
  { destruct p as [| | |s a|n a]; cbn in Hs, Hr; try discriminate.
    - injection Hs as <- <-. now injection Hr as <-.
    - destruct (fs n) as [c|e]; [|discriminate]. injection Hs as <- <-. now injection Hr as <-. }
  subst r. destruct (lib src args) as [printed [|m]]; cbn.
  - rewrite append_nil_r. repeat split; auto; try discriminate.
    intros [m Hm]; discriminate.
  - repeat split; auto; try discriminate. intros _. now exists m.
Qed.

Lemma run_plan_unreadable lib fs n args err :
  fs n = inr err ->
  run_plan lib fs (File n args) = Some (mkResult 2 ("ReadFile error: " ++ err ++ nl)).
Proof. intro H. cbn. now rewrite H. Qed.

Lemma exit_codes lib fs p r : run_plan lib fs p = Some r ->
  match p with Exec _ _ | File _ _ => exit_code r = 0%Z \/ exit_code r = 2%Z \/ exit_code r = 4%Z | _ => True end.
Proof.
  destruct p as [| | |s a|n a]; auto; cbn.
  - intro H; injection H as <-. destruct (lib s a) as [? [|?]]; cbn; auto.
  - destruct (fs n) as [c|e]; intro H; injection H as <-; cbn; auto.
    destruct (lib c a) as [? [|?]]; cbn; auto.
Qed.

(* exit status 2 exactly when the file cannot be read *)
Lemma exit_2_iff lib fs n args r : run_plan lib fs (File n args) = Some r ->
  (exit_code r = 2%Z <-> exists e, fs n = inr e).
Proof.
  cbn. destruct (fs n) as [c|e]; intro H; injection H as <-.
  - destruct (lib c args) as [? [|?]]; cbn; split; try discriminate; intros [? ?]; discriminate.
  - cbn. split; [intros _; now exists e | reflexivity].
Qed.

Definition flag_like (s : string) : bool :=
  match s with String "-" (String _ _) => true | _ => false end.

Lemma not_flag_like_stops a rest f ver ex eg : flag_like a = false ->
  parse_flags (S f) (a :: rest) ver ex eg = PRun ver ex eg (a :: rest).
Proof.
  intro H. cbn [parse_flags].
  destruct a as [|c [|d r]]; cbn; try reflexivity.
  cbn in H. unfold strip_dashes.
  destruct c as [[] [] [] [] [] [] [] []]; try reflexivity; discriminate H.
Qed.

(* `anko file args...` *)
Lemma plan_file file args : flag_like file = false -> plan_of (file :: args) = File file args.
Proof.
  intro H. unfold plan_of, parse. rewrite not_flag_like_stops by exact H. reflexivity.
Qed.

(* `anko -e src args...`: the trailing arguments are the script's, as long as the first of them
   does not look like a flag (the flag package would consume it) *)
Lemma parse_e_step f v rest ver ex eg :
  parse_flags (S f) ("-e" :: v :: rest) ver ex eg = parse_flags f rest ver v true.
Proof. reflexivity. Qed.

Lemma plan_exec src args :
  match args with [] => True | a :: _ => flag_like a = false end ->
  plan_of ("-e" :: src :: args) = Exec src args.
Proof.
  intros Hargs. unfold plan_of, parse. cbn [length]. rewrite parse_e_step.
  destruct args as [|a rest].
  - cbn [length parse_flags]. now rewrite orb_true_r.
  - cbn [length]. rewrite not_flag_like_stops by exact Hargs. now rewrite orb_true_r.
Qed.

(* an empty -e is still "with -e" (it was not before the fix recorded in known_findings.txt) *)
Example empty_execute : plan_of ["-e"; ""] = Exec "" [].
Proof. reflexivity. Qed.
Example empty_execute_with_args : plan_of ["-e"; ""; "x.ank"] = Exec "" ["x.ank"].
Proof. reflexivity. Qed.
Example no_arguments_is_interactive : plan_of [] = Interactive.
Proof. reflexivity. Qed.
Example execute_wins_over_file : plan_of ["-e"; "1"; "x.ank"] = Exec "1" ["x.ank"].
Proof. reflexivity. Qed.
