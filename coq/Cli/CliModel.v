(* Model of the command-line tool (anko.go): flag handling, choice of the source, exit-code mapping.
   The library (vm.Execute in an environment prepared with args, core.Import and the packages) and
   the file system are parameters: [lib src args] gives what the script printed and the verdict,
   [readfile name] the content or the error text. *)
From Coq Require Import String List Bool Ascii ZArith.
Import ListNotations.
Open Scope string_scope.

Inductive verdict := VOk | VErr (msg : string).
Definition library := string -> list string -> string * verdict.
Definition filesystem := string -> string + string.      (* inl content | inr error text *)

(* ---- Go's flag.Parse over the two flags -v (bool) and -e (string) ---- *)
Inductive parsed := PUsage | PRun (version : bool) (execute : string) (execute_given : bool) (positional : list string).

Fixpoint split_eq (s : string) : string * option string :=
  match s with
  | EmptyString => (EmptyString, None)
  | String c r =>
    if Ascii.eqb c "="%char then (EmptyString, Some r)
    else let '(n, v) := split_eq r in (String c n, v)
  end.

Definition strip_dashes (s : string) : option string :=
  match s with
  | String "-" (String "-" r) => Some r
  | String "-" r => Some r
  | _ => None
  end.

Definition bool_value (s : string) : option bool :=
  if existsb (String.eqb s) ["1"; "t"; "T"; "true"; "TRUE"; "True"] then Some true
  else if existsb (String.eqb s) ["0"; "f"; "F"; "false"; "FALSE"; "False"] then Some false
  else None.

Fixpoint parse_flags (fuel : nat) (argv : list string) (ver : bool) (ex : string) (eg : bool) : parsed :=
  match fuel with
  | O => PUsage
  | S f =>
    match argv with
    | [] => PRun ver ex eg []
    | a :: rest =>
      if (String.length a <? 2)%nat then PRun ver ex eg argv
      else match strip_dashes a with
      | None => PRun ver ex eg argv
      | Some body =>
        if String.eqb a "--" then PRun ver ex eg rest
        else match body with
        | EmptyString => PUsage
        | String c _ =>
          if Ascii.eqb c "-"%char || Ascii.eqb c "="%char then PUsage
          else let '(name, val) := split_eq body in
            if String.eqb name "v" then
              match val with
              | None => parse_flags f rest true ex eg
              | Some v => match bool_value v with Some b => parse_flags f rest b ex eg | None => PUsage end
              end
            else if String.eqb name "e" then
              match val with
              | Some v => parse_flags f rest ver v true
              | None => match rest with v :: rest' => parse_flags f rest' ver v true | [] => PUsage end
              end
            else PUsage      (* -h, -help and unknown flags: usage, exit status 2 *)
        end
      end
    end
  end.

Definition parse (argv : list string) : parsed := parse_flags (S (length argv)) argv false "" false.

(* ---- main ---- *)
Inductive plan :=
| Usage                                   (* flag package prints usage to stderr, exit 2 *)
| Version
| Interactive
| Exec (src : string) (args : list string)      (* -e *)
| File (name : string) (args : list string).

Definition plan_of (argv : list string) : plan :=
  match parse argv with
  | PUsage => Usage
  | PRun true _ _ _ => Version
  | PRun false ex eg pos =>
    if negb (String.eqb ex "") || eg then Exec ex pos
    else match pos with [] => Interactive | f :: r => File f r end
  end.

Record result := mkResult { exit_code : Z; stdout : string }.

Definition nl : string := String (ascii_of_nat 10) EmptyString.

Definition finish (out : string * verdict) : result :=
  match out with
  | (printed, VOk) => mkResult 0 printed
  | (printed, VErr m) => mkResult 4 (printed ++ "Execute error: " ++ m ++ nl)
  end.

(* what the tool does for a non-interactive plan *)
Definition run_plan (lib : library) (fs : filesystem) (p : plan) : option result :=
  match p with
  | Exec src args => Some (finish (lib src args))
  | File name args =>
    match fs name with
    | inr err => Some (mkResult 2 ("ReadFile error: " ++ err ++ nl))
    | inl src => Some (finish (lib src args))
    end
  | Version => Some (mkResult 0 ("0.1.8" ++ nl))
  | Usage | Interactive => None
  end.

Definition cli (lib : library) (fs : filesystem) (argv : list string) : option result :=
  run_plan lib fs (plan_of argv).
