(* Obligation of C14 on the write set regenerated from /repo/vm on every run (harness/c14.go, go/types):
   no statement of package vm writes to a field of a syntax-tree node that was not built in the same
   function. *)
From Coq Require Import String List.
From AnkoGen Require Import GenAstWrites.
Import ListNotations.

Theorem interpreter_never_writes_into_the_parsed_tree : non_fresh_ast_writes = [].
Proof. reflexivity. Qed.
