(* Obligations of C14 on what is regenerated from /repo on every run (harness/c14.go, go/types):
   (1) no statement of package vm writes to a field of a syntax-tree node that was not built in the same
       function;
   (2) outside package initialisation, the packages a run goes through (vm, parser, core, env, ast,
       ast/astutil) write to no package-level variable - no assignment, ++/--, store through an index or
       field of one, no mutating call on a package-level sync.Map / sync.Pool / atomic value - except the
       two debugging switches of the generated parser, which a host sets explicitly.  Executions can
       therefore share no state through package variables: what a run can reach is its tree (1) and
       the environment it was given. *)
From Coq Require Import String List.
From AnkoGen Require Import GenAstWrites.
Import ListNotations.
Open Scope string_scope.

Theorem interpreter_never_writes_into_the_parsed_tree : non_fresh_ast_writes = [].
Proof. reflexivity. Qed.

Definition host_switches : list string :=
  ["parser: EnableDebug assigns yyDebug"; "parser: EnableErrorVerbose assigns yyErrorVerbose"].

Theorem runs_share_no_package_state : package_state_writes = host_switches.
Proof. reflexivity. Qed.
