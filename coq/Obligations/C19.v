(* Obligation of C19 on the package tables regenerated from /repo/packages/*.go on every run
   (harness/c19.go, go/ast): every entry binds a name to the Go identifier of that spelling from the
   package of that import path, and no slot is written twice. *)
From Coq Require Import String List.
From Anko Require Import Core.PkgTables.
From AnkoGen Require Import GenPkgs.
Import ListNotations.

Theorem every_table_entry_is_its_namesake : tables_ok entries = true.
Proof. vm_compute. reflexivity. Qed.

Theorem what_a_script_selects_is_the_go_namesake : forall t p k e,
  pkg_lookup entries t p k = Some e -> e_ident e = k /\ (e_path e = p \/ e_qual e = ""%string).
Proof. intros t p k e. apply lookup_is_namesake. exact every_table_entry_is_its_namesake. Qed.
Print Assumptions what_a_script_selects_is_the_go_namesake.
