(* Obligation of C03 on the precedence declarations regenerated from /repo/parser/parser.go.y on
   every run (harness/c03.go): they are, line for line, the ones the specification table is derived
   from. *)
From Coq Require Import List String.
From Anko Require Import Parse.ExprParser Parse.Spec.
From AnkoGen Require Import GenPrec.
Import ListNotations.

(* up to the order of tokens inside a line and to lines without a binary operator of the expression
   language, the declarations denote the specified table; prefix operators use %prec UNARY, UNARY is
   tighter than every binary level, and ( [ . carry no precedence *)
Theorem grammar_declarations_denote_the_specified_table : grammar_matches_spec prec_lines unary_prec = true.
Proof. vm_compute. reflexivity. Qed.
Print Assumptions grammar_declarations_denote_the_specified_table.
