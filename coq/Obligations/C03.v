(* Obligation of C03 on the precedence declarations regenerated from /repo/parser/parser.go.y on
   every run (harness/c03.go): they are, line for line, the ones the specification table is derived
   from. *)
From Coq Require Import List String.
From Anko Require Import Parse.ExprParser Parse.Spec.
From AnkoGen Require Import GenPrec.
Import ListNotations.

Theorem grammar_precedence_lines_are_the_specified_ones : prec_lines = prec_lines_spec.
Proof. vm_compute. reflexivity. Qed.

Theorem grammar_table_is_the_specification : table_of_lines prec_lines = T_spec.
Proof. rewrite grammar_precedence_lines_are_the_specified_ones. exact spec_lines_give_spec_table. Qed.

(* prefix operators carry %prec UNARY; postfix openers carry no precedence of their own *)
Theorem unary_productions_use_prec_unary : unary_prec = unary_prec_spec.
Proof. vm_compute. reflexivity. Qed.
Print Assumptions grammar_table_is_the_specification.
