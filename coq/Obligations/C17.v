(* Obligation of C17 on the tables regenerated from /repo's working tree
   (AnkoGen.GenWalk is rewritten by harness/c17.go on every run).  Compiled on
   every run; it is not part of the static development. *)
From Coq Require Import List Arith Bool Permutation.
From Anko Require Import Walk.WalkModel Walk.WalkProofs Properties.C17.
From AnkoGen Require Import GenWalk.
Import ListNotations.

(* a finite computation over the completely enumerated tables *)
Theorem current_tables_cover : covers walk_table ast_table = true.
Proof. vm_compute. reflexivity. Qed.

Theorem current_walker_reaches_every_node : forall fuel t,
  well_kinded fuel ast_table walk_table t = true ->
  walk walk_table None fuel t [] = (rev (flat fuel walk_table t), WOk) /\
  Permutation (visits (flat fuel walk_table t)) (ids fuel t).
Proof.
  intros fuel t. exact (walker_presents_every_node_once walk_table ast_table fuel t current_tables_cover).
Qed.

Theorem current_walker_stops_on_callback_error : forall fuel t k,
  well_kinded fuel ast_table walk_table t = true -> k < length (flat fuel walk_table t) ->
  walk walk_table (Some k) fuel t [] = (rev (firstn (S k) (flat fuel walk_table t)), WCallbackErr).
Proof.
  intros fuel t k. exact (callback_error_stops_at_once walk_table ast_table fuel t k current_tables_cover).
Qed.

Print Assumptions current_walker_reaches_every_node.
Print Assumptions current_walker_stops_on_callback_error.
