(* Obligations of C13 on the lock structure regenerated from /repo/env/*.go on every run. *)
From Coq Require Import String List.
From Anko Require Import Conc.LockTable.
From AnkoGen Require Import GenLocks.
Import ListNotations.

Theorem every_map_access_is_under_the_lock : locks_ok accesses = true.
Proof. vm_compute. reflexivity. Qed.

Theorem every_operation_is_one_critical_section_per_scope : sections_ok methods = true.
Proof. vm_compute. reflexivity. Qed.

Theorem no_unlocked_access : forall a, In a accesses -> a_lock a <> 0 /\ (a_write a = true -> a_lock a = 2).
Proof. apply locks_ok_spec. exact every_map_access_is_under_the_lock. Qed.
Print Assumptions no_unlocked_access.
