(* Extraction of the executable models.  ExtrOcamlBasic only: bool, option,
   unit, list, prod, sumbool, comparison map to OCaml's own; nat, positive, N,
   Z, ascii and string stay Coq datatypes.  No Extract Constant of ours. *)
From Coq Require Import ExtrOcamlBasic.
From Anko Require Import Base.Sexp Env.EnvDriver Walk.WalkDriver Interp.InterpDriver Core.CoreDriver Cli.CliDriver Conc.EnvConc Parse.ExprDriver Parse.ScannerDriver Chan.PipelineDriver Conv.ConvDriver.
Extraction Language OCaml.
Extraction "model.ml" c12_check c17_check interp_check c19_check c19b_check c18_check c13_check c03_check c03p_check c15_check c16_check c16f_check c11_check c11a_check c10t_check.
