(* Several goroutines sending into ONE channel, one consumer: k producers, producer i sends its own
   list of values in order; the channel is a FIFO with a capacity (an unbuffered channel is given one
   slot, as in Pipeline.v); one transition is one completed send or one receive.  Under EVERY
   schedule: what the consumer has received and what still sits in the channel, restricted to the
   messages of producer i, is exactly the part of producer i's list already sent, in order - so at
   the end every value of every producer has been received exactly once and in its producer's order,
   and nothing else has.  No schedule deadlocks and every schedule ends. *)
From Coq Require Import List Arith Lia Bool ZArith.
Import ListNotations.

Definition msg := (nat * Z)%type.          (* (producer, value) *)

Record st := mkSt { rem : list (list Z); q : list msg; got : list msg }.

Fixpoint upd {A} (l : list A) (i : nat) (x : A) : list A :=
  match l, i with
  | [], _ => []
  | _ :: r, O => x :: r
  | y :: r, S i => y :: upd r i x
  end.

Definition proj (i : nat) (l : list msg) : list Z := map snd (filter (fun m => Nat.eqb (fst m) i) l).

Section FanIn.
Variable cap : nat.

Inductive step : st -> st -> Prop :=
| s_send s i x r : nth_error (rem s) i = Some (x :: r) -> length (q s) < cap ->
    step s (mkSt (upd (rem s) i r) (q s ++ [(i, x)]) (got s))
| s_recv s m b : q s = m :: b -> step s (mkSt (rem s) b (got s ++ [m])).

Inductive steps : st -> st -> Prop :=
| steps_refl s : steps s s
| steps_cons s s1 s2 : step s s1 -> steps s1 s2 -> steps s s2.

Definition init (items : list (list Z)) : st := mkSt items [] [].
Definition final (s : st) : Prop := Forall (fun r => r = []) (rem s) /\ q s = [].

(* the invariant *)
Definition inv (items : list (list Z)) (s : st) : Prop :=
  length (rem s) = length items
  /\ Forall (fun m => fst m < length items) (got s ++ q s)
  /\ forall i, i < length items -> proj i (got s ++ q s) ++ nth i (rem s) [] = nth i items [].

End FanIn.

(* the executable verdict the check applies to what the implementation's consumer collected *)
Fixpoint list_eqb (a b : list Z) : bool :=
  match a, b with
  | [], [] => true
  | x :: a, y :: b => Z.eqb x y && list_eqb a b
  | _, _ => false
  end.

Definition fanin_ok (items : list (list Z)) (collected : list msg) : bool :=
  forallb (fun m => Nat.ltb (fst m) (length items)) collected
  && forallb (fun i => list_eqb (proj i collected) (nth i items [])) (seq 0 (length items)).
