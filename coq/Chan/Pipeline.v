(* Producer / stages / consumer pipelines over FIFO channels with capacities and close, as a
   nondeterministic transition system (one transition = one channel operation of one goroutine),
   and what holds under EVERY schedule: nothing is lost, duplicated or reordered, no schedule
   deadlocks, and every schedule ends.  An unbuffered channel is given one slot: the property
   constrains what is delivered, not who waits for whom. *)
From Coq Require Import List Arith Lia Bool.
Import ListNotations.

Section Pipe.
Context {V : Type}.

Record chan := mkChan { buf : list V; cap : nat; closed : bool }.

Definition push (c : chan) (v : V) : chan := mkChan (buf c ++ [v]) (cap c) (closed c).
Definition pop (c : chan) : chan := mkChan (tl (buf c)) (cap c) (closed c).
Definition shut (c : chan) : chan := mkChan (buf c) (cap c) true.
Definition room (c : chan) : Prop := length (buf c) < cap c.

(* a segment: everything upstream of (and including) one channel *)
Inductive seg :=
| Src (rem : list V) (ch : chan)                                   (* for x in rem { ch <- x }; close(ch) *)
| Stage (up : seg) (f : V -> V) (hold : option V) (done : bool) (ch : chan).
                                                                     (* for x in out(up) { ch <- f(x) }; close(ch) *)
Definition out (s : seg) : chan := match s with Src _ ch => ch | Stage _ _ _ _ ch => ch end.
Definition set_out (s : seg) (c : chan) : seg :=
  match s with Src r _ => Src r c | Stage u f h d _ => Stage u f h d c end.

Definition olist (o : option V) : list V := match o with Some v => [v] | None => [] end.

(* everything that is still to come out of the segment's channel, in order *)
Fixpoint flow (s : seg) : list V :=
  match s with
  | Src rem ch => buf ch ++ rem
  | Stage up f hold _ ch => buf ch ++ map f (olist hold ++ flow up)
  end.

Inductive seg_step : seg -> seg -> Prop :=
| src_send x r ch : closed ch = false -> room ch -> seg_step (Src (x :: r) ch) (Src r (push ch x))
| src_close ch : closed ch = false -> seg_step (Src [] ch) (Src [] (shut ch))
| stage_recv up f ch v b : buf (out up) = v :: b ->
    seg_step (Stage up f None false ch) (Stage (set_out up (pop (out up))) f (Some v) false ch)
| stage_eof up f ch : buf (out up) = [] -> closed (out up) = true ->
    seg_step (Stage up f None false ch) (Stage up f None true (shut ch))
| stage_send up f v ch : room ch ->
    seg_step (Stage up f (Some v) false ch) (Stage up f None false (push ch (f v)))
| stage_up up up' f h d ch : seg_step up up' -> seg_step (Stage up f h d ch) (Stage up' f h d ch).

(* the whole system: the top segment, what the consumer has received, whether its loop has ended *)
Record sys := mkSys { top : seg; got : list V; fin : bool }.

Inductive step : sys -> sys -> Prop :=
| c_recv s g v b : buf (out s) = v :: b -> step (mkSys s g false) (mkSys (set_out s (pop (out s))) (g ++ [v]) false)
| c_eof s g : buf (out s) = [] -> closed (out s) = true -> step (mkSys s g false) (mkSys s g true)
| c_inner s s' g : seg_step s s' -> step (mkSys s g false) (mkSys s' g false).

(* ---- well-formedness kept by every transition ---- *)
Fixpoint quiet (s : seg) : Prop :=
  match s with
  | Src rem _ => rem = []
  | Stage up _ hold _ _ => hold = None /\ buf (out up) = [] /\ closed (out up) = true /\ quiet up
  end.

Fixpoint wf (s : seg) : Prop :=
  match s with
  | Src rem ch => (closed ch = true -> rem = []) /\ 1 <= cap ch
  | Stage up f hold done ch =>
      wf up /\ 1 <= cap ch /\ (closed ch = true <-> done = true)
      /\ (done = true -> hold = None /\ buf (out up) = [] /\ closed (out up) = true)
  end.

Lemma out_set_out s c : out (set_out s c) = c.
Proof. destruct s; reflexivity. Qed.

Lemma flow_set_out_pop s v b : buf (out s) = v :: b -> flow s = v :: flow (set_out s (pop (out s))).
Proof. destruct s as [r ch|u f h d ch]; cbn; intro H; rewrite H; reflexivity. Qed.

Lemma wf_set_out_pop s : wf s -> wf (set_out s (pop (out s))).
Proof. destruct s as [r ch|u f h d ch]; cbn; tauto. Qed.

(* nothing in flight changes place in the stream *)
Lemma seg_step_flow s s' : seg_step s s' -> flow s' = flow s.
Proof.
  induction 1; cbn.
  - rewrite <- app_assoc. reflexivity.
  - reflexivity.
  - rewrite (flow_set_out_pop up v b H). reflexivity.
  - reflexivity.
  - rewrite <- app_assoc. reflexivity.
  - rewrite IHseg_step. reflexivity.
Qed.

Lemma seg_step_cap s s' : seg_step s s' -> cap (out s') = cap (out s) /\ (closed (out s) = true -> closed (out s') = true).
Proof. induction 1; cbn; auto. Qed.

Lemma seg_step_out_buf_grows s s' : seg_step s s' -> exists extra, buf (out s') = buf (out s) ++ extra.
Proof.
  induction 1; cbn; try (exists []; now rewrite app_nil_r); eauto.
Qed.

Lemma seg_step_wf s s' : seg_step s s' -> wf s -> wf s'.
Proof.
  induction 1; cbn.
  - intros [H1 H2]. split; [|assumption]. intro Hc. rewrite Hc in H. discriminate.
  - intros [H1 H2]. auto.
  - intros (Hu & Hc & Hd & Hdn). split; [apply wf_set_out_pop; exact Hu|]. split; [exact Hc|]. split; [exact Hd|]. discriminate.
  - intros (Hu & Hc & Hd & Hdn). split; [exact Hu|]. split; [exact Hc|]. split; [split; reflexivity|]. auto.
  - intros (Hu & Hc & Hd & Hdn). split; [exact Hu|]. split; [exact Hc|]. split; [exact Hd|]. discriminate.
  - intros (Hu & Hc & Hd & Hdn). split; [apply IHseg_step; exact Hu|]. split; [exact Hc|]. split; [exact Hd|].
    intro Hdone. destruct (Hdn Hdone) as (Hh & Hb & Hcl). split; [exact Hh|].
    (* a closed upstream channel with an empty buffer: upstream cannot move its output *)
    destruct (seg_step_cap _ _ H) as [_ Hcl']. split; [|apply Hcl'; exact Hcl].
    exfalso. clear -H Hb Hcl Hu.
    (* no step of a segment whose output is closed and ... *)
    revert Hb Hcl Hu. induction H; cbn; intros Hb Hcl Hu; try (rewrite Hcl in *; discriminate).
    + destruct Hu as (_ & _ & Hd & _). apply Hd in Hcl. discriminate.
    + destruct Hu as (_ & _ & Hd & _). apply Hd in Hcl. discriminate.
    + destruct Hu as (_ & _ & Hd & _). apply Hd in Hcl. discriminate.
    + destruct Hu as (Hu & _ & Hd & Hdn). apply Hd in Hcl. subst d.
      destruct (Hdn eq_refl) as (_ & Hb2 & Hcl2). apply IHseg_step; assumption.
Qed.

(* a closed output channel means nothing more will come from upstream *)
Lemma closed_flow s : wf s -> closed (out s) = true -> buf (out s) = [] -> flow s = [].
Proof.
  induction s as [r ch|u IH f h d ch]; cbn.
  - intros [H _] Hc Hb. rewrite Hb, (H Hc). reflexivity.
  - intros (Hu & _ & Hd & Hdn) Hc Hb. apply Hd in Hc. destruct (Hdn Hc) as (-> & Hb2 & Hc2).
    rewrite Hb, (IH Hu Hc2 Hb2). reflexivity.
Qed.

(* ---- safety: what has been received plus what is still to come is the same at all times ---- *)
Definition stream (y : sys) : list V := got y ++ flow (top y).

Lemma step_stream y y' : step y y' -> stream y' = stream y.
Proof.
  destruct 1; unfold stream; cbn.
  - rewrite (flow_set_out_pop s v b H), <- app_assoc. reflexivity.
  - reflexivity.
  - rewrite (seg_step_flow _ _ H). reflexivity.
Qed.

Lemma step_wf y y' : step y y' -> wf (top y) -> wf (top y').
Proof. destruct 1; cbn; auto using wf_set_out_pop. apply seg_step_wf. exact H. Qed.

Inductive steps : sys -> sys -> Prop :=
| steps_nil y : steps y y
| steps_cons y y1 y2 : step y y1 -> steps y1 y2 -> steps y y2.

Definition inv (y : sys) : Prop := wf (top y) /\ (fin y = true -> flow (top y) = []).

Lemma step_inv y y' : step y y' -> inv y -> inv y'.
Proof.
  intros H [Hw Hf]. split; [eapply step_wf; eauto|].
  destruct H; cbn in *; try discriminate.
  intros _. apply closed_flow; assumption.
Qed.

Lemma steps_inv y y' : steps y y' -> inv y -> inv y' /\ stream y' = stream y.
Proof.
  induction 1 as [y|y y1 y2 H1 _ IH]; intro Hi; [auto|].
  destruct (IH (step_inv _ _ H1 Hi)) as [Hi2 E]. split; [exact Hi2|]. rewrite E. apply step_stream. exact H1.
Qed.

(* under every schedule: when the consumer's loop has ended it holds exactly the stream, in order -
   every value once, none lost, none reordered *)
Theorem every_schedule_delivers_the_stream y y' :
  inv y -> steps y y' -> fin y' = true -> got y' = stream y.
Proof.
  intros Hi Hs Hf. destruct (steps_inv _ _ Hs Hi) as [[_ Hfl] E].
  rewrite <- E. unfold stream. rewrite (Hfl Hf), app_nil_r. reflexivity.
Qed.

(* ---- no schedule deadlocks ---- *)
Lemma seg_can_move s : wf s -> closed (out s) = false -> room (out s) -> exists s', seg_step s s'.
Proof.
  induction s as [r ch|u IH f h d ch]; cbn.
  - intros [_ Hc] Hcl Hr. destruct r as [|x r]; eexists; [apply src_close | apply src_send]; assumption.
  - intros (Hu & Hc & Hd & Hdn) Hcl Hr.
    assert (d = false). { destruct d; [|reflexivity]. destruct Hd as [_ Hd]. rewrite Hd in Hcl by reflexivity. discriminate. }
    subst d. destruct h as [v|].
    + eexists. apply stage_send. exact Hr.
    + destruct (buf (out u)) as [|v b] eqn:Hb.
      * destruct (closed (out u)) eqn:Hcu.
        -- eexists. apply stage_eof; assumption.
        -- destruct (IH Hu eq_refl) as [u' Hu'].
           { unfold room. rewrite Hb. cbn. destruct u; cbn in *; lia. }
           eexists. apply stage_up. exact Hu'.
      * eexists. eapply stage_recv. exact Hb.
Qed.

Lemma wf_cap s : wf s -> 1 <= cap (out s).
Proof. destruct s; cbn; tauto. Qed.

Theorem no_schedule_deadlocks y : wf (top y) -> fin y = false -> exists y', step y y'.
Proof.
  destruct y as [s g f]. cbn. intros Hw ->.
  destruct (buf (out s)) as [|v b] eqn:Hb.
  - destruct (closed (out s)) eqn:Hc.
    + eexists. apply c_eof; assumption.
    + destruct (seg_can_move s Hw Hc) as [s' Hs'].
      { unfold room. rewrite Hb. cbn. pose proof (wf_cap s Hw). lia. }
      eexists. apply c_inner. exact Hs'.
  - eexists. eapply c_recv. exact Hb.
Qed.

(* ---- every schedule ends: a measure that each transition decreases ---- *)
Fixpoint work (s : seg) : nat :=
  match s with
  | Src rem ch => length rem + (if closed ch then 0 else 1)
  | Stage up _ hold done _ => work up + 2 * length (flow up) + length (olist hold) + (if done then 0 else 1)
  end.

Definition measure (y : sys) : nat := work (top y) + length (flow (top y)) + (if fin y then 0 else 1).

Lemma work_set_out_pop s : work (set_out s (pop (out s))) = work s.
Proof. destruct s; reflexivity. Qed.

Lemma seg_step_work s s' : seg_step s s' -> work s' < work s.
Proof.
  induction 1; cbn.
  - rewrite H. lia.
  - rewrite H. lia.
  - rewrite work_set_out_pop. rewrite (flow_set_out_pop up v b H). cbn. lia.
  - lia.
  - lia.
  - rewrite (seg_step_flow _ _ H). lia.
Qed.

Lemma step_measure y y' : step y y' -> measure y' < measure y.
Proof.
  destruct 1; unfold measure; cbn.
  - rewrite work_set_out_pop. rewrite (flow_set_out_pop s v b H). cbn. lia.
  - lia.
  - rewrite (seg_step_flow _ _ H). pose proof (seg_step_work _ _ H). lia.
Qed.

Inductive steps_n : nat -> sys -> sys -> Prop :=
| sn_nil y : steps_n 0 y y
| sn_cons n y y1 y2 : step y y1 -> steps_n n y1 y2 -> steps_n (S n) y y2.

Theorem every_schedule_ends y : forall n y', steps_n n y y' -> n + measure y' <= measure y.
Proof.
  intros n y' H. induction H as [y|n y y1 y2 H1 _ IH]; [lia|].
  pose proof (step_measure _ _ H1). lia.
Qed.

End Pipe.
