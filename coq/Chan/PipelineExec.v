(* An executable scheduler for the pipeline system (one of its schedules), the initial states, and the
   corollary that ties the theorems together: from a well-formed start, whatever the schedule, a run
   can always continue until the consumer's loop ends, it does end, and the consumer then holds the
   items mapped through all stages, in order. *)
From Coq Require Import List Arith Lia Bool ZArith.
From Anko Require Import Chan.Pipeline.
Import ListNotations.

Section Exec.
Context {V : Type}.
Notation seg := (@seg V).
Notation sys := (@sys V).

Definition roomb (c : @chan V) : bool := length (buf c) <? cap c.
Arguments roomb : simpl never.

(* first enabled transition of a segment, upstream first *)
Fixpoint seg_sched (s : seg) : option seg :=
  match s with
  | Src [] ch => if closed ch then None else Some (Src [] (shut ch))
  | Src (x :: r) ch => if closed ch then None else if roomb ch then Some (Src r (push ch x)) else None
  | Stage up f h d ch =>
    match seg_sched up with
    | Some up' => Some (Stage up' f h d ch)
    | None =>
      if d then None else
      match h with
      | Some v => if roomb ch then Some (Stage up f None false (push ch (f v))) else None
      | None =>
        match buf (out up) with
        | v :: _ => Some (Stage (set_out up (pop (out up))) f (Some v) false ch)
        | [] => if closed (out up) then Some (Stage up f None true (shut ch)) else None
        end
      end
    end
  end.

Lemma seg_sched_sound s s' : seg_sched s = Some s' -> seg_step s s'.
Proof.
  revert s'. induction s as [r ch|u IH f h d ch]; intro s'; cbn.
  - destruct r as [|x r]; cbn.
    + destruct (closed ch) eqn:E; [discriminate|]. intro H; inversion H; subst; clear H. apply src_close. exact E.
    + destruct (closed ch) eqn:E1; [discriminate|]. destruct (roomb ch) eqn:E2; cbn; [|discriminate].
      intro H; inversion H; subst; clear H. apply Nat.ltb_lt in E2. apply src_send; assumption.
  - destruct (seg_sched u) as [u'|].
    + intro H; inversion H; subst; clear H. apply stage_up. apply IH. reflexivity.
    + destruct d; [discriminate|]. destruct h as [v|].
      * destruct (roomb ch) eqn:E; cbn; [|discriminate]. intro H; inversion H; subst; clear H. apply stage_send. apply Nat.ltb_lt. exact E.
      * destruct (buf (out u)) as [|v b] eqn:Hb.
        -- destruct (closed (out u)) eqn:Hc; [|discriminate]. intro H; inversion H; subst; clear H. apply stage_eof; assumption.
        -- intro H; inversion H; subst; clear H. eapply stage_recv. exact Hb.
Qed.

Definition sched (y : sys) : option sys :=
  if fin y then None else
  match seg_sched (top y) with
  | Some s' => Some (mkSys s' (got y) false)
  | None =>
    match buf (out (top y)) with
    | v :: _ => Some (mkSys (set_out (top y) (pop (out (top y)))) (got y ++ [v]) false)
    | [] => if closed (out (top y)) then Some (mkSys (top y) (got y) true) else None
    end
  end.

Lemma sched_sound y y' : sched y = Some y' -> step y y'.
Proof.
  destruct y as [s g f]. unfold sched. cbn. destruct f; [discriminate|].
  destruct (seg_sched s) as [s'|] eqn:E.
  - intro H; inversion H; subst; clear H. apply c_inner. apply seg_sched_sound. exact E.
  - destruct (buf (out s)) as [|v b] eqn:Hb.
    + destruct (closed (out s)) eqn:Hc; [|discriminate]. intro H; inversion H; subst; clear H. apply c_eof; assumption.
    + intro H; inversion H; subst; clear H. eapply c_recv. exact Hb.
Qed.

Fixpoint run (fuel : nat) (y : sys) : sys :=
  match fuel with
  | 0 => y
  | S f => match sched y with Some y' => run f y' | None => y end
  end.

Lemma run_steps fuel : forall y, steps y (run fuel y).
Proof.
  induction fuel as [|f IH]; intro y; cbn; [constructor|].
  destruct (sched y) as [y'|] eqn:E; [|constructor].
  econstructor; [apply sched_sound; exact E | apply IH].
Qed.

(* ---- initial states ---- *)
Definition fresh (c : nat) : @chan V := mkChan [] (Nat.max 1 c) false.

(* stages listed from the producer's side: (function, capacity of the stage's output channel) *)
Fixpoint build (s : seg) (stages : list ((V -> V) * nat)) : seg :=
  match stages with
  | [] => s
  | (f, c) :: r => build (Stage s f None false (fresh c)) r
  end.

Definition pipeline (xs : list V) (c0 : nat) (stages : list ((V -> V) * nat)) : sys :=
  mkSys (build (Src xs (fresh c0)) stages) [] false.

Fixpoint through (stages : list ((V -> V) * nat)) (xs : list V) : list V :=
  match stages with
  | [] => xs
  | (f, _) :: r => through r (map f xs)
  end.

Lemma build_wf s stages : wf s -> wf (build s stages).
Proof.
  revert s. induction stages as [|[f c] r IH]; intros s H; cbn; [exact H|].
  apply IH. cbn. split; [exact H|]. split; [destruct c; lia|]. split; [split; discriminate|]. discriminate.
Qed.

Lemma build_flow s stages : flow (build s stages) = through stages (flow s).
Proof.
  revert s. induction stages as [|[f c] r IH]; intro s; cbn; [reflexivity|]. rewrite IH. reflexivity.
Qed.

Lemma pipeline_inv xs c0 stages : inv (pipeline xs c0 stages) /\ stream (pipeline xs c0 stages) = through stages xs.
Proof.
  unfold pipeline, inv, stream. cbn. split.
  - split; [|discriminate]. apply build_wf. cbn. split; [discriminate | destruct c0; lia].
  - rewrite build_flow. reflexivity.
Qed.

(* whatever the schedule: a run from the initial state that can go no further has ended the consumer's
   loop with every item, mapped through all stages, exactly once and in order *)
Theorem pipelines_deliver_under_every_schedule xs c0 stages y' :
  steps (pipeline xs c0 stages) y' -> (forall y'', ~ step y' y'') ->
  fin y' = true /\ got y' = through stages xs.
Proof.
  intros Hs Hstuck. destruct (pipeline_inv xs c0 stages) as [Hi Es].
  destruct (steps_inv _ _ Hs Hi) as [[Hw _] _].
  assert (Hf : fin y' = true).
  { destruct (fin y') eqn:E; [reflexivity|]. destruct (no_schedule_deadlocks y' Hw E) as [y'' H]. exfalso. eapply Hstuck; eauto. }
  split; [exact Hf|]. rewrite <- Es. eapply every_schedule_delivers_the_stream; eauto.
Qed.

(* and no schedule is longer than the initial measure *)
Theorem pipelines_end_under_every_schedule xs c0 stages n y' :
  steps_n n (pipeline xs c0 stages) y' -> n <= measure (pipeline xs c0 stages).
Proof. intro H. pose proof (every_schedule_ends _ _ _ H). lia. Qed.

End Exec.

(* ---- single channel operations: close twice and send after close are errors, receive after close
        and drain yields nothing with ok = false ---- *)
Inductive op_result {V} := Done (c : @chan V) | Blocked | Failed.

Definition chan_send {V} (c : @chan V) (v : V) : op_result :=
  if closed c then Failed else if length (buf c) <? Nat.max 1 (cap c) then Done (push c v) else Blocked.
Definition chan_close {V} (c : @chan V) : op_result := if closed c then Failed else Done (shut c).
(* (value, ok) *)
Definition chan_recv {V} (c : @chan V) : option (option V * bool * @chan V) :=
  match buf c with
  | v :: _ => Some (Some v, true, pop c)
  | [] => if closed c then Some (None, false, c) else None
  end.

Lemma send_on_closed_fails {V} (c : @chan V) v : closed c = true -> chan_send c v = Failed.
Proof. unfold chan_send. intros ->. reflexivity. Qed.
Lemma close_then_close_fails {V} (c : @chan V) c' : chan_close c = Done c' -> chan_close c' = Failed.
Proof. unfold chan_close. destruct (closed c); [discriminate|]. intro H; inversion H; subst; clear H. reflexivity. Qed.
Lemma recv_after_close_and_drain {V} (c : @chan V) : closed c = true -> buf c = [] -> chan_recv c = Some (None, false, c).
Proof. unfold chan_recv. intros -> ->. reflexivity. Qed.
Lemma recv_is_fifo {V} (c : @chan V) v : chan_recv (push c v) = Some (Some (hd v (buf c)), true, pop (push c v)).
Proof. unfold chan_recv. cbn. destruct (buf c); reflexivity. Qed.
