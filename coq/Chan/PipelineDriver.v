(* Entry point of the extracted C16 checker: (c0 ((fid cap) ...) (item ...)) -> the list the consumer
   holds when the model's scheduler (one of the schedules; the theorems cover all of them) has run the
   pipeline to its end.  Stage functions by number: 0 identity, 1 x+1, 2 x*2, 3 x-3, 4 -x. *)
From Coq Require Import List ZArith String.
From Anko Require Import Base.Sexp Base.Int64 Chan.Pipeline Chan.PipelineExec.
Import ListNotations.
Open Scope Z_scope.

Definition stage_fun (k : nat) : Z -> Z :=
  match k with
  | 1%nat => fun x => add64 x 1
  | 2%nat => fun x => mul64 x 2
  | 3%nat => fun x => sub64 x 3
  | 4%nat => fun x => neg64 x
  | _ => fun x => x
  end.

Definition dec_stage (s : sexp) : option ((Z -> Z) * nat) :=
  match s with
  | SL [f; c] => match as_nat f, as_nat c with Some f, Some c => Some (stage_fun f, c) | _, _ => None end
  | _ => None
  end.

Definition c16_check (s : sexp) : sexp :=
  match s with
  | SL [c0; stages; items] =>
    match as_nat c0, as_list dec_stage stages, as_list as_Z items with
    | Some c0, Some stages, Some items =>
      let y0 := pipeline items c0 stages in
      let y := run (S (measure y0)) y0 in
      SL [SA (if fin y then "done" else "stuck")%string; SL (map sZ (got y))]
    | _, _, _ => SL [SA "undecodable"%string]
    end
  | _ => SL [SA "undecodable"%string]
  end.

(* Entry point c16f: ((items of producer 0) (items of producer 1) ...) ((producer value) ...) -> ok / bad:
   the verdict [fanin_ok] of Chan/FanIn.v on what the consumer of a fan-in program collected. *)
From Anko Require Import Chan.FanIn.

Definition dec_msg (s : sexp) : option msg :=
  match s with
  | SL [p; v] => match as_nat p, as_Z v with Some p, Some v => Some (p, v) | _, _ => None end
  | _ => None
  end.

Definition c16f_check (s : sexp) : sexp :=
  match s with
  | SL [items; collected] =>
    match as_list (as_list as_Z) items, as_list dec_msg collected with
    | Some items, Some collected => SL [SA (if fanin_ok items collected then "ok" else "bad")%string]
    | _, _ => SL [SA "undecodable"%string]
    end
  | _ => SL [SA "undecodable"%string]
  end.
