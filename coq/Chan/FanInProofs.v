From Coq Require Import List Arith Lia Bool ZArith Wf_nat.
From Anko Require Import Chan.FanIn.
Import ListNotations.

Lemma proj_app i a b : proj i (a ++ b) = proj i a ++ proj i b.
Proof. unfold proj. rewrite filter_app, map_app. reflexivity. Qed.

Lemma proj_one_same i x : proj i [(i, x)] = [x].
Proof. unfold proj. cbn. rewrite Nat.eqb_refl. reflexivity. Qed.

Lemma proj_one_other i j x : j <> i -> proj i [(j, x)] = [].
Proof. intro H. unfold proj. cbn. destruct (Nat.eqb_spec j i); [contradiction | reflexivity]. Qed.

Lemma length_upd {A} (l : list A) i x : length (upd l i x) = length l.
Proof. revert i. induction l as [|y r IH]; intros [|i]; cbn; auto. Qed.

Lemma nth_upd_same {A} (l : list A) i x d : i < length l -> nth i (upd l i x) d = x.
Proof. revert i. induction l as [|y r IH]; intros [|i] H; cbn in *; try lia; auto; apply IH; lia. Qed.

Lemma nth_upd_other {A} (l : list A) i j x d : j <> i -> nth j (upd l i x) d = nth j l d.
Proof.
  revert i j. induction l as [|y r IH]; intros [|i] [|j] H; cbn; auto; try lia; apply IH; lia.
Qed.

Lemma nth_error_nth' {A} (l : list A) i x d : nth_error l i = Some x -> nth i l d = x /\ i < length l.
Proof.
  intro H. split; [apply nth_error_nth; exact H|]. apply nth_error_Some. rewrite H. discriminate.
Qed.

Lemma inv_init items : inv items (init items).
Proof. unfold inv, init. cbn. repeat split; auto. Qed.

Lemma inv_step cap items s s' : inv items s -> step cap s s' -> inv items s'.
Proof.
  intros (Hl & Ht & Hp) Hs. destruct Hs as [s i x r Hn Hroom | s m b Hq]; unfold inv; cbn [rem q got].
  - destruct (nth_error_nth' _ _ _ [] Hn) as [Hnth Hi]. repeat split.
    + rewrite length_upd. exact Hl.
    + rewrite app_assoc. apply Forall_app. split; [exact Ht|]. constructor; [cbn; lia | constructor].
    + intros j Hj. rewrite app_assoc, proj_app. destruct (Nat.eq_dec j i) as [->|Hne].
      * rewrite proj_one_same, nth_upd_same by exact Hi. rewrite <- app_assoc. cbn [app].
        rewrite <- Hnth. apply Hp. exact Hj.
      * rewrite proj_one_other by congruence. rewrite app_nil_r, nth_upd_other by exact Hne. apply Hp. exact Hj.
  - rewrite Hq in Ht, Hp. rewrite <- app_assoc. cbn [app]. repeat split; assumption.
Qed.

Lemma inv_steps cap items s s' : inv items s -> steps cap s s' -> inv items s'.
Proof. intros H Hs. induction Hs as [|s s1 s2 H1 _ IH]; [exact H|]. apply IH. eapply inv_step; eauto. Qed.

Lemma list_eqb_refl l : list_eqb l l = true.
Proof. induction l as [|x r IH]; cbn; [reflexivity|]. rewrite Z.eqb_refl. exact IH. Qed.

Lemma list_eqb_eq a b : list_eqb a b = true -> a = b.
Proof.
  revert b. induction a as [|x a IH]; intros [|y b] H; cbn in H; try discriminate; [reflexivity|].
  apply andb_prop in H as [H1 H2]. apply Z.eqb_eq in H1. subst. f_equal. apply IH. exact H2.
Qed.

Lemma final_inv_delivered items s : inv items s -> final s ->
  Forall (fun m => fst m < length items) (got s) /\ forall i, i < length items -> proj i (got s) = nth i items [].
Proof.
  intros (Hl & Ht & Hp) (Hr & Hq). rewrite Hq, app_nil_r in Ht, Hp. split; [exact Ht|].
  intros i Hi. specialize (Hp i Hi).
  assert (Hnil : nth i (rem s) [] = []).
  { rewrite Forall_forall in Hr. apply Hr. apply nth_In. rewrite Hl. exact Hi. }
  rewrite Hnil, app_nil_r in Hp. exact Hp.
Qed.

Lemma delivered_ok items l : Forall (fun m => fst m < length items) l ->
  (forall i, i < length items -> proj i l = nth i items []) -> fanin_ok items l = true.
Proof.
  intros Ht Hp. unfold fanin_ok. apply andb_true_intro. split.
  - apply forallb_forall. intros m Hm. rewrite Forall_forall in Ht. apply Nat.ltb_lt. apply Ht. exact Hm.
  - apply forallb_forall. intros i Hi. apply in_seq in Hi. rewrite Hp by lia. apply list_eqb_refl.
Qed.

Lemma ok_delivered items l : fanin_ok items l = true ->
  Forall (fun m => fst m < length items) l /\ forall i, i < length items -> proj i l = nth i items [].
Proof.
  unfold fanin_ok. intro H. apply andb_prop in H as [H1 H2]. split.
  - apply Forall_forall. intros m Hm. rewrite forallb_forall in H1. apply Nat.ltb_lt. apply H1. exact Hm.
  - intros i Hi. rewrite forallb_forall in H2. apply list_eqb_eq. apply H2. apply in_seq. lia.
Qed.

(* ---- progress ---- *)
Lemma all_empty_or_some (l : list (list Z)) :
  Forall (fun r => r = []) l \/ exists i x r, nth_error l i = Some (x :: r).
Proof.
  induction l as [|[|x r] t IH].
  - left. constructor.
  - destruct IH as [IH|(i & x & r & H)]; [left; constructor; auto | right; exists (S i), x, r; exact H].
  - right. exists 0, x, r. reflexivity.
Qed.

Lemma progress cap s : 0 < cap -> final s \/ exists s', step cap s s'.
Proof.
  intro Hc. destruct (q s) as [|m b] eqn:Hq.
  - destruct (all_empty_or_some (rem s)) as [H|(i & x & r & H)].
    + left. split; assumption.
    + right. eexists. eapply s_send; eauto. rewrite Hq. cbn. exact Hc.
  - right. eexists. eapply s_recv; eauto.
Qed.

(* ---- termination ---- *)
Definition total (l : list (list Z)) : nat := fold_right (fun r n => length r + n) 0 l.
Definition measure (s : st) : nat := 2 * total (rem s) + length (q s).

Lemma total_upd l i x r : nth_error l i = Some (x :: r) -> S (total (upd l i r)) = total l.
Proof.
  unfold total. revert i. induction l as [|y t IH]; intros [|i] H; cbn in *; try discriminate.
  - injection H as ->. cbn. lia.
  - pose proof (IH i H). lia.
Qed.

Lemma step_decreases cap s s' : step cap s s' -> measure s' < measure s.
Proof.
  intros [s0 i x r Hn _ | s0 m b Hq]; unfold measure; cbn [rem q got].
  - rewrite app_length. cbn. pose proof (total_upd _ _ _ _ Hn). lia.
  - rewrite Hq. cbn. lia.
Qed.

Lemma schedules_end cap : well_founded (fun s' s => step cap s s').
Proof.
  apply (well_founded_lt_compat _ measure). intros s' s H. eapply step_decreases; eauto.
Qed.
