"""C12: the environment API behaves as a chain of dictionaries."""
import glob, json, os, re, shutil
import common
from common import Result, CheckError

PID = "C12"
COUNTS = {"quick": 4000, "thorough": 200000}
PRE = ("From Coq Require Import String List.\nFrom Anko Require Import Env.EnvModel Env.EnvCases.\n"
       "Import ListNotations.\nOpen Scope string_scope.\n")


def sig_match(known, case, step):
    """does this deviation match a recorded finding?  (none recorded for C12)"""
    return None


def run(tier, seed, replay=None):
    res = Result(PID, tier, seed)
    harness = common.build_harness()
    bad = common.forbidden_scan()
    driver, ok_make, log = common.build_model()
    ob = common.property_obligations(PID)
    scratch = common.scratch_dir("c12")
    try:
        cmd = [harness, "c12", "-seed", str(seed), "-n", str(COUNTS.get(tier, COUNTS["quick"])), "-out", scratch]
        if replay:
            rec = json.load(open(replay))
            rp = os.path.join(scratch, "replay.json")
            json.dump({"ops": rec["ops"]}, open(rp, "w"))
            cmd += ["-replay", rp]
        common.sh(cmd, env=common.GOENV, timeout=3000)
        meta = json.load(open(os.path.join(scratch, "meta.json")))
        cases = [json.loads(l) for l in open(os.path.join(scratch, "cases.jsonl"))]
        results = common.run_driver(driver, os.path.join(scratch, "cases.sx"))
        # 1. the property's own oracle on the implementation: an API call never panics
        reported = set()
        for v in meta["impl_violations"][:5]:
            c = cases[v["case"]]
            res.violation({"property": PID, "kind": "implementation panicked in an env API call",
                           "ops": [s["op"] for s in c["steps"]], "impl_outputs": [s["out"] for s in c["steps"]],
                           "detail": v["why"], "how_to_replay": "./check C12 quick --replay <this file>"})
            reported.add(v["case"])
        # 2. model/implementation disagreement on a projected observable
        mism = 0
        for ci, line in enumerate(results):
            if line == "(ok)":
                continue
            mism += 1
            if ci in reported or len(res.violations) >= 8:
                continue
            c = cases[ci]
            m = re.match(r"\(mismatch (\d+) (.*)\)$", line)
            if not m:
                raise CheckError("model could not decode case %d: %s" % (ci, line[:300]))
            step = int(m.group(1))
            res.violation({"property": PID, "kind": "model and implementation differ", "first_differing_step": step,
                           "ops": [s["op"] for s in c["steps"][:step + 1]],
                           "impl_outputs": [s["out"] for s in c["steps"][:step + 1]],
                           "impl_state_delta_at_step": c["steps"][step]["delta"], "model_outputs": m.group(2),
                           "how_to_replay": "./check C12 quick --replay <this file>"})
        # 3. proof obligations
        if bad:
            res.violation({"property": PID, "kind": "forbidden construct in the Coq development", "lines": bad},
                          "no-failing-input-found")
        if ob["failed"]:
            res.violation({"property": PID, "kind": "proof obligation no longer checks", "failed": ob["failed"],
                           "note": "searched %d histories for a failing input" % len(cases)},
                          "" if res.violations else "no-failing-input-found")
        if replay:
            print("replayed %s: implementation outputs %s; model verdict %s" % (
                replay, json.dumps([s["out"] for s in cases[0]["steps"]]), results[0]))
        samples = [{"ops": [s["op"] for s in c["steps"]][:12], "outputs": [s["out"]["kind"] for s in c["steps"]][:12]}
                   for c in cases[7:10]]
        res.coverage = {
            "obligations": ob["obligations"], "discharged": ob["discharged"],
            "theorems": ob["theorems"], "axioms": ob["axioms"], "closed_under_global_context": ob["closed_count"],
            "checker_cmd": "make -C coq (coq_makefile, full .vo) && coqc -Q coq Anko coq/Properties/C12.v; "
                           "correspondence: harness c12 | extracted model (.build/extract/driver, entry c12)",
            "trusted_base": common.TRUSTED_COMMON + [
                "modelled not verified: Go maps, reflect.Value identity, sync.RWMutex (sequential histories only here; C13 covers concurrency)"],
            "evaluations": meta["cases"], "distinct_nontrivial": meta["distinct_nontrivial"],
            "rule": "histories of 1-60 env API calls on a growing tree of scopes (names a,b,m,x,a.b,'',T,int64,U,n; "
                    "tokens, addressable tokens, nil, modules; two external lookup tables); 7 directed histories first; "
                    "compared after every call: return value / error class, and the (symbols, values, types) dump of every "
                    "scope whose dump changed; non-trivial = distinct op sequence with >=3 calls and >=2 state changes",
            "distribution": meta["stats"], "samples": samples, "mismatches": mism,
            "make_ok": ok_make,
        }
        res.assumptions = ["external lookups are the two fixed tables of coq/Env/EnvCases.v",
                           "values are opaque tokens or modules; reflect.Value validity is the caller's duty (env.go doc)"]
        return res.finish()
    finally:
        shutil.rmtree(scratch, ignore_errors=True)
