"""C07: operands are evaluated exactly once, left to right; skipped operands never run."""
import interpcheck

def run(tier, seed, replay=None):
    return interpcheck.run_interp_check(
        "C07", "c07", ("trace", "result"), {"quick": 6000, "thorough": 200000}, tier, seed,
        rule="expression trees (depth <= 3) whose leaves are numbered probe calls (some raising after being evaluated) over every "
             "call path: script functions of arity 0-6 (direct path and reflect path), variadic script functions, wrong argument "
             "counts, spread calls into fixed and variadic functions, host functions fixed/variadic/spread, defer, array and map "
             "literals, binary operators, && || ?: ??, index and slice operands, return lists, multi-assignment; plus random "
             "programs; compared: the ordered probe log and the result; non-trivial = distinct source with a non-empty log",
        design_ref="DESIGN.md §4 C07")
