"""C07: operands are evaluated exactly once, left to right; skipped operands never run."""
import interpcheck

PRE = "func z() { probe(\"z\"); return 1 }\n"
EXPECT = [
    {"src": PRE + "z(probe(1))", "field": "trace", "want": "", "finding": None,
     "why": "a call with arguments to a function without parameters is rejected and evaluates nothing (it used to be accepted with the operand skipped)"},
    {"src": PRE + "r = z(probe(1)) ?? \"rejected\"; r", "field": "result", "want": "s:72656a6563746564", "finding": None,
     "why": "a call with arguments to a function without parameters is an error"},
    {"src": PRE + "z([probe(1)]...)", "field": "trace", "want": "(i:1);(s:7a)", "finding": "spread-into-noparam-skips-operands",
     "why": "a spread call of a function without parameters neither rejects the call nor evaluates its operands"},
    {"src": "func s2(a, b) { return b }\ns2(probe(1))", "field": "trace", "want": "", "finding": None,
     "why": "a call rejected for a wrong argument count evaluates no operand"},
    {"src": "probe2(probe(1))", "field": "trace", "want": "", "finding": None,
     "why": "a Go function call rejected for a wrong argument count evaluates no operand"},
    {"src": "x = probe(1) || probe(2); y = probe(0) && probe(3); z = true ? probe(4) : probe(5); w = probe(6) ?? probe(7)",
     "field": "trace", "want": "(i:1);(i:0);(i:4);(i:6)", "finding": None, "why": "short-circuit operators evaluate only what the result depends on"},
    {"src": "func s3(a, b, c) { return a }\ns3(probe(1), probe(2), probe(3)); [probe(4), probe(5)]; {probe(6): probe(7)}",
     "field": "trace", "want": "(i:1);(i:2);(i:3);(i:4);(i:5);(i:6);(i:7)", "finding": None, "why": "left to right, once"},
]
# address-of arguments of Go function calls: the operands of the addressed expression run once, before the call
EXPECT += [
    {"src": "m = {\"k\": 1}; hid(&m[probe(\"k\")]); 1", "field": "trace", "want": "(s:6b)", "finding": None,
     "why": "the index operand of an address-of argument of a Go function call is evaluated exactly once"},
    {"src": "q = [1, 2]; hid(&q[probe(0)]); 1", "field": "trace", "want": "(i:0)", "finding": None,
     "why": "the index operand of an address-of argument (list element) is evaluated exactly once"},
    {"src": "m = {\"k\": 1}; hid(&probe(m).k); 1", "field": "trace", "want": "({s:6b=>i:1})", "finding": None,
     "why": "the container operand of an address-of member argument is evaluated exactly once"},
    {"src": "m = {\"a\": 1}; hfix3(hid(&m[probe(\"a\")]), probe(\"b\"), probe(\"c\")); 1", "field": "trace",
     "want": "(s:61);(s:62);(s:63);(other:*interface {},s:62,s:63)", "finding": None,
     "why": "operands inside an address-of argument run once and before the arguments to their right"},
    {"src": "m = {\"k\": {\"j\": 1}}; hid(&m[probe(\"k\")][probe(\"j\")]); 1", "field": "trace", "want": "(s:6b);(s:6a)", "finding": None,
     "why": "nested index operands of an address-of argument are evaluated once, left to right"},
]
# a script function whose body runs into a Go-level fault that the interpreter contains: the call fails, its arguments ran once
BAD = "func bad(a) { return make([]int64, 4611686018427387904) }\nfunc bad3(a, b, c) { return make([]int64, 4611686018427387904) }\n"
EXPECT += [
    {"src": BAD + "r = bad(probe(1)) ?? \"E\"; r", "field": "trace", "want": "(i:1)", "finding": None,
     "why": "the argument of a call whose callee faults is evaluated exactly once"},
    {"src": BAD + "r = bad3(probe(1), probe(2), probe(3)) ?? \"E\"; r", "field": "trace", "want": "(i:1);(i:2);(i:3)", "finding": None,
     "why": "the arguments of a call whose callee faults are evaluated exactly once, in order"},
    {"src": BAD + "r = (probe(1) + bad(probe(2)) + probe(3)) ?? \"E\"; r", "field": "trace", "want": "(i:1);(i:2)", "finding": None,
     "why": "a faulting callee ends the evaluation: operands before it ran once, operands after it do not run"},
    {"src": BAD + "r = bad(probe(1)) ?? \"E\"; r", "field": "result", "want": "s:45", "finding": None,
     "why": "a fault inside a callee is an error of the call"},
]

# every statement form that takes a right-hand side evaluates it once, whatever kind of value it yields (a module, a
# function, a container, nil, an error value, a number)
_KINDS = [("a module", "module m { a = 1 }", "m"), ("a function", "f0 = func() { return 1 }", "f0"), ("a list", "l0 = [1]", "l0"), ("a map", "m0 = {\"k\": 1}", "m0"),
          ("nil", "n0 = nil", "n0"), ("an error value", "e0 = nil; try { throw \"x\" } catch q { e0 = q }", "e0"), ("a number", "i0 = 5", "i0"), ("a string", "s0 = \"s\"", "s0")]
for _kn, _decl, _val in _KINDS:
    for _form, _stmt in (("x = e", "x = pick()"), ("var x = e", "var x = pick()"), ("o.f = e", "o = {}; o.f = pick()"), ("a[i] = e", "a = [0]; a[0] = pick()"),
                         ("x, y = e, e", "x, y = pick(), pick2()"), ("x, y = e", "x, y = pick()"), ("x, y, z = e", "x, y, z = pick()"), ("o.f, a[0] = e", "o = {}; a = [0]; o.f, a[0] = pick()"),
                         ("var x, y = e", "var x, y = pick()"), ("x = c ? e : e", "x = probe(\"c\") ? pick() : pick2()"), ("x = e ?? e", "x = pick() ?? pick2()"),
                         ("return e", "func g() { return pick() }; g()"), ("f(e)", "func g(p) { }; g(pick())"), ("[e]", "x = [pick()]"), ("{k: e}", "x = {\"k\": pick()}"),
                         ("m[k] = e in a function", "func g() { o = {}; o[\"k\"] = pick(); return 1 }; g()"), ("x = (e)", "x = (pick())"), ("c <- e", "c = make(chan interface, 1); c <- pick()")):
        _want = {"x, y = e, e": "(s:70);(s:7032)", "x = c ? e : e": "(s:63);(s:70)"}.get(_form, "(s:70)")
        if _form == "x = e ?? e" and _kn == "nil":
            _want = "(s:70);(s:7032)"
        EXPECT.append({"src": "%s\nfunc pick() { probe(\"p\"); return %s }\nfunc pick2() { probe(\"p2\"); return %s }\n%s\nnil" % (_decl, _val, _val, _stmt), "field": "trace",
                       "want": _want, "finding": None, "why": "%s: the right-hand side yields %s and is evaluated exactly once" % (_form, _kn)})

# assignment targets: the operands of the target are evaluated once, too (after the right-hand side)
_TGT = "m = {\"x\": [0]}; a = [\"ab\"]\nfunc gm() { probe(\"m\"); return m }\nfunc ga() { probe(\"a\"); return a }\nfunc gk() { probe(\"k\"); return \"x\" }\nfunc gi(n) { probe(\"i\"); return n }\nfunc gv(x) { probe(\"v\"); return x }\n"
for _stmt, _want, _find, _why in (
        ("gm()[gk()][gi(0)] = gv(5)", "(s:76);(s:6d);(s:6b);(s:69)", None, "a store into an existing slot of a list reached through a map entry"),
        ("gm()[gk()] = gv(5)", "(s:76);(s:6d);(s:6b)", None, "a store into a map entry"),
        ("ga()[gi(0)] = gv(\"z\")", "(s:76);(s:61);(s:69)", None, "a store into a list slot"),
        ("gm()[gk()][gi(1)] = gv(5)", "(s:76);(s:6d);(s:6b);(s:69)", "store-back-reevaluates-target", "a store at index len (the list grows and is stored back) through a map entry"),
        ("ga()[gi(0)][gi(1)] = gv(\"Z\")", "(s:76);(s:61);(s:69);(s:69)", "store-back-reevaluates-target", "a store into a character of a string held in a list slot (the new string is stored back)"),
        ("ga()[gi(0)][gi(2)] = gv(\"Z\")", "(s:76);(s:61);(s:69);(s:69)", "store-back-reevaluates-target", "an append to a string held in a list slot")):
    EXPECT.append({"src": _TGT + _stmt + "\nnil", "field": "trace", "want": _want, "finding": _find, "why": "assignment target: " + _why + " evaluates the operands of the target exactly once"})
# an operand that cannot be converted for a Go parameter ends the evaluation of the operands after it
for _src, _want, _why in (
        ("hsum(\"p\", probe(1), probe(\"x\"), probe(3))\nnil", "(i:1);(s:78)", "typed variadic tail of a Go function, ill-typed operand in the middle"),
        ("hsum(\"p\", probe(\"x\"), probe(2), probe(3))\nnil", "(s:78)", "typed variadic tail, ill-typed first operand of the tail"),
        ("hsum(probe([1]), probe(2), probe(3))\nnil", "([i:1])", "ill-typed fixed operand before a variadic tail"),
        ("hsum(\"p\", probe(1), probe(2), probe(\"x\"))\nnil", "(i:1);(i:2);(s:78)", "typed variadic tail, ill-typed last operand"),
        ("hjoin(probe(\"a\"), probe([1]), probe(\"c\"))\nnil", "(s:61);([i:1])", "variadic string tail, ill-typed operand in the middle"),
        ("hfix2t(probe(1), probe([2]), probe(3))\nnil", "(i:1);([i:2])", "fixed parameters of a Go function, ill-typed operand in the middle"),
        ("hfix2t(probe(\"x\"), probe(\"b\"), probe(3))\nnil", "(s:78)", "fixed parameters of a Go function, ill-typed first operand"),
        ("hsum(\"p\", probe(1), probe(2), probe(3))", "(i:1);(i:2);(i:3)", "a well-typed call evaluates every operand once, in order")):
    EXPECT.append({"src": _src, "field": "trace", "want": _want, "why": "conversion for a Go parameter: " + _why})
# the same for a field of a struct value held in a list slot: the changed struct is stored back
_TGS = "sl = [make(struct { A int64 })]; ts = make([]struct { A int64 }, 1)\nfunc gs() { probe(\"s\"); return sl }\nfunc gt() { probe(\"t\"); return ts }\nfunc gi(n) { probe(\"i\"); return n }\nfunc gv(x) { probe(\"v\"); return x }\n"
EXPECT.append({"src": _TGS + "gt()[gi(0)].A = gv(5)\nnil", "field": "trace", "want": "(s:76);(s:74);(s:69)", "finding": None,
               "why": "assignment target: a store into a field of an element of a typed slice evaluates the operands of the target exactly once"})
EXPECT.append({"src": _TGS + "gs()[gi(0)].A = gv(5)\nnil", "field": "trace", "want": "(s:76);(s:73);(s:69)", "finding": "store-back-reevaluates-target",
               "why": "assignment target: a store into a field of a struct value held in a list slot (the changed struct is stored back) evaluates the operands of the target exactly once"})

# go calls: the operands run exactly once, in order, in the goroutine that executes the go statement - on every call path
_GO = "c = make(chan interface, 4)\nfunc w1(a) { c <- a }\nfunc w2(a, b) { c <- b }\nfunc w3(a, b, d) { c <- d }\nfunc w4(a, b, d, e) { c <- e }\nfunc w5(a, b, d, e, f) { c <- f }\nfunc w6(a, b, d, e, f, g) { c <- g }\nfunc wv(a, b...) { c <- a }\nfunc wz() { c <- 0 }\n"
for _call, _want, _why in (
        ("go w1(probe(\"a\"))", "(s:61)", "one fixed parameter"),
        ("go w2(probe(\"a\"), probe(\"b\"))", "(s:61);(s:62)", "two fixed parameters"),
        ("go w3(probe(\"a\"), probe(\"b\"), probe(\"d\"))", "(s:61);(s:62);(s:64)", "three fixed parameters"),
        ("go w4(probe(\"a\"), probe(\"b\"), probe(\"d\"), probe(\"e\"))", "(s:61);(s:62);(s:64);(s:65)", "four fixed parameters"),
        ("go w5(probe(\"a\"), probe(\"b\"), probe(\"d\"), probe(\"e\"), probe(\"f\"))", "(s:61);(s:62);(s:64);(s:65);(s:66)", "five fixed parameters"),
        ("go w6(probe(\"a\"), probe(\"b\"), probe(\"d\"), probe(\"e\"), probe(\"f\"), probe(\"g\"))", "(s:61);(s:62);(s:64);(s:65);(s:66);(s:67)", "six fixed parameters"),
        ("go wv(probe(\"a\"), probe(\"b\"), probe(\"d\"))", "(s:61);(s:62);(s:64)", "a variadic script function"),
        ("go wv(probe(\"a\"))", "(s:61)", "a variadic script function with an empty tail"),
        ("go w2(probe([1, 2])...)", "([i:1,i:2])", "a spread call of a fixed-parameter function"),
        ("go wv(probe(\"a\"), probe([1, 2])...)", "(s:61);([i:1,i:2])", "a spread call of a variadic function"),
        ("go func(a, b) { c <- a }(probe(\"a\"), probe(\"b\"))", "(s:61);(s:62)", "an anonymous function"),
        ("go func(a, b, d) { c <- a }(probe(probe(\"a\") + \"x\"), probe(\"b\"), [probe(\"d\")])", "(s:61);(s:6178);(s:62);(s:64)", "an anonymous function with nested operands"),
        ("g = {\"f\": w2}; go g[probe(\"f\")](probe(\"a\"), probe(\"b\"))", "(s:66);(s:61);(s:62)", "a computed callee")):
    EXPECT.append({"src": _GO + _call + "\n<-c\nnil", "field": "trace", "want": _want, "finding": None,
                   "why": "go call, %s: every operand is evaluated exactly once, left to right, before the goroutine starts" % _why})
EXPECT.append({"src": _GO + "go w1(probe(1), probe(2))\nnil", "field": "trace", "want": "", "finding": None,
               "why": "a go call rejected for a wrong argument count evaluates no operand"})


def run(tier, seed, replay=None):
    return interpcheck.run_interp_check(
        "C07", "c07", ("trace", "result"), {"quick": 6000, "thorough": 200000}, tier, seed,
        rule="expression trees (depth <= 3) whose leaves are numbered probe calls (some raising after being evaluated) over every "
             "call path: script functions of arity 0-6 (direct path and reflect path), variadic script functions, wrong argument "
             "counts, spread calls into fixed and variadic functions, host functions fixed/variadic/spread, defer, array and map "
             "literals, binary operators, && || ?: ??, index and slice operands (2 and 3 indices), member access, delete, return lists, "
             "multi-assignment, the two-target map read `v, ok = m[k]` with present / nil-valued / missing keys; plus random "
             "programs; compared: the ordered probe log and the result; non-trivial = distinct source with a non-empty log",
        design_ref="DESIGN.md §4 C07", expectations=EXPECT)
