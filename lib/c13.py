"""C13: an environment is safe to share between goroutines."""
import json, os, shutil
import common
from common import Result, CheckError

PID = "C13"
COUNTS = {"quick": 60, "thorough": 1500}


def build_sched_harness(scratch):
    """package env with sync.RWMutex swapped for env.VerifRWMutex through go build -overlay"""
    rep = {}
    envdir = os.path.join(common.REPO, "env")
    swapped = 0
    for f in sorted(os.listdir(envdir)):
        if f.endswith(".go") and not f.endswith("_test.go"):
            s = open(os.path.join(envdir, f)).read()
            if "sync.RWMutex" in s or "sync.Mutex" in s:
                swapped += s.count("sync.RWMutex") + s.count("sync.Mutex")
                s = s.replace("sync.RWMutex", "VerifRWMutex").replace("sync.Mutex", "VerifRWMutex") + "\nvar _ sync.Once\n"
                out = os.path.join(scratch, "ov_" + f)
                open(out, "w").write(s)
                rep[os.path.join(envdir, f)] = out
    rep[os.path.join(envdir, "zz_verif_sched.go")] = os.path.join(common.VERIF, "harness", "overlay", "zz_verif_sched.go.txt")
    ov = os.path.join(scratch, "overlay.json")
    json.dump({"Replace": rep}, open(ov, "w"))
    common.build_harness()      # writes .build/harness.mod
    out = os.path.join(scratch, "harness-c13")
    p = common.sh(["go", "build", "-modfile=" + common.harness_modfile(), "-overlay", ov,
                   "-tags", "verif,verif_sched", "-o", out, "."], cwd=os.path.join(common.VERIF, "harness"), env=common.GOENV, check=False)
    return out, p, swapped


def run(tier, seed, replay=None):
    res = Result(PID, tier, seed)
    bad = common.forbidden_scan()
    driver, ok_make, log = common.build_model()
    scratch = common.scratch_dir("c13")
    try:
        n = COUNTS.get(tier, COUNTS["quick"])
        hc13, p, swapped = build_sched_harness(scratch)
        if p.returncode != 0:
            # the env package no longer fits the scheduler build (e.g. another lock type): nothing can be explored
            res.violation({"property": PID, "kind": "package env does not build with its mutexes swapped for the scheduler-aware "
                           "wrapper; the schedule exploration cannot run", "build_output": p.stdout[-2500:]}, "no-failing-input-found")
            res.coverage = {"obligations": 1, "discharged": 0, "checker_cmd": "go build -overlay", "trusted_base": [], "evaluations": 0,
                            "distinct_nontrivial": 0}
            return res.finish()
        common.sh([hc13, "c13", "-seed", str(seed), "-n", str(n), "-out", scratch, "-repo", common.REPO], env=common.GOENV, timeout=6000)
        meta = json.load(open(os.path.join(scratch, "meta.json")))
        gen = os.path.join(scratch, "AnkoGen")
        shutil.copy(os.path.join(common.COQ, "Obligations", "C13.v"), os.path.join(scratch, "ObligationC13.v"))
        extra = ["-Q", gen, "AnkoGen"]
        ob = common.property_obligations(PID, extra_files=[(os.path.join(gen, "GenLocks.v"), gen, extra),
                                                           (os.path.join(scratch, "ObligationC13.v"), scratch, extra)])
        lines = common.run_driver(driver, os.path.join(scratch, "cases.sx"))
        outcomes = meta["outcomes"]
        nonlin = 0
        for o, line in zip(outcomes, lines):
            if line.strip() == "(ok)":
                continue
            nonlin += 1
            if len(res.violations) < 8:
                prog = meta["programs"][o["program"]]["program"]
                res.violation({"property": PID, "kind": "a schedule of the real env package produces results no one-at-a-time order explains"
                               if line.strip() == "(not-linearizable)" else "history not decodable by the model: " + line[:100],
                               "scopes": "0 = parent, 1 = shared child", "init": prog["init"], "threads": prog["threads"],
                               "schedule": o["sched"], "schedule_meaning": "at each lock acquisition: index into the sorted list of goroutines whose acquisition can proceed",
                               "observed_results": o["outs"], "final_scopes": o["final"],
                               "how_to_replay": "harness (overlay build) c13RunOnce(init, threads, schedule)"})
        dead = [(i, pm) for i, pm in enumerate(meta["programs"]) if pm["deadlocks"]]
        for i, pm in dead[:3]:
            res.violation({"property": PID, "kind": "deadlock: goroutines wait for locks none of them can get",
                           "init": pm["program"]["init"], "threads": pm["program"]["threads"], "schedule": pm["dead_sched"],
                           "note": "String, DeepCopy, Addr, GetEnvFromPath are explored for deadlock and panic only; LazyExt / PeekExt install an external lookup whose Get / Type call back into the scope they serve (Define resp. a symbol listing)"
                                   if pm["program"].get("reentrant") else ""})
        for i, pm in [(i, pm) for i, pm in enumerate(meta["programs"]) if pm.get("panics")][:2]:
            res.violation({"property": PID, "kind": "an environment operation panicked while an external lookup called back into its scope",
                           "init": pm["program"]["init"], "threads": pm["program"]["threads"]})
        # static table: concrete offenders for the replay file
        bad_acc = [a for a in meta["accesses"] if (a["write"] and a["lock"] != 2) or (not a["write"] and a["lock"] not in (1, 2))]
        # race detector stress
        hrace = common.build_harness(race=True)
        envr = dict(common.GOENV, GORACE="halt_on_error=1 exitcode=66")
        rounds = 150 if tier == "quick" else 4000
        pr = common.sh([hrace, "c13race", "-seed", str(seed), "-n", str(rounds)], env=envr, timeout=6000, check=False)
        raced = pr.returncode == 66 or "WARNING: DATA RACE" in pr.stdout
        if raced:
            res.violation({"property": PID, "kind": "data race inside package env under concurrent operations on one scope",
                           "race_report": pr.stdout[-3500:], "how_to_replay": "harness (-race) c13race -seed %d -n %d" % (seed, rounds)})
        elif pr.returncode == 67:
            res.violation({"property": PID, "kind": "concurrent operations on one scope deadlock: a round of environment operations never ended",
                           "goroutines": pr.stdout[-6000:], "how_to_replay": "harness (-race) c13race -seed %d -n %d" % (seed, rounds)})
        elif pr.returncode != 0:
            res.violation({"property": PID, "kind": "concurrent operations on one scope crash", "output": pr.stdout[-3000:],
                           "how_to_replay": "harness (-race) c13race -seed %d -n %d" % (seed, rounds)})
        for a in bad_acc[:6]:
            res.violation({"property": PID, "kind": "a map of a scope is accessed outside its lock (or written under the read lock)",
                           "access": a, "file_hint": "env/*.go func %s line %d" % (a["func"], a["line"]),
                           "note": "static finding (go/ast)" + ("" if raced else "; the race-detector stress of this run did not hit it")},
                          "" if raced else "no-failing-input-found")
        if bad:
            res.violation({"property": PID, "kind": "forbidden construct in the Coq development", "lines": bad}, "no-failing-input-found")
        if ob["failed"] and not res.violations:
            res.violation({"property": PID, "kind": "proof obligation no longer checks", "failed": ob["failed"],
                           "note": "lock table regenerated from env/*.go; exploration of %d schedules and the race stress found no failing history" % meta["total_runs"]},
                          "no-failing-input-found")
        progs = meta["programs"]
        res.coverage = {
            "obligations": ob["obligations"], "discharged": ob["discharged"], "theorems": ob["theorems"], "axioms": ob["axioms"],
            "closed_under_global_context": ob["closed_count"], "obligation_failures": ob["failed"],
            "checker_cmd": "make -C coq; coqc Properties/C13.v; per run: go build -overlay (env mutexes -> scheduler-aware wrapper), harness c13 "
                           "(DFS over all schedules, regenerates AnkoGen/GenLocks.v), coqc Obligations/C13.v, extracted model entry c13 "
                           "(linearizability search), harness -race c13race",
            "trusted_base": common.TRUSTED_COMMON + [
                "go build -overlay rewrite of package env: textual swap of sync.RWMutex for env.VerifRWMutex (harness/overlay/zz_verif_sched.go.txt); "
                "the scheduler (harness/c13sched.go) runs exactly one goroutine at a time and yields only at lock acquisitions",
                "go/ast lock-structure extractor harness/c13static.go (receiver-based, path-sensitive for early returns, loops unrolled twice)",
                "Go race detector"],
            "evaluations": meta["total_runs"], "distinct_nontrivial": len(outcomes),
            "rule": "9 directed + random programs: parent scope + shared child scope, 2-3 goroutines x 1-3 operations from Define, Set, Get, Delete, "
                    "DeleteGlobal, Symbols, DefineType, Type, TypeSymbols, Copy over keys a, b (child) and p (parent); every schedule of lock "
                    "acquisitions explored depth-first (cap per program %d runs); each distinct outcome (results + final scopes) checked "
                    "linearizable by the extracted model; non-trivial = distinct outcome" % (4000 if n <= 200 else 60000),
            "programs": len(progs), "programs_fully_explored": sum(1 for pm in progs if pm["complete"]),
            "max_schedules_one_program": max(pm["runs"] for pm in progs), "non_linearizable": nonlin, "deadlocks": len(dead),
            "mutex_fields_swapped": swapped, "lock_table_accesses": len(meta["accesses"]), "lock_table_methods": len(meta["methods"]),
            "unlocked_accesses": len(bad_acc), "race_rounds": rounds, "race_detected": raced,
            "samples": [{"threads": progs[i]["program"]["threads"], "runs": progs[i]["runs"], "outcomes": progs[i]["outcomes"]} for i in (0, 5)],
            "make_ok": ok_make,
        }
        res.assumptions = ["interleavings at lock-acquisition granularity only: code between two acquisitions runs without preemption "
                           "(unlocked accesses are the business of the lock table and the race detector)",
                           "the parent scope is touched only through the child (Set/Get/DeleteGlobal falling through)"]
        return res.finish()
    finally:
        shutil.rmtree(scratch, ignore_errors=True)
