"""C16: script channels and goroutines deliver every message once, in order."""
import json, os, shutil
import common
from common import Result, CheckError

PID = "C16"
COUNTS = {"quick": 250, "thorough": 12000}

EXPECT = [
    ("c = make(chan int64, 1); close(c); v = (<-c); v", "nil", "a receive expression on a closed and drained channel yields nil"),
    ("c = make(chan int64, 1); c <- 5; close(c); a = (<-c); b = (<-c); [a, b]", "[i:5,nil]", "buffered values are still delivered after close, then nil"),
    ("c = make(chan int64, 1); c <- 5; close(c); v = 0; v, ok = <-c; a = [v, ok]; v, ok = <-c; [a, v, ok]", "[[i:5,b:true],i:5,b:false]",
     "the two-value receive sets ok to false and leaves the value variable untouched"),
    ("c = make(chan interface, 3); c <- 1; c <- nil; c <- 3; close(c); r = []; for x in c { r += [x] }; r", "[i:1,nil,i:3]",
     "a nil sent on a channel of interface values is a message like any other: for-in goes on until the channel is closed"),
    ("c = make(chan interface); d = make(chan interface); go func() { for x in [1, nil, nil, 4] { c <- x }; close(c) }(); "
     "go func() { for x in c { d <- x }; close(d) }(); r = []; for x in d { r += [x] }; r", "[i:1,nil,nil,i:4]",
     "nil messages travel through a pipeline of for-in stages like any other value"),
    ("c = make(chan interface, 2); c <- nil; c <- 5; r = []; for { v, ok = <- c; r += [v, ok]; if len(r) > 3 { break } }; r", "[nil,b:true,i:5,b:true]",
     "a received nil with ok true is a message, not the end of the channel"),
    ("c = make(chan interface, 2); c <- nil; close(c); n = 0; for x in c { n++ }; v, ok = <- c; [n, ok]", "[i:1,b:false]",
     "for-in delivers a nil message once and ends at the close"),
    ("c = make(chan int64, 1); close(c); ok = true; if true { v, ok = <- c }; ok", "b:false",
     "the two-value receive sets the ok variable it names, also from a nested block"),
    ("c = make(chan int64, 1); c <- 5; close(c); ok = false; v = 0; func f() { v, ok = <- c }; f(); a = [v, ok]; f(); [a, v, ok]", "[[i:5,b:true],i:5,b:false]",
     "the two-value receive inside a function sets the outer variables it names"),
    ("c = make(chan int64, 1); close(c); ok = true; for i in [1] { try { v, ok = <- c } catch e { } }; ok", "b:false",
     "the two-value receive sets the ok variable from inside a loop and a try block"),
    ("c = make(chan int64, 1); close(c); r = \"ok\"; try { c <- 1 } catch e { r = \"E\" }; r", "s:45", "sending on a closed channel is an error, never a crash"),
    ("c = make(chan int64, 1); close(c); r = \"ok\"; try { close(c) } catch e { r = \"E\" }; r", "s:45", "closing twice is an error, never a crash"),
    ("x = 1; c = make(chan int64, 1); go func(v) { c <- v }(x); x = 2; (<-c)", "i:1", "a go call evaluates its arguments before it starts"),
    ("c = make(chan float64, 1); c <- 1; (<-c)", "f:4607182418800017408", "a sent value is converted to the channel's element type"),
    ("c = make(chan string, 1); r = \"ok\"; try { c <- 1.5 } catch e { r = \"E\" }; r", "s:45", "a value that cannot be converted to the element type is an error"),
    ("c = make(chan int64, 3); c <- 1; c <- 2; c <- 3; [(<-c), (<-c), (<-c)]", "[i:1,i:2,i:3]", "FIFO"),
    ("c = make(chan int64); d = make(chan int64); go func() { for x in c { d <- x * 10 }; close(d) }(); go func() { c <- 1; c <- 2; close(c) }(); r = []; for x in d { r += [x] }; r",
     "[i:10,i:20]", "for-in over a channel ends when it is closed"),
]

# a go call evaluates its arguments before it starts: a dispatcher that hands ids to producers through one reused place
# (list slot, element of a typed slice, map entry) and overwrites it straight away; every id must arrive exactly once
for _init, _slot in (("slot = [0]", "slot[0]"), ("slot = make([]int64, 1)", "slot[0]"), ("slot = {\"k\": 0}", "slot.k"), ("slot = [[0]]", "slot[0][0]")):
    for _what, _decl, _call in (
            ("a script function (direct path)", "func produce(id, out) { out <- id }", "go produce(%s, c)"),
            ("a script function of five parameters", "func produce(id, out, x, y, z) { out <- id }", "go produce(%s, c, 0, 0, 0)"),
            ("a script function, the slot read last", "func produce(out, id) { out <- id }", "go produce(c, %s)"),
            ("a variadic script function", "func produce(out, ids...) { out <- ids[0] }", "go produce(c, %s)"),
            ("a function literal", "", "go func(id) { c <- id }(%s)"),
            ("a Go function", "", "go hsend(c, %s)")):
        EXPECT.append(("%s; c = make(chan interface, %%d); %s\nfor i in [1, 2, 3, 4, 5, 6, 7, 8] { %s = i; %s }; %s = 0\n"
                       "seen = [0, 0, 0, 0, 0, 0, 0, 0, 0]; for k in [1, 2, 3, 4, 5, 6, 7, 8] { v = (<-c); seen[v] += 1 }; seen"
                       % (_init, _decl, _slot, _call % _slot, _slot) % (0 if "five" in _what or "literal" in _what else 8),
                       "[i:0,i:1,i:1,i:1,i:1,i:1,i:1,i:1,i:1]", "a go call of %s evaluates its arguments before it starts (ids handed over through %s)" % (_what, _slot)))

# a go call starts the callee with exactly the arguments of the statement, each bound to its own parameter, for every
# number of parameters (the direct path takes 0-4, the reflect path more; variadic and Go callees)
for _n in range(0, 7):
    _params = ", ".join("p%d" % i for i in range(_n))
    _args = ", ".join(str(10 * (i + 1)) for i in range(_n))
    _want = "[" + ",".join("i:%d" % (10 * (i + 1)) for i in range(_n)) + "]"
    EXPECT.append(("c = make(chan interface, 1)\nfunc f(%s) { c <- [%s] }\ngo f(%s)\n(<-c)" % (_params, _params, _args), _want,
                   "a go call of a script function with %d parameters binds every argument to its own parameter" % _n))
    EXPECT.append(("c = make(chan interface, 1)\ng = func(%s) { c <- [%s] }\ngo g(%s)\n(<-c)" % (_params, _params, _args), _want,
                   "a go call of a function value with %d parameters binds every argument to its own parameter" % _n))
    if _n > 0:
        EXPECT.append(("c = make(chan interface, 1)\nfunc f(%s...) { c <- [%s] }\ngo f(%s)\n(<-c)" % (_params, _params, _args),
                       "[" + ",".join(["i:%d" % (10 * (i + 1)) for i in range(_n - 1)] + ["[i:%d]" % (10 * _n)]) + "]",
                       "a go call of a variadic script function with %d parameters" % _n))
        EXPECT.append(("c = make(chan interface, 1)\nfunc f(%s) { c <- [%s] }\ngo f([%s]...)\n(<-c)" % (_params, _params, _args), _want,
                       "a go call with a spread into %d parameters" % _n))
EXPECT.append(("mid = make(chan interface); out = make(chan interface, 1)\nfunc relay() { defer func() { close(out) }(); for { mid <- 1 } }\nclose(mid)\ngo relay()\nr = []; for x in out { r += x }; r", "[]",
               "a stage whose send hits a closed channel fails with an error: its deferred close still runs and the consumer's for-in ends"))
EXPECT.append(("c = make(chan interface, 3)\ngo hsend(c, 1)\ngo hsend(c, 2)\ngo hsend(c, 3)\na = (<-c) + (<-c) + (<-c)\na", "i:6", "go calls of a Go function deliver their arguments"))

# the relay form `dst <- src` (src a channel): one item of src, converted to dst's element type like any sent value
for _mk_src, _put, _mk_dst, _want, _why in (
        ("make(chan interface, 1)", "5", "make(chan int64, 1)", "i:5", "an int64 out of a chan interface into a chan int64"),
        ("make(chan interface, 1)", "5", "make(chan float64, 1)", "f:4617315517961601024", "an int64 out of a chan interface into a chan float64"),
        ("make(chan interface, 1)", "[1, 2]", "make(chan []int64, 1)", "other:[]int64:[1 2]", "a list out of a chan interface into a chan []int64"),
        ("make(chan int64, 1)", "5", "make(chan interface, 1)", "i:5", "a typed item into a chan interface"),
        ("make(chan int64, 1)", "5", "make(chan int64, 1)", "i:5", "same element types"),
        ("make(chan int64, 1)", "5", "make(chan float64, 1)", "f:4617315517961601024", "int64 into float64"),
        ("make(chan interface, 1)", "\"s\"", "make(chan string, 1)", "s:73", "a string out of a chan interface into a chan string")):
    EXPECT.append(("src = %s; dst = %s; src <- %s; dst <- src; (<-dst)" % (_mk_src, _mk_dst, _put), _want, "relay `dst <- src`: " + _why))
EXPECT.append(("src = make(chan interface); dst = make(chan int64)\ngo func() { for x in [1, 2, 3] { src <- x }; close(src) }()\n"
               "go func() { defer func() { close(dst) }(); for i = 0; i < 3; i++ { dst <- src } }()\nr = []; for x in dst { r += x }; r", "[i:1,i:2,i:3]",
               "a relay stage between a chan interface and a chan int64 delivers every item"))
EXPECT.append(("src = make(chan interface, 1); dst = make(chan int64, 1); src <- \"x\"; r = \"ok\"; try { dst <- src } catch e { r = \"E\" }; r", "s:45",
               "a relayed item without a conversion to the element type is an error"))

# a for-in over one channel keeps receiving from that channel whatever else is received in its body
_AB = "a = make(chan interface, 3); b = make(chan interface, 3)\nfor x in [1, 2, 3] { a <- x }; for x in [\"p\", \"q\", \"r\"] { b <- x }; close(a); close(b)\n"
for _recv, _how in (("y = (<-b)", "a receive expression"), ("y = nil; y = <-b", "a receive statement"), ("y = nil; y, ok = <-b", "a two-value receive"),
                    ("t = make(chan interface, 1); t <- b; y = (<-t)", "a relay t <- b")):
    EXPECT.append((_AB + "r = []\nfor x in a { %s; r += [[x, y]] }\nr" % _recv, "[[i:1,s:70],[i:2,s:71],[i:3,s:72]]",
                   "a for-in over one channel with %s from another channel in its body pairs the two streams (zip stage)" % _how))
    EXPECT.append((_AB + "func zip() { r = []; for x in a { %s; r += [[x, y]] }; return r }\nzip()" % _recv, "[[i:1,s:70],[i:2,s:71],[i:3,s:72]]",
                   "... also inside a function"))
EXPECT.append((_AB + "r = []\nfor x in a { for y in b { r += [[x, y]] } }\nr", "[[i:1,s:70],[i:1,s:71],[i:1,s:72]]",
               "a for-in over a channel nested in a for-in over another channel: each loop drains its own channel"))
EXPECT.append(("a = make(chan interface); b = make(chan interface); out = make(chan interface)\n"
               "go func() { for x in [1, 2, 3] { a <- x }; close(a) }()\ngo func() { for x in [10, 20, 30] { b <- x }; close(b) }()\n"
               "go func() { for x in a { out <- x + (<-b) }; close(out) }()\nr = []; for s in out { r += s }; r", "[i:11,i:22,i:33]",
               "a zip stage between two producers and a collector delivers the pairwise sums in order"))
EXPECT.append(("work = make(chan interface, 3); stop = make(chan interface, 3)\nfor x in [10, 20, 30] { work <- x; stop <- false }; close(work)\n"
               "r = []\nfor w in work { s, ok = <-stop; if s { break }; r += w }\nr", "[i:10,i:20,i:30]",
               "a worker loop that polls a stop channel per item still receives every item of its work channel"))

# a for-in over a channel takes one item per iteration: what it has not been handed stays in the channel for the next receiver
_C5 = "c = make(chan interface, 5)\nfor x in [1, 2, 3, 4, 5] { c <- x }\nclose(c)\n"
EXPECT.append((_C5 + "for x in c { if x == 2 { break } }\nr = []; for x in c { r += x }; r", "[i:3,i:4,i:5]", "a for-in left by break leaves the items it was not handed in the channel"))
EXPECT.append((_C5 + "for x in c { if x == 2 { break } }\nlen(c)", "i:3", "... and they still count in len"))
EXPECT.append((_C5 + "func head(ch) { for x in ch { return x } }\nh = head(c)\nr = [h]; for x in c { r += x }; r", "[i:1,i:2,i:3,i:4,i:5]", "a for-in left by return inside a function: the next reader gets the rest"))
EXPECT.append((_C5 + "try { for x in c { if x == 3 { throw \"stop\" } } } catch e { }\nr = []; for x in c { r += x }; r", "[i:4,i:5]", "a for-in left by an error: the next reader gets the rest"))
EXPECT.append((_C5 + "n = 0\nfor x in c { n++; if n == 2 { break } }\nv, ok = <-c\n[v, ok]", "[i:3,b:true]", "a two-value receive after a for-in that was left early gets the next item"))
EXPECT.append((_C5 + "out = make(chan interface, 5)\nfunc first(ch) { for x in ch { return x } }\nhd = first(c)\ngo func() { for x in c { out <- x * 10 }; close(out) }()\nr = [hd]; for x in out { r += x }; r",
               "[i:1,i:20,i:30,i:40,i:50]", "a header reader that returns from its for-in, then a goroutine stage relaying the rest"))
EXPECT.append(("c = make(chan interface, 3); c <- 1; c <- 2; c <- 3\nfor x in c { break }\n[<-c, <-c]", "[i:2,i:3]", "a for-in over an open buffered channel left at its first item"))


def run(tier, seed, replay=None):
    res = Result(PID, tier, seed)
    harness = common.build_harness()
    bad = common.forbidden_scan()
    driver, ok_make, log = common.build_model()
    scratch = common.scratch_dir("c16")
    try:
        n = COUNTS.get(tier, COUNTS["quick"])
        common.sh([harness, "c16", "-seed", str(seed), "-n", str(n), "-out", scratch], env=common.GOENV, timeout=30000)
        ob = common.property_obligations(PID)
        meta = json.load(open(os.path.join(scratch, "meta.json")))
        lines = common.run_driver(driver, os.path.join(scratch, "cases.sx"))
        nbad, runs, shapes = 0, 0, {}
        for p, ml in zip(meta["programs"], lines):
            m = ml.strip()
            key = "%d stages/%s/consumer%d" % (len(p["stages"] or []), p["elem"], p["consumer"])
            shapes[key] = shapes.get(key, 0) + 1
            if not m.startswith("(done "):
                raise CheckError("the channel machine did not finish a pipeline: " + m)
            want = m[len("(done "):-1]
            for k, got in enumerate(p["runs"]):
                runs += 1
                if got.replace(" ", "") == want.replace(" ", ""):
                    continue
                nbad += 1
                if len(res.violations) < 8:
                    res.violation({"property": PID, "kind": "a pipeline run did not deliver every item once and in order" if not got.startswith(("error", "TIMEOUT")) else
                                   "a pipeline run did not finish: " + got[:200],
                                   "source": p["src"], "collected_by_the_consumer": got[:600], "required": want[:600], "run": k,
                                   "how_to_replay": "vm.Execute(source) repeatedly with runtime.GOMAXPROCS in {1,2,3,4,8,16}; schedule dependent"})
                break
        # fan-in programs: every run's collected list judged by the extracted verdict fanin_ok (Chan/FanIn.v)
        fans = meta.get("fans") or []
        flines = common.run_driver(driver, os.path.join(scratch, "fan.sx")) if fans else []
        fi, fan_runs, fan_bad = 0, 0, 0
        for f in fans:
            for k, got in enumerate(f["runs"]):
                verdict = flines[fi].strip()
                fi += 1
                fan_runs += 1
                if verdict == "(ok)":
                    continue
                fan_bad += 1
                nbad += 1
                if len(res.violations) < 8:
                    sent = sum(f["ns"])
                    res.violation({"property": PID, "kind": "several producers into one channel: the consumer did not receive every value exactly once in each producer's order"
                                   if got.startswith("(") else "a fan-in run did not finish: " + got[:200],
                                   "source": f["src"], "values_sent": sent, "values_collected": len(got.strip("()").split()) if got.startswith("(") else None,
                                   "collected_by_the_consumer": got[:400], "model_verdict": verdict, "run": k,
                                   "how_to_replay": "vm.Execute(source) repeatedly with runtime.GOMAXPROCS in {1,2,3,4,8,16}; schedule dependent"})
                break
        # directed expectations on the implementation
        sf = os.path.join(scratch, "expect.json")
        # every directed program twice: under a context (RunContext) and through vm.Run, which has none (ctx.Done() is nil)
        expect = EXPECT + [("#plain\n" + e[0], e[1], e[2] + " [run with vm.Run, no context]") for e in EXPECT]
        json.dump([e[0] for e in expect], open(sf, "w"))
        common.sh([harness, "interp", "-srcfile", sf, "-out", scratch], env=common.GOENV, timeout=600)
        drecs = [json.loads(l) for l in open(os.path.join(scratch, "directed.jsonl"))]
        nexp = 0
        for e, rec in zip(expect, drecs):
            got = rec["impl"].get("result") if rec["impl"]["status"] == "ok" else rec["impl"]["status"] + ":" + str(rec["impl"].get("msg"))
            if str(got) != e[1]:
                nexp += 1
                res.violation({"property": PID, "kind": "the implementation contradicts the property on a directed program: " + e[2],
                               "source": e[0], "required": e[1], "implementation": got})
        if bad:
            res.violation({"property": PID, "kind": "forbidden construct in the Coq development", "lines": bad}, "no-failing-input-found")
        if ob["failed"] and not res.violations:
            res.violation({"property": PID, "kind": "proof obligation no longer checks", "failed": ob["failed"]}, "no-failing-input-found")
        res.coverage = {
            "obligations": ob["obligations"], "discharged": ob["discharged"], "theorems": ob["theorems"], "axioms": ob["axioms"],
            "closed_under_global_context": ob["closed_count"], "obligation_failures": ob["failed"],
            "checker_cmd": "make -C coq; coqc Properties/C16.v; harness c16 (real interpreter, %d runs per program under GOMAXPROCS 1/2/3/4/8/16, 4 s limit); "
                           "extracted channel machine entry c16" % meta["runs_per_program"],
            "trusted_base": common.TRUSTED_COMMON + ["the Go runtime's scheduler decides which schedules are exercised: the runs sample them, the theorems on the "
                                                     "abstract machine cover all of them", "an unbuffered channel is modelled with one slot"],
            "fan_in_programs": len(fans), "fan_in_runs": fan_runs, "fan_in_bad": fan_bad,
            "fan_in_shapes": sorted(set("%d producers/cap %d" % (len(f["ns"]), f["cap"]) for f in fans)),
            "evaluations": runs + fan_runs + len(EXPECT), "distinct_nontrivial": len(set(p["src"] for p in meta["programs"] if p["items"])),
            "rule": "random pipelines: 0-4 mapping stages (x, x+1, x*2, x-3, -x), channel capacities 0-5, element types int64 / interface / float64, "
                    "0-40 items, producer as for-in, counted loop, `go produce(ch, items...)` (variadic + spread) or `go produce(ch, items)` with the list reassigned afterwards, stages as anonymous or named functions started with arguments, consumer as for-in, two-value receive statement (in the loop body, in a nested block with ok declared outside, or inside a function and try block) or receive expression until nil; "
                    "each run repeatedly; the collected list must equal the channel machine's; fan-in programs (2-4 producers of 0-300 values each, named or "
                    "anonymous, into one channel of capacity 0-5, a closer goroutine, one consumer; three heavy ones: 4 x 1500 values through one slot) run "
                    "repeatedly and judged by the extracted verdict fanin_ok; plus %d directed programs (close semantics, conversion, go "
                    "argument evaluation, FIFO)" % len(EXPECT),
            "programs": len(meta["programs"]), "runs": runs, "bad_runs": nbad, "directed_mismatches": nexp, "shapes": shapes,
            "samples": [{"src": p["src"], "runs": p["runs"][:2]} for p in meta["programs"][:2]], "make_ok": ok_make,
        }
        res.assumptions = ["items are small integers so that every stage function is exact in int64 and float64",
                           "a run that does not finish within 4 s counts as a violation"]
        return res.finish()
    finally:
        shutil.rmtree(scratch, ignore_errors=True)
