"""C10: slices, maps, strings and struct fields behave like their Go models."""
import json, os
import common, interpcheck

COUNTS = {"quick": 1500, "thorough": 60000}


def run(tier, seed, replay=None):
    n = COUNTS.get(tier, COUNTS["quick"])
    harness = common.build_harness()
    sd = common.scratch_dir("c10gen")
    try:
        common.sh([harness, "c10", "-seed", str(seed), "-n", str(n), "-out", sd], env=common.GOENV, timeout=3000)
        data = json.load(open(os.path.join(sd, "c10.json")))
    finally:
        import shutil
        shutil.rmtree(sd, ignore_errors=True)
    # what is read out of a container is a value: it does not change when the container does
    detached = [
        ("a = make([]int64, 1); b = a[0]; a[0] = 9; b", "i:0", "a number read from a typed slice into a variable is a copy"),
        ("a = make([]int64, 1); var b = a[0]; a[0] = 9; b", "i:0", "var binds a copy of a typed slice element"),
        ("a = make([]string, 1); a[0] = \"x\"; b = a[0]; a[0] = \"y\"; b", "s:78", "a string read from a typed slice is a copy"),
        ("s = make(struct { A int64 }); b = s.A; s.A = 5; b", "i:0", "a number read from a struct field is a copy"),
        ("a = [1, 2]; a[0], a[1] = a[1], a[0]; a", "[i:2,i:1]", "a multiple assignment reads all its right-hand sides before it stores: elements swap"),
        ("a = make([]int64, 2); a[1] = 2; a[0] = 1; a[0], a[1] = a[1], a[0]; [a[0], a[1]]", "[i:2,i:1]", "typed elements swap"),
        ("m = {\"x\": 1, \"y\": 2}; m.x, m.y = m.y, m.x; [m.x, m.y]", "[i:2,i:1]", "map entries swap"),
        ("a = make([]int64, 1); func f(x) { a[0] = 7; return x }; f(a[0])", "i:0", "an argument read from a typed slice element is passed by value"),
        ("a = make([]int64, 1); func f(x, y, z, u, v) { a[0] = 7; return x }; f(a[0], 1, 2, 3, 4)", "i:0", "an argument read from a typed slice element is passed by value (5 parameters)"),
        ("a = make([]int64, 2); r = []; for x in a { a[0] = 5; a[1] = 6; r += x }; r", "[i:0,i:6]", "the loop variable of a for-in over a typed slice holds the element's value at its iteration"),
        ("a = [1]; b = a[0]; a[0] = 9; [b, a[0]]", "[i:1,i:9]", "an element read from a list is a copy"),
    ]
    # slices and maps are reference values when passed: every call path hands on the container itself
    shared = []
    for call, decl, why in (
            ("f(a)", "func f(xs) { xs[0] = 9 }", "a list passed to a script function"),
            ("f(a, 1, 2, 3, 4)", "func f(xs, p, q, r, s) { xs[0] = 9 }", "a list passed to a script function of five parameters"),
            ("f(a...)", "func f(xs...) { xs[0] = 9 }", "a list spread into a variadic script function (Go passes the slice itself)"),
            ("f(7, a...)", "func f(p, xs...) { xs[0] = 9 }", "a list spread into the variadic tail after a fixed parameter"),
            ("f(1, a)", "func f(p, xs...) { xs[0][0] = 9 }", "a list passed inside the variadic tail"),
            ("func() { defer f(a) }()", "func f(xs) { xs[0] = 9 }", "a list passed to a deferred call"),
            ("f([a]...)", "func f(xs) { xs[0] = 9 }", "a list passed through a spread into a fixed parameter"),
            ("g = func(xs) { xs[0] = 9 }; g(a)", "", "a list passed to a function value")):
        shared.append(("%s\na = [1, 2]\n%s\na" % (decl, call), "[i:9,i:2]", why + " is the caller's list: a store through the parameter shows in it"))
        shared.append(("%s\nc = [0, 1, 2]\na = c[1:]\n%s\nc" % (decl, call), "[i:0,i:9,i:2]", why + ", the list being a view of another: the store shows in the source"))
        shared.append(("%s\na = {\"k\": [1, 2]}.k\nb = a\n%s\nb" % (decl, call), "[i:9,i:2]", why + ", reached through a second name"))
    for call, decl, why in (("f(m)", "func f(x) { x.k = 9 }", "a map passed to a script function"), ("f(1, m)", "func f(p, xs...) { xs[0].k = 9 }", "a map passed in a variadic tail"),
                            ("f([m]...)", "func f(x) { x.k = 9 }", "a map passed through a spread")):
        shared.append(("%s\nm = {\"k\": 1}\n%s\nm.k" % (decl, call), "i:9", why + " is the caller's map"))
    detached += shared
    # a slice, map or pointer read from a typed slot is a reference to what the slot held, not to the slot
    detached += [
        ("a = make([][]int64, 1); a[0] = [1, 2]; b = a[0]; a[0] = [7]; [b, a[0]]", "[other:[]int64:[1 2],other:[]int64:[7]]", "a slice read from a slot of a [][]int64 does not follow a later store into the slot"),
        ("a = make([][]int64, 1); a[0] = [1, 2]; b = a[0]; b[0] = 9; a[0]", "other:[]int64:[9 2]", "... and still shares its elements with what the slot holds"),
        ("a = make([]map[string]int64, 1); a[0] = {\"k\": 1}; b = a[0]; a[0] = {\"k\": 2}; [b.k, a[0].k]", "[i:1,i:2]", "a map read from a slot of a []map[string]int64"),
        ("s = make(struct { L []int64 }); s.L = [1]; b = s.L; s.L = [2]; [b, s.L]", "[other:[]int64:[1],other:[]int64:[2]]", "a slice read from a struct field"),
        ("a = make([][]int64, 1); a[0] = [1, 2]; func f(x) { a[0] = [7]; return x }; f(a[0])", "other:[]int64:[1 2]", "a slice read from a slot and passed to a function"),
        ("a = make([][]int64, 1); a[0] = [1, 2]; var b = a[0]; a[0] = [7]; b", "other:[]int64:[1 2]", "var binds what the slot held"),
        ("a = make([][]int64, 2); a[0] = [1]; a[1] = [2]; a[0], a[1] = a[1], a[0]; [a[0], a[1]]", "[other:[]int64:[2],other:[]int64:[1]]", "slots of slice kind swap"),
        ("a = make([]*int64, 1); a[0] = new(int64); p = a[0]; *p = 4; a[0] = nil; *p", "i:4", "a pointer read from a slot of a []*int64"),
    ]
    # an ill-typed operand yields an error and leaves the container unchanged - also the part of its storage it shares with a view
    detached += [
        ("a = make([]int64, 3); b = a[0:1]; r = \"ok\"; try { b += [7, \"x\"] } catch e { r = \"E\" }; [r, a, b]", "[s:45,other:[]int64:[0 0 0],other:[]int64:[0]]",
         "a typed append that fails on a later element has appended none: the source of the view is untouched"),
        ("a = make([]int64, 3); b = a[0:1]; r = (b + [7, \"x\"]) ?? \"E\"; [r, a]", "[s:45,other:[]int64:[0 0 0]]", "the same with +"),
        ("a = make([]string, 3); b = a[0:1]; try { b += [\"p\", 5, [1]] } catch e { }; a", "other:[]string:[  ]", "a failing append to a view of a []string"),
        ("a = make([][]int64, 2); b = a[0:1]; try { b += [[1], [\"x\"]] } catch e { }; [len(a[0]), len(a[1])]", "[i:0,i:0]", "a failing append of lists to a view of a [][]int64"),
        ("a = make([]int64, 3); b = a[0:1]; b += [7, 8.9]; [a, b]", "[other:[]int64:[0 7 8],other:[]int64:[0 7 8]]", "a typed append that succeeds writes through the shared capacity as Go's append does"),
    ]
    # a list unpacked into several targets hands each target the value the element had then
    detached += [
        ("a = [1, 2]; p, q = a; a[0] = 7; a[1] = 8; [p, q]", "[i:1,i:2]", "names bound by unpacking a list hold copies of its elements"),
        ("a = [1, 2]; var p, q = a; a[0] = 7; a[1] = 8; [p, q]", "[i:1,i:2]", "var names bound by unpacking a list hold copies of its elements"),
        ("a = [nil, 2]; p, q = a; a[0] = 7; p", "nil", "a nil element unpacked into a name stays nil"),
        ("a = [nil, 2]; p = a[0]; a[0] = 7; p", "nil", "a nil element assigned to a name stays nil"),
        ("a = make([]int64, 2); p, q = a; a[0] = 7; a[1] = 8; [p, q]", "[i:0,i:0]", "names bound by unpacking a typed slice hold copies"),
        ("a = make([]int64, 2); var p, q = a; a[0] = 7; [p, q]", "[i:0,i:0]", "var names bound by unpacking a typed slice hold copies"),
        ("a = [1, 2]; b = [0, 0]; b[0], b[1] = a; a[0] = 7; b", "[i:1,i:2]", "elements assigned by unpacking a list are copies"),
        ("a = [[1], 2]; p, q = a; p[0] = 7; a[0]", "[i:7]", "a list element unpacked into a name is still a reference to that list"),
        ("func f() { return [1, 2] }; a = f(); p, q = a; a[0] = 7; p", "i:1", "unpacking the list a function returned"),
    ]
    # an operand read from a slot is the value the slot had when the operand was evaluated: a later operand of the same expression
    # that writes to the slot does not change it
    _T = "a = make([]int64, 2); a[0] = 1; func f() { a[0] = 10; return 0 }; "
    _L = "a = [1, 2]; func f() { a[0] = 10; return 0 }; "
    for _pre, _what in ((_T, "a typed slice element"), (_L, "a list element")):
        detached += [
            (_pre + "a[0] + f()", "i:1", "left operand of +: " + _what), (_pre + "a[0] - f()", "i:1", "left operand of -: " + _what),
            (_pre + "a[0] * (f() + 3)", "i:3", "left operand of *: " + _what), (_pre + "a[0] < (f() + 5)", "b:true", "left operand of <: " + _what),
            (_pre + "a[0] == (f() + 1)", "b:true", "left operand of ==: " + _what), (_pre + "a[0] | f()", "i:1", "left operand of |: " + _what),
            (_pre + "a[0] in [f() + 1]", "b:true", "left operand of in: " + _what), (_pre + "a[0] in [f() + 10]", "b:false", "left operand of in: " + _what),
            (_pre + "{a[0]: f()}[1]", "i:0", "key of a map literal: " + _what), (_pre + "map[int64]int64{a[0]: f()}[1]", "i:0", "key of a typed map literal: " + _what),
            (_pre + "[a[0], f(), a[0]]", "[i:1,i:0,i:10]", "elements of a list literal are evaluated in order: " + _what),
        ]
    # a store at index len that cannot be completed (the grown slice has nowhere to be assigned to) is an error that leaves the
    # source unchanged - also the spare capacity it shares with the target
    for _mk, _show in (("a = [1, 2, 3]", "[i:1,i:2,i:3]"), ("a = make([]int64, 3)", "other:[]int64:[0 0 0]")):
        detached += [
            (_mk + "; func f() { return a[0:1] }; r = \"ok\"; try { f()[1] = 9 } catch e { r = \"E\" }; [r, a]", "[s:45," + _show + "]", "a store at index len into the slice a function returned"),
            (_mk + "; v = a[0:1]; r = \"ok\"; try { v[0:1][1] = 9 } catch e { r = \"E\" }; [r, a]", "[s:45," + _show + "]", "a store at index len into a slice expression"),
            (_mk + "; v = a[0:1]; r = \"ok\"; try { (v[0:1])[1] = 9 } catch e { r = \"E\" }; [r, a]", "[s:45," + _show + "]", "... in parentheses"),
            (_mk + "; v = a[0:1]; r = \"ok\"; try { (true ? v : v)[1] = 9 } catch e { r = \"E\" }; [r, a]", "[s:45," + _show + "]", "a store at index len into a ternary"),
        ]
    detached += [
        ("a = [1, 2, 3]; v = a[0:1]; v[1] = 9; [a, v]", "[[i:1,i:9,i:3],[i:1,i:9]]", "a store at index len into a variable appends within the shared capacity, as Go's append does"),
        ("a = [1, 2, 3]; m = {\"v\": a[0:1]}; m.v[1] = 9; [a, m.v]", "[[i:1,i:9,i:3],[i:1,i:9]]", "... into a map entry"),
        ("a = [1, 2, 3]; l = [a[0:1]]; (l[0])[1] = 9; [a, l[0]]", "[[i:1,i:9,i:3],[i:1,i:9]]", "... into a parenthesised element"),
    ]
    # a store into a character of a string gives the same new string wherever the string sits: a variable, a list slot, a typed slot,
    # a struct field (s[:i] + v + s[i+1:], whatever the length of v)
    for _mk, _t in (("t = \"abc\"", "t"), ("l = [\"abc\"]", "l[0]"), ("a = make([]string, 1); a[0] = \"abc\"", "a[0]"), ("s = make(struct { S string }); s.S = \"abc\"", "s.S"),
                    ("m = map[string]string{\"k\": \"abc\"}", "m.k"), ("a = make([][]string, 1); a[0] = [\"abc\"]", "a[0][0]")):
        detached += [
            ("%s; %s[1] = \"xyz\"; %s" % (_mk, _t, _t), "s:6178797a63", "several bytes stored at an index of a string held in " + _t),
            ("%s; %s[1] = \"\"; %s" % (_mk, _t, _t), "s:6163", "no byte stored at an index of a string held in " + _t),
            ("%s; %s[0] = \"q\"; %s" % (_mk, _t, _t), "s:716263", "one byte stored at an index of a string held in " + _t),
            ("%s; %s[3] = \"xyz\"; %s" % (_mk, _t, _t), "s:61626378797a", "a store at index len of a string held in " + _t),
        ]
    # three-index slices: 0 <= lo <= hi <= max <= cap(a) as in Go, the capacity of the source counts, not its length
    detached += [
        ("a = [1, 2, 3, 4, 5]; b = a[0:2]; c = b[0:1:4]; c += [9, 8, 7]; [a, c]", "[[i:1,i:9,i:8,i:7,i:5],[i:1,i:9,i:8,i:7]]",
         "a[lo:hi:max] with len < max <= cap is allowed and appends within max write the shared storage"),
        ("a = [1, 2, 3, 4, 5]; b = a[0:2]; c = b[0:1:5]; c += [9, 8, 7, 6]; [a, c]", "[[i:1,i:9,i:8,i:7,i:6],[i:1,i:9,i:8,i:7,i:6]]", "max equal to the capacity of the source"),
        ("a = [1, 2, 3, 4, 5]; b = a[0:2]; (b[0:1:6]) ?? \"E\"", "s:45", "max beyond the capacity is an error"),
        ("a = [1, 2, 3, 4, 5]; b = a[1:3]; c = b[1:2:4]; c += [9, 8]; [a, c]", "[[i:1,i:2,i:3,i:9,i:8],[i:3,i:9,i:8]]", "the capacity counts from the view's start"),
        ("a = [1, 2, 3, 4, 5]; b = a[0:2:3]; c = b[0:1:3]; c += [9, 8]; [a, c]", "[[i:1,i:9,i:8,i:4,i:5],[i:1,i:9,i:8]]", "a three-index slice of a three-index slice up to its capacity"),
        ("a = [1, 2, 3, 4, 5]; b = a[0:2:3]; (b[0:1:4]) ?? \"E\"", "s:45", "a three-index slice limits the capacity of what is sliced from it"),
        ("a = [1, 2, 3, 4, 5]; b = a[0:2]; c = b[0:1:4]; c += [9, 8, 7, 6]; [a, c]", "[[i:1,i:2,i:3,i:4,i:5],[i:1,i:9,i:8,i:7,i:6]]", "an append beyond max reallocates and leaves the source alone"),
    ]
    expectations = [{"src": src, "field": "result", "want": want, "why": why} for src, want, why in detached]
    expectations += [{"src": p["src"], "field": "trace", "want": p["want"],
                     "why": "the observations of a container history equal those of the same operations on Go values"} for p in data["untyped"]]
    # a string is its bytes: indexing reads exactly the addressed byte also when it is not ASCII
    for src, want, why in (
            ("s = \"a\u00e9\"; s[1]", "s:c3", "s[i] of a string reads the byte at i (first byte of a two-byte character)"),
            ("s = \"a\u00e9\"; s[2]", "s:a9", "s[i] of a string reads the byte at i (second byte of a two-byte character)"),
            ("s = \"a\u00e9\"; [len(s), s[0], len(s[1])]", "[i:3,s:61,i:1]", "the element of a string at an index is one byte long"),
            ("s = \"a\u00e9\"; s[1] == s[1:2]", "b:true", "s[i] and s[i:i+1] of a string are the same element"),
            ("s = \"a\u00e9\"; s[1] + s[2] == \"\u00e9\"", "b:true", "the elements of a string put together again give the string"),
            ("s = \"a\u00e9z\"; r = \"\"; for i = 0; i < len(s); i++ { r += s[i] }; [r == s, len(r)]", "[b:true,i:4]", "a string rebuilt from its elements is the string"),
            ("l = [\"\u00e9\"]; l[0][0]", "s:c3", "the same for a string held in a list"),
            ("s = \"\u20ac\"; [s[0], s[1], s[2]]", "[s:e2,s:82,s:ac]", "the three bytes of a three-byte character")):
        expectations.append({"src": src, "field": "result", "want": want, "why": why})

    def model_obs(x):
        """an observation of the typed-container model in the harness's trace syntax"""
        from c11 import unhex_strings
        tag = x[0]
        if tag == b"E":
            return "(string:E)"
        if tag == b"nil":
            return "(nil)"
        if tag == b"v":
            return "(" + unhex_strings(x[1].decode("latin-1")) + ")"
        if tag == b"m":
            ents = sorted(unhex_strings(e[0].decode("latin-1")) + "=>" + unhex_strings(e[1].decode("latin-1")) for e in x[2:])
            return "(" + x[1].decode() + "{" + ",".join(ents) + "})"
        return "?" + repr(x)

    def typed_model(res, scratch):
        tcases = data.get("typed_model") or []
        if not tcases:
            return {}
        driver, _, _ = common.build_model()
        path = os.path.join(scratch, "typed.sx")
        with open(path, "w") as f:
            for c in tcases:
                f.write("c10t " + c["model_in"] + "\n")
        bad, kinds, nobs, nerr = 0, {}, 0, 0
        for c, line in zip(tcases, common.run_driver(driver, path)):
            kinds[c["kind"].split("]")[0] + ("]" if "]" in c["kind"] else "")] = kinds.get(c["kind"].split("]")[0] + ("]" if "]" in c["kind"] else ""), 0) + 1
            try:
                want = [model_obs(o) for o in common.parse_sexp(line)]
            except Exception as e:
                want = ["unreadable model answer: %s" % line[:100]]
            got = c["got"] or []
            nobs += len(want)
            nerr += sum(1 for w in want if w == "(string:E)")
            if got != want:
                bad += 1
                k = next((i for i in range(max(len(got), len(want))) if i >= len(got) or i >= len(want) or got[i] != want[i]), 0)
                if bad <= 8:
                    res.violation({"property": "C10", "kind": "a typed container differs from its model (coq/Conv/Typed.v, theorems of Properties/C10.v)",
                                   "source": c["src"], "first_difference": "observation %d" % k, "implementation": got[k] if k < len(got) else "<missing>",
                                   "model": want[k] if k < len(want) else "<missing>", "model_input": c["model_in"],
                                   "how_to_replay": "vm.Execute with probe defined; compare the probe log with the model's observations"})
        return {"typed_model_histories": len(tcases), "typed_model_mismatches": bad, "typed_model_kinds": kinds, "typed_model_observations": nobs,
                "typed_model_error_observations": nerr}

    def extra(res, scratch, harness):
        for p in (data["typed_problems"] or [])[:8]:
            res.violation({"property": "C10", "kind": "a typed container does not behave like the Go value of its declared type",
                           "source": p["src"], "history": p["history"], "first_difference": p["step"], "implementation": p["got"], "native_go": p["want"],
                           "how_to_replay": "vm.Execute with probe defined; compare the probe log with the native history"})
        tm = typed_model(res, scratch)
        return {**tm, "typed_histories": data["typed_count"], "typed_mismatches": len(data["typed_problems"] or []), "typed_kinds": data["typed_kinds"],
                "native_reference": "harness/c10.go: each step is also performed on Go values ([]interface{}, map[interface{}]interface{}, string; "
                                    "typed: []int64, []string, []float64, []bool, []interface{}, map[string]int64, map[int64]string, map[string]interface{} "
                                    "with reflect conversion for stores)"}

    return interpcheck.run_interp_check(
        "C10", "c10", ("result", "trace"), COUNTS, tier, seed,
        rule="22 directed histories (sharing through slices, append within and beyond capacity, 3-index slices, index at len, out-of-range and "
             "ill-typed indices, map missing / unhashable keys, delete, aliasing through assignment and calls, string index / slice / rebuild) "
             "then random histories of 3-12 steps over 3 slice, 2 map and 2 string variables: read, write (all boundary indices: -1, 0, len-1, "
             "len, len+1, string, nil, bool, slice), 2- and 3-index slicing, alias, += and + append, store through a callee's parameter, map "
             "store / read / delete / alias / member syntax with string, int, float, bool, slice and map keys, membership, lengths; every step "
             "wrapped in try/catch and observed through probe(), final contents of all variables observed; compared three ways: model = "
             "implementation (extracted interpreter model) and implementation = native Go reference; plus typed container histories "
             "against native Go, and typed histories over the model's universe (slices, maps with string / integer / bool keys and struct values "
             "of element types int64, int8, uint8, int32, uint16, string, bool, interface{} and slices of these; values nil, booleans, integers "
             "beyond every width, strings, lists) against the extracted model of Conv/Typed.v (entry c10t)",
        design_ref="DESIGN.md §4 C10", expectations=expectations, max_dropped=0.25, extra=extra,
        extra_assumptions=["slicing is bounded by len (the language's rule), not by cap as in Go", "`in` is exercised with same-type operands only",
                           "struct values made with make: six fields (int64, string, float64, bool, []int64, map[string]int64), stores through an alias, unknown fields"])
