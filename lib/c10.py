"""C10: slices, maps, strings and struct fields behave like their Go models."""
import json, os
import common, interpcheck

COUNTS = {"quick": 1500, "thorough": 60000}


def run(tier, seed, replay=None):
    n = COUNTS.get(tier, COUNTS["quick"])
    harness = common.build_harness()
    sd = common.scratch_dir("c10gen")
    try:
        common.sh([harness, "c10", "-seed", str(seed), "-n", str(n), "-out", sd], env=common.GOENV, timeout=3000)
        data = json.load(open(os.path.join(sd, "c10.json")))
    finally:
        import shutil
        shutil.rmtree(sd, ignore_errors=True)
    expectations = [{"src": p["src"], "field": "trace", "want": p["want"],
                     "why": "the observations of a container history equal those of the same operations on Go values"} for p in data["untyped"]]

    def extra(res, scratch, harness):
        for p in (data["typed_problems"] or [])[:8]:
            res.violation({"property": "C10", "kind": "a typed container does not behave like the Go value of its declared type",
                           "source": p["src"], "history": p["history"], "first_difference": p["step"], "implementation": p["got"], "native_go": p["want"],
                           "how_to_replay": "vm.Execute with probe defined; compare the probe log with the native history"})
        return {"typed_histories": data["typed_count"], "typed_mismatches": len(data["typed_problems"] or []), "typed_kinds": data["typed_kinds"],
                "native_reference": "harness/c10.go: each step is also performed on Go values ([]interface{}, map[interface{}]interface{}, string; "
                                    "typed: []int64, []string, []float64, []bool, []interface{}, map[string]int64, map[int64]string, map[string]interface{} "
                                    "with reflect conversion for stores)"}

    return interpcheck.run_interp_check(
        "C10", "c10", ("result", "trace"), COUNTS, tier, seed,
        rule="22 directed histories (sharing through slices, append within and beyond capacity, 3-index slices, index at len, out-of-range and "
             "ill-typed indices, map missing / unhashable keys, delete, aliasing through assignment and calls, string index / slice / rebuild) "
             "then random histories of 3-12 steps over 3 slice, 2 map and 2 string variables: read, write (all boundary indices: -1, 0, len-1, "
             "len, len+1, string, nil, bool, slice), 2- and 3-index slicing, alias, += and + append, store through a callee's parameter, map "
             "store / read / delete / alias / member syntax with string, int, float, bool, slice and map keys, membership, lengths; every step "
             "wrapped in try/catch and observed through probe(), final contents of all variables observed; compared three ways: model = "
             "implementation (extracted interpreter model) and implementation = native Go reference; plus typed container histories "
             "(implementation = native Go only)",
        design_ref="DESIGN.md §4 C10", expectations=expectations, max_dropped=0.25, extra=extra,
        extra_assumptions=["slicing is bounded by len (the language's rule), not by cap as in Go", "`in` is exercised with same-type operands only",
                           "struct values made with make: six fields (int64, string, float64, bool, []int64, map[string]int64), stores through an alias, unknown fields"])
