"""Shared machinery of ./check: build, Coq obligations, shard evaluation,
evidence, known findings, verdict."""
import fcntl, hashlib, json, os, re, shutil, subprocess, sys, tempfile, time
from concurrent.futures import ThreadPoolExecutor

VERIF = os.path.dirname(os.path.dirname(os.path.abspath(__file__)))
REPO = os.environ.get("VERIF_REPO", "/repo")
COQ = os.path.join(VERIF, "coq")
BUILD = os.path.join(VERIF, ".build")
GOENV = dict(os.environ, GOFLAGS="-mod=mod", GOPROXY="off", GOSUMDB="off", GOTOOLCHAIN="local",
             CGO_ENABLED=os.environ.get("CGO_ENABLED", "1"))
NCPU = os.cpu_count() or 4

FORBIDDEN = re.compile(r"\b(Admitted|admit|Axiom|Parameter|Conjecture|bypass_check)\b|Unset Guard|Admit Obligations|-type-in-type|-impredicative-set")


class CheckError(Exception):
    """The machinery itself could not run (not a verdict about the property)."""


def sh(cmd, cwd=None, env=None, timeout=None, check=True):
    p = subprocess.run(cmd, cwd=cwd, env=env, timeout=timeout, stdout=subprocess.PIPE,
                       stderr=subprocess.STDOUT, text=True, errors="replace")
    if check and p.returncode != 0:
        raise CheckError("command failed (%d): %s\n%s" % (p.returncode, " ".join(cmd), p.stdout[-4000:]))
    return p


class Lock:
    def __init__(self, name):
        os.makedirs(BUILD, exist_ok=True)
        self.path = os.path.join(BUILD, name + ".lock")

    def __enter__(self):
        self.f = open(self.path, "w")
        fcntl.flock(self.f, fcntl.LOCK_EX)
        return self

    def __exit__(self, *a):
        fcntl.flock(self.f, fcntl.LOCK_UN)
        self.f.close()


def scratch_dir(tag):
    base = os.environ.get("VERIF_SCRATCH", tempfile.gettempdir())
    return tempfile.mkdtemp(prefix="verif-%s-" % tag, dir=base)


# ---------------------------------------------------------------- build
def repo_fingerprint():
    """hash of every .go/.y file of the working tree (content), to key build products"""
    h = hashlib.sha256()
    for root, dirs, files in os.walk(REPO):
        dirs[:] = sorted(d for d in dirs if d != ".git")
        for f in sorted(files):
            if f.endswith((".go", ".y", ".mod", ".ank")):
                p = os.path.join(root, f)
                h.update(p.encode())
                with open(p, "rb") as fh:
                    h.update(fh.read())
    return h.hexdigest()[:16]


# build products that depend on the tree under test are kept apart per tree, so that checks against different
# trees (VERIF_REPO) can run side by side
REPO_KEY = "" if REPO == "/repo" else "-" + hashlib.sha256(REPO.encode()).hexdigest()[:8]


def harness_modfile():
    return os.path.join(BUILD, "harness%s.mod" % REPO_KEY)


def build_harness(tags="verif", race=False):
    """go build the harness against REPO's working tree; returns the binary path"""
    with Lock("gobuild"):
        os.makedirs(BUILD, exist_ok=True)
        modfile = harness_modfile()
        src = open(os.path.join(VERIF, "harness", "go.mod")).read()
        src = src.replace("=> /repo", "=> " + REPO)
        with open(modfile, "w") as f:
            f.write(src)
        out = os.path.join(BUILD, ("harness-race" if race else "harness") + REPO_KEY)
        cmd = ["go", "build", "-modfile=" + modfile, "-tags", tags, "-o", out]
        if race:
            cmd.insert(2, "-race")
        cmd.append(".")
        p = sh(cmd, cwd=os.path.join(VERIF, "harness"), env=GOENV, check=False)
        if p.returncode != 0:
            raise CheckError("harness does not build against %s:\n%s" % (REPO, p.stdout[-4000:]))
        return out


GOYACC_SRC = "/root/go/pkg/mod/golang.org/x/tools@v0.29.0/cmd/goyacc/yacc.go"


def build_goyacc():
    """goyacc from the module cache (single file, no dependencies); None when the source is absent"""
    out = os.path.join(BUILD, "goyacc")
    if os.path.exists(out):
        return out
    if not os.path.exists(GOYACC_SRC):
        return None
    with Lock("gobuild"):
        d = os.path.join(BUILD, "goyacc-src")
        os.makedirs(d, exist_ok=True)
        shutil.copy(GOYACC_SRC, os.path.join(d, "yacc.go"))
        os.chmod(os.path.join(d, "yacc.go"), 0o644)
        open(os.path.join(d, "go.mod"), "w").write("module goyacc\ngo 1.21\n")
        p = sh(["go", "build", "-o", out, "."], cwd=d, env=GOENV, check=False)
        return out if p.returncode == 0 else None


def forbidden_scan():
    bad = []
    for root, _, files in os.walk(COQ):
        for f in files:
            if f.endswith(".v"):
                p = os.path.join(root, f)
                for i, line in enumerate(open(p, errors="replace"), 1):
                    line = re.sub(r"\(\*.*?\*\)", "", line)
                    if FORBIDDEN.search(line):
                        bad.append("%s:%d: %s" % (os.path.relpath(p, VERIF), i, line.strip()))
    return bad


def coq_make(targets=None):
    """full .vo build of the development (incremental); returns (ok, log)"""
    with Lock("coq"):
        if not os.path.exists(os.path.join(COQ, "Makefile")):
            sh(["coq_makefile", "-f", "_CoqProject", "-o", "Makefile"], cwd=COQ)
        cmd = ["make", "-j%d" % NCPU]
        if targets:
            cmd += targets
        p = sh(cmd, cwd=COQ, check=False, timeout=3000)
        return p.returncode == 0, p.stdout


def coqc_file(path, cwd=None, timeout=1200, extra=()):
    """compile one file against the built development; returns (ok, output)"""
    p = sh(["coqc", "-Q", COQ, "Anko"] + list(extra) + [path], cwd=cwd or os.path.dirname(path), check=False,
           timeout=timeout)
    return p.returncode == 0, p.stdout


def coq_sources_hash():
    h = hashlib.sha256()
    for root, dirs, files in os.walk(COQ):
        dirs.sort()
        for f in sorted(files):
            if f.endswith(".v") or f == "_CoqProject":
                p = os.path.join(root, f)
                h.update(os.path.relpath(p, COQ).encode())
                h.update(open(p, "rb").read())
    return h.hexdigest()[:20]


def property_obligations(pid, extra_files=()):
    """Re-check Properties/<pid>.v with coqc against the built development and collect
    theorem names and the Print Assumptions output.  The hand-written development does not
    depend on /repo, so the result is cached under .build keyed by the content hash of every
    .v file; files passed in extra_files (regenerated tables, obligations on them) are
    compiled on every call.
    Returns dict(obligations, discharged, theorems, axioms, closed_count, failed)."""
    files = [os.path.join(COQ, "Properties", pid + ".v")]
    cache = os.path.join(BUILD, "obl-%s-%s.json" % (pid, coq_sources_hash()))
    results = []
    if os.path.exists(cache):
        results = json.load(open(cache))
    else:
        for f in files:
            with Lock("coq"):
                ok, out = coqc_file(f, cwd=COQ)
            results.append({"file": f, "ok": ok, "out": out})
        if all(r["ok"] for r in results):
            os.makedirs(BUILD, exist_ok=True)
            json.dump(results, open(cache, "w"))
    for f in extra_files:
        ok, out = coqc_file(f[0], cwd=f[1], extra=f[2] if len(f) > 2 else ())
        results.append({"file": f[0], "ok": ok, "out": out})
    theorems, failed, assumptions, closed = [], [], [], 0
    for r in results:
        src = open(r["file"]).read()
        src = re.sub(r"\(\*.*?\*\)", "", src, flags=re.S)
        names = re.findall(r"^\s*(?:Theorem|Lemma|Corollary|Example)\s+([A-Za-z0-9_']+)", src, re.M)
        if r["ok"]:
            theorems += names
        else:
            failed.append({"file": os.path.relpath(r["file"], VERIF) if r["file"].startswith(VERIF) else r["file"],
                           "theorems": names, "error": r["out"][-1500:]})
        for m in re.finditer(r"Axioms:\n((?:.+\n)+?)(?=\S|\Z)", r["out"]):
            assumptions.append(m.group(1).strip())
        closed += r["out"].count("Closed under the global context")
    n_total = len(theorems) + sum(len(x["theorems"]) for x in failed)
    return {"obligations": n_total, "discharged": len(theorems), "theorems": theorems,
            "axioms": sorted(set(assumptions)), "closed_count": closed, "failed": failed}


# ---------------------------------------------------------------- extracted model
def build_model():
    """coq make (full .vo), then extraction + ocamlfind build of the driver when stale.
    Returns (driver_path, make_ok, make_log)."""
    ok, log = coq_make()
    with Lock("extract"):
        ex = os.path.join(BUILD, "extract")
        os.makedirs(ex, exist_ok=True)
        driver = os.path.join(ex, "driver")
        srcs = [os.path.join(COQ, "Extract", "Extract.v")] + \
               [os.path.join(VERIF, "ocaml", f) for f in os.listdir(os.path.join(VERIF, "ocaml")) if f.endswith(".ml")]
        for root, _, files in os.walk(COQ):
            srcs += [os.path.join(root, f) for f in files if f.endswith(".vo")]
        newest = max(os.path.getmtime(f) for f in srcs)
        if not os.path.exists(driver) or os.path.getmtime(driver) < newest:
            shutil.copy(os.path.join(COQ, "Extract", "Extract.v"), ex)
            p = sh(["coqc", "-Q", COQ, "Anko", "Extract.v"], cwd=ex, check=False, timeout=1200)
            if p.returncode != 0:
                raise CheckError("extraction failed:\n" + p.stdout[-3000:])
            for f in os.listdir(os.path.join(VERIF, "ocaml")):
                if f.endswith(".ml"):
                    shutil.copy(os.path.join(VERIF, "ocaml", f), ex)
            p = sh(["ocamlfind", "ocamlopt", "-O2", "-w", "-a", "model.mli", "model.ml", "entries.ml", "driver.ml",
                    "-o", "driver.tmp"], cwd=ex, check=False, timeout=1200)
            if p.returncode != 0:
                raise CheckError("driver build failed:\n" + p.stdout[-3000:])
            os.replace(os.path.join(ex, "driver.tmp"), driver)
    return driver, ok, log


def run_driver(driver, cases_path, nshards=None):
    """run the extracted model over a file of '<entry> <sexp>' lines; returns the list of
    result lines in order.  Large files are split across cores."""
    lines = open(cases_path).read().split("\n")
    if lines and lines[-1] == "":
        lines.pop()
    n = nshards or (NCPU if len(lines) > 400 else 1)
    chunk = (len(lines) + n - 1) // n if lines else 1

    def one(part):
        if not part:
            return []
        p = subprocess.run(["bash", "-c", "ulimit -s unlimited 2>/dev/null; exec " + driver],
                           input="\n".join(part) + "\n", stdout=subprocess.PIPE, stderr=subprocess.PIPE, text=True,
                           timeout=3000)
        out = p.stdout.split("\n")
        if out and out[-1] == "":
            out.pop()
        if p.returncode != 0 or len(out) != len(part):
            raise CheckError("model driver failed (%d, %d/%d lines): %s" % (p.returncode, len(out), len(part), p.stderr[-2000:]))
        return out
    parts = [lines[i:i + chunk] for i in range(0, len(lines), chunk)]
    with ThreadPoolExecutor(max_workers=NCPU) as ex:
        res = []
        for r in ex.map(one, parts):
            res += r
    return res


# ---------------------------------------------------------------- known findings
def known_findings(pid):
    known, fixed = [], []
    path = os.path.join(VERIF, "known_findings.txt")
    if os.path.exists(path):
        for line in open(path):
            line = line.strip()
            if not line or line.startswith("#"):
                continue
            if line.startswith("known:") and ("property=%s " % pid) in line:
                fields = dict(kv.split("=", 1) for kv in line[6:].split("::")[0].split() if "=" in kv)
                fields["text"] = line.split("::", 1)[1].strip() if "::" in line else ""
                known.append(fields)
            elif line.startswith("fixed:") and ("property=%s " % pid) in line:
                fixed.append(line)
    return known, fixed


# ---------------------------------------------------------------- verdict / evidence
# seeded-change runs (tools/run_seeded.py) write their evidence elsewhere, so that the committed evidence
# files always come from runs on the unchanged tree
EVIDENCE = os.environ.get("VERIF_EVIDENCE_DIR") or os.path.join(VERIF, "evidence")


class Result:
    def __init__(self, pid, tier, seed):
        self.pid, self.tier, self.seed = pid, tier, seed
        self.t0 = time.time()
        self.violations = []      # (replay_path, suffix)
        self.known_hits = {}      # finding id -> text
        self.coverage = {}
        self.assumptions = []

    def violation(self, record, suffix=""):
        os.makedirs(os.path.join(EVIDENCE, "replay"), exist_ok=True)
        blob = json.dumps(record, sort_keys=True, indent=1)
        h = hashlib.sha256(blob.encode()).hexdigest()[:12]
        path = os.path.join(EVIDENCE, "replay", "%s-%s.json" % (self.pid, h))
        with open(path, "w") as f:
            f.write(blob + "\n")
        self.violations.append((path, suffix))

    def known(self, fid, text):
        self.known_hits[fid] = text

    def coqchk(self):
        """thorough tier: re-check the compiled property file and everything it depends on with the
        independent checker; its context summary (axioms, type-in-type, unsafe fixpoints) goes into the evidence"""
        t0 = time.time()
        with Lock("coq"):
            p = sh(["coqchk", "-silent", "-o", "-Q", COQ, "Anko", "Anko.Properties." + self.pid], cwd=COQ, check=False, timeout=5400)
        out = p.stdout
        summary = out[out.find("CONTEXT SUMMARY"):] if "CONTEXT SUMMARY" in out else out[-800:]
        ok = p.returncode == 0 and "* Axioms: <none>" in out and "type-in-type: <none>" in out and "unsafe (co)fixpoints: <none>" in out \
            and "positivity is assumed: <none>" in out
        self.coverage["coqchk"] = {"ok": ok, "seconds": round(time.time() - t0, 1),
                                   "summary": " ".join(summary.split())[:600]}
        if not ok:
            self.violation({"property": self.pid, "kind": "coqchk does not accept the compiled development, or reports axioms / disabled checks",
                            "output": out[-2000:]}, "no-failing-input-found")

    def finish(self):
        if self.tier == "thorough" and "obligations" in self.coverage:
            self.coqchk()
        ev = {"property_id": self.pid, "tier": self.tier, "seed": self.seed, "level": "proof",
              "coverage": self.coverage, "assumptions": self.assumptions,
              "wall_s": round(time.time() - self.t0, 2), "violations": len(self.violations)}
        os.makedirs(EVIDENCE, exist_ok=True)
        with open(os.path.join(EVIDENCE, self.pid + ".json"), "w") as f:
            json.dump(ev, f, indent=1, sort_keys=True)
            f.write("\n")
        for fid, text in sorted(self.known_hits.items()):
            print("KNOWN-FINDING: property=%s %s" % (self.pid, text))
        seen = set()
        for path, suffix in self.violations[:20]:
            if path in seen:
                continue
            seen.add(path)
            print(("VIOLATION property=%s replay=%s %s" % (self.pid, path, suffix)).rstrip())
        if self.violations:
            return 1
        print("OK property=%s tier=%s obligations=%s/%s cases=%s wall=%.1fs" % (
            self.pid, self.tier, self.coverage.get("discharged"), self.coverage.get("obligations"),
            self.coverage.get("evaluations"), time.time() - self.t0))
        return 0


TRUSTED_COMMON = [
    "Coq 8.16.1 kernel and vm_compute (no native_compute, no kernel check disabled)",
    "no axioms declared; Print Assumptions output recorded under coverage.axioms",
    "hand-written Gallina model tied to /repo by differential correspondence on this run's cases",
    "Go harness (generators, canonicalisation of outputs) and the Coq-term emitter",
]


def parse_sexp(line):
    """The driver's output syntax: lists, bare atoms, quoted atoms with \\\\, \\" and \\xHH escapes.
    Atoms come back as bytes, lists as Python lists."""
    b = line.encode("latin-1") if isinstance(line, str) else line
    pos = 0

    def expr():
        nonlocal pos
        while pos < len(b) and b[pos] in b" \t":
            pos += 1
        if pos >= len(b):
            raise ValueError("eof")
        c = b[pos:pos + 1]
        if c == b"(":
            pos += 1
            items = []
            while True:
                while pos < len(b) and b[pos] in b" \t":
                    pos += 1
                if pos >= len(b):
                    raise ValueError("eof in list")
                if b[pos:pos + 1] == b")":
                    pos += 1
                    return items
                items.append(expr())
        if c == b'"':
            pos += 1
            out = bytearray()
            while True:
                if pos >= len(b):
                    raise ValueError("eof in string")
                ch = b[pos:pos + 1]
                if ch == b'"':
                    pos += 1
                    return bytes(out)
                if ch == b"\\":
                    if b[pos + 1:pos + 2] == b"x":
                        out.append(int(b[pos + 2:pos + 4], 16))
                        pos += 4
                    else:
                        out += b[pos + 1:pos + 2]
                        pos += 2
                else:
                    out += ch
                    pos += 1
        st = pos
        while pos < len(b) and b[pos] not in b' \t()"':
            pos += 1
        return b[st:pos]

    return expr()
