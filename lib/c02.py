"""C02: cancelling the context always stops a running script."""
import interpcheck

DEFER_MARK = "(s:64)"   # probe("d"): the only probe calls allowed after the cancellation instant


def impl_oracle(c):
    impl = c["impl"]
    if c["cancel_at"] < 0 or impl["status"] in ("panic", "timeout"):
        return ["the run did not return after the context was cancelled"] if impl["status"] == "timeout" else []
    out = []
    if impl["polls"] <= c["cancel_at"]:
        return out          # the script finished before the cancellation instant
    if not (impl["status"] == "err" and impl["result"] in ("interrupt", "interrupted-wrapped")):
        out.append("cancelled at poll %d but the call returned %s %s instead of the error \"execution interrupted\""
                   % (c["cancel_at"], impl["status"], impl["result"]))
    after = (impl.get("trace_list") or [])[impl["trace_at_cancel"]:] if impl["trace_at_cancel"] >= 0 else []
    bad = [t for t in after if t != DEFER_MARK]
    if bad:
        out.append("script code kept running after the cancellation instant (poll %d): host calls %s"
                   % (c["cancel_at"], bad[:4]))
    return out


def stress(tier):
    def extra(res, scratch, harness):
        import json, os
        import common
        n = 150 if tier != "thorough" else 3000
        common.sh([harness, "c02stress", "-n", str(n), "-out", scratch], env=common.GOENV, timeout=3000)
        scs = json.load(open(os.path.join(scratch, "c02stress.json")))
        for sc in scs:
            if sc["bad"]:
                res.violation({"property": "C02", "kind": "a script blocked on or racing for a channel operation did not return after the context was cancelled",
                               "scenario": sc["name"], "source": sc["src"], "channel_capacity": sc["cap"], "parallel_ExecuteContext_calls": sc["k"],
                               "host_side": sc["serve"], "first_failure": sc["first_failure"], "failed_trials": sc["bad"], "trials": sc["trials"],
                               "how_to_replay": "harness/c02stress.go: K goroutines run vm.ExecuteContext(ctx, env with `ch` bound to one shared Go channel, source); "
                                                "a host goroutine drains / feeds the channel, stops, the context is cancelled; every call must return "
                                                "\"execution interrupted\" within 2 s; schedule dependent, GOMAXPROCS >= 4"})
        return {"channel_stress_scenarios": len(scs), "channel_stress_trials": sum(sc["trials"] for sc in scs),
                "channel_stress_failures": sum(sc["bad"] for sc in scs), "channel_stress": [{"name": sc["name"], "trials": sc["trials"]} for sc in scs]}
    return extra


def run(tier, seed, replay=None):
    return interpcheck.run_interp_check(
        "C02", "c02", ("result", "trace", "polls"), {"quick": 1, "thorough": 100000}, tier, seed,
        rule="16 spinning cores (every loop form, for-in, recursion of arity 1 and 6, loops around try/??/switch/if/calls) under 20 "
             "wrappings (functions of arity 0,1,4,5, variadic, spread call, try/catch/finally, ??, list of ??, defer, if, switch, "
             "module, for-in, ternary, ||) = 320 non-terminating programs, each cancelled at EVERY poll 0..40 (thorough: 0..120) "
             "through a context whose Done() closes on the k-th call: 13120 runs; required on the implementation alone: the error "
             "is \"execution interrupted\" and no host call other than deferred probes happens after the instant; and compared "
             "with the model (result, trace, number of polls); exhaustive over programs x instants; plus, in real time, 9 scenarios of "
             "scripts blocked on or racing for channel operations (parallel ExecuteContext calls on one shared channel, script goroutines, "
             "send / receive / two-value receive / for-in, capacities 0-2), 150 trials each (thorough: 3000): every call returns "
             "\"execution interrupted\" within 2 s of the cancellation",
        design_ref="DESIGN.md §4 C02", impl_oracle=impl_oracle, max_dropped=0.02, extra=stress(tier),
        extra_assumptions=["the cancellation instant is a poll index (statement start, loop iteration); wall-clock time and the Go "
                           "scheduler are not modelled: `within a short bounded time` is a bound on polls after the instant"])
