"""C02: cancelling the context always stops a running script."""
import interpcheck

DEFER_MARK = "(s:64)"   # probe("d"): the only probe calls allowed after the cancellation instant


def impl_oracle(c):
    impl = c["impl"]
    if c["cancel_at"] < 0 or impl["status"] in ("panic", "timeout"):
        return ["the run did not return after the context was cancelled"] if impl["status"] == "timeout" else []
    out = []
    if impl["polls"] <= c["cancel_at"]:
        return out          # the script finished before the cancellation instant
    if not (impl["status"] == "err" and impl["result"] in ("interrupt", "interrupted-wrapped")):
        out.append("cancelled at poll %d but the call returned %s %s instead of the error \"execution interrupted\""
                   % (c["cancel_at"], impl["status"], impl["result"]))
    after = (impl.get("trace_list") or [])[impl["trace_at_cancel"]:] if impl["trace_at_cancel"] >= 0 else []
    bad = [t for t in after if t != DEFER_MARK]
    if bad:
        out.append("script code kept running after the cancellation instant (poll %d): host calls %s"
                   % (c["cancel_at"], bad[:4]))
    return out


def run(tier, seed, replay=None):
    return interpcheck.run_interp_check(
        "C02", "c02", ("result", "trace", "polls"), {"quick": 1, "thorough": 100000}, tier, seed,
        rule="16 spinning cores (every loop form, for-in, recursion of arity 1 and 6, loops around try/??/switch/if/calls) under 20 "
             "wrappings (functions of arity 0,1,4,5, variadic, spread call, try/catch/finally, ??, list of ??, defer, if, switch, "
             "module, for-in, ternary, ||) = 320 non-terminating programs, each cancelled at EVERY poll 0..40 (thorough: 0..120) "
             "through a context whose Done() closes on the k-th call: 13120 runs; required on the implementation alone: the error "
             "is \"execution interrupted\" and no host call other than deferred probes happens after the instant; and compared "
             "with the model (result, trace, number of polls); exhaustive over programs x instants",
        design_ref="DESIGN.md §4 C02", impl_oracle=impl_oracle, max_dropped=0.02,
        extra_assumptions=["the cancellation instant is a poll index (statement start, loop iteration); wall-clock time and the Go "
                           "scheduler are not modelled: `within a short bounded time` is a bound on polls after the instant"])
