"""C17: the AST walker reaches every node of every parsed program."""
import json, os, re, shutil
import common
from common import Result, CheckError

PID = "C17"
COUNTS = {"quick": 3000, "thorough": 120000}


def run(tier, seed, replay=None):
    res = Result(PID, tier, seed)
    harness = common.build_harness()
    bad = common.forbidden_scan()
    driver, ok_make, log = common.build_model()
    scratch = common.scratch_dir("c17")
    try:
        n = COUNTS.get(tier, COUNTS["quick"])
        common.sh([harness, "c17", "-seed", str(seed), "-n", str(n), "-out", scratch, "-repo", common.REPO],
                  env=common.GOENV, timeout=3000)
        meta = json.load(open(os.path.join(scratch, "meta.json")))
        # obligations on the regenerated tables
        gen = os.path.join(scratch, "AnkoGen")
        shutil.copy(os.path.join(common.COQ, "Obligations", "C17.v"), os.path.join(scratch, "ObligationC17.v"))
        extra = ["-Q", gen, "AnkoGen"]
        ob = common.property_obligations(PID, extra_files=[
            (os.path.join(gen, "GenWalk.v"), gen, extra),
            (os.path.join(scratch, "ObligationC17.v"), scratch, extra)])
        cases = [json.loads(l) for l in open(os.path.join(scratch, "cases.jsonl"))]
        results = common.run_driver(driver, os.path.join(scratch, "cases.sx"))
        table = meta["table"]
        # 1. directed search over the table: one minimal tree per (kind, child field) — a complete
        #    enumeration of what the obligation [covers] quantifies over
        gaps = []
        for e in table:
            if e["status"] != "ok":
                gaps.append({"kind": e["name"], "problem": "Walk returns an error or misbehaves on a node of this kind: " +
                             (e.get("err") or e["status"]), "presented": e["seq"]})
                continue
            mentioned = []
            for a in e["acts"] or []:
                mentioned += [int(x) for x in a.split()[1:]]
            for i in range(e["nfields"]):
                if mentioned.count(i) != 1:
                    gaps.append({"kind": e["name"], "child_field_index": i,
                                 "problem": "marker children placed in this field are presented %d times" % mentioned.count(i),
                                 "presented": e["seq"]})
        for g in gaps[:12]:
            res.violation({"property": PID, "kind": "a node of the tree is not presented / Walk fails on a parser-producible node",
                           "minimal_tree": g, "how_to_replay": "harness c17 rebuilds this minimal tree: node of the kind with marker "
                           "children in every child field, real astutil.Walk with a recording callback"})
        # 2. whole programs: real Walk against the table-driven model, and against generic reflection
        mism = 0
        for c, line in zip(cases, results):
            ok_line = line == "(ok)"
            # property oracle on the implementation alone: every node presented once, no error
            got = set(i for i in c["seq"] if i >= 0)   # ids are dense 0..k-1, a shared node has one id
            impl_ok = (not c.get("err")) and got == set(range(c["distinct_ids"]))
            for mode in ("reentrant", "concurrent"):
                if c.get(mode):
                    mism += 1
                    if len(res.violations) < 16:
                        res.violation({"property": PID, "kind": "a walk does not present every node of the tree while another walk of it is under way (%s)" % mode,
                                       "source": c["src"], "alone": c["seq"], "difference": c[mode],
                                       "how_to_replay": "reentrant: the callback walks every node it is handed before it returns; concurrent: two more goroutines "
                                                        "walk the same tree (harness/c17.go c17Walk)"})
            if ok_line and impl_ok:
                continue
            mism += 1
            if len(res.violations) < 16:
                res.violation({"property": PID, "kind": "real Walk differs from the model" if not ok_line else
                               "real Walk does not present every node of the parsed tree",
                               "source": c["src"], "presented_ids": c["seq"], "walk_error": c.get("err"),
                               "nodes_in_tree": c["nodes"], "model": line,
                               "failing_callback_run": {"fail_at": c["fail_at"], "presented": c["presented"],
                                                        "error_is_callbacks": c["err_is_ours"], "callback_error": c.get("fail_err")}})
        if meta.get("unregistered_node_types"):
            raise CheckError("node types in %s/ast missing from harness/astreg.go: %s" % (common.REPO, meta["unregistered_node_types"]))
        if bad:
            res.violation({"property": PID, "kind": "forbidden construct in the Coq development", "lines": bad},
                          "no-failing-input-found")
        if ob["failed"] and not res.violations:
            res.violation({"property": PID, "kind": "proof obligation no longer checks", "failed": ob["failed"],
                           "note": "directed search over %d table entries and %d programs found no failing input" % (len(table), len(cases))},
                          "no-failing-input-found")
        res.coverage = {
            "obligations": ob["obligations"], "discharged": ob["discharged"], "theorems": ob["theorems"],
            "axioms": ob["axioms"], "closed_under_global_context": ob["closed_count"],
            "obligation_failures": ob["failed"],
            "checker_cmd": "make -C coq; coqc Properties/C17.v; per run: harness c17 regenerates AnkoGen/GenWalk.v, "
                           "coqc -Q <scratch>/AnkoGen AnkoGen GenWalk.v Obligations/C17.v (covers walk_table ast_table by vm_compute); "
                           "correspondence: extracted model entry c17",
            "trusted_base": common.TRUSTED_COMMON + [
                "walk table obtained by probing the real astutil.Walk (harness/c17.go); uniformity of the walker "
                "(its behaviour depends only on the node kind) is checked on whole programs, not proved",
                "ast table: reflection over package ast, cross-checked with a go/ast parse of ast/*.go"],
            "evaluations": meta["cases"], "distinct_nontrivial": meta["distinct_nontrivial"],
            "rule": "31 directed one-construct programs, then grammar-directed random programs over every statement and "
                    "expression form (depth 1-4); each is parsed by the real parser, walked by the real astutil.Walk with a "
                    "recording callback and again with a callback failing at a random position; compared with the model walk "
                    "under the probed table and with generic reflection over the tree; non-trivial = distinct source with >= 4 nodes",
            "exhaustive_part": "walk table probe: every node kind x every child field (%d kinds)" % len(table),
            "constructs": meta["constructs"], "parse_failures": meta["parse_failures"],
            "samples": [{"src": c["src"], "presented": c["seq"]} for c in cases[31:34]],
            "table_sample": [{k: e[k] for k in ("name", "status", "acts")} for e in table[:6]],
            "mismatches": mism, "table_gaps": len(gaps), "make_ok": ok_make,
        }
        res.assumptions = ["trees are the ones the parser produces for the generated sources; x++ / x += e share the node of x (handled)"]
        return res.finish()
    finally:
        shutil.rmtree(scratch, ignore_errors=True)

