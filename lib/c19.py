"""C19: core builtins and bundled package tables agree with their Go counterparts."""
import json, os, shutil
import common
from common import Result, CheckError

PID = "C19"
COUNTS = {"quick": 1000, "thorough": 100000}
FUEL = 4000


def proj_list(xs):
    return "[]int64[" + ",".join("int64:%d" % x for x in xs) + "]"


def proj_val(x):
    """a (decoded) model value in the harness's projection (harness/c19.go projAny)"""
    tag = x[0]
    if tag == b"nil":
        return "nil"
    if tag == b"b":
        return "bool:" + x[1].decode()
    if tag == b"i":
        return "int64:" + x[1].decode()
    if tag == b"f":
        return "float64:%x" % int(x[1])
    if tag == b"s":
        return "string:" + x[1].hex()
    return "?" + repr(x)


def proj_model(x):
    tag = x[0]
    if tag in (b"i", b"f", b"s"):
        return proj_val(x)
    if tag == b"li":
        return "[]int64[" + ",".join("int64:" + e.decode() for e in x[1:]) + "]"
    if tag == b"lf":
        return "[]float64[" + ",".join("float64:%x" % int(e) for e in x[1:]) + "]"
    if tag == b"lb":
        return "[]bool[" + ",".join("bool:" + e.decode() for e in x[1:]) + "]"
    if tag == b"vals":
        return "[]interface {}[" + ",".join(sorted(proj_val(e) for e in x[1:])) + "]"
    if tag == b"error":
        return "error"
    if tag == b"miss":
        return "miss " + x[1].decode("latin-1")
    return "?" + repr(x)


def entry_ok(e):
    return e["key"] == e["ident"] and (e["qual"] == "" or e["pkg"] == e["path"])


def run(tier, seed, replay=None):
    res = Result(PID, tier, seed)
    harness = common.build_harness()
    bad = common.forbidden_scan()
    driver, ok_make, log = common.build_model()
    scratch = common.scratch_dir("c19")
    try:
        n = COUNTS.get(tier, COUNTS["quick"])
        common.sh([harness, "c19", "-seed", str(seed), "-n", str(n), "-out", scratch, "-repo", common.REPO],
                  env=common.GOENV, timeout=6000)
        meta = json.load(open(os.path.join(scratch, "meta.json")))
        gen = os.path.join(scratch, "AnkoGen")
        shutil.copy(os.path.join(common.COQ, "Obligations", "C19.v"), os.path.join(scratch, "ObligationC19.v"))
        extra = ["-Q", gen, "AnkoGen"]
        ob = common.property_obligations(PID, extra_files=[(os.path.join(gen, "GenPkgs.v"), gen, extra),
                                                           (os.path.join(scratch, "ObligationC19.v"), scratch, extra)])
        cases = meta["cases"]
        # model of range on the same argument lists
        ranged = [c for c in cases if c.get("args")]
        with open(os.path.join(scratch, "cases.sx"), "w") as f:
            for c in ranged:
                f.write("c19 (%d %s)\n" % (FUEL, " ".join(str(a) for a in c["args"])))
        lines = common.run_driver(driver, os.path.join(scratch, "cases.sx")) if ranged else []
        model_mism = 0
        for c, line in zip(ranged, lines):
            toks = line.strip("()").split()
            if toks[0] == "ok":
                m = proj_list([int(t) for t in toks[1:]])
            elif toks[0] == "error":
                m = "error"
            else:
                m = line
            c["model"] = m
        # model of the conversion builtins, len and keys on the same values (entry c19b)
        conv = [c for c in cases if c.get("model_in")]
        with open(os.path.join(scratch, "conv.sx"), "w") as f:
            for c in conv:
                f.write("c19b " + c["model_in"] + "\n")
        conv_mism, conv_miss = 0, 0
        for c, line in zip(conv, common.run_driver(driver, os.path.join(scratch, "conv.sx")) if conv else []):
            c["model"] = proj_model(common.parse_sexp(line))
            if c["model"].startswith("miss"):
                conv_miss += 1
            elif c["model"] != c["got"]:
                conv_mism += 1
                if len(res.violations) < 10:
                    res.violation({"property": PID, "kind": "a core builtin differs from its model (coq/Core/Builtins.v, theorems of Properties/C19.v): " + c["why"],
                                   "source": c["src"], "implementation": c["got"][:600], "model": c["model"][:600], "model_input": c["model_in"][:600],
                                   "how_to_replay": "core.Import(env.NewEnv()); vm.Execute(e, nil, source)"})
        # 1. implementation against the native Go computation (the property's own oracle)
        nbad = 0
        for c in cases:
            if c.get("model_in"):
                continue
            if c["got"] != c["want"]:
                nbad += 1
                if len(res.violations) < 10:
                    res.violation({"property": PID, "kind": "builtin differs from the native Go computation: " + c["why"],
                                   "source": c["src"], "implementation": c["got"][:600], "native_go": c["want"][:600],
                                   "model": c.get("model", "not modelled")[:600],
                                   "how_to_replay": "core.Import(env.NewEnv()); vm.Execute(e, nil, source)"})
        # 2. implementation against the model
        for c in ranged:
            if c["model"] != c["got"]:
                model_mism += 1
                if c["got"] == c["want"] and len(res.violations) < 12:
                    res.violation({"property": PID, "kind": "the model of range (coq/Core/Range.v) differs from the implementation",
                                   "source": c["src"], "implementation": c["got"][:600], "model": c["model"][:600]},
                                  "no-failing-input-found")
        # 3. package tables: regenerated entries (static) and the running binary (dynamic)
        bad_entries = [e for e in meta["entries"] if not entry_ok(e)]
        seen, dup = set(), []
        for e in meta["entries"]:
            k = (e["table"], e["pkg"], e["key"])
            if k in seen:
                dup.append(e)
            seen.add(k)
        dyn_bad = [d for d in meta["dynamic"] if not d["OK"]]
        for e in bad_entries[:6]:
            d = [x for x in meta["dynamic"] if x["Pkg"] == e["pkg"] and x["Key"] == e["key"]]
            res.violation({"property": PID, "kind": "a package table entry does not bind its Go namesake",
                           "script": 'import("%s").%s' % (e["pkg"], e["key"]), "bound_go_expression": "%s.%s (import path %s)" % (e["qual"], e["ident"], e["path"]),
                           "file": "packages/" + e["file"], "running_binary_says": d[:1]})
        for e in dup[:4]:
            res.violation({"property": PID, "kind": "a package table slot is written twice", "entry": e})
        for d in dyn_bad[:6]:
            if not any(e["pkg"] == d["Pkg"] and e["key"] == d["Key"] for e in bad_entries):
                res.violation({"property": PID, "kind": "the function registered under this name is another Go function",
                               "script": 'import("%s").%s' % (d["Pkg"], d["Key"]), "runtime_function_name": d["Name"]})
        if len(meta["entries"]) != len(meta["dynamic"]):
            res.violation({"property": PID, "kind": "the tables of the running binary and the entries read from packages/*.go differ in number",
                           "source_entries": len(meta["entries"]), "binary_entries": len(meta["dynamic"])}, "no-failing-input-found")
        if bad:
            res.violation({"property": PID, "kind": "forbidden construct in the Coq development", "lines": bad}, "no-failing-input-found")
        if ob["failed"] and not res.violations:
            res.violation({"property": PID, "kind": "proof obligation no longer checks", "failed": ob["failed"]}, "no-failing-input-found")
        kinds = {}
        for c in cases:
            k = c["src"].split("(")[0].split(";")[0][:14]
            kinds[k] = kinds.get(k, 0) + 1
        res.coverage = {
            "obligations": ob["obligations"], "discharged": ob["discharged"], "theorems": ob["theorems"], "axioms": ob["axioms"],
            "closed_under_global_context": ob["closed_count"], "obligation_failures": ob["failed"],
            "checker_cmd": "make -C coq; coqc Properties/C19.v; per run: harness c19 regenerates AnkoGen/GenPkgs.v from packages/*.go, "
                           "coqc Obligations/C19.v (tables_ok entries = true by vm_compute); correspondence: extracted model entry c19 (range)",
            "trusted_base": common.TRUSTED_COMMON + [
                "go/ast reading of packages/*.go (harness/c19.go genPkgEntries): map literals and indexed assignments to env.Packages / "
                "env.PackageTypes in the files go/build selects for this toolchain; the shape reflect.ValueOf(q.Ident) / reflect.TypeOf(...)",
                "runtime.FuncForPC names for the dynamic cross-check; native Go computations in harness/c19.go as the oracle for conversions"],
            "evaluations": len(cases) + len(meta["entries"]), "distinct_nontrivial": len(set(c["src"] for c in cases)) + len(seen),
            "rule": "range: every triple over 18 boundary values (0, +-1, small, +-2^62, the int64 limits and neighbours) whose exact length is "
                    "<= 3000 (quick: a 12% sample), plus the short forms and misuse; run in child processes with a 3 s / 1 GiB watchdog; "
                    "compared with the native progression and with the extracted Coq model; conversions, len, typeOf, kindOf, typed slices "
                    "over a 45-value universe compared with native Go; toInt/toFloat/len/keys/typeOf/kindOf on 80 pooled scalars and the typed-slice "
                    "forms, keys and the rest on random values (spelled random int64s, numerals around the int64 limits, decorated numerals, "
                    "nested lists, maps with distinct keys) compared with the extracted model of Core/Builtins.v (entry c19b); tables: all entries, statically and in the running binary",
            "case_kinds": kinds, "range_cases": len(ranged), "range_model_mismatches": model_mism, "builtin_mismatches": nbad,
            "conversion_model_cases": len(conv), "conversion_model_mismatches": conv_mism, "conversion_oracle_misses": conv_miss,
            "conversion_ops": {op: sum(1 for c in conv if c["src"].startswith(op + "(")) for op in
                               ("toInt", "toFloat", "toIntSlice", "toFloatSlice", "toBoolSlice", "len", "keys", "typeOf", "kindOf")},
            "conversion_results": {k: sum(1 for c in conv if c["got"].startswith(k + ":") or c["got"].startswith(k + "[") or c["got"] == k) for k in
                                   ("int64", "float64", "string", "[]int64", "[]float64", "[]bool", "[]interface {}", "error")},
            "table_entries": len(meta["entries"]), "table_bad_entries": len(bad_entries), "table_dynamic_bad": len(dyn_bad),
            "samples": [{"src": c["src"], "got": c["got"][:100]} for c in cases[:3]], "make_ok": ok_make,
        }
        res.assumptions = ["package entries whose Go expression is not of the shape reflect.ValueOf(q.Ident)/reflect.TypeOf(...) are reported as bad entries, not skipped",
                           "func-typed package variables (flag.Usage) have closure names at run time: checked statically only"]
        return res.finish()
    finally:
        shutil.rmtree(scratch, ignore_errors=True)
