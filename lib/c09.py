"""C09: errors reach the nearest try; deferred calls run once, LIFO, on every exit."""
import interpcheck

EXPECT = [
    {"src": "r = []\nfunc a() { r += \"a\" }\nfunc b() { r += \"b\" }\nfunc c() { r += \"c\" }\nfunc run() { for g in [a, b, c] { defer g() }; r += \"body\" }\nrun()\nr",
     "field": "result", "want": "[s:626f6479,s:63,s:62,s:61]", "why": "each executed defer runs the function it named at that time, once, in reverse order"},
    {"src": "func with(cleanup) { defer cleanup(); probe(0) }\nwith(func() { probe(1) })\nwith(func() { probe(2) })\nnil", "field": "trace", "want": "(i:0);(i:1);(i:0);(i:2)",
     "why": "a defer statement executed in a later invocation defers that invocation's function"},
    {"src": "func with(cleanup) { defer cleanup() }\nr = \"none\"\nwith(func() { })\ntry { with(func() { throw \"late\" }) } catch e { r = \"caught\" }\nr", "field": "result", "want": "s:636175676874",
     "why": "an error raised by a deferred call of a later invocation reaches the enclosing try"},
    {"src": "func f(n) { g = func() { probe(n) }; defer g(); if n > 0 { f(n - 1) } }\nf(2)\nnil", "field": "trace", "want": "(i:0);(i:1);(i:2)",
     "why": "recursion: every invocation runs its own deferred function"},
    {"src": "r = []\nfunc f() { for i in [1, 2, 3] { defer func(k) { r += k }(i) }; r += 0 }\nf()\nr", "field": "result", "want": "[i:0,i:3,i:2,i:1]",
     "why": "deferred calls run LIFO with the arguments evaluated at the defer statement"},
    {"src": "r = []\nfunc f() { try { defer probe(1); throw \"x\" } catch e { r += \"c\" } finally { r += \"f\" }; r += \"end\" }\nf()\nr", "field": "result",
     "want": "[s:63,s:66,s:656e64]", "why": "catch then finally run; the defer of the function runs at its exit"},
]

# the error that reaches the host (or an outer try) after a catch block re-throws the caught value is the
# error that was caught: same message, whatever raised it and however many handlers passed it on
RETHROW = [("throw \"boom\"", "boom"), ("throw 42", "42"), ("throw [1, 2]", "[1 2]"), ("x = 1 % 0", "integer divide by zero"), ("hpanic(1)", "boom"),
           ("func f() { throw \"inner\" }; f()", "inner"), ("func f() { defer func() { probe(1) }(); throw \"deep\" }; f()", "deep")]
for _body, _msg in RETHROW:
    EXPECT.append({"src": _body, "field": "msg", "want": _msg, "why": "an error that is not caught is returned to the host"})
    EXPECT.append({"src": "try { %s } catch e { throw e }" % _body, "field": "msg", "want": _msg,
                   "why": "a caught error thrown again from the catch block is the same error"})
    EXPECT.append({"src": "try { try { %s } catch e { throw e } } catch f { throw f }" % _body, "field": "msg", "want": _msg,
                   "why": "a caught error thrown again through two handlers is the same error"})
    EXPECT.append({"src": "func g() { try { %s } catch e { throw e } finally { probe(9) } }; r = \"none\"; try { g() } catch q { throw q }; r" % _body, "field": "msg",
                   "want": _msg, "why": "a re-thrown error crosses a function boundary and an outer handler unchanged"})
EXPECT.append({"src": "e = nil; try { throw \"first\" } catch a { e = a }; r = 0; try { throw e } catch b { r = 1 }; r", "field": "result", "want": "i:1",
               "why": "throwing a stored error value raises an error"})
# throw of a caught value always raises: also when the catch variable holds the signal of a return / break / continue that the
# try body was left by (see the C08 known finding); the alternative accepted is the behaviour without that finding
for _src, _alt in (("func f() { try { return 7 } catch q { throw q } }; r = \"E\"; try { r = f() } catch e { }; r", "i:7"),
                   ("r = []; try { for i in [1, 2] { try { break } catch q { throw q }; r += i } } catch e { r += \"E\" }; r", "[]"),
                   ("r = []; try { for i in [1, 2] { try { continue } catch q { throw q }; r += i } } catch e { r += \"E\" }; r", "[]"),
                   ("r = \"none\"; try { try { return 7 } catch q { throw q } } catch e { r = \"E\" }; r", "i:7")):
    EXPECT.append({"src": _src, "field": "result", "want": "s:45" if _src.startswith(("func", "r = \"none")) else "[s:45]", "want_any": [_alt],
                   "why": "throw of the catch variable raises an error, whatever the try body was left by"})

# an interruption is an exit by error: the deferred calls of every invocation being left still run once, LIFO
# ("#cancel=K": the harness cancels the context at the K-th poll, well inside the endless loop)
EXPECT += [
    {"src": "#cancel=9\nfunc f() { defer probe(\"d1\"); defer probe(\"d2\"); for { } }; f()", "field": "trace", "want": "(s:6432);(s:6431)",
     "why": "deferred calls of a function left by a cancellation run, in reverse order"},
    {"src": "#cancel=9\ndefer probe(\"t1\"); defer probe(\"t2\"); for { }", "field": "trace", "want": "(s:7432);(s:7431)",
     "why": "top-level deferred calls run when the script is left by a cancellation"},
    {"src": "#cancel=25\nfunc g() { defer probe(\"g\"); for { } }; func f() { defer probe(\"f\"); try { for i in [1, 2] { defer probe(i) }; g() } catch e { probe(\"caught\") } }; f()",
     "field": "trace", "want": "(s:67);(i:2);(i:1);(s:66)", "why": "every invocation left by a cancellation runs its own deferred calls; the interruption is not caught"},
    {"src": "#cancel=12\nfunc f() { defer func() { probe(\"s\") }(); defer probe(\"h\"); for { } }; f()", "field": "trace", "want": "(s:68)",
     "why": "after a cancellation a deferred Go call still runs; a deferred script function is itself interrupted"},
    {"src": "#cancel=9\nfunc f() { defer probe(\"d1\"); for { } }; f()", "field": "msg", "want": "execution interrupted",
     "why": "deferred calls do not replace the interruption"},
]

# a deferred Go function that panics is one failing deferred call: the defers registered before it still run, and an error of the body wins
EXPECT += [
    {"src": "func f() { defer probe(1); defer hpanic(2); probe(0) }\ntry { f() } catch e { probe(9) }", "field": "trace", "want": "(i:0);(i:1);(i:9)",
     "why": "defers registered before a panicking deferred Go call still run, then the error reaches the caller's try"},
    {"src": "defer probe(1); defer hpanic(2); defer probe(3); probe(0)", "field": "trace", "want": "(i:0);(i:3);(i:1)",
     "why": "at top level, defers around a panicking deferred Go call all run, in reverse order"},
    {"src": "defer probe(1); defer hpanic(2); probe(0)", "field": "msg", "want": "boom", "why": "the panic of a deferred Go call surfaces when the body did not fail"},
    {"src": "func f() { defer probe(1); defer hpanic(2); throw \"body\" }\nf()", "field": "msg", "want": "body",
     "why": "an error raised by a deferred call does not replace the error of the body"},
    {"src": "func f() { defer probe(1); defer hpanic(2); throw \"body\" }\nf()", "field": "trace", "want": "(i:1)",
     "why": "after a failing body and a panicking deferred Go call the remaining defers still run"},
    {"src": "func f() { defer probe(1); defer func() { hpanic(2) }(); defer func() { throw \"t\" }(); return 5 }\nr = 0; try { r = f() } catch e { r = -1 }; r", "field": "trace", "want": "(i:1)",
     "why": "several failing deferred calls: every defer still runs once"},
]

# the arguments of a deferred call are values taken at the defer statement: what happens afterwards to the place an
# argument was read from (a list slot, an element of a typed slice, a map entry) does not reach the deferred call
_SLOT = [("a = [1, 2]", "a[0]", "a[0] = 9", "i:1"), ("a = make([]int64, 2); a[0] = 1", "a[0]", "a[0] = 9", "i:1"),
         ("a = make([]string, 1); a[0] = \"x\"", "a[0]", "a[0] = \"z\"", "s:78"), ("a = {\"k\": 1}", "a.k", "a.k = 9", "i:1"),
         ("a = [[1], [2]]", "a[0][0]", "a[0][0] = 9", "i:1"), ("a = make([]float64, 1); a[0] = 1.5", "a[0]", "a[0] = 2.5", "f:4609434218613702656")]
for _init, _read, _write, _want in _SLOT:
    EXPECT.append({"src": "%s\nr = []\nfunc rec(x) { r += x }\nfunc f() { defer rec(%s); %s }\nf()\nr" % (_init, _read, _write), "field": "result", "want": "[%s]" % _want,
                   "why": "the only argument of a deferred script function is the value at the defer statement"})
    EXPECT.append({"src": "%s\nr = []\nfunc rec(x, y) { r += x; r += y }\nfunc f() { defer rec(%s, %s); %s }\nf()\nr" % (_init, _read, _read, _write), "field": "result",
                   "want": "[%s,%s]" % (_want, _want), "why": "every argument of a deferred script function is the value at the defer statement"})
    EXPECT.append({"src": "%s\nr = []\nfunc rec(x...) { r += x[1] }\nfunc f() { defer rec(0, %s); %s }\nf()\nr" % (_init, _read, _write), "field": "result",
                   "want": "[%s]" % _want, "why": "variadic arguments of a deferred script function are values taken at the defer statement"})
    EXPECT.append({"src": "%s\nfunc f() { defer probe(%s); %s }\nf()\nnil" % (_init, _read, _write), "field": "trace", "want": "(%s)" % _want,
                   "why": "the argument of a deferred Go function is the value at the defer statement"})
    EXPECT.append({"src": "%s\nr = []\nfunc rec(x) { r += x }\nfunc f() { defer rec(%s); %s; throw \"out\" }\ntry { f() } catch e { }\nr" % (_init, _read, _write), "field": "result",
                   "want": "[%s]" % _want, "why": "also when the function is left by an error"})
    EXPECT.append({"src": "%s\nfunc rec(x) { probe(x) }\ndefer rec(%s)\n%s\nnil" % (_init, _read, _write), "field": "trace", "want": "(%s)" % _want,
                   "why": "a top-level deferred script function gets the value at the defer statement"})
EXPECT.append({"src": "slot = [0]\nr = []\nfunc rec(x) { r += x }\nfunc f() { for i in [10, 20, 30] { slot[0] = i; defer rec(slot[0]) }; slot[0] = 1; return 5 }\nx = f()\nr += x\nr", "field": "result",
               "want": "[i:30,i:20,i:10,i:5]", "why": "defers registered in a loop from one reused slot keep the value of their own iteration, LIFO"})

# deferred calls do not alter the invocation's result: also when the result was read from a place the deferred call writes to
for _init, _read, _write, _want in _SLOT:
    EXPECT.append({"src": "%s\nfunc f() { defer func() { %s }(); return %s }\nf()" % (_init, _write, _read), "field": "result", "want": _want,
                   "why": "the result is the value at the return statement, whatever a deferred call does afterwards to the place it was read from"})
    EXPECT.append({"src": "%s\nfunc f() { defer func() { %s }(); return %s }\nx = f()\nx" % (_init, _write, _read), "field": "result", "want": _want,
                   "why": "the same, the result assigned by the caller"})
    EXPECT.append({"src": "%s\nfunc f() { defer func() { %s }(); if true { for i in [1] { return %s } } }\n[f()]" % (_init, _write, _read), "field": "result", "want": "[%s]" % _want,
                   "why": "the same, return from nested blocks, the result used as a list element"})
    EXPECT.append({"src": "%s\nfunc f() { defer func() { %s }(); return %s, 2 }\nx, y = f()\nx" % (_init, _write, _read), "field": "result", "want": _want,
                   "why": "the same with a return list"})
    EXPECT.append({"src": "%s\nfunc f() { defer func() { %s }(); %s }\nf()" % (_init, _write, _read), "field": "result", "want": _want,
                   "why": "the same when the result is the value of the function's last statement (no return statement)"})
    EXPECT.append({"src": "%s\nfunc f() { defer func() { %s }(); if true { %s } }\nx = f()\nx" % (_init, _write, _read), "field": "result", "want": _want,
                   "why": "the same, the last statement nested in a block"})
    EXPECT.append({"src": "%s\ndefer func() { %s }()\n%s" % (_init, _write, _read), "field": "result", "want": _want,
                   "why": "the same at top level: the value handed to the host is the value of the last statement, whatever a deferred call does afterwards"})

# an error raised inside a script function that Go calls back reaches the nearest enclosing try of the script, whatever the
# func type of the callback (with or without results); after the failing point nothing executes but deferred calls
for _call, _tr_in in (("hcall0(func() { probe(\"cb\"); %s; probe(\"not here\") })", "(s:696e30);(s:6362)"),
                      ("hcall1(func(v) { probe(\"cb\"); %s; probe(\"not here\") }, 7)", "(s:696e31);(s:6362)"),
                      ("hcallr(func() { probe(\"cb\"); %s; return 1 })", "(s:696e72);(s:6362)"),
                      ("hcall2(func() { probe(\"cb\"); %s }, func() { probe(\"second callback\") })", "(s:696e32);(s:6362)")):
    for _raise in ("throw \"boom\"", "x = 1 % 0", "undefined_name"):
        _c = _call % _raise
        EXPECT.append({"src": "try { %s; probe(\"after the call\") } catch e { probe(\"caught\") } finally { probe(\"finally\") }\nnil" % _c, "field": "trace",
                       "want": _tr_in + ";(s:636175676874);(s:66696e616c6c79)", "why": "an error inside a callback reaches the nearest enclosing try; nothing after the failing point runs"})
        EXPECT.append({"src": "func w() { defer probe(\"d\"); %s; probe(\"after the call\") }\nr = \"none\"; try { w() } catch e { r = \"caught\" }\nr" % _c, "field": "result",
                       "want": "s:636175676874", "why": "an error inside a callback leaves the calling function and reaches the caller's try"})
        EXPECT.append({"src": "func w() { defer probe(\"d\"); %s; probe(\"after the call\") }\ntry { w() } catch e { }\nnil" % _c, "field": "trace",
                       "want": _tr_in + ";(s:64)", "why": "after a failing callback only the deferred calls of the function being left run"})
        EXPECT.append({"src": "%s\nprobe(\"after the call\")" % _c, "field": "trace", "want": _tr_in, "why": "an uncaught error inside a callback ends the script"})
        EXPECT.append({"src": "%s\nprobe(\"after the call\")" % _c, "field": "status", "want": "err", "why": "an uncaught error inside a callback is returned to the host"})

# the finally block runs after a try whose error was caught - read strictly, also when the catch block itself does not end normally
for _src, _why in (("try { throw \"a\" } catch e { throw \"b\" } finally { probe(\"f\") }", "the catch block raises"),
                   ("func f() { try { throw \"a\" } catch e { return 1 } finally { probe(\"f\") } }; f()", "the catch block returns"),
                   ("for i in [1] { try { throw \"a\" } catch e { break } finally { probe(\"f\") } }", "the catch block leaves the loop")):
    EXPECT.append({"src": _src, "field": "trace", "want": "(s:66)", "finding": "finally-skipped-when-catch-leaves",
                   "why": "finally runs after a try whose error was caught, also when " + _why})

# a receive statement whose ok target cannot be assigned fails as a whole: the error reaches the try, the value target is not assigned
for _v in ("v", "b"):
    EXPECT.append({"src": "ch = make(chan int64, 1); ch <- 1; q = 1; b = 0; r = \"none\"\ntry { %s, q.z = <-ch; r = \"after\" } catch e { r = \"caught\" }\n[r, b, defined_v()]".replace("defined_v()", "(v ?? \"undefined\")") % _v,
                   "field": "result", "want": "[s:636175676874,i:0,s:756e646566696e6564]", "finding": "receive-ok-target-error-ignored", "why": "the error of the ok target of a receive statement reaches the enclosing try and nothing after the failing point runs (value target %s)" % _v})
EXPECT.append({"src": "ch = make(chan int64, 1); ch <- 1; m = {}\nfunc bad() { throw \"in the ok target\" }\nv, m[bad()] = <-ch\nprobe(\"after\")", "field": "status", "want": "err", "finding": "receive-ok-target-error-ignored",
               "why": "an error while evaluating the ok target of a receive statement is returned to the host"})
EXPECT.append({"src": "ch = make(chan int64, 1); ch <- 1; m = {}\nfunc bad() { throw \"in the ok target\" }\nv, m[bad()] = <-ch\nprobe(\"after\")", "field": "trace", "want": "", "finding": "receive-ok-target-error-ignored",
               "why": "... and nothing after the receive statement runs"})
EXPECT.append({"src": "#cancel=6\nch = make(chan int64, 1); ch <- 1; m = {}\nfunc spin() { for { } }\nv, m[spin()] = <-ch\nprobe(\"after\")", "field": "msg", "want": "execution interrupted", "finding": "receive-ok-target-error-ignored",
               "why": "a cancellation while the ok target of a receive statement is evaluated is not swallowed"})

# every invocation has its own list of deferred calls, also when several invocations of one function are alive at once and
# when the function has been used before
for _src, _want, _why in (
        ("func walk(n) { defer probe(n); if n > 0 { walk(n - 1) } }\nwalk(2)\nwalk(2)\nnil", "(i:0);(i:1);(i:2);(i:0);(i:1);(i:2)", "a recursive function with a defer per frame, used twice"),
        ("func walk(n) { defer probe(n); if n > 0 { walk(n - 1) } }\nwalk(1)\nwalk(3)\nwalk(2)\nnil", "(i:0);(i:1);(i:0);(i:1);(i:2);(i:3);(i:0);(i:1);(i:2)", "... three times with different depths"),
        ("func walk(n) { defer probe(n); if n > 0 { walk(n - 1) } else { throw \"bottom\" } }\ntry { walk(2) } catch e { }\ntry { walk(2) } catch e { }\nnil",
         "(i:0);(i:1);(i:2);(i:0);(i:1);(i:2)", "... left by an error"),
        ("depth = 0\nfunc f(tag) { defer probe(tag); defer func() { if depth < 1 { depth++; f(tag + 10) } }(); defer probe(tag + 1) }\nf(1)\ndepth = 0\nf(1)\nnil",
         "(i:2);(i:12);(i:11);(i:1);(i:2);(i:12);(i:11);(i:1)", "a deferred call that re-enters the function"),
        ("func two(n) { defer probe(n); defer probe(n + 100); if n > 0 { two(n - 1) }; return n }\ntwo(1)\ntwo(1)\nnil",
         "(i:100);(i:0);(i:101);(i:1);(i:100);(i:0);(i:101);(i:1)", "two defers per frame, recursion, explicit return"),
        ("f = func(n) { defer probe(n); if n > 0 { f(n - 1) } }\nf(1)\nf(1)\nnil", "(i:0);(i:1);(i:0);(i:1)", "an anonymous function value used the same way")):
    EXPECT.append({"src": _src, "field": "trace", "want": _want, "why": "deferred calls run exactly once per invocation, in reverse order: " + _why})

# throw aborts evaluation whatever it throws - the empty string, nil, false and 0 included
for _v, _vn in (("\"\"", "the empty string"), ("nil", "nil"), ("false", "false"), ("0", "zero"), ("\"x\"", "a string"), ("\" \"", "a blank")):
    EXPECT.append({"src": "x = 0\ntry { throw %s; x = 1 } catch e { x = 2 }\nx" % _v, "field": "result", "want": "i:2", "why": "throw of %s aborts the try body and runs catch" % _vn})
    EXPECT.append({"src": "func f() { throw %s; probe(\"after the throw\") }\nf()\nprobe(\"after the call\")" % _v, "field": "trace", "want": "", "why": "after a throw of %s nothing executes" % _vn})
    EXPECT.append({"src": "func f() { throw %s; probe(\"after the throw\") }\nf()\nprobe(\"after the call\")" % _v, "field": "status", "want": "err", "why": "... and the host gets an error"})
    EXPECT.append({"src": "r = []\nfunc f() { defer func() { r += \"d\" }(); throw %s }\ntry { f() } catch e { r += \"c\" }\nr" % _v, "field": "result", "want": "[s:64,s:63]", "why": "a throw of %s leaves the function through its deferred calls to the caller's catch" % _vn})

# a break or continue outside any loop of its own function is a runtime error of that function: it leaves the function as an
# error, reaches the nearest try (or the host), and is never taken for the caller's own loop control
for _body, _call, _how in (("func f() { %s }", "f()", "a function without parameters"), ("func f(a, b, c, d, e) { %s }", "f(1, 2, 3, 4, 5)", "a function of five parameters"),
                           ("func f(xs...) { %s }", "f(1)", "a variadic function"), ("func g() { %s }; func f() { g(); probe(\"not here\") }", "f()", "two function levels"),
                           ("func f() { if true { %s } }", "f()", "inside a block of the function")):
    for _sig in ("break", "continue"):
        EXPECT.append({"src": (_body % _sig) + "\nr = []\ntry { for i in [1, 2, 3] { r += i; %s; r += \"after the call\" }; r += \"after the loop\" } catch e { r += \"caught\" }\nr" % _call,
                       "field": "result", "want": "[i:1,s:636175676874]", "why": "a stray %s in %s called from a loop is an error that reaches the enclosing try" % (_sig, _how)})
        EXPECT.append({"src": (_body % _sig) + "\nfor i in [1, 2, 3] { probe(i); %s; probe(\"after the call\") }\nprobe(\"after the loop\")" % _call,
                       "field": "trace", "want": "(i:1)", "why": "a stray %s in %s called from a loop ends the script: nothing after the failing point runs" % (_sig, _how)})
        EXPECT.append({"src": (_body % _sig) + "\nfor i in [1, 2, 3] { probe(i); %s; probe(\"after the call\") }\nprobe(\"after the loop\")" % _call,
                       "field": "status", "want": "err", "why": "... and the host gets the error"})


def run(tier, seed, replay=None):
    return interpcheck.run_interp_check(
        "C09", "c09", ("result", "trace"), {"quick": 6000, "thorough": 150000}, tier, seed,
        rule="programs nesting try/catch/finally, throw, runtime errors, functions with defer statements (host and script "
             "callees, inside loops and branches), return at random positions; compared: probe trace and value / error class; "
             "non-trivial = distinct source with a non-empty trace",
        design_ref="DESIGN.md §4 C09", expectations=EXPECT)
