"""C09: errors reach the nearest try; deferred calls run once, LIFO, on every exit."""
import interpcheck

def run(tier, seed, replay=None):
    return interpcheck.run_interp_check(
        "C09", "c09", ("result", "trace"), {"quick": 6000, "thorough": 150000}, tier, seed,
        rule="programs nesting try/catch/finally, throw, runtime errors, functions with defer statements (host and script "
             "callees, inside loops and branches), return at random positions; compared: probe trace and value / error class; "
             "non-trivial = distinct source with a non-empty trace",
        design_ref="DESIGN.md §4 C09")
