"""C11: values and calls cross the Go boundary faithfully."""
import json, os, re, shutil
import common
from common import Result, CheckError

PID = "C11"


def unhex_strings(s):
    def rep(m):
        try:
            return "string:" + bytes.fromhex(m.group(1)).decode("utf-8")
        except Exception:
            return "string:<invalid utf-8 %s>" % m.group(1)
    return re.sub(r"string:#([0-9a-f]*)#", rep, s)


def run(tier, seed, replay=None):
    res = Result(PID, tier, seed)
    harness = common.build_harness()
    bad = common.forbidden_scan()
    driver, ok_make, log = common.build_model()
    scratch = common.scratch_dir("c11")
    try:
        common.sh([harness, "c11", "-seed", str(seed), "-n", "1", "-out", scratch], env=common.GOENV, timeout=3000)
        ob = common.property_obligations(PID)
        meta = json.load(open(os.path.join(scratch, "meta.json")))
        cases, shapes = meta["cases"], meta["shapes"]
        known = {k["id"]: k for k in common.known_findings(PID)[0]}
        # 1. implementation against native Go
        nbad = 0
        for c in cases:
            if c["got"].endswith(c["want"]):
                continue
            if c["src"].startswith("fixed2([1, \"x\", 3]...") and "spread-surplus-dropped" in known:
                res.known("spread-surplus-dropped", known["spread-surplus-dropped"]["text"])
                continue
            nbad += 1
            if len(res.violations) < 10:
                res.violation({"property": PID, "kind": "the Go boundary differs from Go's own conversion / call: " + c["why"], "source": c["src"],
                               "log_of_the_Go_functions_and_result": c["got"][:600], "native_go": c["want"][:600],
                               "how_to_replay": "harness/c11.go c11Env binds the Go functions; vm.Execute(source)"})
        # 2. conversion model against the implementation
        mcases = [c for c in cases if c.get("model_in")]
        mlines = common.run_driver(driver, os.path.join(scratch, "cases.sx"))
        nmod = 0
        for c, ml in zip(mcases, mlines):
            m = ml.strip()
            name = c["src"].split("(")[0]
            if m == "(error)":
                want = " => error"
            elif m.startswith("(ok "):
                body = m[4:-1]
                if body.startswith('"'):
                    body = re.sub(r'\\x([0-9a-f]{2})', lambda mm: chr(int(mm.group(1), 16)), body[1:-1]).replace('\\"', '"').replace("\\\\", "\\")
                p = unhex_strings(body)
                want = "%s(%s) => %s" % (name, p, p)
            else:
                want = m
            got = c["got"]
            if re.sub(r"(\[\][^()=,>]*?)\(nil\)", r"\1[]", got.replace(" ", "")) != want.replace(" ", "") and not (want == " => error" and got.endswith(" => error")):
                nmod += 1
                if len(res.violations) < 12:
                    res.violation({"property": PID, "kind": "the conversion model (coq/Conv/Convert.v) and the implementation differ", "source": c["src"],
                                   "implementation": got[:400], "model": want[:400]}, "no-failing-input-found" if c["got"].endswith(c["want"]) else "")
        # 3. call shapes: model, implementation, and the property's own rule (exactly the supplied arguments)
        slines = common.run_driver(driver, os.path.join(scratch, "shapes.sx"))
        nshape, dev = 0, {}
        for sh, ml in zip(shapes, slines):
            m = ml.strip()
            mm = re.match(r"\((deliver|list-as-one) \((.*?)\) \((.*?)\)\)", m)
            if sh["result"].startswith("PANIC"):
                res.violation({"property": PID, "kind": "a call shape makes the interpreter panic", "source": sh["src"], "panic": sh["result"]})
                continue
            impl = "(reject)" if sh["result"] != "ok" else sh["log"]
            if m == "(reject)":
                model = "(reject)"
            elif mm and mm.group(1) == "deliver":
                model = "F(%s)(%s)" % (mm.group(2), mm.group(3))
            elif mm:
                fixed = (mm.group(2) + " [" + mm.group(3) + "]").strip()
                model = "F(%s)()" % fixed
            else:
                model = m
            if model != impl:
                nshape += 1
                if len(res.violations) < 12:
                    res.violation({"property": PID, "kind": "the argument-building model (coq/Conv/CallArgs.v) and the implementation differ",
                                   "source": sh["src"], "implementation": impl, "model": m}, "no-failing-input-found")
            # property: what is delivered is what was supplied
            if impl != "(reject)":
                supplied = [str(x) for x in (sh["pre"] or [])] + [str(x) for x in (sh["spread"] or [])]
                delivered = re.findall(r"-?\d+", impl) if "[" not in impl else None
                fid = None
                if delivered is None:
                    fid = "short-spread-list-as-one"
                elif delivered != supplied:
                    fid = "spread-into-noparam" if sh["n"] == 0 else "spread-surplus-dropped"
                if fid:
                    dev[fid] = dev.get(fid, 0) + 1
                    if fid in known and (sh["is_spread"]):
                        res.known(fid, known[fid]["text"])
                    else:
                        res.violation({"property": PID, "kind": "a Go function does not receive exactly the supplied arguments", "source": sh["src"],
                                       "received": impl, "supplied": supplied})
        if bad:
            res.violation({"property": PID, "kind": "forbidden construct in the Coq development", "lines": bad}, "no-failing-input-found")
        if ob["failed"] and not res.violations:
            res.violation({"property": PID, "kind": "proof obligation no longer checks", "failed": ob["failed"]}, "no-failing-input-found")
        res.coverage = {
            "obligations": ob["obligations"], "discharged": ob["discharged"], "theorems": ob["theorems"], "axioms": ob["axioms"],
            "closed_under_global_context": ob["closed_count"], "obligation_failures": ob["failed"],
            "checker_cmd": "make -C coq; coqc Properties/C11.v; harness c11 (Go functions of 30 parameter types, call shapes, results, methods, fields, callbacks bound into "
                           "the environment; every received argument logged with its dynamic type); extracted entries c11 (conversion) and c11a (argument building)",
            "trusted_base": common.TRUSTED_COMMON + [
                "native oracle harness/c11.go c11Native: reflect.Value.Convert where reflect says the types are convertible (that is Go's own conversion), "
                "recursion over slices and maps, zero value for nil, plus the interpreter's one-byte-string to byte/rune extension",
                "projection of Go values with their dynamic types (harness/c10.go c10ProjT)"],
            "evaluations": len(cases) + len(shapes), "distinct_nontrivial": len(set(c["src"] for c in cases)) + len(shapes),
            "rule": "complete product 30 parameter types (all integer widths, floats, string, bool, interface{}, error, *int64, 8 slice types incl. nested, 5 map types) x "
                    "43 script values (nil, bools, boundary integers for every width, floats, strings incl. non-ASCII, lists of mixed/nested/nil elements, maps); "
                    "complete product of call shapes: 0-3 parameters x fixed/variadic x 0-4 ordinary arguments x no/empty/1-3 element spread (175); directed: "
                    "typed signatures, 0-3 results, Go values through scopes/containers/identity, value- and pointer-receiver methods (variadic, spread), "
                    "field read/write through a pointer, callbacks (conversion of results, errors inside, two results, variadic func type)",
            "conversion_cases": len(cases), "conversion_cases_in_model": len(mcases), "native_mismatches": nbad, "model_mismatches": nmod,
            "call_shapes": len(shapes), "call_shape_model_mismatches": nshape, "call_shape_deviations_from_the_property": dev,
            "samples": [{"src": c["src"], "got": c["got"][:100]} for c in cases[100:103]], "make_ok": ok_make,
        }
        res.assumptions = ["float32/float64 targets, maps, pointers, structs and func adapters are outside the Coq conversion model (native comparison only)",
                           "a call that is rejected although its argument count fits is not counted as a wrong delivery"]
        return res.finish()
    finally:
        shutil.rmtree(scratch, ignore_errors=True)
