"""C04: names follow lexical block scope; closures capture their defining scope."""
import interpcheck

# every loop form: the loop variable shadows and does not leak, names created in the body do not leak,
# var in the body shadows - expected results known by construction
LOOPS = [
    ("for x in [1, 2, 3]", ""), ("for x in {\"k\": 7}", ""), ("for k, x in {\"k\": 7}", ""), ("for x = 0; x < 2; x++", ""),
    ("for x in c", "c = make(chan int64, 3); c <- 1; c <- 2; c <- 3; close(c); "), ("for x, = <-c; false;", None),
]


def product():
    out = []
    for head, pre in LOOPS:
        if pre is None:
            continue
        name = head[:22]
        cfor = head.startswith("for x = 0")     # its init is a plain assignment: it reaches an existing binding by design
        if not cfor:
            out.append({"src": pre + "x = 10; " + head + " { }; x", "field": "result", "want": "i:10", "why": "the loop variable of `%s` shadows an outer name of the same spelling" % name})
        out.append({"src": pre + head + " { }; r = \"gone\"; try { r = x } catch e { }; r", "field": "result", "want": "s:676f6e65",
                    "why": "the loop variable of `%s` is not visible after the loop" % name})
        out.append({"src": pre + head + " { fresh = 1 }; r = \"gone\"; try { r = fresh } catch e { }; r", "field": "result", "want": "s:676f6e65",
                    "why": "a name created by assignment in the body of `%s` is not visible after the loop" % name})
        out.append({"src": pre + "y = 10; " + head + " { var y = 99 }; y", "field": "result", "want": "i:10", "why": "var in the body of `%s` shadows" % name})
        out.append({"src": pre + "y = 10; " + head + " { y = 99 }; y", "field": "result", "want": "i:99", "why": "plain assignment in the body of `%s` reaches the enclosing binding" % name})
        if not cfor:
            out.append({"src": pre + "func f(x) { " + head + " { }; return x }; f(5)", "field": "result", "want": "i:5",
                        "why": "the loop variable of `%s` does not overwrite a parameter" % name})
    return out


def run(tier, seed, replay=None):
    return interpcheck.run_interp_check(
        "C04", "c04", ("result", "trace", "bindings"), {"quick": 6000, "thorough": 150000}, tier, seed,
        rule="complete product statement kind (19) x nested statement kind (19) x exit path (8: fall through, break, continue, "
             "return, throw, runtime error, undefined name, wrong-arity call), each with a shadowing var inside and probe()d reads "
             "of the shadowed names after the exit and at top level (2888 programs), then random scope-stress programs over the "
             "name pool {a,b,c,x}; compared: probe trace, final top-level bindings, result / error class; "
             "non-trivial = distinct source whose trace is not empty",
        design_ref="DESIGN.md §4 C04", expectations=product())
