"""C04: names follow lexical block scope; closures capture their defining scope."""
import interpcheck

def run(tier, seed, replay=None):
    return interpcheck.run_interp_check(
        "C04", "c04", ("result", "trace", "bindings"), {"quick": 6000, "thorough": 150000}, tier, seed,
        rule="complete product statement kind (19) x nested statement kind (19) x exit path (8: fall through, break, continue, "
             "return, throw, runtime error, undefined name, wrong-arity call), each with a shadowing var inside and probe()d reads "
             "of the shadowed names after the exit and at top level (2888 programs), then random scope-stress programs over the "
             "name pool {a,b,c,x}; compared: probe trace, final top-level bindings, result / error class; "
             "non-trivial = distinct source whose trace is not empty",
        design_ref="DESIGN.md §4 C04")
