"""C04: names follow lexical block scope; closures capture their defining scope."""
import interpcheck

# every loop form: the loop variable shadows and does not leak, names created in the body do not leak,
# var in the body shadows - expected results known by construction
LOOPS = [
    ("for x in [1, 2, 3]", ""), ("for x in {\"k\": 7}", ""), ("for k, x in {\"k\": 7}", ""), ("for x = 0; x < 2; x++", ""),
    ("for x in c", "c = make(chan int64, 3); c <- 1; c <- 2; c <- 3; close(c); "), ("for x, = <-c; false;", None),
]


def product():
    out = []
    for head, pre in LOOPS:
        if pre is None:
            continue
        name = head[:22]
        cfor = head.startswith("for x = 0")     # its init is a plain assignment: it reaches an existing binding by design
        if not cfor:
            out.append({"src": pre + "x = 10; " + head + " { }; x", "field": "result", "want": "i:10", "why": "the loop variable of `%s` shadows an outer name of the same spelling" % name})
        out.append({"src": pre + head + " { }; r = \"gone\"; try { r = x } catch e { }; r", "field": "result", "want": "s:676f6e65",
                    "why": "the loop variable of `%s` is not visible after the loop" % name})
        out.append({"src": pre + head + " { fresh = 1 }; r = \"gone\"; try { r = fresh } catch e { }; r", "field": "result", "want": "s:676f6e65",
                    "why": "a name created by assignment in the body of `%s` is not visible after the loop" % name})
        out.append({"src": pre + "y = 10; " + head + " { var y = 99 }; y", "field": "result", "want": "i:10", "why": "var in the body of `%s` shadows" % name})
        out.append({"src": pre + "y = 10; " + head + " { y = 99 }; y", "field": "result", "want": "i:99", "why": "plain assignment in the body of `%s` reaches the enclosing binding" % name})
        if not cfor:
            out.append({"src": pre + "func f(x) { " + head + " { }; return x }; f(5)", "field": "result", "want": "i:5",
                        "why": "the loop variable of `%s` does not overwrite a parameter" % name})
    # loops that bind no variable of their own still give their body a scope
    for pre, head in (("z = 0; ", "for ; z < 2; z++"), ("z = 0; ", "for ; z < 2; z += 1"), ("z = 0; ", "for z < 2"), ("z = 0; ", "for z = 0; z < 2; z++"),
                      ("z = 0; ", "for"), ("z = 0; ", "for ; ;")):
        tail = "; z = z + 1" if head in ("for z < 2",) else ("; z = z + 1; if z > 1 { break }" if head in ("for", "for ; ;") else "")
        out.append({"src": pre + head + " { fresh = 1" + tail + " }; r = \"gone\"; try { r = fresh } catch e { }; r", "field": "result", "want": "s:676f6e65",
                    "why": "a name created in the body of `%s` is not visible after the loop" % head})
        out.append({"src": pre + "y = 10; " + head + " { var y = 99" + tail + " }; y", "field": "result", "want": "i:10", "why": "var in the body of `%s` shadows" % head})
        out.append({"src": pre + "y = 10; " + head + " { y = 99" + tail + " }; y", "field": "result", "want": "i:99",
                    "why": "plain assignment in the body of `%s` reaches the enclosing binding" % head})
        out.append({"src": "func f(n) { " + pre + head + " { var n = 0" + tail + " }; return n }; f(7)", "field": "result", "want": "i:7",
                    "why": "var in the body of `%s` does not overwrite a parameter" % head})
    # var with several names binds every one of them in the current scope, whatever the shape of the right-hand side
    for rhs, vals in (("[10, 20]", (10, 20)), ("10, 20", (10, 20)), ("pair()", (7, 3))):
        pre = "func pair() { return 7, 3 }; " if "pair" in rhs else ""
        out.append({"src": pre + "a = 1; b = 2; if true { var a, b = %s }; [a, b]" % rhs, "field": "result", "want": "[i:1,i:2]",
                    "why": "`var a, b = %s` in a block shadows, it does not assign to the outer names" % rhs})
        out.append({"src": pre + "a = 1; func f() { var a, b = %s; return a }; [f(), a]" % rhs, "field": "result", "want": "[i:%d,i:1]" % vals[0],
                    "why": "`var a, b = %s` in a function binds locals" % rhs})
        out.append({"src": pre + "a = 1; g = func() { return a }; for i in [1] { var a, b = %s }; g()" % rhs, "field": "result", "want": "i:1",
                    "why": "`var a, b = %s` in a loop body is not seen by a closure over the outer name" % rhs})
        out.append({"src": pre + "func f(n) { var a, b = %s; if n > 0 { f(n - 1) }; return a + n }; f(2)" % rhs, "field": "result", "want": "i:%d" % (vals[0] + 2),
                    "why": "`var a, b = %s`: recursive invocations have their own bindings" % rhs})
    # every construct that opens scopes hands back the scope it started in - also when no branch is taken
    for c in CONSTRUCTS:
        name = c.replace("\n", " ")[:40]
        out.append({"src": "x = 1; f = func() { return x }; %s; var x = 2; f()" % c, "field": "result", "want": "i:2",
                    "why": "after `%s` a var statement binds in the block the construct stands in (seen by a closure of that block)" % name})
        out.append({"src": "module m { %s; a = 5 }; m.a" % c, "field": "result", "want": "i:5",
                    "why": "after `%s` an assignment in a module body binds in the module" % name})
        out.append({"src": "%s; b = 7" % c, "field": "bindings", "want": "b=i:7",
                    "why": "after `%s` a top-level assignment binds in the environment given to Execute" % name})
        out.append({"src": "func g() { y = 1; h = func() { return y }; %s; var y = 2; return h() }; g()" % c, "field": "result", "want": "i:2",
                    "why": "after `%s` inside a function a var statement binds in the function's scope" % name})
    return out


CONSTRUCTS = [
    "if false { }", "if true { }", "if false { } else { }", "if false { } else if false { }", "if false { } else if false { } else if false { }",
    "if false { } else if true { }", "if true { } else if true { }", "if false { } else if false { } else { }", "if 0 { } else if \"\" { } else if nil { }",
    "for ; false; { }", "for ; false; false { }", "for i in [] { }", "for i in [1] { }", "for i = 0; i < 1; i++ { }", "for false { }", "for i in [1, 2] { if i == 1 { continue }; break }",
    "switch 1 {\ncase 2: 3\n}", "switch 1 {\ncase 1: 3\n}", "switch 1 {\ndefault: 3\n}", "switch 1 {\ncase 2:\n}",
    "try { } catch e { }", "try { throw 1 } catch e { }", "try { } catch e { } finally { }", "try { throw 1 } catch e { } finally { }",
    "func() { }()", "func() { if false { } else if false { } }()",
]

EXPECT = []
# a name in call position is looked up each time the call is evaluated: the same call site sees the binding of the
# invocation / iteration / closure it runs in
for _src, _want, _why in (
        ("func outer(n) { func helper() { return n }; return helper() }\n[outer(1), outer(2), outer(3)]", "[i:1,i:2,i:3]", "a nested named function called by name belongs to the invocation that declared it"),
        ("r = []\nfor i in [1, 2, 3] { f = func() { return i * 10 }; r += f() }\nr", "[i:10,i:20,i:30]", "a call site inside a loop calls what the name is bound to in that iteration"),
        ("func mk(k) { return func() { return k } }\nr = []\nfor g in [mk(1), mk(2), mk(3)] { r += g() }\nr", "[i:1,i:2,i:3]", "a loop variable in call position is the function of its iteration"),
        ("func apply(f) { return f() }\n[apply(func() { return 1 }), apply(func() { return 2 })]", "[i:1,i:2]", "a parameter in call position is the argument of that invocation"),
        ("func apply5(f, a, b, c, d) { return f() }\n[apply5(func() { return 1 }, 0, 0, 0, 0), apply5(func() { return 2 }, 0, 0, 0, 0)]", "[i:1,i:2]", "... also on the five-parameter path"),
        ("func twice() { r = []; f = nil; for k in [0, 1] { if k == 0 { f = func() { return \"a\" } } else { f = func() { return \"b\" } }; r += f() }; return r }\ntwice()", "[s:61,s:62]",
         "a name rebound between two evaluations of one call site"),
        ("func counter() { n = 0; return func() { n++; return n } }\nc1 = counter(); c2 = counter()\nfunc bump(c) { return c() }\n[bump(c1), bump(c1), bump(c2)]", "[i:1,i:2,i:1]", "two closure instances through one call site"),
        ("func rec(n, f) { if n == 0 { return f() }; return rec(n - 1, func() { return n }) }\nrec(3, func() { return 0 })", "i:1", "recursion: the call site f() runs in the deepest invocation"),
        ("module a { func who() { return \"a\" } }\nmodule b { func who() { return \"b\" } }\nr = []\nfor m in [a, b] { r += m.who() }\nr", "[s:61,s:62]", "a member call through a loop variable"),
        ("func d(x) { defer show(x) }\nr = []\nfunc show(v) { r += v }\nd(1)\nshow = func(v) { r += v * 100 }\nd(2)\nr", "[i:1,i:200]", "a deferred call by name takes the function bound when the defer statement runs")):
    EXPECT.append({"src": _src, "field": "result", "want": _want, "why": _why})
# a function's own name is an ordinary binding of the scope that declares it: the body reaches it by reference
for _src, _want, _why in (
        ("func a() { a = 5 }\na()\na", "i:5", "an assignment to the function's own name inside its body updates the declaring scope's binding"),
        ("func a() { return func() { a = 6 } }\na()()\na", "i:6", "... also from a closure made in the body"),
        ("func f(n) { if n == 0 { return \"old\" }; return f(n - 1) }\ng = f\nfunc f(n) { return \"new\" }\ng(1)", "s:6e6577",
         "a recursive call by name takes the binding the declaring scope has at the time of the call"),
        ("func f() { return 1 }\ng = f\nf = 7\nfunc h() { return f }\n[g(), h()]", "[i:1,i:7]", "rebinding the name outside does not touch the function value held elsewhere"),
        ("func outer() { func inner() { inner = 3; return 0 }; inner(); return inner }\nouter()", "i:3", "the same one level down"),
        ("func f() { var f = 2; return f }\n[f(), f()]", "[i:2,i:2]", "a var of the function's own name inside the body is local to the invocation"),
        ("func f() { f = 2 }\nfunc g() { f() }\ng()\nf", "i:2", "the assignment happens in the declaring scope also when the call comes from another function")):
    EXPECT.append({"src": _src, "field": "result", "want": _want, "why": _why})

# a construct that ends by an error - in whichever of its clauses the error arises - hands back the scope it started
# in: the catch and finally blocks of an enclosing try read and assign the names of the block the try stands in
_BOOM = "func boom() { throw \"b\" }\n"
ERR_CONSTRUCTS = [
    ("post clause of a C-style for", "for i = 0; i < 3; i += boom() { var x = \"inner\" }"),
    ("post clause of a C-style for (a runtime error)", "for i = 0; i < 3; i += [1][i + 1] { var x = \"inner\" }"),
    ("post clause of a C-style for (an undefined name)", "for i = 0; i < 3; i += nosuchname { var x = \"inner\" }"),
    ("post clause after continue", "for i = 0; i < 3; boom() { var x = \"inner\"; continue }"),
    ("condition of a C-style for", "for i = 0; boom(); i++ { var x = \"inner\" }"),
    ("condition of a C-style for, second evaluation", "for i = 0; i < 1 || boom(); i++ { var x = \"inner\" }"),
    ("init clause of a C-style for", "for i = boom(); i < 3; i++ { }"),
    ("body of a C-style for", "for i = 0; i < 3; i++ { var x = \"inner\"; boom() }"),
    ("post clause of an inner C-style for", "for i = 0; i < 2; i++ { var x = \"mid\"; for j = 0; j < 2; j += boom() { var x = \"inner\" } }"),
    ("body of a for-in over a list (the loop variable is x)", "for x in [1, 2] { boom() }"),
    ("iterable of a for-in", "for x in boom() { }"),
    ("body of a for-in", "for v in [1] { var x = \"inner\"; boom() }"),
    ("body of a for-in over a map", "for k, x in {\"k\": 1} { boom() }"),
    ("body of a for-in over a channel", "c = make(chan int64, 2); c <- 1; c <- 2; for x in c { boom() }"),
    ("body of a condition loop", "for true { var x = \"inner\"; boom() }"),
    ("condition of a condition loop", "for boom() { }"),
    ("body of if", "if true { var x = \"inner\"; boom() }"),
    ("condition of if", "if boom() { }"),
    ("condition of else if", "if false { } else if boom() { }"),
    ("body of else if", "if false { } else if true { var x = \"inner\"; boom() }"),
    ("body of else", "if false { } else { var x = \"inner\"; boom() }"),
    ("operand of switch", "switch boom() {\ncase 1: 1\n}"),
    ("case expression", "switch 1 {\ncase boom(): 1\n}"),
    ("case body", "switch 1 {\ncase 1: var x = \"inner\"; boom()\n}"),
    ("default body", "switch 1 {\ndefault: var x = \"inner\"; boom()\n}"),
    ("catch block of an inner try", "try { var x = \"inner\"; boom() } catch e1 { var x = \"inner2\"; boom() }"),
    ("finally block of an inner try", "try { boom() } catch e1 { } finally { var x = \"inner\"; boom() }"),
    ("module body", "module mm { var x = \"inner\"; boom() }"),
    ("function body", "func() { var x = \"inner\"; boom() }()"),
    ("function body reached through a loop", "for i = 0; i < 2; i++ { func() { var x = \"inner\"; boom() }() }"),
]
for _where, _c in ERR_CONSTRUCTS:
    _n = _c.replace("\n", " ")
    EXPECT.append({"src": _BOOM + "x = \"outer\"; r = []\ntry { %s } catch e { r += x; x = \"assigned\" } finally { r += x }\nr += x\nr" % _c, "field": "result",
                   "want": "[s:6f75746572,s:61737369676e6564,s:61737369676e6564]",
                   "why": "an error in the %s (`%s`): catch and finally of the enclosing try read and assign the x of their own block" % (_where, _n)})
    EXPECT.append({"src": _BOOM + "func f(x) { try { %s } catch e { x = x + 1 }; return x }\nf(5)" % _c.replace("\"inner\"", "0").replace("\"inner2\"", "0").replace("\"mid\"", "0"),
                   "field": "result", "want": "i:6",
                   "why": "an error in the %s (`%s`) inside a function: the catch block reads and assigns the parameter" % (_where, _n)})
for _head in ("for kk = 0; kk < 3; kk += boom() { }", "for kk = 0; boom(); kk++ { }", "for kk in [1] { boom() }", "for kk = 0; kk < 3; kk++ { boom() }"):
    EXPECT.append({"src": _BOOM + "r = \"gone\"\ntry { %s } catch e { try { r = kk } catch e2 { } }\nr" % _head, "field": "result", "want": "s:676f6e65",
                   "why": "the loop variable of `%s` is not visible in the catch block of an enclosing try" % _head})


def run(tier, seed, replay=None):
    return interpcheck.run_interp_check(
        "C04", "c04", ("result", "trace", "bindings"), {"quick": 6000, "thorough": 150000}, tier, seed,
        rule="complete product statement kind (19) x nested statement kind (19) x exit path (8: fall through, break, continue, "
             "return, throw, runtime error, undefined name, wrong-arity call), each with a shadowing var inside and probe()d reads "
             "of the shadowed names after the exit and at top level (2888 programs), then random scope-stress programs over the "
             "name pool {a,b,c,x}; compared: probe trace, final top-level bindings, result / error class; "
             "non-trivial = distinct source whose trace is not empty",
        design_ref="DESIGN.md §4 C04", expectations=product() + EXPECT)
