"""C06: equality is one coherent relation."""
import re
from fractions import Fraction
import interpcheck

POOLVAL = re.compile(r"va = (.*); vb = (.*)\n")


def bools(result):
    if not result.startswith("[") or not result.endswith("]"):
        return None
    parts = result[1:-1].split(",")
    if any(p not in ("b:true", "b:false") for p in parts):
        return None
    return [p == "b:true" for p in parts]


INT = re.compile(r"^-?\d+$")
FLT = re.compile(r"^-?\d+\.\d+$|^-?\d+(\.\d+)?e-?\d+$")


DECIMAL = re.compile(r"^[+-]?(\d+\.?\d*|\.\d+)([eE][+-]?\d+)?$")


def strconv_float(body):
    """the float64 the interpreter's strconv route (ParseInt with base 0, then ParseFloat) makes of the text; None: an error"""
    if body != body.strip() or body == "":
        return None
    t = body.replace("_", "") if re.match(r"^[+-]?(0[xXbBoO])?[0-9a-fA-F]+(_[0-9a-fA-F]+)*$", body) else body
    try:
        if re.match(r"^[+-]?0[xX]", t) and "p" in t.lower():
            return float.fromhex(t)
        if re.match(r"^[+-]?(0[xXbBoO])?[0-9a-fA-F]+$", t) and not re.match(r"^[+-]?\d+[eE]", t):
            try:
                return float(int(t, 0)) if re.match(r"^[+-]?0[xXbBoO]", t) else float(int(t, 10))
            except ValueError:
                pass
        return float(t)
    except (ValueError, OverflowError):
        return None


def lit_float(lit):
    if lit == "(1.0/0.0)":
        return float("inf")
    if lit == "(0.0/0.0)":
        return float("nan")
    try:
        return float(lit)
    except (ValueError, OverflowError):
        return None


def num_of(lit):
    """exact value of a numeric source literal, with its kind"""
    if INT.match(lit):
        return ("int", Fraction(int(lit)))
    if FLT.match(lit):
        return ("float", Fraction(float(lit)))
    return None


_SA = [1, 2, 3]
SHARED = {"sa": _SA, "sa[:2]": _SA[:2], "sa[:0]": [], "sa[1:]": _SA[1:], "sa[0:3]": _SA, "sa[:1]": [1], "[1, 2]": [1, 2], "[1, 2, 3]": [1, 2, 3],
          "[]": [], "[2, 3]": [2, 3], "[1]": [1], "sm": {"a": 1}, '{"a": 1}': {"a": 1}, "[sa]": [_SA], "[sa[:2]]": [[1, 2]], "[[1, 2]]": [[1, 2]], "sn": [float("nan")], "[(0.0/0.0)]": [float("nan")], "[sn]": [[float("nan")]]}


def struct_eq(a, b):
    """structural equality with Go's == at the leaves: NaN equals nothing, also not itself"""
    if isinstance(a, list) and isinstance(b, list):
        return len(a) == len(b) and all(struct_eq(x, y) for x, y in zip(a, b))
    if isinstance(a, dict) and isinstance(b, dict):
        return a.keys() == b.keys() and all(struct_eq(a[k], b[k]) for k in a)
    if isinstance(a, (list, dict)) or isinstance(b, (list, dict)):
        return False
    return a == b


def impl_oracle(c):
    """laws the property states, checked on the implementation's answers alone"""
    impl = c["impl"]
    if impl["status"] != "ok":
        return []
    b = bools(impl["result"])
    m = POOLVAL.search(c["src"])
    if b is None or len(b) != 8 or not m:
        return []
    eq_ab, eq_ba, ne_ab, in_ab, sw_ab, lege, in_ba, sw_ba = b
    va, vb = m.group(1), m.group(2)
    out = []
    nan = "(0.0/0.0)" in (va, vb)
    if eq_ab != eq_ba:
        out.append("== is not symmetric: %s == %s is %s, reversed %s" % (va, vb, eq_ab, eq_ba))
    if ne_ab == eq_ab:
        out.append("!= is not the negation of == for %s, %s" % (va, vb))
    if in_ab != eq_ab or in_ba != eq_ba:
        out.append("`in` disagrees with == for %s, %s" % (va, vb))
    if sw_ab != eq_ab or sw_ba != eq_ba:
        out.append("switch matching disagrees with == for %s, %s" % (va, vb))
    na, nb = num_of(va), num_of(vb)
    if na and nb and na[0] != nb[0] and not nan:
        if eq_ab != lege:
            out.append("integer/float pair %s, %s: == is %s but (<= && >=) is %s" % (va, vb, eq_ab, lege))
    if na and nb and na[0] == nb[0]:
        want = float(na[1]) == float(nb[1]) if na[0] == "float" else na[1] == nb[1]
        if eq_ab != want:
            out.append("same-type numbers %s == %s should be %s" % (va, vb, want))
    # containers compare structurally: views of one list are equal exactly when their contents are
    if va in SHARED and vb in SHARED:
        want = struct_eq(SHARED[va], SHARED[vb])
        if eq_ab != want:
            msg = "containers compare structurally: %s == %s should be %s (sa = [1, 2, 3], sm = {\"a\": 1}, sn = [NaN])" % (va, vb, want)
            # the recorded finding: reflect.DeepEqual answers true for one and the same container without looking inside
            out.append((msg, "nan-container-equals-itself") if eq_ab and not want and va == vb and va in ("sn", "[sn]") else msg)
    # nil equals only nil
    if (va == "nil") != (vb == "nil") and eq_ab:
        out.append("nil equals a non-nil value: %s == %s" % (va, vb))
    # a string and a number: equal exactly when the string is a decimal numeral denoting that number - judged exactly, with
    # rational arithmetic: no rounding through float64 and no other spelling than a decimal numeral
    for s_, n_, nlit in ((va, nb, vb), (vb, na, va)):
        if not (s_.startswith('"') and s_.endswith('"')) or not (n_ or nlit in ("(1.0/0.0)", "(0.0/0.0)")):
            continue
        body = s_[1:-1]
        den = Fraction(body) if DECIMAL.match(body) else None
        want = den is not None and n_ is not None and den == n_[1]
        if eq_ab == want:
            continue
        msg = "string %s and number %s: == is %s, but %s" % (s_, nlit, eq_ab, ("the string denotes exactly that number" if want else
              ("the string denotes another number" if den is not None else "the string is not a decimal numeral")))
        if eq_ab and not want and strconv_float(body) is not None and strconv_float(body) == lit_float(nlit):
            # the recorded finding: the comparison goes through strconv.ParseFloat and float64
            out.append((msg, "string-number-through-strconv"))
        else:
            out.append(msg)
    return out


def run(tier, seed, replay=None):
    return interpcheck.run_interp_check(
        "C06", "c06", ("result",), {"quick": 100000, "thorough": 100000}, tier, seed,
        rule="complete product of ordered pairs over a pool of 74 values (nil, booleans, ints around 10^5..10^7, 2^53, 2^53+1, "
             "2^63-1, floats with and without exponent, -0.0, NaN, Inf, numeric and non-numeric strings incl. \"1e6\", \"0x10\", "
             "\" 1\", \"+1\", nested slices and maps) (also zero-padded and prefixed spellings \"010\", \"0b11\", \"0o17\" beside 8, 10, 3, 15, 16), each pair evaluated in all syntactic uses and both orders: "
             "a==b, b==a, a!=b, a in [b], switch a {case b}, a<=b && a>=b, b in [a], switch b {case a}; then 16x16 pairs of containers "
             "that share storage (views of one list at several offsets and lengths, the same list nested, a shared map) beside fresh "
             "containers with the same contents, judged structurally; compared with the Coq "
             "model of equal() and, independently, against the laws the property states (symmetry, negation, in/switch agreement, "
             "int-float vs <= && >=, nil, string-numeral denotation) on the implementation alone; exhaustive over the pool",
        design_ref="DESIGN.md §4 C06", impl_oracle=impl_oracle, max_dropped=0.05)
