"""C03: the parser builds the tree the source spells out."""
import json, os, shutil
import common
from common import Result, CheckError

PID = "C03"
COUNTS = {"quick": 3000, "thorough": 150000}


def run(tier, seed, replay=None):
    res = Result(PID, tier, seed)
    harness = common.build_harness()
    bad = common.forbidden_scan()
    driver, ok_make, log = common.build_model()
    scratch = common.scratch_dir("c03")
    try:
        n = COUNTS.get(tier, COUNTS["quick"])
        common.sh([harness, "c03", "-gen", "gen", "-seed", str(seed), "-n", str(n), "-out", scratch, "-repo", common.REPO],
                  env=common.GOENV, timeout=3000)
        gen = os.path.join(scratch, "AnkoGen")
        shutil.copy(os.path.join(common.COQ, "Obligations", "C03.v"), os.path.join(scratch, "ObligationC03.v"))
        extra = ["-Q", gen, "AnkoGen"]
        ob = common.property_obligations(PID, extra_files=[(os.path.join(gen, "GenPrec.v"), gen, extra),
                                                           (os.path.join(scratch, "ObligationC03.v"), scratch, extra)])
        lines = common.run_driver(driver, os.path.join(scratch, "trees.sx"))
        toks = os.path.join(scratch, "toks.txt")
        with open(toks, "w") as f:
            f.write("\n".join(lines) + "\n")
        common.sh([harness, "c03", "-gen", "run", "-seed", str(seed), "-n", str(n), "-out", scratch, "-repo", common.REPO, "-replay", toks],
                  env=common.GOENV, timeout=6000)
        recs = [json.loads(l) for l in open(os.path.join(scratch, "results.jsonl"))]
        mlines = common.run_driver(driver, os.path.join(scratch, "cases2.sx"))
        nprob = nmodel = outside = both_reject = both_accept = 0
        for i, r in enumerate(recs):
            if r.get("problem"):
                raise CheckError(r["problem"])
            if r.get("problems"):
                nprob += 1
                if len(res.violations) < 8:
                    res.violation({"property": PID, "kind": "the real parser does not build the tree the operator table dictates",
                                   "tree": r["tree"], "tree_legend": "(A n) identifier a..f; (B op l r) binary, op numbered as in coq/Parse/Spec.v; (T c a b) c ? a : b; "
                                   "(U op x) prefix; (C0/C1/C2 f args) call; (I x i) index; (M x n) member",
                                   "minimal_spelling": r["min"], "full_spelling": r["full"], "problems": r["problems"][:5],
                                   "how_to_replay": "parser.ParseSrc on either spelling"})
            # model parser against the real parser: on the scanner's tokens of the printed source, and on a mutated token list
            for kind, mline, real, rerr, src in (("printed", mlines[2 * i], r.get("scan_real"), r.get("scan_err"), r["min"]),
                                                 ("mutated", mlines[2 * i + 1], r.get("mut_real"), r.get("mut_err"), r.get("mut_src"))):
                m = mline.strip()
                m_ok = m.startswith("(ok ")
                r_ok = not rerr
                if kind == "printed" and rerr and rerr.startswith("scanner"):
                    continue
                if r_ok and "(X " in real:
                    outside += 1
                    continue
                if m_ok and r_ok:
                    both_accept += 1
                    if m[4:-1] != real:
                        nmodel += 1
                        if len(res.violations) < 12:
                            res.violation({"property": PID, "kind": "the real parser and the model parser read the same tokens as different trees",
                                           "source": src, "real_tree": real, "model_tree": m[4:-1]})
                elif m_ok and not r_ok:
                    nmodel += 1
                    if len(res.violations) < 12:
                        res.violation({"property": PID, "kind": "the real parser rejects a spelling the operator table accepts", "source": src,
                                       "real_error": rerr, "model_tree": m[4:-1]})
                elif r_ok and not m_ok:
                    if kind == "printed":
                        nmodel += 1
                        if len(res.violations) < 12:
                            res.violation({"property": PID, "kind": "the model parser rejects a source it printed itself", "source": src, "model": m},
                                          "no-failing-input-found")
                    else:
                        outside += 1      # the real grammar is larger than the model (3+ arguments, slices, `a.b` keywords...)
                else:
                    both_reject += 1
        meta = json.load(open(os.path.join(scratch, "meta_gen.json")))
        lits = meta["literals"]
        nlit = 0
        for l in lits:
            if l["got"] != l["want"]:
                nlit += 1
                if nlit <= 6:
                    res.violation({"property": PID, "kind": "a literal does not denote what is written: " + l["why"], "source": l["src"],
                                   "parsed_as": l["got"], "expected": l["want"], "how_to_replay": "parser.ParseSrc(source); the LiteralExpr's value"})
        # parser.go must be what goyacc makes of parser.go.y (the precedence obligation talks about the .y file)
        regen = "goyacc unavailable"
        gy = common.build_goyacc()
        if gy:
            gd = os.path.join(scratch, "gy")
            os.makedirs(gd)
            shutil.copy(os.path.join(common.REPO, "parser", "parser.go.y"), gd)
            pg = common.sh([gy, "-o", "parser.go", "parser.go.y"], cwd=gd, check=False, timeout=300)
            pf = common.sh(["gofmt", "parser.go"], cwd=gd, check=False)
            cur = open(os.path.join(common.REPO, "parser", "parser.go")).read()
            regen = "identical" if pf.returncode == 0 and pf.stdout == cur else "differs"
            if regen == "differs":
                res.violation({"property": PID, "kind": "parser/parser.go is not the goyacc output of parser/parser.go.y: the compiled tables and the grammar source disagree",
                               "goyacc": pg.stdout[-500:], "note": "the behavioural comparison above ran against the compiled parser.go"},
                              "" if (nprob or nmodel) else "no-failing-input-found")
        # the property's own table against the implementation, where the model follows the code: every binary operator is
        # left-associative, so a chain reads like its left-parenthesised spelling (value and error-or-success)
        chains = [("1 in [1] in [true]", "(1 in [1]) in [true]"), ("\"a\" in [\"a\"] in [true, false]", "(\"a\" in [\"a\"]) in [true, false]"),
                  ("2 in [1] in [false]", "(2 in [1]) in [false]"), ("1 - 2 - 3", "(1 - 2) - 3"), ("8 / 4 / 2", "(8 / 4) / 2"), ("1 << 2 << 3", "(1 << 2) << 3"),
                  ("7 % 4 % 2", "(7 % 4) % 2"), ("1 < 2 == true", "(1 < 2) == true"), ("1 == 1 != false", "(1 == 1) != false"), ("6 & 3 | 8", "(6 & 3) | 8"),
                  ("1 in [1] == true", "(1 in [1]) == true"), ("true == 1 in [1]", "true == (1 in [1])"), ("1 + 1 in [2]", "1 + (1 in [2])")]
        # postfix forms bind tightest: an operand in parentheses (or any other primary) takes them like a bare name
        _setup = "a = [1, 2, 3, 4]; m = {\"k\": a}; l = [a]; func f() { return a }; "
        for form in ("[:2:9]", "[:2:3]", "[1:2:3]", "[1:2:9]", "[:2]", "[1:]", "[:]", "[0:1]", "[9:]", "[1]", "[9]"):
            for operand in ("(a)", "m.k", "l[0]", "f()", "((a))", "m[\"k\"]"):
                chains.append((_setup + "a" + form, _setup + operand + form))
        chains.append((_setup + "b = a[:1:1]; b += 9; a", _setup + "b = (a)[:1:1]; b += 9; a"))
        chains.append((_setup + "b = a[:1:1]; b += 9; a", _setup + "b = f()[:1:1]; b += 9; a"))
        # the two-target read v, ok = m[k] is the same statement when its right side is written in parentheses
        for pre, item in (("m = {\"x\": 1}", "m[\"x\"]"), ("m = {\"x\": 1}", "m[\"nope\"]"), ("m = {\"x\": nil}", "m[\"x\"]"), ("x = [[1, 2]]", "x[0]"), ("m = {\"x\": [7, 8]}", "m[\"x\"]"),
                          ("m = {\"k\": {\"j\": 5}}", "m[\"k\"][\"j\"]")):
            for par in ("(%s)", "((%s))"):
                chains.append((pre + "; a, b = " + item + "; [a, b]", pre + "; a, b = " + (par % item) + "; [a, b]"))
        # literals denote what is written: every escape sequence of Go's interpreted string literals is either read as Go reads it
        # or rejected (the language's own escapes - \b \f \n \r \t \\ \" \' - are covered by the literal stream above)
        escapes = [("\"\\x41\"", "41"), ("\"a\\x41b\"", "614162"), ("\"\\a\"", "07"), ("\"\\v\"", "0b"), ("\"\\u00e9\"", "c3a9"), ("\"\\u4e16\"", "e4b896"),
                   ("\"\\U0001F600\"", "f09f9880"), ("\"\\101\"", "41"), ("\"\\000\"", "00"), ("\"\\xff\"", "ff"), ("\"x\\x2fy\"", "782f79"),
                   ("'\\x41'", "41"), ("'\\a'", "07"), ("'\\u00e9'", "c3a9")]
        sf = os.path.join(scratch, "chains.json")

        def _wrap(x):
            if "; " in x:
                pre, last = x.rsplit("; ", 1)
                return pre + "; (" + last + ") ?? \"E\""
            return "(%s) ?? \"E\"" % x
        json.dump([_wrap(x) for pair in chains for x in pair] + [e for e, _ in escapes], open(sf, "w"))
        common.sh([harness, "interp", "-srcfile", sf, "-out", scratch], env=common.GOENV, timeout=600)
        drecs = [json.loads(l) for l in open(os.path.join(scratch, "directed.jsonl"))]
        known, _ = common.known_findings(PID)
        chain_checked = 0
        for k, (a, b) in enumerate(chains):
            ra, rb = drecs[2 * k]["impl"], drecs[2 * k + 1]["impl"]
            chain_checked += 1
            if (ra["status"], ra.get("result")) == (rb["status"], rb.get("result")):
                continue
            kf = next((f for f in known if f.get("id") == "in-is-right-associative"), None) if " in " in a and a.count(" in ") > 1 else None
            if kf:
                res.known(kf["id"], "%s :: `%s` gives %s %s, its left-parenthesised spelling `%s` gives %s %s" % (kf["id"], a, ra["status"], ra.get("result"), b, rb["status"], rb.get("result")))
                continue
            res.violation({"property": PID, "kind": "a chain of binary operators does not read like its left-parenthesised spelling (binary operators are left-associative)",
                           "source": a, "value": [ra["status"], ra.get("result")], "parenthesised": b, "parenthesised_value": [rb["status"], rb.get("result")]})
        escapes_checked = 0
        for k, (e, want) in enumerate(escapes):
            r = drecs[2 * len(chains) + k]["impl"]
            escapes_checked += 1
            if r["status"] != "ok" or r.get("result") == "s:" + want:
                continue      # rejected, or read as Go reads it
            letter = "s:" + e[1:-1].replace("\\", "").encode().hex()
            kf = next((f for f in known if f.get("id") == "go-escapes-read-as-the-letter"), None) if r.get("result") == letter else None
            if kf:
                res.known(kf["id"], "%s :: the literal %s is read as %s (the backslash dropped); Go reads it as the bytes %s" % (kf["id"], e, r.get("result"), want))
                continue
            res.violation({"property": PID, "kind": "a string literal with a Go escape sequence is neither read as Go reads it nor rejected",
                           "source": e, "value": [r["status"], r.get("result")], "go_value_bytes": want})
        if bad:
            res.violation({"property": PID, "kind": "forbidden construct in the Coq development", "lines": bad}, "no-failing-input-found")
        if ob["failed"] and not res.violations:
            res.violation({"property": PID, "kind": "proof obligation no longer checks (precedence declarations of parser.go.y differ from the specified ones)",
                           "failed": ob["failed"], "note": "pair matrix and %d random trees parsed as specified by the compiled parser.go" % len(recs)},
                          "no-failing-input-found")
        vals = {}
        for r in recs:
            k = (r.get("value") or "?")[:2]
            vals[k] = vals.get(k, 0) + 1
        res.coverage = {
            "operator_chains_against_their_left_parenthesised_spelling": chain_checked,
            "go_escape_sequences_judged": escapes_checked,
            "obligations": ob["obligations"], "discharged": ob["discharged"], "theorems": ob["theorems"], "axioms": ob["axioms"],
            "closed_under_global_context": ob["closed_count"], "obligation_failures": ob["failed"],
            "checker_cmd": "make -C coq; coqc Properties/C03.v; per run: harness c03 regenerates AnkoGen/GenPrec.v from parser.go.y, coqc Obligations/C03.v; "
                           "extracted entries c03 (minp/full printing) and c03p (model parser); real parser.ParseSrc and vm.Execute",
            "trusted_base": common.TRUSTED_COMMON + [
                "reading of the %left/%right lines and the expr_unary %prec annotations of parser.go.y (harness/c03.go c03GenPrec); parser.go is "
                "re-generated with goyacc (x/tools v0.29.0 from the module cache) and must equal the committed file",
                "AST -> model tree conversion harness/c03.go c03FromAst (CallExpr{Name} = call of an identifier)"],
            "evaluations": len(recs) * 4 + len(mlines) + len(lits), "distinct_nontrivial": len(set(r["tree"] for r in recs)),
            "rule": "directed: the complete 19x19 binary pair matrix in both groupings, ternary in every position of every operator, every prefix "
                    "operator over/under every binary operator, postfix forms over/under prefix, binary and ternary, postfix chains (%d trees); "
                    "random trees of depth 1-5 over all constructors; each printed by the extracted model with minimal and with full parentheses "
                    "(and minimal with compact spacing), parsed by the real parser and compared with the tree (parentheses dropped); every third "
                    "tree also inside one of 10 statement positions; both spellings evaluated by vm.Execute and compared; the model parser is run "
                    "on the real scanner's tokens and on a mutated token list (accept/reject and tree); literals: value first (boundary and random int64 in decimal / hex / binary, with and without minus; float64 in e/f/g formats; strings over an alphabet with every escape, quoted both ways and raw), then its spelling, parsed back and compared; unrepresentable and malformed spellings must be rejected" % meta["directed"],
            "parser_go_regenerated_from_y": regen, "trees": len(recs), "trees_with_problems": nprob, "literals": len(lits), "literal_mismatches": nlit, "model_vs_real_disagreements": nmodel, "both_accept": both_accept,
            "both_reject": both_reject, "outside_model_grammar": outside, "value_kinds": vals, "prec_lines": meta["prec"]["prec_lines"],
            "samples": [{"tree": r["tree"], "min": r["min"], "full": r["full"], "value": r.get("value")} for r in recs[1500:1503]],
            "make_ok": ok_make,
        }
        res.assumptions = ["atoms of the tree model are the identifiers a..f; literals are checked by value-first round trips on the implementation (no Coq model of strconv)",
                           "calls have at most two arguments in the model; slices, `<-`, assignments and `++` are outside it"]
        return res.finish()
    finally:
        shutil.rmtree(scratch, ignore_errors=True)
