"""C08: branches, loops, break/continue/return do what their syntax says."""
import interpcheck

WHY = "return/break/continue directly inside the body of a try runs the catch block instead of leaving the function / loop"
EXPECT = [
    {"src": "func f() { try { return 1 } catch { return 2 } }\nf()", "field": "result", "want": "i:1", "finding": "signal-in-try", "why": WHY},
    {"src": "func f() { try { return 1 } catch { }; return 2 }\nf()", "field": "result", "want": "i:1", "finding": "signal-in-try", "why": WHY},
    {"src": "r = 0; for i in [1, 2, 3] { try { break } catch { }; r = r + 1 }; r", "field": "result", "want": "i:0", "finding": "signal-in-try", "why": WHY},
    {"src": "r = 0; for i in [1, 2, 3] { try { continue } catch { }; r = r + 1 }; r", "field": "result", "want": "i:0", "finding": "signal-in-try", "why": WHY},
    {"src": "func f() { for i in [1, 2, 3] { for j in [1, 2] { if j == 2 { return i * 10 + j } } }; return 0 }\nf()", "field": "result", "want": "i:12",
     "why": "return ends the invocation from nested loops"},
    {"src": "r = []; for i = 0; i < 3; i++ { if i == 1 { continue }; r += i }; r", "field": "result", "want": "[i:0,i:2]",
     "why": "a C-style loop runs its post expression after continue"},
    {"src": "r = []; for i in [1, 2, 3] { for j in [1, 2, 3] { if j == 2 { break }; r += i * 10 + j } }; r", "field": "result",
     "want": "[i:11,i:21,i:31]", "why": "break acts on the innermost loop only"},
    {"src": "r = []; for i in [1, 2, 3] { switch i {\ncase 2: break\n}; r += i }; r", "field": "result", "want": "[i:1]",
     "why": "break inside a switch case acts on the enclosing loop"},
    {"src": "func f() { return }\nfunc g() { return 1, 2 }\n[f(), g()]", "field": "result", "want": "[nil,[i:1,i:2]]",
     "why": "return yields nil for no value and a list for several"},
    {"src": "r = []; switch 2 {\ncase 1: r += 1\ncase 2, 3: r += 2\ncase 2: r += 22\ndefault: r += 9\n}; switch 7 {\ncase 1: r += 1\ndefault: r += 9\n}; r",
     "field": "result", "want": "[i:2,i:9]", "why": "switch runs exactly the first equal case, else the default"},
]


def run(tier, seed, replay=None):
    return interpcheck.run_interp_check(
        "C08", "c08", ("result", "trace"), {"quick": 6000, "thorough": 150000}, tier, seed,
        rule="terminating programs nesting if/else-if/else, the three loop forms, for-in over slices and one-entry maps, switch, "
             "functions, with break/continue/return at random positions and conditions drawn from every truthiness class "
             "(nil, booleans, zero/non-zero ints and floats, empty/non-empty/numeric strings, slices, maps); compared: result "
             "and probe trace; non-trivial = distinct source with a non-empty trace",
        design_ref="DESIGN.md §4 C08", expectations=EXPECT)
